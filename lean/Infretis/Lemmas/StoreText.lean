import Infretis.Model.StoreText
import Infretis.Lemmas.CodecFixed
import Infretis.Lemmas.StoreWs
import Infretis.Lemmas.StorePath
/-!
Helper lemmas for C14 at the text level (`Infretis/Model/StoreText.lean`): rounding, padding and
splitting, `int()` / `float()` on what the formatters write, the block reader on a stored file.
-/
namespace Infretis.StoreText
-- white space: the definitions and lemmas of Model/StoreWs.lean + Lemmas/StoreWs.lean (Python's complete set), not Codec's
open Infretis.Codec hiding Err Line Text isWs lstrip rstrip strip splitWs NoWs fmtCore_noWs dropWhile_noWs NoBrk_of_noWs splitWs_ws splitWs_blanks splitWs_allWs splitWs_token splitWs_append_ws rstrip_decomp splitWs_rstrip splitWs_lstrip splitWs_strip head_blank head_nil mem_rstrip
open Infretis.Store (PathObj Fill fill idx0)

/-! ### `'{:.6f}'`: the rounding rule -/

/-- a value that already is a multiple of 10⁻⁶ is written exactly -/
theorem round6_exact (m : Nat) : round6 m 1000000 = m := by
  unfold round6
  simp only [Nat.mul_mod_left, Nat.mul_zero, Nat.zero_lt_succ, if_true]
  omega

theorem round6_def (n d : Nat) : round6 n d =
    (if 2 * (n * 1000000 % d) < d then n * 1000000 / d
     else if d < 2 * (n * 1000000 % d) then n * 1000000 / d + 1
     else if (n * 1000000 / d) % 2 = 0 then n * 1000000 / d else n * 1000000 / d + 1) := rfl

/-- the written decimal is within half a unit of the sixth decimal of the value:
    `|round6 n d · d − n·10⁶| ≤ d/2`, i.e. `|round6 n d · 10⁻⁶ − n/d| ≤ ½·10⁻⁶` -/
theorem round6_err (n d : Nat) (hd : 0 < d) :
    2 * (round6 n d * d) ≤ 2 * (n * 1000000) + d ∧ 2 * (n * 1000000) ≤ 2 * (round6 n d * d) + d := by
  rw [round6_def]
  have h1 := Nat.div_add_mod (n * 1000000) d
  have h2 := Nat.mod_lt (n * 1000000) hd
  generalize (n * 1000000) / d = q at *
  generalize (n * 1000000) % d = r at *
  have hq : q * d = d * q := Nat.mul_comm _ _
  have hq1 : (q + 1) * d = d * q + d := by rw [Nat.add_mul, Nat.one_mul, hq]
  split
  · rw [hq]; omega
  · split
    · rw [hq1]; omega
    · split
      · rw [hq]; omega
      · rw [hq1]; omega

/-- written exactly iff the value is a multiple of 10⁻⁶ -/
theorem round6_exact_iff (n d : Nat) (hd : 0 < d) : round6 n d * d = n * 1000000 ↔ d ∣ n * 1000000 := by
  constructor
  · intro h; exact ⟨round6 n d, by rw [← h, Nat.mul_comm]⟩
  · intro h
    have hm : (n * 1000000) % d = 0 := Nat.mod_eq_zero_of_dvd h
    unfold round6
    simp only [hm, Nat.mul_zero, hd, if_true]
    exact Nat.div_mul_cancel h

/-! ### tokens, padding, splitting -/

/-- a token: non-empty and free of white space — of EVERY character `str.split()` separates at
    (`isWs` of Model/StoreWs.lean: the ten ASCII ones, U+0085, U+00A0, U+1680, U+2000–200A, U+2028,
    U+2029, U+202F, U+205F, U+3000).  [Before the audit of 2026-09-29 `NoWs` was `Infretis.Codec.NoWs`
    (ASCII white space only): with that guard the text-level round trip was FALSE of the real code
    for a name such as "a\u00a0b.xyz" — see `C14.roundtrip_text_nbsp_in_name_counterexample`.] -/
def Tokn (t : Str) : Prop := t ≠ [] ∧ NoWs t

theorem tokn_natDigits (n : Nat) : Tokn (natDigits n) :=
  ⟨natDigits_ne_nil n, fun c hc => numChars_noWs c (by simp [numChars, natDigits_mem n c hc])⟩

theorem tokn_intDigits (z : Int) : Tokn (intDigits z) := by
  unfold intDigits
  split
  · refine ⟨by simp, ?_⟩
    intro c hc
    rcases List.mem_cons.mp hc with h | h
    · subst h; decide
    · exact (tokn_natDigits _).2 c h
  · exact tokn_natDigits _

/-- the unpadded text of a written float -/
def tokF : FVal → Str
  | .dec d => fmtCore 6 d
  | .nan => nanStr
  | .inf neg => if neg then ninfStr else infStr

theorem tokn_tokF (v : FVal) : Tokn (tokF v) := by
  cases v with
  | dec d => exact ⟨fmtCore_ne_nil 6 d, fmtCore_noWs 6 d⟩
  | nan => exact ⟨by decide, by unfold NoWs; decide⟩
  | inf neg => cases neg <;> exact ⟨by decide, by unfold NoWs; decide⟩

theorem fmtF_eq (w : Nat) (x : FIn) : fmtF w x = padL w (tokF (written x)) := by
  unfold fmtF
  cases written x <;> rfl

theorem splitWs_padL (w : Nat) (tok rest : Str) (ht : Tokn tok)
    (hr : ∀ c, rest.head? = some c → isWs c = true) :
    splitWs (padL w tok ++ rest) = tok :: splitWs rest := by
  unfold padL
  rw [List.append_assoc, splitWs_blanks, splitWs_token tok rest ht.1 ht.2 hr]

theorem splitWs_two_blanks (t : Str) : splitWs (' ' :: ' ' :: t) = splitWs t := by
  rw [splitWs_ws _ _ (by decide), splitWs_ws _ _ (by decide)]

/-- `" ".join` of right-aligned fields splits into the fields' tokens -/
theorem splitWs_joinSp_padL : ∀ (ps : List (Nat × Str)), (∀ p ∈ ps, Tokn p.2) →
    splitWs (joinSp (ps.map (fun p => padL p.1 p.2))) = ps.map (·.2) := by
  intro ps
  induction ps with
  | nil => intro _; rfl
  | cons p t ih =>
    intro h
    cases t with
    | nil =>
      simp only [List.map_cons, List.map_nil, joinSp]
      have := splitWs_padL p.1 p.2 [] (h p (by simp)) head_nil
      rw [List.append_nil] at this
      rw [this]
      rfl
    | cons q t' =>
      have ih' := ih (fun x hx => h x (List.mem_cons_of_mem _ hx))
      simp only [List.map_cons, joinSp] at ih' ⊢
      rw [splitWs_padL p.1 p.2 _ (h p (by simp)) (head_blank _), splitWs_ws _ _ (by decide), ih']

/-! ### `lstrip`, `strip` and the first character -/

theorem lstrip_blanks_cons (k : Nat) (c : Char) (t : Str) (hc : isWs c = false) :
    lstrip (List.replicate k ' ' ++ c :: t) = c :: t := by
  induction k with
  | zero => simp [lstrip, List.dropWhile, hc]
  | succ k ih =>
    simp only [lstrip, List.replicate_succ, List.cons_append] at ih ⊢
    rw [List.dropWhile_cons_of_pos (by decide)]
    exact ih

theorem dropWhile_allWs : ∀ (w : Str), (∀ c ∈ w, isWs c = true) → List.dropWhile isWs w = [] := by
  intro w
  induction w with
  | nil => intro _; rfl
  | cons a w ih =>
    intro h
    rw [List.dropWhile_cons_of_pos (h a (by simp))]
    exact ih (fun c hc => h c (List.mem_cons_of_mem _ hc))

/-- the first character of the stripped line is the first non-blank one -/
theorem head_strip_of_lstrip (l : Str) (c : Char) (t : Str) (h : lstrip l = c :: t) :
    (strip l).head? = some c := by
  obtain ⟨w, hw, hws⟩ := rstrip_decomp l
  unfold strip
  have h' : lstrip (rstrip l ++ w) = c :: t := by rw [← hw]; exact h
  unfold lstrip at h' ⊢
  rw [List.dropWhile_append] at h'
  split at h'
  · -- `rstrip l` is all whitespace: then the whole line is, contradiction
    exfalso
    rw [dropWhile_allWs w hws] at h'
    cases h'
  · rename_i hne
    cases hd : List.dropWhile isWs (rstrip l) with
    | nil => simp [hd] at hne
    | cons a r =>
      rw [hd] at h'
      simp only [List.cons_append, List.cons.injEq] at h'
      simp [h'.1]

theorem isCommentT_of_lstrip (l : Str) (c : Char) (t : Str) (h : lstrip l = c :: t) :
    isCommentT l = (c == '#') := by
  unfold isCommentT
  rw [head_strip_of_lstrip l c t h]
  cases hc : (c == '#')
  · simp only [beq_eq_false_iff_ne, ne_eq] at hc ⊢
    intro he; injection he with he; exact hc he
  · simp only [beq_iff_eq] at hc; subst hc; rfl

/-- a line that starts (after blanks) with a digit or a sign is not a comment -/
theorem isCommentT_padL (w : Nat) (tok rest : Str) (ht : Tokn tok) (hh : tok.head? ≠ some '#') :
    isCommentT (padL w tok ++ rest) = false := by
  cases htok : tok with
  | nil => exact absurd htok ht.1
  | cons c t =>
    have hc : isWs c = false := ht.2 c (by simp [htok])
    have hne : c ≠ '#' := by
      intro he; apply hh; simp [htok, he]
    have := isCommentT_of_lstrip (padL w (c :: t) ++ rest) c (t ++ rest)
      (by unfold padL; rw [List.append_assoc]; exact lstrip_blanks_cons _ c (t ++ rest) hc)
    rw [this]
    simp [hne]

theorem head_natDigits_ne_hash (n : Nat) : (natDigits n).head? ≠ some '#' := by
  intro h
  cases hd : natDigits n with
  | nil => simp [hd] at h
  | cons c t =>
    simp only [hd, List.head?_cons, Option.some.injEq] at h
    have := natDigits_mem n c (by simp [hd])
    subst h
    revert this
    decide

/-! ### `int()` and `float()` on written tokens -/

theorem pyInt_natDigits (n : Nat) : pyInt (natDigits n) = some (n : Int) := by
  cases hd : natDigits n with
  | nil => exact absurd hd (natDigits_ne_nil n)
  | cons c t =>
    have hc : c ≠ '-' := (digs_props c (natDigits_mem n c (by simp [hd]))).1
    unfold pyInt
    simp only [hc, if_false]
    rw [← hd, natDigits_val]
    rfl

theorem pyInt_intDigits (z : Int) : pyInt (intDigits z) = some z := by
  unfold intDigits
  split
  · rename_i hz
    unfold pyInt
    simp only [if_true, natDigits_ne_nil, if_false, natDigits_val]
    show some (-(z.natAbs : Int)) = some z
    congr 1
    omega
  · rename_i hz
    rw [pyInt_natDigits]
    congr 1
    omega

theorem fmtCore_ne_nanStr (d : Dec) : fmtCore 6 d ≠ nanStr := by
  intro h
  have : 'n' ∈ fmtCore 6 d := by rw [h]; decide
  have := fmtCore_mem 6 d 'n' this
  revert this
  decide

theorem fmtCore_ne_infStr (d : Dec) : fmtCore 6 d ≠ infStr ∧ fmtCore 6 d ≠ ninfStr := by
  constructor <;>
  · intro h
    have : 'n' ∈ fmtCore 6 d := by rw [h]; decide
    have := fmtCore_mem 6 d 'n' this
    revert this
    decide

theorem pyFloat_tokF (v : FVal) : pyFloat (tokF v) = some v := by
  cases v with
  | dec d =>
    unfold pyFloat tokF
    simp only [fmtCore_ne_nanStr d, (fmtCore_ne_infStr d).1, (fmtCore_ne_infStr d).2, if_false, parseCore_fmtCore]
  | nan => rfl
  | inf neg => cases neg <;> rfl

theorem mapOpt_pyFloat : ∀ (vs : List FVal), mapOpt pyFloat (vs.map tokF) = some vs := by
  intro vs
  induction vs with
  | nil => rfl
  | cons v vs ih => simp [mapOpt, pyFloat_tokF, ih]

/-! ### the block reader on a well-formed block (generic) -/

theorem blockGo_rows {σ β : Type} (isC : σ → Bool) (parse : σ → Option (List β)) (g : σ → List β) (c : Nat) :
    ∀ (rows : List σ) (acc : List (List β)) (ncol : Option Nat) (rc : Bool),
      (∀ l ∈ rows, isC l = false ∧ parse l = some (g l) ∧ (g l).length = c ∧ g l ≠ []) →
      (ncol = none ∨ ncol = some c) →
      blockGo isC parse ncol acc true rc rows = some (acc ++ rows.map g) := by
  intro rows
  induction rows with
  | nil => intro acc ncol rc _ _; simp [blockGo]
  | cons l ls ih =>
    intro acc ncol rc h hn
    obtain ⟨hc, hp, hl, hne⟩ := h l (List.mem_cons_self)
    have hrest : ∀ l' ∈ ls, isC l' = false ∧ parse l' = some (g l') ∧ (g l').length = c ∧ g l' ≠ [] :=
      fun l' hl' => h l' (List.mem_cons_of_mem _ hl')
    rcases hn with hn | hn <;> subst hn
    · unfold blockGo
      simp only [hc, hp]
      simp only [hne, ne_eq, not_false_eq_true, and_self, if_true, Bool.false_eq_true, if_false]
      rw [hl, ih (acc ++ [g l]) (some c) false hrest (Or.inr rfl)]
      simp
    · unfold blockGo
      simp only [hc, hp]
      simp only [hl, hne, ne_eq, not_false_eq_true, and_self, if_true, Bool.false_eq_true, if_false]
      rw [ih (acc ++ [g l]) (some c) false hrest (Or.inr rfl)]
      simp

/-- two comment lines, then rows: the first block is the parsed rows -/
theorem blockGo_stored {σ β : Type} (isC : σ → Bool) (parse : σ → Option (List β)) (g : σ → List β) (c : Nat)
    (c1 c2 : σ) (rows : List σ) (h1 : isC c1 = true) (h2 : isC c2 = true)
    (h : ∀ l ∈ rows, isC l = false ∧ parse l = some (g l) ∧ (g l).length = c ∧ g l ≠ []) :
    blockGo isC parse none [] false false (c1 :: c2 :: rows) = some (rows.map g) := by
  rw [blockGo]
  simp only [h1, if_true, Bool.false_eq_true, if_false]
  rw [blockGo]
  simp only [h2, if_true]
  rw [blockGo_rows isC parse g c rows [] none true h (Or.inl rfl)]
  simp

/-- lines that are skipped (no comment, parsed to an empty list) after the rows do not change the block -/
theorem blockGo_junk {σ β : Type} (isC : σ → Bool) (parse : σ → Option (List β)) :
    ∀ (junk : List σ) (ncol : Option Nat) (acc : List (List β)) (rc : Bool),
      (∀ l ∈ junk, isC l = false ∧ parse l = some []) →
      blockGo isC parse ncol acc true rc junk = some acc := by
  intro junk
  induction junk with
  | nil => intro ncol acc rc _; simp [blockGo]
  | cons l ls ih =>
    intro ncol acc rc h
    obtain ⟨hc, hp⟩ := h l List.mem_cons_self
    unfold blockGo
    simp only [hc, hp, Bool.false_eq_true, if_false, ne_eq, not_true_eq_false, and_false]
    exact ih ncol acc false (fun l' hl' => h l' (List.mem_cons_of_mem _ hl'))

theorem blockGo_rows_junk {σ β : Type} (isC : σ → Bool) (parse : σ → Option (List β)) (g : σ → List β) (c : Nat)
    (junk : List σ) (hj : ∀ l ∈ junk, isC l = false ∧ parse l = some []) :
    ∀ (rows : List σ) (acc : List (List β)) (ncol : Option Nat) (rc : Bool),
      (∀ l ∈ rows, isC l = false ∧ parse l = some (g l) ∧ (g l).length = c ∧ g l ≠ []) →
      (ncol = none ∨ ncol = some c) →
      blockGo isC parse ncol acc true rc (rows ++ junk) = some (acc ++ rows.map g) := by
  intro rows
  induction rows with
  | nil => intro acc ncol rc _ _; simp [blockGo_junk isC parse junk ncol acc rc hj]
  | cons l ls ih =>
    intro acc ncol rc h hn
    obtain ⟨hc, hp, hl, hne⟩ := h l (List.mem_cons_self)
    have hrest : ∀ l' ∈ ls, isC l' = false ∧ parse l' = some (g l') ∧ (g l').length = c ∧ g l' ≠ [] :=
      fun l' hl' => h l' (List.mem_cons_of_mem _ hl')
    rcases hn with hn | hn <;> subst hn
    · rw [List.cons_append, blockGo]
      simp only [hc, hp]
      simp only [hne, ne_eq, not_false_eq_true, and_self, if_true, Bool.false_eq_true, if_false]
      rw [hl, ih (acc ++ [g l]) (some c) false hrest (Or.inr rfl)]
      simp
    · rw [List.cons_append, blockGo]
      simp only [hc, hp]
      simp only [hl, hne, ne_eq, not_false_eq_true, and_self, if_true, Bool.false_eq_true, if_false]
      rw [ih (acc ++ [g l]) (some c) false hrest (Or.inr rfl)]
      simp

theorem blockGo_stored_junk {σ β : Type} (isC : σ → Bool) (parse : σ → Option (List β)) (g : σ → List β) (c : Nat)
    (c1 c2 : σ) (rows junk : List σ) (h1 : isC c1 = true) (h2 : isC c2 = true)
    (h : ∀ l ∈ rows, isC l = false ∧ parse l = some (g l) ∧ (g l).length = c ∧ g l ≠ [])
    (hj : ∀ l ∈ junk, isC l = false ∧ parse l = some []) :
    blockGo isC parse none [] false false (c1 :: c2 :: (rows ++ junk)) = some (rows.map g) := by
  rw [blockGo]
  simp only [h1, if_true, Bool.false_eq_true, if_false]
  rw [blockGo]
  simp only [h2, if_true]
  rw [blockGo_rows_junk isC parse g c junk hj rows [] none true h (Or.inl rfl)]
  simp

/-- a line of blanks, tabs, … (no line terminator) -/
def Blank (l : Str) : Prop := (∀ c ∈ l, isWs c = true) ∧ NoBrk l

theorem strip_blank (l : Str) (h : ∀ c ∈ l, isWs c = true) : strip l = [] := by
  unfold strip lstrip
  apply dropWhile_allWs
  intro c hc
  exact h c (mem_rstrip hc)

theorem isCommentT_blank (l : Str) (h : ∀ c ∈ l, isWs c = true) : isCommentT l = false := by
  unfold isCommentT
  rw [strip_blank l h]
  rfl

/-- the token-level reader of `Infretis.Store` is this loop -/
theorem firstBlockGo_eq_blockGo {β : Type} (parse : Store.Line → Option (List β)) :
    ∀ (ls : List Store.Line) (ncol : Option Nat) (acc : List (List β)) (yb rc : Bool),
      Store.firstBlockGo parse ncol acc yb rc ls = blockGo Store.isComment parse ncol acc yb rc ls := by
  intro ls
  induction ls with
  | nil => intro ncol acc yb rc; simp [Store.firstBlockGo, blockGo]
  | cons l ls ih =>
    intro ncol acc yb rc
    rw [Store.firstBlockGo, blockGo]
    simp only [ih]
    cases parse l <;> rfl

end Infretis.StoreText
