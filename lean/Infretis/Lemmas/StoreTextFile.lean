import Infretis.Lemmas.StoreText
/-!
C14, text level: the three files a stored path consists of, read back by the text-level `load_path`.
-/
namespace Infretis.StoreText
-- white space: the definitions and lemmas of Model/StoreWs.lean + Lemmas/StoreWs.lean (Python's complete set), not Codec's
open Infretis.Codec hiding Err Line Text isWs lstrip rstrip strip splitWs NoWs fmtCore_noWs dropWhile_noWs NoBrk_of_noWs splitWs_ws splitWs_blanks splitWs_allWs splitWs_token splitWs_append_ws rstrip_decomp splitWs_rstrip splitWs_lstrip splitWs_strip head_blank head_nil mem_rstrip
open Infretis.Store (PathObj Fill fill idx0)

/-! ### no line terminators inside the written lines -/

theorem NoBrk_padL (w : Nat) (s : Str) (h : NoBrk s) : NoBrk (padL w s) := NoBrk_append (NoBrk_blanks _) h

theorem NoBrk_tokn {t : Str} (h : Tokn t) : NoBrk t := NoBrk_of_noWs h.2

theorem NoBrk_lit (l : Str) (h : l.all (fun c => c != '\n' && c != '\r') = true) : NoBrk l := by
  intro c hc
  have := List.all_eq_true.mp h c hc
  simp only [Bool.and_eq_true, bne_iff_ne, ne_eq] at this
  exact this

theorem NoBrk_cycleT (step : Nat) (mv : Option Str) (h : ∀ m, mv = some m → NoBrk m) : NoBrk (cycleT step mv) := by
  unfold cycleT
  refine NoBrk_append (NoBrk_append (NoBrk_append (NoBrk_lit _ (by decide)) (NoBrk_natDigits _)) (NoBrk_lit _ (by decide))) ?_
  cases mv with
  | none => exact NoBrk_nil
  | some m => exact NoBrk_append (NoBrk_lit _ (by decide)) (h m rfl)

theorem NoBrk_hdrTraj : NoBrk hdrTraj := NoBrk_lit _ (by decide)
theorem NoBrk_hdrOrder : NoBrk hdrOrder := NoBrk_lit _ (by decide)
theorem NoBrk_hdrEnergy : NoBrk hdrEnergy := NoBrk_lit _ (by decide)

theorem NoBrk_two : NoBrk [' ', ' '] := NoBrk_lit _ (by decide)

theorem NoBrk_trajRowT (i : Nat) (f : TFrame) (h : Tokn f.base) : NoBrk (trajRowT i f) := by
  unfold trajRowT
  exact NoBrk_append (NoBrk_append (NoBrk_append (NoBrk_append (NoBrk_append (NoBrk_append
    (NoBrk_padL _ _ (NoBrk_natDigits _)) NoBrk_two) (NoBrk_padL _ _ (NoBrk_tokn h))) NoBrk_two)
    (NoBrk_padL _ _ (NoBrk_tokn (tokn_intDigits _)))) NoBrk_two) (NoBrk_padL _ _ (NoBrk_tokn (tokn_intDigits _)))

theorem NoBrk_joinSp : ∀ (l : List Str), (∀ x ∈ l, NoBrk x) → NoBrk (joinSp l) := by
  intro l
  induction l with
  | nil => intro _; exact NoBrk_nil
  | cons a t ih =>
    intro h
    cases t with
    | nil => exact h a (by simp)
    | cons b t' =>
      simp only [joinSp]
      exact NoBrk_append (h a (by simp)) (NoBrk_cons (by decide) (ih (fun x hx => h x (List.mem_cons_of_mem _ hx))))

theorem NoBrk_fmtF (w : Nat) (x : FIn) : NoBrk (fmtF w x) := by
  rw [fmtF_eq]
  exact NoBrk_padL _ _ (NoBrk_tokn (tokn_tokF _))

theorem NoBrk_orderRowT (i : Nat) (f : TFrame) : NoBrk (orderRowT i f) := by
  unfold orderRowT
  apply NoBrk_joinSp
  intro x hx
  rcases List.mem_cons.mp hx with h | h
  · subst h; exact NoBrk_padL _ _ (NoBrk_natDigits _)
  · obtain ⟨y, _, rfl⟩ := List.mem_map.mp h
    exact NoBrk_fmtF _ _

theorem NoBrk_energyRowT (i : Nat) (f : TFrame) : NoBrk (energyRowT i f) := by
  unfold energyRowT
  apply NoBrk_joinSp
  intro x hx
  simp only [List.mem_cons, List.not_mem_nil, or_false] at hx
  rcases hx with h | h | h | h | h <;> subst h
  · exact NoBrk_padL _ _ (NoBrk_natDigits _)
  all_goals exact NoBrk_fmtF _ _

theorem mem_rowsFromT {row : Nat → TFrame → Str} : ∀ (fs : List TFrame) (i : Nat) (l : Str),
    l ∈ rowsFromT row i fs → ∃ j f, f ∈ fs ∧ l = row j f := by
  intro fs
  induction fs with
  | nil => intro i l h; simp [rowsFromT] at h
  | cons f fs ih =>
    intro i l h
    simp only [rowsFromT, List.mem_cons] at h
    rcases h with h | h
    · exact ⟨i, f, List.mem_cons_self, h⟩
    · obtain ⟨j, f', hf', hl⟩ := ih (i + 1) l h
      exact ⟨j, f', List.mem_cons_of_mem _ hf', hl⟩

theorem map_rowsFromT {γ : Type} {row : Nat → TFrame → Str} (g : Str → γ) (k : TFrame → γ) :
    ∀ (fs : List TFrame) (i : Nat), (∀ j f, f ∈ fs → g (row j f) = k f) → (rowsFromT row i fs).map g = fs.map k := by
  intro fs
  induction fs with
  | nil => intro i _; simp [rowsFromT]
  | cons f fs ih =>
    intro i h
    simp only [rowsFromT, List.map_cons]
    rw [h i f (by simp), ih (i + 1) (fun j f' hf' => h j f' (List.mem_cons_of_mem _ hf'))]

/-! ### the tokens of the rows -/

theorem trajRow_tokens (i : Nat) (f : TFrame) (h : Tokn f.base) :
    splitWs (strip (trajRowT i f)) =
      [natDigits i, f.base, intDigits (idx0 f.idx), intDigits (if f.velRev then -1 else 1)] := by
  rw [splitWs_strip]
  unfold trajRowT
  simp only [List.append_assoc, List.cons_append, List.nil_append]
  rw [splitWs_padL _ _ _ (tokn_natDigits i) (head_blank _), splitWs_two_blanks,
    splitWs_padL _ _ _ h (head_blank _), splitWs_two_blanks,
    splitWs_padL _ _ _ (tokn_intDigits _) (head_blank _), splitWs_two_blanks]
  have := splitWs_padL 5 (intDigits (if f.velRev then -1 else 1)) [] (tokn_intDigits _) head_nil
  rw [List.append_nil] at this
  rw [this]
  rfl

theorem joinSp_fields (w : Nat) (a : Str) (ws : List (Nat × Str)) :
    joinSp (padL w a :: ws.map (fun p => padL p.1 p.2)) = joinSp (((w, a) :: ws).map (fun p => padL p.1 p.2)) := rfl

theorem orderRow_tokens (i : Nat) (f : TFrame) :
    splitWs (strip (orderRowT i f)) = natDigits i :: (f.order.map written).map tokF := by
  rw [splitWs_strip]
  unfold orderRowT
  have : f.order.map (fmtF 12) = (f.order.map (fun x => (12, tokF (written x)))).map (fun p => padL p.1 p.2) := by
    rw [List.map_map]
    apply List.map_congr_left
    intro x _
    exact fmtF_eq 12 x
  rw [this, joinSp_fields, splitWs_joinSp_padL]
  · simp [List.map_map, Function.comp_def]
  · intro p hp
    rcases List.mem_cons.mp hp with h | h
    · subst h; exact tokn_natDigits i
    · obtain ⟨x, _, rfl⟩ := List.mem_map.mp h
      exact tokn_tokF _

theorem energyRow_tokens (i : Nat) (f : TFrame) :
    splitWs (strip (energyRowT i f)) =
      [natDigits i, tokF (written (eIn f.vpot)), tokF (written (eIn f.ekin)), nanStr, nanStr] := by
  rw [splitWs_strip]
  unfold energyRowT
  simp only [fmtF_eq]
  have := splitWs_joinSp_padL [(10, natDigits i), (14, tokF (written (eIn f.vpot))), (14, tokF (written (eIn f.ekin))),
    (14, tokF (written .nan)), (14, tokF (written .nan))] (by
      intro p hp
      simp only [List.mem_cons, List.not_mem_nil, or_false] at hp
      rcases hp with h | h | h | h | h <;> subst h
      · exact tokn_natDigits i
      · exact tokn_tokF _
      · exact tokn_tokF _
      · show Tokn (tokF (written FIn.nan)); exact tokn_tokF _
      · show Tokn (tokF (written FIn.nan)); exact tokn_tokF _)
  simpa [written, tokF] using this

theorem joinSp_cons_prefix (a : Str) (l : List Str) : ∃ r, joinSp (a :: l) = a ++ r := by
  cases l with
  | nil => exact ⟨[], by simp [joinSp]⟩
  | cons b t => exact ⟨' ' :: joinSp (b :: t), rfl⟩

theorem isCommentT_trajRowT (i : Nat) (f : TFrame) : isCommentT (trajRowT i f) = false := by
  unfold trajRowT
  simp only [List.append_assoc]
  exact isCommentT_padL _ _ _ (tokn_natDigits i) (head_natDigits_ne_hash i)

theorem isCommentT_orderRowT (i : Nat) (f : TFrame) : isCommentT (orderRowT i f) = false := by
  unfold orderRowT
  obtain ⟨r, hr⟩ := joinSp_cons_prefix (padL 10 (natDigits i)) (f.order.map (fmtF 12))
  rw [hr]
  exact isCommentT_padL _ _ _ (tokn_natDigits i) (head_natDigits_ne_hash i)

theorem isCommentT_energyRowT (i : Nat) (f : TFrame) : isCommentT (energyRowT i f) = false := by
  unfold energyRowT
  obtain ⟨r, hr⟩ := joinSp_cons_prefix (padL 10 (natDigits i))
    [fmtF 14 (eIn f.vpot), fmtF 14 (eIn f.ekin), fmtF 14 .nan, fmtF 14 .nan]
  rw [hr]
  exact isCommentT_padL _ _ _ (tokn_natDigits i) (head_natDigits_ne_hash i)

theorem isCommentT_cycleT (step : Nat) (mv : Option Str) : isCommentT (cycleT step mv) = true := by
  have : lstrip (cycleT step mv) = '#' :: (' ' :: 'C' :: 'y' :: 'c' :: 'l' :: 'e' :: ':' :: ' ' :: (natDigits step ++ kwStatus ++
      (match mv with | none => [] | some m => kwMove ++ m))) := by
    unfold cycleT kwCycle lstrip
    simp only [List.cons_append, List.nil_append, List.append_assoc]
    rw [List.dropWhile_cons_of_neg (by decide)]
    rfl
  rw [isCommentT_of_lstrip _ _ _ this]
  rfl

theorem isCommentT_hdr : isCommentT hdrTraj = true ∧ isCommentT hdrOrder = true ∧ isCommentT hdrEnergy = true := by
  decide

/-! ### parsing the rows -/

def snapOfT (f : TFrame) : Str × Int × Bool := (f.base, idx0 f.idx, f.velRev)

theorem snapshotT_tokens (i : Nat) (f : TFrame) :
    snapshotT [natDigits i, f.base, intDigits (idx0 f.idx), intDigits (if f.velRev then -1 else 1)] = .ok (snapOfT f) := by
  unfold snapshotT
  simp only [pyInt_intDigits, snapOfT]
  cases f.velRev <;> rfl

/-- the `Time` column as `np.array` holds it -/
def timeVal (i : Nat) : FVal := .dec ⟨false, i * 1000000⟩

theorem parseNumT_tokens (i : Nat) (vs : List FVal) (l : Str) (h : splitWs l = natDigits i :: vs.map tokF) :
    parseNumT l = some (timeVal i :: vs) := by
  unfold parseNumT
  rw [h]
  simp only [pyInt_natDigits, mapOpt_pyFloat, timeVal]
  simp

def orderValsT (i : Nat) (f : TFrame) : List FVal := timeVal i :: f.order.map written
def energyValsT (i : Nat) (f : TFrame) : List FVal :=
  [timeVal i, written (eIn f.vpot), written (eIn f.ekin), .nan, .nan]

theorem parseNumT_orderRow (i : Nat) (f : TFrame) :
    parseNumT (strip (orderRowT i f)) = some (orderValsT i f) :=
  parseNumT_tokens i _ _ (orderRow_tokens i f)

theorem parseNumT_energyRow (i : Nat) (f : TFrame) :
    parseNumT (strip (energyRowT i f)) = some (energyValsT i f) := by
  have h := energyRow_tokens i f
  exact parseNumT_tokens i [written (eIn f.vpot), written (eIn f.ekin), .nan, .nan] _ (by rw [h]; rfl)

/-! ### a stored file through the block reader -/

theorem firstBlockT_stored {β : Type} (parse : Str → Option (List β)) (g : Str → List β) (c : Nat)
    (c1 c2 : Str) (rows blanks : List Str) (hb1 : NoBrk c1) (hb2 : NoBrk c2) (hbr : ∀ l ∈ rows, NoBrk l)
    (h1 : isCommentT c1 = true) (h2 : isCommentT c2 = true)
    (h : ∀ l ∈ rows, isCommentT l = false ∧ parse (strip l) = some (g l) ∧ (g l).length = c ∧ g l ≠ [])
    (hbl : ∀ l ∈ blanks, Blank l) (hp0 : parse [] = some []) :
    firstBlockT parse (unlines (c1 :: c2 :: (rows ++ blanks))) = .ok (rows.map g) := by
  unfold firstBlockT
  rw [pyLines_unlines _ (by
    intro l hl
    rcases List.mem_cons.mp hl with h | h
    · subst h; exact hb1
    · rcases List.mem_cons.mp h with h | h
      · subst h; exact hb2
      · rcases List.mem_append.mp h with h | h
        · exact hbr l h
        · exact (hbl l h).2)]
  rw [blockGo_stored_junk isCommentT (fun l => parse (strip l)) g c c1 c2 rows blanks h1 h2 h (by
    intro l hl
    refine ⟨isCommentT_blank l (hbl l hl).1, ?_⟩
    show parse (strip l) = some []
    rw [strip_blank l (hbl l hl).1]
    exact hp0)]

theorem firstBlockT_traj (step : Nat) (fs : List TFrame) (hn : ∀ f ∈ fs, Tokn f.base)
    (b : List Str) (hb : ∀ l ∈ b, Blank l) :
    firstBlockT parseStrT (unlines (trajLines step fs ++ b)) =
      .ok ((rowsFromT trajRowT 0 fs).map (fun l => splitWs (strip l))) := by
  unfold trajLines
  simp only [List.cons_append]
  refine firstBlockT_stored parseStrT (fun l => splitWs (strip l)) 4 _ _ _ b
    (NoBrk_cycleT _ _ (by intro m hm; cases hm)) NoBrk_hdrTraj ?_ (isCommentT_cycleT _ _) isCommentT_hdr.1 ?_ hb rfl
  rotate_left
  · intro l hl
    obtain ⟨j, f, hf, rfl⟩ := mem_rowsFromT fs 0 l hl
    refine ⟨isCommentT_trajRowT j f, rfl, ?_, ?_⟩
    · show (splitWs (strip (trajRowT j f))).length = 4
      rw [trajRow_tokens j f (hn f hf)]; rfl
    · show splitWs (strip (trajRowT j f)) ≠ []
      rw [trajRow_tokens j f (hn f hf)]; simp
  · intro l hl
    obtain ⟨j, f, hf, rfl⟩ := mem_rowsFromT fs 0 l hl
    exact NoBrk_trajRowT j f (hn f hf)

def numRowT (l : Str) : List FVal := match parseNumT (strip l) with | some d => d | none => []

theorem firstBlockT_order (step : Nat) (gen : Str) (hg : NoBrk gen) (fs : List TFrame) (c : Nat)
    (hc : ∀ f ∈ fs, f.order.length = c) (b : List Str) (hb : ∀ l ∈ b, Blank l) :
    firstBlockT parseNumT (unlines (orderLines step gen fs ++ b)) = .ok ((rowsFromT orderRowT 0 fs).map numRowT) := by
  unfold orderLines
  simp only [List.cons_append]
  refine firstBlockT_stored parseNumT numRowT (c + 1) _ _ _ b
    (NoBrk_cycleT _ _ (by intro m hm; cases hm; exact hg)) NoBrk_hdrOrder ?_ (isCommentT_cycleT _ _) isCommentT_hdr.2.1 ?_ hb rfl
  rotate_left
  · intro l hl
    obtain ⟨j, f, hf, rfl⟩ := mem_rowsFromT fs 0 l hl
    refine ⟨isCommentT_orderRowT j f, ?_, ?_, ?_⟩
    · simp [numRowT, parseNumT_orderRow]
    · simp [numRowT, parseNumT_orderRow, orderValsT, hc f hf]
    · simp [numRowT, parseNumT_orderRow, orderValsT]
  · intro l hl
    obtain ⟨j, f, _, rfl⟩ := mem_rowsFromT fs 0 l hl
    exact NoBrk_orderRowT j f

theorem firstBlockT_energy (step : Nat) (gen : Str) (hg : NoBrk gen) (fs : List TFrame)
    (b : List Str) (hb : ∀ l ∈ b, Blank l) :
    firstBlockT parseNumT (unlines (energyLines step gen fs ++ b)) = .ok ((rowsFromT energyRowT 0 fs).map numRowT) := by
  unfold energyLines
  simp only [List.cons_append]
  refine firstBlockT_stored parseNumT numRowT 5 _ _ _ b
    (NoBrk_cycleT _ _ (by intro m hm; cases hm; exact hg)) NoBrk_hdrEnergy ?_ (isCommentT_cycleT _ _) isCommentT_hdr.2.2 ?_ hb rfl
  rotate_left
  · intro l hl
    obtain ⟨j, f, hf, rfl⟩ := mem_rowsFromT fs 0 l hl
    refine ⟨isCommentT_energyRowT j f, ?_, ?_, ?_⟩
    · simp [numRowT, parseNumT_energyRow]
    · simp [numRowT, parseNumT_energyRow, energyValsT]
    · simp [numRowT, parseNumT_energyRow, energyValsT]
  · intro l hl
    obtain ⟨j, f, _, rfl⟩ := mem_rowsFromT fs 0 l hl
    exact NoBrk_energyRowT j f

/-! ### from rows to frames -/

theorem snapshotsT_rows : ∀ (fs : List TFrame) (i : Nat), (∀ f ∈ fs, Tokn f.base) →
    snapshotsT ((rowsFromT trajRowT i fs).map (fun l => splitWs (strip l))) = .ok (fs.map snapOfT) := by
  intro fs
  induction fs with
  | nil => intro i _; simp [rowsFromT, snapshotsT]
  | cons f fs ih =>
    intro i h
    simp only [rowsFromT, List.map_cons, snapshotsT]
    rw [trajRow_tokens i f (h f (by simp)), snapshotT_tokens, ih (i + 1) (fun g hg => h g (List.mem_cons_of_mem _ hg))]

theorem mem_sourcesT : ∀ (fs : List TFrame) (f : TFrame), f ∈ fs → (f.dir, f.base) ∈ sourcesT fs := by
  intro fs
  induction fs with
  | nil => intro f h; simp at h
  | cons g fs ih =>
    intro f h
    simp only [sourcesT, List.mem_cons, List.mem_filter]
    by_cases he : (f.dir, f.base) = (g.dir, g.base)
    · exact Or.inl he
    · right
      rcases List.mem_cons.mp h with h | h
      · subst h; exact absurd rfl he
      · exact ⟨ih f h, decide_eq_true he⟩

theorem sourcesT_sub : ∀ (fs : List TFrame) (s : Str × Str), s ∈ sourcesT fs → ∃ f ∈ fs, s = (f.dir, f.base) := by
  intro fs
  induction fs with
  | nil => intro s h; simp [sourcesT] at h
  | cons g fs ih =>
    intro s h
    simp only [sourcesT, List.mem_cons, List.mem_filter] at h
    rcases h with h | ⟨h, _⟩
    · exact ⟨g, List.mem_cons_self, h⟩
    · obtain ⟨f, hf, hs⟩ := ih s h
      exact ⟨f, List.mem_cons_of_mem _ hf, hs⟩

theorem sourcesT_nodup : ∀ (fs : List TFrame), (sourcesT fs).Nodup := by
  intro fs
  induction fs with
  | nil => simp [sourcesT]
  | cons g fs ih =>
    simp only [sourcesT, List.nodup_cons, List.mem_filter]
    refine ⟨?_, ih.filter _⟩
    simp

theorem files_checkT (fs : List TFrame) :
    (fs.map snapOfT).all (fun s => ((sourcesT fs).map (·.2)).contains s.1) = true := by
  simp only [List.all_map, List.all_eq_true]
  intro f hf
  simp only [Function.comp, snapOfT, List.contains_eq_mem, decide_eq_true_eq, List.mem_map]
  exact ⟨(f.dir, f.base), mem_sourcesT fs f hf, rfl⟩

theorem order_colsT (fs : List TFrame) (i : Nat) :
    ((rowsFromT orderRowT i fs).map numRowT).map List.tail = fs.map (fun f => f.order.map written) := by
  rw [List.map_map]
  exact map_rowsFromT _ _ fs i (fun j f _ => by simp [numRowT, parseNumT_orderRow, orderValsT])

def bareT (f : TFrame) : LFrameT :=
  { base := f.base, idx := idx0 f.idx, velRev := f.velRev, order := f.order.map written, vpot := none, ekin := none }

theorem zipFramesT_maps : ∀ (fs : List TFrame),
    zipFramesT (fs.map snapOfT) (fs.map (fun f => f.order.map written)) = fs.map bareT := by
  intro fs
  induction fs with
  | nil => simp [zipFramesT]
  | cons f fs ih => simp [zipFramesT, ih, bareT, snapOfT]

theorem setEnergiesT_rows : ∀ (fs : List TFrame) (i : Nat),
    setEnergiesT (fs.map bareT) ((rowsFromT energyRowT i fs).map numRowT) = fs.map expectedT := by
  intro fs
  induction fs with
  | nil => intro i; simp [setEnergiesT]
  | cons f fs ih =>
    intro i
    simp only [List.map_cons, rowsFromT, setEnergiesT, ih]
    congr 1
    simp [numRowT, parseNumT_energyRow, energyValsT, bareT, expectedT]

theorem setEnergiesT_take : ∀ (k : Nat) (fr : List LFrameT) (rows : List (List FVal)),
    setEnergiesT (fr.take k) rows = (setEnergiesT fr rows).take k := by
  intro k
  induction k with
  | zero => intro fr rows; simp [setEnergiesT]
  | succ k ih =>
    intro fr rows
    cases fr with
    | nil => simp [setEnergiesT]
    | cons f fr =>
      cases rows with
      | nil => simp [setEnergiesT, ih]
      | cons r rows => simp [setEnergiesT, ih]

/-- the frames `loadFramesT` returns for the text of a stored path -/
theorem loadFramesT_stored (step : Nat) (gen : Str) (hg : NoBrk gen) (fs : List TFrame) (hne : fs ≠ [])
    (hn : ∀ f ∈ fs, Tokn f.base) (c : Nat) (hc : ∀ f ∈ fs, f.order.length = c)
    (b1 b2 : List Str) (hb1 : ∀ l ∈ b1, Blank l) (hb2 : ∀ l ∈ b2, Blank l) :
    loadFramesT (some (unlines (trajLines step fs ++ b1))) (some (unlines (orderLines step gen fs ++ b2)))
      ((sourcesT fs).map (·.2)) = .ok (fs.map bareT) := by
  unfold loadFramesT
  simp only
  rw [firstBlockT_traj step fs hn b1 hb1]
  simp only [snapshotsT_rows fs 0 hn]
  have hf := files_checkT fs
  simp only [hf, not_true_eq_false, if_false]
  rw [firstBlockT_order step gen hg fs c hc b2 hb2]
  simp only
  cases fs with
  | nil => exact absurd rfl hne
  | cons f fs' =>
    have := order_colsT (f :: fs') 0
    simp only [rowsFromT, List.map_cons] at this ⊢
    simp only [dropFirstColT, List.map_cons]
    rw [this]
    exact congrArg _ (zipFramesT_maps (f :: fs'))

/-- the energies of a stored path on any prefix of its frames -/
theorem loadEnergiesT_stored (step : Nat) (gen : Str) (hg : NoBrk gen) (fs : List TFrame) (hne : fs ≠ []) (k : Nat)
    (b3 : List Str) (hb3 : ∀ l ∈ b3, Blank l) :
    loadEnergiesT (some (unlines (energyLines step gen fs ++ b3))) ((fs.map bareT).take k) = .ok ((fs.map expectedT).take k) := by
  unfold loadEnergiesT
  simp only
  rw [firstBlockT_energy step gen hg fs b3 hb3]
  simp only
  cases fs with
  | nil => exact absurd rfl hne
  | cons f fs' =>
    have := setEnergiesT_rows (f :: fs') 0
    simp only [rowsFromT, List.map_cons] at this ⊢
    have hlen : (numRowT (energyRowT 0 f)).length = 5 := by simp [numRowT, parseNumT_energyRow, energyValsT]
    simp only [hlen, show ¬ (5 < 3) by omega, if_false]
    rw [← List.map_cons (f := bareT), ← List.map_cons (f := expectedT), setEnergiesT_take]
    simp only [List.map_cons]
    rw [this]

/-! ### the same without trailing blank lines -/

theorem no_blanks : ∀ l ∈ ([] : List Str), Blank l := by intro l hl; cases hl

theorem firstBlockT_traj0 (step : Nat) (fs : List TFrame) (hn : ∀ f ∈ fs, Tokn f.base) :
    firstBlockT parseStrT (unlines (trajLines step fs)) =
      .ok ((rowsFromT trajRowT 0 fs).map (fun l => splitWs (strip l))) := by
  have := firstBlockT_traj step fs hn [] no_blanks
  rwa [List.append_nil] at this

theorem firstBlockT_order0 (step : Nat) (gen : Str) (hg : NoBrk gen) (fs : List TFrame) (c : Nat)
    (hc : ∀ f ∈ fs, f.order.length = c) :
    firstBlockT parseNumT (unlines (orderLines step gen fs)) = .ok ((rowsFromT orderRowT 0 fs).map numRowT) := by
  have := firstBlockT_order step gen hg fs c hc [] no_blanks
  rwa [List.append_nil] at this

theorem loadFramesT_stored0 (step : Nat) (gen : Str) (hg : NoBrk gen) (fs : List TFrame) (hne : fs ≠ [])
    (hn : ∀ f ∈ fs, Tokn f.base) (c : Nat) (hc : ∀ f ∈ fs, f.order.length = c) :
    loadFramesT (some (unlines (trajLines step fs))) (some (unlines (orderLines step gen fs)))
      ((sourcesT fs).map (·.2)) = .ok (fs.map bareT) := by
  have := loadFramesT_stored step gen hg fs hne hn c hc [] [] no_blanks no_blanks
  rwa [List.append_nil, List.append_nil] at this

theorem loadEnergiesT_stored0 (step : Nat) (gen : Str) (hg : NoBrk gen) (fs : List TFrame) (hne : fs ≠ []) (k : Nat) :
    loadEnergiesT (some (unlines (energyLines step gen fs))) ((fs.map bareT).take k) = .ok ((fs.map expectedT).take k) := by
  have := loadEnergiesT_stored step gen hg fs hne k [] no_blanks
  rwa [List.append_nil] at this

end Infretis.StoreText
