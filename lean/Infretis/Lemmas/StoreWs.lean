import Infretis.Model.StoreWs
import Infretis.Lemmas.CodecFixed
/-!
Lemmas about `strip` / `split` w.r.t. Python's COMPLETE white-space set (`Model/StoreWs.lean`), for the
text level of C14.  Same statements (and names) as the ASCII-only ones of `Lemmas/CodecFixed.lean`, in
the namespace `Infretis.StoreText`; the proofs do not depend on which characters are white space beyond
`' '` being one and the characters of written numbers not being one.
-/
namespace Infretis.StoreText
open Infretis.Codec (numChars digs NoBrk fmtCore fmtCore_mem Dec)

/-- a list without (Python) white-space characters -/
def NoWs (l : List Char) : Prop := ∀ c ∈ l, isWs c = false

theorem numChars_noWs : ∀ c ∈ numChars, isWs c = false := by decide

/-- the ASCII-only predicate of `Infretis.Codec` is weaker: everything it calls white space is white space -/
theorem isWs_of_codec (c : Char) (h : Infretis.Codec.isWs c = true) : isWs c = true := by
  simp only [Infretis.Codec.isWs, Bool.or_eq_true, decide_eq_true_eq] at h
  rcases h with ((((((((h | h) | h) | h) | h) | h) | h) | h) | h) | h <;> (subst h; decide)

theorem NoWs.codec {l : List Char} (h : NoWs l) : Infretis.Codec.NoWs l := by
  intro c hc
  cases hw : Infretis.Codec.isWs c
  · rfl
  · have := isWs_of_codec c hw
    rw [h c hc] at this
    cases this

theorem fmtCore_noWs (prec : Nat) (d : Dec) : NoWs (fmtCore prec d) :=
  fun c h => numChars_noWs c (fmtCore_mem prec d c h)

theorem dropWhile_noWs {l : List Char} (h : NoWs l) : l.dropWhile isWs = l := by
  cases l with
  | nil => rfl
  | cons a t => simp [List.dropWhile, h a (by simp)]

theorem NoBrk_of_noWs {l : List Char} (h : NoWs l) : NoBrk l := by
  intro c hc
  have := h c hc
  constructor <;> (intro e; subst e; revert this; decide)

/-! ### `split()` -/

theorem splitWs_ws (c : Char) (t : List Char) (h : isWs c = true) : splitWs (c :: t) = splitWs t := by
  simp [splitWs, h]

theorem splitWs_blanks (k : Nat) (t : List Char) : splitWs (List.replicate k ' ' ++ t) = splitWs t := by
  induction k with
  | zero => simp
  | succ k ih => rw [List.replicate_succ, List.cons_append, splitWs_ws _ _ (by decide), ih]

theorem splitWs_allWs (w : List Char) (h : ∀ c ∈ w, isWs c = true) : splitWs w = [] := by
  induction w with
  | nil => rfl
  | cons a t ih => rw [splitWs_ws _ _ (h a (by simp)), ih (fun c hc => h c (by simp [hc]))]

/-- a white-space-free non-empty token followed by white space or the end is split off -/
theorem splitWs_token (tok rest : List Char) (hne : tok ≠ []) (h : NoWs tok)
    (hr : ∀ c, rest.head? = some c → isWs c = true) :
    splitWs (tok ++ rest) = tok :: splitWs rest := by
  induction tok with
  | nil => exact absurd rfl hne
  | cons a t ih =>
    have ha : isWs a = false := h a (by simp)
    cases t with
    | nil =>
      cases rest with
      | nil => simp [splitWs, ha]
      | cons d r =>
        have hd := hr d (by simp)
        simp [splitWs, ha, hd]
    | cons b t' =>
      have hb : isWs b = false := h b (by simp)
      have := ih (by simp) (fun c hc => h c (by simp [hc]))
      simp only [List.cons_append] at this ⊢
      rw [splitWs]
      simp only [ha, Bool.false_eq_true, if_false]
      rw [this]
      simp [hb]

theorem splitWs_append_ws (s w : List Char) (h : ∀ c ∈ w, isWs c = true) :
    splitWs (s ++ w) = splitWs s := by
  induction s with
  | nil => simpa [splitWs] using splitWs_allWs w h
  | cons a t ih =>
    by_cases ha : isWs a = true
    · rw [List.cons_append, splitWs_ws _ _ ha, splitWs_ws _ _ ha, ih]
    · have ha' : isWs a = false := by simpa using ha
      cases t with
      | nil =>
        cases w with
        | nil => simp
        | cons d r =>
          have hd := h d (by simp)
          simp [splitWs, ha', hd, splitWs_allWs r (fun c hc => h c (by simp [hc]))]
      | cons b t' =>
        simp only [List.cons_append] at ih ⊢
        rw [splitWs, splitWs.eq_def (a :: b :: t')]
        simp only [ha', Bool.false_eq_true, if_false, ih]

theorem rstrip_decomp (l : List Char) : ∃ w, l = rstrip l ++ w ∧ ∀ c ∈ w, isWs c = true := by
  refine ⟨(l.reverse.takeWhile isWs).reverse, ?_, ?_⟩
  · unfold rstrip
    rw [← List.reverse_append, List.takeWhile_append_dropWhile, List.reverse_reverse]
  · intro c hc
    have hc' : c ∈ l.reverse.takeWhile isWs := by simpa using hc
    have := List.all_takeWhile (p := isWs) (l := l.reverse)
    rw [List.all_eq_true] at this
    exact this c hc'

theorem splitWs_rstrip (l : List Char) : splitWs (rstrip l) = splitWs l := by
  obtain ⟨w, hw, hws⟩ := rstrip_decomp l
  conv => rhs; rw [hw]
  rw [splitWs_append_ws _ _ hws]

theorem splitWs_lstrip (l : List Char) : splitWs (lstrip l) = splitWs l := by
  induction l with
  | nil => rfl
  | cons a t ih =>
    by_cases ha : isWs a = true
    · rw [splitWs_ws _ _ ha, ← ih]; simp [lstrip, List.dropWhile, ha]
    · simp [lstrip, List.dropWhile, ha]

theorem splitWs_strip (l : List Char) : splitWs (strip l) = splitWs l := by
  rw [strip, splitWs_lstrip, splitWs_rstrip]

theorem mem_rstrip {c : Char} {l : List Char} (h : c ∈ rstrip l) : c ∈ l := by
  unfold rstrip at h
  have h1 : c ∈ l.reverse.dropWhile isWs := by simpa using h
  have := (List.dropWhile_sublist isWs (l := l.reverse)).subset h1
  simpa using this

theorem head_blank (r : List Char) : ∀ c, (' ' :: r).head? = some c → isWs c = true := by
  intro c hc; simp at hc; subst hc; decide

theorem head_nil : ∀ c, ([] : List Char).head? = some c → isWs c = true := by
  intro c hc; simp at hc

/-- a token for `str.split()`: splitting a line that holds it between blanks gives it back; a token
    with a white-space character inside is split in two -/
theorem splitWs_inner_ws (a b : List Char) (c : Char) (ha : a ≠ []) (hna : NoWs a) (hc : isWs c = true) :
    splitWs (a ++ c :: b) = a :: splitWs b := by
  rw [splitWs_token a (c :: b) ha hna (by intro d hd; simp at hd; subst hd; exact hc), splitWs_ws _ _ hc]

end Infretis.StoreText
