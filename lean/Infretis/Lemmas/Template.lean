import Infretis.Model.Template
/-!
Helper lemmas for the line-based template editors (`Infretis/Model/Template.lean`).
-/
namespace Infretis.Template

/-! ### proper lines and `linesKeep` -/

/-- a piece of text that is exactly one complete line: no '\n' except the final character -/
def Proper (l : Str) : Prop := ∃ body, l = body ++ ['\n'] ∧ '\n' ∉ body

/-- the text is empty or ends with a newline -/
def EndsNL (t : Str) : Prop := t = [] ∨ t.getLast? = some '\n'

instance (t : Str) : Decidable (EndsNL t) := by unfold EndsNL; exact inferInstance

theorem linesKeepGo_body (body : Str) (h : '\n' ∉ body) (cur rest : Str) :
    linesKeepGo cur (body ++ '\n' :: rest) = (cur.reverse ++ body ++ ['\n']) :: linesKeepGo [] rest := by
  induction body generalizing cur with
  | nil => simp [linesKeepGo]
  | cons c b ih =>
    have hc : c ≠ '\n' := by intro e; apply h; simp [e]
    have hb : '\n' ∉ b := by intro e; apply h; simp [e]
    simp only [List.cons_append, linesKeepGo, hc, if_false]
    rw [ih hb]
    simp

theorem linesKeep_flatten (ls : List Str) (h : ∀ l ∈ ls, Proper l) : linesKeep ls.flatten = ls := by
  induction ls with
  | nil => simp [linesKeep, linesKeepGo]
  | cons l t ih =>
    obtain ⟨body, rfl, hb⟩ := h l (by simp)
    have := ih (fun x hx => h x (by simp [hx]))
    simp only [linesKeep] at this ⊢
    simp only [List.flatten_cons, List.append_assoc, List.singleton_append]
    rw [linesKeepGo_body body hb, this]
    simp

theorem linesKeepGo_flatten (t cur : Str) :
    (linesKeepGo cur t).flatten = cur.reverse ++ t := by
  induction t generalizing cur with
  | nil =>
    cases cur <;> simp [linesKeepGo]
  | cons c t ih =>
    by_cases hc : c = '\n'
    · simp [linesKeepGo, hc, ih]
    · simp [linesKeepGo, hc, ih]

/-- splitting into lines loses nothing -/
theorem linesKeep_join (t : Str) : (linesKeep t).flatten = t := by
  simp [linesKeep, linesKeepGo_flatten]

theorem linesKeepGo_proper (t : Str) : ∀ cur : Str, '\n' ∉ cur →
    (t ≠ [] → t.getLast? = some '\n') → (t = [] → cur = []) →
    ∀ l ∈ linesKeepGo cur t, Proper l := by
  induction t with
  | nil =>
    intro cur _ _ h2 l hl
    simp [h2 rfl, linesKeepGo] at hl
  | cons c t ih =>
    intro cur hcur h1 _ l hl
    by_cases hc : c = '\n'
    · simp only [linesKeepGo, hc, if_true, List.mem_cons] at hl
      rcases hl with rfl | hl
      · exact ⟨cur.reverse, by simp, by simpa using hcur⟩
      · refine ih [] (by simp) ?_ (fun _ => rfl) l hl
        intro hne
        have := h1 (by simp)
        cases t with
        | nil => exact absurd rfl hne
        | cons b t' => simpa [List.getLast?_cons_cons] using this
    · simp only [linesKeepGo, hc, if_false] at hl
      refine ih (c :: cur) ?_ ?_ ?_ l hl
      · intro h; rcases List.mem_cons.1 h with h | h
        · exact hc h.symm
        · exact hcur h
      · intro hne
        have := h1 (by simp)
        cases t with
        | nil => exact absurd rfl hne
        | cons b t' => simpa [List.getLast?_cons_cons] using this
      · intro ht
        subst ht
        have := h1 (by simp)
        simp at this
        exact absurd this hc

theorem linesKeep_proper (t : Str) (h : EndsNL t) : ∀ l ∈ linesKeep t, Proper l := by
  refine linesKeepGo_proper t [] (by simp) ?_ (fun _ => rfl)
  intro hne
  rcases h with h | h
  · exact absurd h hne
  · exact h

/-! ### `matchKey` -/

theorem matchKey_some {l kw : Str} (h : matchKey l = some kw) :
    ∃ rest, l = kw ++ '=' :: rest ∧ '=' ∉ kw ∧ '\n' ∉ kw := by
  induction l generalizing kw with
  | nil => simp [matchKey] at h
  | cons c t ih =>
    simp only [matchKey] at h
    by_cases h1 : c = '='
    · simp only [h1, if_true, Option.some.injEq] at h
      subst h; exact ⟨t, by simp [h1], by simp, by simp⟩
    · by_cases h2 : c = '\n'
      · simp [h2] at h
      · simp only [h1, h2, if_false, Option.map_eq_some_iff] at h
        obtain ⟨kw', hk, rfl⟩ := h
        obtain ⟨rest, e, a, b⟩ := ih hk
        refine ⟨rest, by simp [e], ?_, ?_⟩
        · intro m; rcases List.mem_cons.1 m with m | m
          · exact h1 m.symm
          · exact a m
        · intro m; rcases List.mem_cons.1 m with m | m
          · exact h2 m.symm
          · exact b m

theorem matchKey_append (kw rest : Str) (h1 : '=' ∉ kw) (h2 : '\n' ∉ kw) :
    matchKey (kw ++ '=' :: rest) = some kw := by
  induction kw with
  | nil => simp [matchKey]
  | cons c t ih =>
    have a : c ≠ '=' := by intro e; apply h1; simp [e]
    have b : c ≠ '\n' := by intro e; apply h2; simp [e]
    have := ih (by intro m; apply h1; simp [m]) (by intro m; apply h2; simp [m])
    simp [matchKey, a, b, this]

theorem matchKey_setLine {l kw : Str} (h : matchKey l = some kw) (v : Str) :
    matchKey (setLine kw v) = some kw := by
  obtain ⟨_, _, a, b⟩ := matchKey_some h
  have e : setLine kw v = kw ++ '=' :: (' ' :: v ++ ['\n']) := by simp [setLine]
  rw [e]
  exact matchKey_append kw _ a b

/-! ### `strip` -/

theorem lstrip_length_le (s : Str) : (lstrip s).length ≤ s.length := by
  induction s with
  | nil => simp [lstrip]
  | cons c t ih =>
    simp only [lstrip]; split
    · simp only [List.length_cons]; omega
    · simp

theorem rstrip_length_le (s : Str) : (rstrip s).length ≤ s.length := by
  have := lstrip_length_le s.reverse
  simpa [rstrip] using this

theorem rstrip_snoc_space (k : Str) : rstrip (k ++ [' ']) = rstrip k := by
  simp [rstrip, lstrip, isSpace]

/-- a key without outer white space is found again in the line `key = value` -/
theorem strip_snoc_space (k : Str) (h : strip k = k) : strip (k ++ [' ']) = k := by
  cases k with
  | nil => simp [strip, rstrip, lstrip, isSpace]
  | cons c t =>
    by_cases hc : isSpace c = true
    · exfalso
      have h1 : (strip (c :: t)).length ≤ t.length := by
        simp only [strip, lstrip, hc, if_true]
        exact Nat.le_trans (rstrip_length_le _) (lstrip_length_le _)
      rw [h] at h1
      simp only [List.length_cons] at h1
      omega
    · have hl : lstrip (c :: t) = c :: t := by simp [lstrip, hc]
      have hl' : lstrip (c :: t ++ [' ']) = c :: t ++ [' '] := by simp [lstrip, hc]
      unfold strip at h ⊢
      rw [hl] at h
      rw [hl', rstrip_snoc_space, h]

/-! ### `lookup` -/

theorem lookup_of_mem {s : Settings} (hnd : (keys s).Nodup) {k v : Str} (h : (k, v) ∈ s) :
    lookup s k = some v := by
  induction s with
  | nil => simp at h
  | cons kv t ih =>
    obtain ⟨k', v'⟩ := kv
    simp only [keys, List.map_cons, List.nodup_cons] at hnd
    rcases List.mem_cons.1 h with e | m
    · cases e; simp [lookup]
    · have : k' ≠ k := by
        intro e; subst e
        exact hnd.1 (List.mem_map.2 ⟨(k', v), m, rfl⟩)
      simp only [lookup, this, if_false]
      exact ih hnd.2 m

theorem lookup_some_mem {s : Settings} {k v : Str} (h : lookup s k = some v) : (k, v) ∈ s := by
  induction s with
  | nil => simp [lookup] at h
  | cons kv t ih =>
    obtain ⟨k', v'⟩ := kv
    simp only [lookup] at h
    by_cases e : k' = k
    · simp only [e, if_true, Option.some.injEq] at h
      subst e; subst h; simp
    · simp only [e, if_false] at h
      exact List.mem_cons_of_mem _ (ih h)

theorem lookup_none_iff {s : Settings} {k : Str} : lookup s k = none ↔ k ∉ keys s := by
  induction s with
  | nil => simp [lookup, keys]
  | cons kv t ih =>
    obtain ⟨k', v'⟩ := kv
    by_cases e : k' = k
    · simp [lookup, keys, e]
    · have e' : ¬ k = k' := fun h => e h.symm
      simp only [lookup, e, if_false, keys, List.map_cons, List.mem_cons, e', false_or]
      exact ih

/-! ### the mdp editor, line by line -/

/-- well-formed settings for the mdp editor: a Python dict (distinct keys) whose keys could be
    keywords of a line (no '=', no newline, no outer white space) and whose values fit on a line -/
structure WFSettings (s : Settings) : Prop where
  nodup : (keys s).Nodup
  key_noeq : ∀ kv ∈ s, '=' ∉ kv.1
  key_nonl : ∀ kv ∈ s, '\n' ∉ kv.1
  key_strip : ∀ kv ∈ s, strip kv.1 = kv.1
  val_nonl : ∀ kv ∈ s, '\n' ∉ kv.2

theorem setLine_proper {kw v : Str} (h1 : '\n' ∉ kw) (h2 : '\n' ∉ v) : Proper (setLine kw v) := by
  refine ⟨kw ++ '=' :: ' ' :: v, by simp [setLine], ?_⟩
  simp [h1, h2]

theorem newLine_proper {k v : Str} (h1 : '\n' ∉ k) (h2 : '\n' ∉ v) : Proper (newLine k v) := by
  refine ⟨k ++ ' ' :: '=' :: ' ' :: v, by simp [newLine], ?_⟩
  simp [h1, h2]

/-- a line whose keyword is not requested (or which has no '=') is written unchanged -/
theorem editOut_unrequested (s : Settings) (l : Str)
    (h : ∀ kw, matchKey l = some kw → strip kw ∉ keys s) : editOut s l = l := by
  unfold editOut editLine
  cases hm : matchKey l with
  | none => rfl
  | some kw =>
    have := lookup_none_iff.2 (h kw hm)
    simp [this]

/-- a line whose keyword is requested becomes `keyword= value\n` (text before '=' kept verbatim) -/
theorem editOut_requested (s : Settings) (l kw v : Str)
    (hm : matchKey l = some kw) (hv : lookup s (strip kw) = some v) :
    editOut s l = setLine kw v := by
  simp [editOut, editLine, hm, hv]

theorem editOut_proper (s : Settings) (hv : ∀ kv ∈ s, '\n' ∉ kv.2) (l : Str) (hl : Proper l) :
    Proper (editOut s l) := by
  cases hm : matchKey l with
  | none => simpa [editOut, editLine, hm] using hl
  | some kw =>
    cases hv' : lookup s (strip kw) with
    | none => simpa [editOut, editLine, hm, hv'] using hl
    | some v =>
      obtain ⟨_, _, _, b⟩ := matchKey_some hm
      rw [editOut_requested s l kw v hm hv']
      exact setLine_proper b (hv _ (lookup_some_mem hv'))

theorem matchKey_editOut (s : Settings) (l : Str) : matchKey (editOut s l) = matchKey l := by
  cases hm : matchKey l with
  | none =>
    have : editOut s l = l := by simp [editOut, editLine, hm]
    rw [this, hm]
  | some kw =>
    cases hv' : lookup s (strip kw) with
    | none =>
      have : editOut s l = l := by simp [editOut, editLine, hm, hv']
      rw [this, hm]
    | some v =>
      rw [editOut_requested s l kw v hm hv']
      exact matchKey_setLine hm v

theorem editOut_idem (s : Settings) (l : Str) : editOut s (editOut s l) = editOut s l := by
  cases hm : matchKey l with
  | none =>
    have : editOut s l = l := by simp [editOut, editLine, hm]
    rw [this, this]
  | some kw =>
    cases hv' : lookup s (strip kw) with
    | none =>
      have : editOut s l = l := by simp [editOut, editLine, hm, hv']
      rw [this, this]
    | some v =>
      have e : editOut s l = setLine kw v := editOut_requested s l kw v hm hv'
      rw [e]
      exact editOut_requested s _ kw v (matchKey_setLine hm v) hv'

theorem writtenKeys_map_editOut (s : Settings) (ls : List Str) :
    writtenKeys (ls.map (editOut s)) = writtenKeys ls := by
  induction ls with
  | nil => rfl
  | cons l t ih =>
    simp only [writtenKeys, List.map_cons, List.filterMap_cons, matchKey_editOut] at ih ⊢
    rw [ih]

theorem writtenKeys_append (a b : List Str) : writtenKeys (a ++ b) = writtenKeys a ++ writtenKeys b := by
  simp [writtenKeys]

theorem matchKey_newLine {k : Str} (h1 : '=' ∉ k) (h2 : '\n' ∉ k) (v : Str) :
    matchKey (newLine k v) = some (k ++ [' ']) := by
  have : newLine k v = (k ++ [' ']) ++ '=' :: (' ' :: v ++ ['\n']) := by simp [newLine]
  rw [this]
  exact matchKey_append _ _ (by simp [h1]) (by simp [h2])

/-- an appended line is found (and left as it is) by a second pass -/
theorem editOut_newLine {s : Settings} (hs : WFSettings s) {k v : Str} (h : (k, v) ∈ s) :
    editOut s (newLine k v) = newLine k v := by
  have hm := matchKey_newLine (hs.key_noeq _ h) (hs.key_nonl _ h) v
  have hk := strip_snoc_space k (hs.key_strip _ h)
  have hv : lookup s (strip (k ++ [' '])) = some v := by rw [hk]; exact lookup_of_mem hs.nodup h
  rw [editOut_requested s _ _ v hm hv]
  simp [setLine, newLine]

theorem appended_mem {s : Settings} {w : List Str} {l : Str} (h : l ∈ appended s w) :
    ∃ k v, (k, v) ∈ s ∧ k ∉ w ∧ l = newLine k v := by
  simp only [appended, List.mem_filterMap] at h
  obtain ⟨⟨k, v⟩, hm, he⟩ := h
  by_cases hw : k ∈ w
  · simp [hw] at he
  · simp only [hw, if_false, Option.some.injEq] at he
    exact ⟨k, v, hm, hw, he.symm⟩

theorem appended_nil_of_subset {s : Settings} {w : List Str} (h : ∀ k ∈ keys s, k ∈ w) :
    appended s w = [] := by
  simp only [appended, List.filterMap_eq_nil_iff]
  intro kv hkv
  have : kv.1 ∈ w := h _ (List.mem_map.2 ⟨kv, hkv, rfl⟩)
  simp [this]

/-- the keywords of the appended lines are exactly the settings keys that were missing -/
theorem writtenKeys_appended {s : Settings} (hs : WFSettings s) (w : List Str) :
    ∀ k ∈ keys s, k ∉ w → k ∈ writtenKeys (appended s w) := by
  intro k hk hw
  obtain ⟨⟨k', v⟩, hkv, rfl⟩ := List.mem_map.1 hk
  simp only [writtenKeys, List.mem_filterMap]
  refine ⟨newLine k' v, ?_, ?_⟩
  · simp only [appended, List.mem_filterMap]
    exact ⟨(k', v), hkv, by simp [hw]⟩
  · rw [matchKey_newLine (hs.key_noeq _ hkv) (hs.key_nonl _ hkv)]
    simp [strip_snoc_space k' (hs.key_strip _ hkv)]

theorem modifyLinesAsIs_proper {s : Settings} (hk : ∀ kv ∈ s, '\n' ∉ kv.1) (hv : ∀ kv ∈ s, '\n' ∉ kv.2)
    (ls : List Str) (h : ∀ l ∈ ls, Proper l) : ∀ l ∈ modifyLinesAsIs s ls, Proper l := by
  intro l hl
  simp only [modifyLinesAsIs, List.mem_append, List.mem_map] at hl
  rcases hl with ⟨l0, h0, rfl⟩ | hl
  · exact editOut_proper s hv l0 (h l0 h0)
  · obtain ⟨k, v, hm, _, rfl⟩ := appended_mem hl
    exact newLine_proper (hk _ hm) (hv _ hm)

/-- on whole lines a second pass of the editor changes nothing -/
theorem modifyLinesAsIs_idem {s : Settings} (hs : WFSettings s) (ls : List Str) :
    modifyLinesAsIs s (modifyLinesAsIs s ls) = modifyLinesAsIs s ls := by
  have hw : ∀ k ∈ keys s, k ∈ writtenKeys (modifyLinesAsIs s ls) := by
    intro k hk
    simp only [modifyLinesAsIs, writtenKeys_append, writtenKeys_map_editOut, List.mem_append]
    by_cases h : k ∈ writtenKeys ls
    · exact Or.inl h
    · exact Or.inr (writtenKeys_appended hs _ k hk h)
  have h1 : (modifyLinesAsIs s ls).map (editOut s) = modifyLinesAsIs s ls := by
    simp only [modifyLinesAsIs, List.map_append, List.map_map]
    congr 1
    · apply List.map_congr_left
      intro l _
      exact editOut_idem s l
    · conv => rhs; rw [← List.map_id (appended s (writtenKeys ls))]
      apply List.map_congr_left
      intro l hl
      obtain ⟨k, v, hm, _, rfl⟩ := appended_mem hl
      simpa using editOut_newLine hs hm
  have e : modifyLinesAsIs s (modifyLinesAsIs s ls) =
      (modifyLinesAsIs s ls).map (editOut s) ++ appended s (writtenKeys (modifyLinesAsIs s ls)) := rfl
  rw [e, h1, appended_nil_of_subset hw]
  simp

/-! ### `write_for_run` -/

theorem substLine_untouched (spl : List Str) (s : Settings) (line : Str)
    (h : ∀ k ∈ keys s, k ∉ spl) : substLine spl s line = line := by
  induction s generalizing line with
  | nil => rfl
  | cons kv t ih =>
    obtain ⟨k, v⟩ := kv
    have hk : k ∉ spl := h k (by simp [keys])
    simp only [substLine, hk, if_false]
    exact ih line (fun k' hk' => h k' (by simp only [keys, List.map_cons, List.mem_cons]; exact Or.inr hk'))

/-- `wfrVarsAsIs` never raises iff every variable that is a token of the line is still in
    `not_found`; it then returns the substituted line and removes exactly those variables. -/
theorem wfrVarsAsIs_spec (spl : List Str) : ∀ (s : Settings) (line : Str) (nf : List Str),
    (keys s).Nodup → nf.Nodup →
    (if ∀ k ∈ keys s, k ∈ spl → k ∈ nf
     then ∃ nf', wfrVarsAsIs spl s line nf = .ok (substLine spl s line, nf') ∧ nf'.Nodup ∧
        ∀ k, k ∈ nf' ↔ (k ∈ nf ∧ ¬ (k ∈ keys s ∧ k ∈ spl))
     else wfrVarsAsIs spl s line nf = .error .key) := by
  intro s
  induction s with
  | nil =>
    intro line nf _ hnf
    simp only [keys, List.map_nil, List.not_mem_nil, false_imp_iff, implies_true, if_true]
    exact ⟨nf, rfl, hnf, by simp⟩
  | cons kv t ih =>
    obtain ⟨var, val⟩ := kv
    intro line nf hnd hnf
    simp only [keys, List.map_cons, List.nodup_cons] at hnd
    obtain ⟨hvar, hnd'⟩ := hnd
    by_cases hsp : var ∈ spl
    · by_cases hin : var ∈ nf
      · have hrec := ih (replaceAll var val line) (nf.erase var) hnd' (hnf.erase _)
        have hcond : (∀ k ∈ keys ((var, val) :: t), k ∈ spl → k ∈ nf) ↔
            (∀ k ∈ keys t, k ∈ spl → k ∈ nf.erase var) := by
          simp only [keys, List.map_cons, List.mem_cons, forall_eq_or_imp]
          constructor
          · intro ⟨_, h⟩ k hk hs
            have : k ≠ var := by intro e; subst e; exact hvar hk
            exact (List.mem_erase_of_ne this).2 (h k hk hs)
          · intro h
            exact ⟨fun _ => hin, fun k hk hs => List.mem_of_mem_erase (h k hk hs)⟩
        by_cases hc : ∀ k ∈ keys t, k ∈ spl → k ∈ nf.erase var
        · rw [if_pos (hcond.2 hc)]
          rw [if_pos hc] at hrec
          obtain ⟨nf', e, hn, hmem⟩ := hrec
          refine ⟨nf', ?_, hn, ?_⟩
          · simp only [wfrVarsAsIs, hsp, hin, if_true, substLine]
            exact e
          · intro k
            rw [hmem k]
            simp only [keys, List.map_cons, List.mem_cons]
            by_cases ek : k = var
            · subst ek
              simp [hsp, hnf.not_mem_erase]
            · rw [List.mem_erase_of_ne ek]
              simp [ek]
        · rw [if_neg (fun h => hc (hcond.1 h))]
          rw [if_neg hc] at hrec
          simp only [wfrVarsAsIs, hsp, hin, if_true]
          exact hrec
      · have : ¬ ∀ k ∈ keys ((var, val) :: t), k ∈ spl → k ∈ nf := by
          intro h
          exact hin (h var (by simp [keys]) hsp)
        rw [if_neg this]
        simp [wfrVarsAsIs, hsp, hin]
    · have hrec := ih line nf hnd' hnf
      have hcond : (∀ k ∈ keys ((var, val) :: t), k ∈ spl → k ∈ nf) ↔
          (∀ k ∈ keys t, k ∈ spl → k ∈ nf) := by
        simp only [keys, List.map_cons, List.mem_cons, forall_eq_or_imp]
        exact ⟨fun h => h.2, fun h => ⟨fun h' => absurd h' hsp, h⟩⟩
      by_cases hc : ∀ k ∈ keys t, k ∈ spl → k ∈ nf
      · rw [if_pos (hcond.2 hc)]
        rw [if_pos hc] at hrec
        obtain ⟨nf', e, hn, hmem⟩ := hrec
        refine ⟨nf', ?_, hn, ?_⟩
        · simp only [wfrVarsAsIs, hsp, if_false, substLine]
          exact e
        · intro k
          rw [hmem k]
          simp only [keys, List.map_cons, List.mem_cons]
          by_cases ek : k = var
          · subst ek; simp [hsp]
          · simp [ek]
      · rw [if_neg (fun h => hc (hcond.1 h))]
        rw [if_neg hc] at hrec
        simp only [wfrVarsAsIs, hsp, if_false]
        exact hrec

/-- what `write_for_run` makes of one line when nothing raises -/
def substOf (s : Settings) (l : Str) : Str := substLine (splitWS l) s l

theorem occ_cons (k l : Str) (t : List Str) :
    occ k (l :: t) = (if k ∈ splitWS l then 1 else 0) + occ k t := by
  unfold occ
  by_cases h : k ∈ splitWS l
  · simp [h]; omega
  · simp [h]

/-- the state of `not_found` as an expected token-line count: a variable still in `not_found`
    must be met on exactly one of the remaining lines, one already removed on none -/
def quota (nf : List Str) (k : Str) : Nat := if k ∈ nf then 1 else 0

/-- invariant of the line loop of `write_for_run` -/
theorem wfrLinesAsIs_spec (s : Settings) (hnd : (keys s).Nodup) :
    ∀ (lines : List Str) (nf : List Str) (acc : List Str), nf.Nodup → (∀ k ∈ nf, k ∈ keys s) →
    ((wfrLinesAsIs s lines nf acc).err = none ↔ ∀ k ∈ keys s, occ k lines = quota nf k) ∧
    ((wfrLinesAsIs s lines nf acc).err = some .key ↔ ∃ k ∈ keys s, occ k lines > quota nf k) ∧
    ((wfrLinesAsIs s lines nf acc).err ≠ some .key →
        (wfrLinesAsIs s lines nf acc).written = acc.reverse ++ lines.map (substOf s)) ∧
    (∃ j, j ≤ lines.length ∧
        (wfrLinesAsIs s lines nf acc).written = acc.reverse ++ (lines.take j).map (substOf s)) := by
  intro lines
  induction lines with
  | nil =>
    intro nf acc _ hsub
    simp only [wfrLinesAsIs, occ, List.filter_nil, List.length_nil, quota]
    refine ⟨?_, ?_, by simp, ⟨0, by simp⟩⟩
    · cases nf with
      | nil => simp
      | cons a t =>
        simp only [List.isEmpty_cons, Bool.false_eq_true, if_false, reduceCtorEq, false_iff]
        intro h
        have := h a (hsub a (by simp))
        simp at this
    · constructor
      · intro h; split at h <;> simp at h
      · intro ⟨k, _, hk⟩; omega
  | cons line t ih =>
    intro nf acc hnf hsub
    have hspec := wfrVarsAsIs_spec (splitWS line) s line nf hnd hnf
    by_cases hC : ∀ k ∈ keys s, k ∈ splitWS line → k ∈ nf
    · rw [if_pos hC] at hspec
      obtain ⟨nf', e, hn', hmem⟩ := hspec
      have hsub' : ∀ k ∈ nf', k ∈ keys s := fun k hk => hsub k ((hmem k).1 hk).1
      have hstep : wfrLinesAsIs s (line :: t) nf acc = wfrLinesAsIs s t nf' (substOf s line :: acc) := by
        simp only [wfrLinesAsIs, e, substOf]
      obtain ⟨i1, i2, i3, j, hj, i4⟩ := ih nf' (substOf s line :: acc) hn' hsub'
      have hq : ∀ k ∈ keys s, (occ k (line :: t) = quota nf k ↔ occ k t = quota nf' k) ∧
          (occ k (line :: t) > quota nf k ↔ occ k t > quota nf' k) := by
        intro k hk
        rw [occ_cons]
        unfold quota
        by_cases hs : k ∈ splitWS line
        · have h1 : k ∈ nf := hC k hk hs
          have h2 : k ∉ nf' := fun h => ((hmem k).1 h).2 ⟨hk, hs⟩
          simp only [hs, h1, h2, if_true, if_false]
          constructor <;> omega
        · have h2 : k ∈ nf' ↔ k ∈ nf := by
            rw [hmem k]; exact ⟨fun h => h.1, fun h => ⟨h, fun h' => hs h'.2⟩⟩
          simp only [hs, if_false, Nat.zero_add]
          by_cases h3 : k ∈ nf
          · have h4 : k ∈ nf' := h2.2 h3
            simp [h3, h4]
          · have h4 : k ∉ nf' := fun h => h3 (h2.1 h)
            simp [h3, h4]
      rw [hstep]
      refine ⟨?_, ?_, ?_, ⟨j + 1, by simp only [List.length_cons]; omega, ?_⟩⟩
      · rw [i1]
        exact ⟨fun h k hk => ((hq k hk).1).2 (h k hk), fun h k hk => ((hq k hk).1).1 (h k hk)⟩
      · rw [i2]
        exact ⟨fun ⟨k, hk, h⟩ => ⟨k, hk, ((hq k hk).2).2 h⟩, fun ⟨k, hk, h⟩ => ⟨k, hk, ((hq k hk).2).1 h⟩⟩
      · intro h
        rw [i3 h]
        simp
      · rw [i4]
        simp
    · rw [if_neg hC] at hspec
      have hstep : wfrLinesAsIs s (line :: t) nf acc = { written := acc.reverse, err := some .key } := by
        simp only [wfrLinesAsIs, hspec]
      have hex : ∃ k ∈ keys s, k ∈ splitWS line ∧ k ∉ nf := by
        exact Classical.byContradiction fun h => hC (fun k hk hs =>
          Classical.byContradiction fun hn => h ⟨k, hk, hs, hn⟩)
      obtain ⟨k, hk, hs, hn⟩ := hex
      have hocc : occ k (line :: t) > quota nf k := by
        rw [occ_cons]; unfold quota; simp only [hs, hn, if_true, if_false]; omega
      rw [hstep]
      refine ⟨?_, ?_, by simp, ⟨0, by simp⟩⟩
      · simp only [reduceCtorEq, false_iff]
        intro h
        have := h k hk
        omega
      · simp only [true_iff]
        exact ⟨k, hk, hocc⟩

end Infretis.Template
