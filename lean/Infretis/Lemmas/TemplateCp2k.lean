import Infretis.Model.TemplateCp2k
/-!
C19, part "cp2k": lemmas and theorems about the model of the CP2K input editor
(`Infretis.Cp2k`, file Model/TemplateCp2k.lean).
-/
namespace Infretis.Cp2k

/-! ### dict lemmas -/

theorem dget_dset {α : Type} (k k' : Str) (v : α) (r : List (Str × α)) :
    dget k (dset k' v r) = if k' = k then some v else dget k r := by
  induction r with
  | nil => simp [dset, dget]
  | cons kv t ih =>
    obtain ⟨k2, v2⟩ := kv
    by_cases h2 : k2 = k'
    · subst h2
      by_cases h : k2 = k <;> simp [dset, dget, h]
    · by_cases h : k2 = k
      · subst h
        have : ¬ k' = k2 := fun e => h2 e.symm
        simp [dset, dget, h2, this]
      · simp [dset, dget, h2, h, ih]

theorem dpop_dset_absent {α : Type} (k : Str) (v : α) (r : List (Str × α)) (h : dget k r = none) :
    dpop k (dset k v r) = r := by
  induction r with
  | nil => simp [dset, dpop]
  | cons kv t ih =>
    obtain ⟨k2, v2⟩ := kv
    by_cases h2 : k2 = k
    · simp [dget, h2] at h
    · simp only [dget, h2, if_false] at h
      simp [dset, dpop, h2, ih h]

theorem dget_isSome_of_mem {α : Type} (k : Str) (v : α) (r : List (Str × α)) (h : (k, v) ∈ r) :
    (dget k r).isSome = true := by
  induction r with
  | nil => cases h
  | cons kv t ih =>
    obtain ⟨k2, v2⟩ := kv
    by_cases h2 : k2 = k
    · simp [dget, h2]
    · simp only [dget, h2, if_false]
      rcases List.mem_cons.mp h with h | h
      · cases h; exact absurd rfl h2
      · exact ih h

theorem dget_of_mem_nodup {α : Type} (k : Str) (v : α) (r : List (Str × α)) (h : (k, v) ∈ r)
    (hn : (r.map (·.1)).Nodup) : dget k r = some v := by
  induction r with
  | nil => cases h
  | cons kv t ih =>
    obtain ⟨k2, v2⟩ := kv
    simp only [List.map_cons, List.nodup_cons] at hn
    rcases List.mem_cons.mp h with h | h
    · cases h; simp [dget]
    · have : k2 ≠ k := by
        intro e; subst e
        exact hn.1 (List.mem_map.mpr ⟨(k2, v), h, rfl⟩)
      simp [dget, this, ih h hn.2]


/-! ### the merge law of `update_node` (non-replace mode) -/

/-- what an existing line becomes: `key value` if its first token is a key of `data` -/
def rewriteLine (data : List (Str × Option Str)) (line : Str) : Str :=
  match firstTok line with
  | none => line
  | some key =>
    match dget key data with
    | some v => fmtEntry (key, v)
    | none => line

/-- first tokens of the lines -/
def lineKeys (old : List Str) : List Str := old.filterMap firstTok

/-- the merge law: existing keys are replaced in place (`KEY value`, or the bare `KEY` for a `None` value —
    `fmtEntry`), the keys that no existing line starts with are appended in dict order in the same format -/
def mergeSpec (data : List (Str × Option Str)) (old : List Str) : List Str :=
  old.map (rewriteLine data) ++ (data.filter (fun kv => decide (kv.1 ∉ lineKeys old))).map fmtEntry

theorem mergeOld_eq (data : List (Str × Option Str)) (old : List Str)
    (htok : ∀ l ∈ old, (firstTok l).isSome = true) :
    mergeOld data false old =
      .ok (old.map (rewriteLine data), (lineKeys old).filter (fun k => (dget k data).isSome)) := by
  induction old with
  | nil => simp [mergeOld, lineKeys]
  | cons l t ih =>
    have ht : ∀ l ∈ t, (firstTok l).isSome = true := fun x hx => htok x (List.mem_cons_of_mem _ hx)
    have hl := htok l List.mem_cons_self
    obtain ⟨key, hkey⟩ := Option.isSome_iff_exists.mp hl
    have ih' := ih ht
    cases hd : dget key data with
    | none =>
      simp [mergeOld, hkey, hd, ih', rewriteLine, lineKeys]
    | some v =>
      simp [mergeOld, hkey, hd, ih', rewriteLine, lineKeys]

theorem mergeOld_ok_tok (data : List (Str × Option Str)) (b : Bool) (old : List Str) (r : List Str × List Str)
    (h : mergeOld data b old = .ok r) : ∀ l ∈ old, (firstTok l).isSome = true := by
  induction old generalizing r with
  | nil => intro l hl; cases hl
  | cons l t ih =>
    intro x hx
    unfold mergeOld at h
    cases hk : firstTok l with
    | none => simp [hk] at h
    | some key =>
      simp only [hk] at h
      have htail : ∃ r', mergeOld data b t = .ok r' := by
        cases hd : dget key data with
        | none =>
          simp only [hd] at h
          cases hm : mergeOld data b t with
          | error e => simp [hm] at h
          | ok r' => exact ⟨r', rfl⟩
        | some v =>
          simp only [hd] at h
          cases b with
          | true => simp at h
          | false =>
            simp only [Bool.false_eq_true, if_false] at h
            cases hm : mergeOld data false t with
            | error e => simp [hm] at h
            | ok r' => exact ⟨r', rfl⟩
      obtain ⟨r', hr'⟩ := htail
      rcases List.mem_cons.mp hx with hx | hx
      · subst hx; simp [hk]
      · exact ih r' hr' x hx

theorem mergeNew_eq (done : List Str) (data : List (Str × Option Str)) :
    mergeNew false done data = .ok ((data.filter (fun kv => decide (kv.1 ∉ done))).map fmtEntry) := by
  induction data with
  | nil => simp [mergeNew]
  | cons kv t ih =>
    obtain ⟨k, v⟩ := kv
    by_cases hk : k ∈ done
    · simp [mergeNew, hk, ih]
    · simp [mergeNew, hk, ih]

theorem mergeData_eq_spec (u : Upd) (old : List Str) (hl : u.isList = false)
    (htok : ∀ l ∈ old, (firstTok l).isSome = true) :
    mergeData u old = .ok (mergeSpec u.data old) := by
  unfold mergeData
  rw [hl, mergeOld_eq u.data old htok]
  simp only [mergeNew_eq, mergeSpec]
  congr 3
  apply List.filter_congr
  intro kv hkv
  have hs := dget_isSome_of_mem kv.1 kv.2 u.data (by simpa using hkv)
  simp [List.mem_filter, hs]


/-! ### Theorem 2a: an update of a PRESENT target changes exactly that node's data/settings -/

theorem getElem?_lt_of_some {α : Type} (l : List α) (i : Nat) (a : α) (h : l[i]? = some a) : i < l.length := by
  rcases Nat.lt_or_ge i l.length with h' | h'
  · exact h'
  · rw [List.getElem?_eq_none h'] at h; cases h

theorem cp2k_edit_exact_present (u : Upd) (st : St) (i : Nat) (n : Node)
    (href : dget u.target st.ref = some i) (hn : st.arena[i]? = some n)
    (hmode : u.replace = true ∨ (u.isList = false ∧ ∀ l ∈ n.data, (firstTok l).isSome = true)) :
    ∃ st', updateNode u st = .ok st' ∧ st'.roots = st.roots ∧ st'.ref = st.ref ∧
      st'.arena.length = st.arena.length ∧ (∀ j, j ≠ i → st'.arena[j]? = st.arena[j]?) ∧
      st'.arena[i]? = some { n with
        data := if u.replace then u.data.map (·.1) else mergeSpec u.data n.data,
        settings := newSettings u.settings u.replace n.settings } := by
  have hi := getElem?_lt_of_some _ _ _ hn
  by_cases hr : u.replace = true
  · refine ⟨{ st with arena := st.arena.set i { n with data := u.data.map (·.1), settings := newSettings u.settings true n.settings } }, ?_, rfl, rfl, ?_, ?_, ?_⟩
    · simp [updateNode, href, hn, hr]
    · simp
    · intro j hj
      simp [Ne.symm hj]
    · simp [hi, hr]
  · have hr' : u.replace = false := by simpa using hr
    rcases hmode with h | ⟨hl, htok⟩
    · exact absurd h hr
    · have hm := mergeData_eq_spec u n.data hl htok
      refine ⟨{ st with arena := st.arena.set i { n with data := mergeSpec u.data n.data, settings := newSettings u.settings false n.settings } }, ?_, rfl, rfl, ?_, ?_, ?_⟩
      · simp [updateNode, href, hn, hr', hm]
      · simp
      · intro j hj
        simp [Ne.symm hj]
      · simp [hi, hr']

/-! ### tokens -/

/-- a non-empty string without whitespace: what `split()` returns -/
def IsTok (k : Str) : Prop := k ≠ [] ∧ ∀ c ∈ k, isWs c = false

theorem splitWsGo_tok_prefix (k rest acc : Str) (hk : ∀ c ∈ k, isWs c = false) :
    splitWsGo (k ++ rest) acc = splitWsGo rest (k.reverse ++ acc) := by
  induction k generalizing acc with
  | nil => simp
  | cons c t ih =>
    have hc : isWs c = false := hk c List.mem_cons_self
    have ht : ∀ c ∈ t, isWs c = false := fun x hx => hk x (List.mem_cons_of_mem _ hx)
    simp [splitWsGo, hc, ih (c :: acc) ht]

theorem firstTok_tok_space (k x : Str) (h : IsTok k) : firstTok (k ++ [' '] ++ x) = some k := by
  obtain ⟨hne, hws⟩ := h
  have : splitWsGo (k ++ ' ' :: x) [] = splitWsGo (' ' :: x) (k.reverse ++ []) :=
    splitWsGo_tok_prefix k _ [] hws
  have hr : k.reverse ≠ [] := by simpa using hne
  have hsp : isWs ' ' = true := by decide
  simp only [firstTok, splitWs, List.append_assoc, List.singleton_append, this]
  simp [splitWsGo, hsp, hr]

theorem firstTok_tok (k : Str) (h : IsTok k) : firstTok k = some k := by
  obtain ⟨hne, hws⟩ := h
  have : splitWsGo (k ++ []) [] = splitWsGo [] (k.reverse ++ []) := splitWsGo_tok_prefix k _ [] hws
  have hr : k.reverse ≠ [] := by simpa using hne
  simp at this
  simp [firstTok, splitWs, this, splitWsGo, hr]

theorem splitWsGo_all_tok (s acc : Str) (hacc : ∀ c ∈ acc, isWs c = false) :
    ∀ t ∈ splitWsGo s acc, IsTok t := by
  induction s generalizing acc with
  | nil =>
    intro t ht
    by_cases ha : acc = []
    · simp [splitWsGo, ha] at ht
    · simp only [splitWsGo, ha, if_false, List.mem_singleton] at ht
      subst ht
      exact ⟨by simpa using ha, by simpa using hacc⟩
  | cons c r ih =>
    intro t ht
    by_cases hc : isWs c = true
    · by_cases ha : acc = []
      · simp only [splitWsGo, hc, ha, if_true] at ht
        exact ih [] (by simp) t ht
      · simp only [splitWsGo, hc, ha, if_true, if_false, List.mem_cons] at ht
        rcases ht with ht | ht
        · subst ht
          exact ⟨by simpa using ha, by simpa using hacc⟩
        · exact ih [] (by simp) t ht
    · have hc' : isWs c = false := by simpa using hc
      simp only [splitWsGo, hc', Bool.false_eq_true, if_false] at ht
      refine ih (c :: acc) ?_ t ht
      intro x hx
      rcases List.mem_cons.mp hx with hx | hx
      · subst hx; exact hc'
      · exact hacc x hx

theorem firstTok_isTok (l key : Str) (h : firstTok l = some key) : IsTok key := by
  unfold firstTok splitWs at h
  have hmem : key ∈ splitWsGo l [] := List.mem_of_mem_head? h
  exact splitWsGo_all_tok l [] (by simp) key hmem


/-! ### idempotence of the merge law -/

/-- the guard on an update's `data` under which a second merge changes nothing:
    a real dict (distinct keys) whose keys are single tokens (non-empty, no whitespace) -/
structure DataOk (data : List (Str × Option Str)) : Prop where
  nodup : (data.map (·.1)).Nodup
  tok : ∀ kv ∈ data, IsTok kv.1

theorem firstTok_fmtEntry (kv : Str × Option Str) (htok : IsTok kv.1) : firstTok (fmtEntry kv) = some kv.1 := by
  obtain ⟨k, v⟩ := kv
  cases v with
  | none => simpa [fmtEntry] using firstTok_tok k htok
  | some x => simpa [fmtEntry] using firstTok_tok_space k x htok

theorem firstTok_rewriteLine (data : List (Str × Option Str)) (l : Str) :
    firstTok (rewriteLine data l) = firstTok l := by
  cases hk : firstTok l with
  | none => simp [rewriteLine, hk]
  | some key =>
    cases hd : dget key data with
    | none => simp [rewriteLine, hk, hd]
    | some v =>
      have e : rewriteLine data l = fmtEntry (key, v) := by simp [rewriteLine, hk, hd]
      rw [e]
      exact firstTok_fmtEntry (key, v) (firstTok_isTok l key hk)

theorem rewriteLine_idem (data : List (Str × Option Str)) (l : Str) :
    rewriteLine data (rewriteLine data l) = rewriteLine data l := by
  cases hk : firstTok l with
  | none =>
    have : rewriteLine data l = l := by simp [rewriteLine, hk]
    rw [this, this]
  | some key =>
    cases hd : dget key data with
    | none =>
      have : rewriteLine data l = l := by simp [rewriteLine, hk, hd]
      rw [this, this]
    | some v =>
      have e : rewriteLine data l = fmtEntry (key, v) := by simp [rewriteLine, hk, hd]
      have h2 := firstTok_fmtEntry (key, v) (firstTok_isTok l key hk)
      rw [e]
      simp only [rewriteLine, h2, hd]

theorem rewriteLine_fmtEntry (data : List (Str × Option Str)) (kv : Str × Option Str) (hmem : kv ∈ data)
    (hok : DataOk data) : rewriteLine data (fmtEntry kv) = fmtEntry kv := by
  have hk := firstTok_fmtEntry kv (hok.tok kv hmem)
  obtain ⟨k, v⟩ := kv
  have hd := dget_of_mem_nodup k v data hmem hok.nodup
  unfold rewriteLine
  simp only [hk, hd]

theorem lineKeys_append (a b : List Str) : lineKeys (a ++ b) = lineKeys a ++ lineKeys b := by
  simp [lineKeys]

theorem lineKeys_map_rewrite (data : List (Str × Option Str)) (old : List Str) :
    lineKeys (old.map (rewriteLine data)) = lineKeys old := by
  induction old with
  | nil => rfl
  | cons l t ih =>
    simp only [lineKeys, List.map_cons, List.filterMap_cons, firstTok_rewriteLine] at ih ⊢
    rw [ih]

theorem lineKeys_map_fmt (data app : List (Str × Option Str)) (hsub : ∀ kv ∈ app, kv ∈ data) (hok : DataOk data) :
    lineKeys (app.map fmtEntry) = app.map (·.1) := by
  induction app with
  | nil => rfl
  | cons kv t ih =>
    have hk := firstTok_fmtEntry kv (hok.tok kv (hsub kv List.mem_cons_self))
    have ih' := ih (fun x hx => hsub x (List.mem_cons_of_mem _ hx))
    simp only [lineKeys, List.map_cons, List.filterMap_cons, hk] at ih' ⊢
    rw [ih']

theorem mergeSpec_idem (data : List (Str × Option Str)) (old : List Str) (hok : DataOk data) :
    mergeSpec data (mergeSpec data old) = mergeSpec data old := by
  have happ : ∀ kv ∈ data.filter (fun kv => decide (kv.1 ∉ lineKeys old)), kv ∈ data :=
    fun kv h => (List.mem_filter.mp h).1
  have hkeys : lineKeys (mergeSpec data old) =
      lineKeys old ++ (data.filter (fun kv => decide (kv.1 ∉ lineKeys old))).map (·.1) := by
    unfold mergeSpec
    rw [lineKeys_append, lineKeys_map_rewrite, lineKeys_map_fmt data _ happ hok]
  have hnil : data.filter (fun kv => decide (kv.1 ∉ lineKeys (mergeSpec data old))) = [] := by
    rw [List.filter_eq_nil_iff]
    intro kv hkv
    rw [hkeys]
    simp only [decide_eq_true_eq, Decidable.not_not, List.mem_append]
    by_cases h : kv.1 ∈ lineKeys old
    · exact Or.inl h
    · have h1 : kv ∈ data.filter (fun kv => decide (kv.1 ∉ lineKeys old)) := by
        simp [List.mem_filter, hkv, h]
      exact Or.inr (List.mem_map.mpr ⟨kv, h1, rfl⟩)
  rw [show mergeSpec data (mergeSpec data old) = (mergeSpec data old).map (rewriteLine data) ++
      (data.filter (fun kv => decide (kv.1 ∉ lineKeys (mergeSpec data old)))).map fmtEntry from rfl]
  rw [hnil]
  simp only [List.map_nil, List.append_nil]
  unfold mergeSpec
  rw [List.map_append, List.map_map]
  congr 1
  · apply List.map_congr_left
    intro l _
    exact rewriteLine_idem data l
  · rw [List.map_map]
    apply List.map_congr_left
    intro kv hkv
    exact rewriteLine_fmtEntry data kv (happ kv hkv) hok


theorem mergeSpec_tok (data : List (Str × Option Str)) (old : List Str) (hok : DataOk data)
    (htok : ∀ l ∈ old, (firstTok l).isSome = true) : ∀ l ∈ mergeSpec data old, (firstTok l).isSome = true := by
  intro l hl
  unfold mergeSpec at hl
  rcases List.mem_append.mp hl with h | h
  · obtain ⟨l0, hl0, e⟩ := List.mem_map.mp h
    subst e
    rw [firstTok_rewriteLine]
    exact htok l0 hl0
  · obtain ⟨kv, hkv, e⟩ := List.mem_map.mp h
    subst e
    rw [firstTok_fmtEntry kv (hok.tok kv (List.mem_filter.mp hkv).1)]
    rfl

/-! ### Theorem 3: idempotence of an update of a present target -/

theorem newSettings_idem (req : Option (List Str)) (r : Bool) (old : List Str) :
    newSettings req r (newSettings req r old) = newSettings req r old := by
  cases req with
  | none => rfl
  | some s =>
    cases r with
    | true => simp [newSettings]
    | false =>
      simp only [newSettings, Bool.false_eq_true, if_false]
      have : s.filter (fun x => decide (x ∉ old ++ s.filter (fun x => decide (x ∉ old)))) = [] := by
        rw [List.filter_eq_nil_iff]
        intro x hx
        simp only [decide_eq_true_eq, Decidable.not_not, List.mem_append, List.mem_filter]
        by_cases h : x ∈ old
        · exact Or.inl h
        · exact Or.inr ⟨hx, h⟩
      rw [this]; simp

/-- list data in merge mode: the first loop succeeds only if no line starts with an element of the list,
    and then leaves every line alone -/
theorem mergeOld_list (data : List (Str × Option Str)) (old : List Str) (r : List Str × List Str)
    (h : mergeOld data true old = .ok r) : r = (old, []) := by
  induction old generalizing r with
  | nil => simp [mergeOld] at h; exact h.symm
  | cons l t ih =>
    unfold mergeOld at h
    cases hk : firstTok l with
    | none => simp [hk] at h
    | some key =>
      simp only [hk] at h
      cases hd : dget key data with
      | some v => simp [hd] at h
      | none =>
        simp only [hd] at h
        cases hm : mergeOld data true t with
        | error e => simp [hm] at h
        | ok r' =>
          have := ih r' hm
          subst this
          simp [hm] at h
          exact h.symm

/-- list data in merge mode succeeds only for the empty list, and changes nothing -/
theorem mergeData_list (u : Upd) (old nd : List Str) (hl : u.isList = true) (h : mergeData u old = .ok nd) :
    nd = old := by
  unfold mergeData at h
  rw [hl] at h
  cases hm : mergeOld u.data true old with
  | error e => simp [hm] at h
  | ok r =>
    have := mergeOld_list _ _ _ hm
    subst this
    simp only [hm] at h
    cases hdta : u.data with
    | nil => simp [hdta, mergeNew] at h; exact h.symm
    | cons kv t => obtain ⟨k, v⟩ := kv; simp [hdta, mergeNew] at h

/-- Theorem 3 (FULL for present targets, code after fix 6e4f7f3): a second application of the same update
    entry to a present target returns the same state.  Settings may be absent, empty or non-empty (the filter
    of the second application is empty), `None` values are allowed (the bare key line is found again by its
    first token and rewritten to the bare key).  Remaining guard: in merge mode with dict data, the dict has
    distinct keys that are non-empty whitespace-free tokens (`DataOk`); nothing is required in replace
    mode or for list data. -/
theorem cp2k_edit_idempotent (u : Upd) (st st1 : St) (i : Nat)
    (href : dget u.target st.ref = some i)
    (h1 : updateNode u st = .ok st1)
    (hg : u.replace = true ∨ u.isList = true ∨ DataOk u.data) :
    updateNode u st1 = .ok st1 := by
  unfold updateNode at h1
  simp only [href] at h1
  cases hn : st.arena[i]? with
  | none => simp [hn] at h1
  | some n =>
    have hi := getElem?_lt_of_some _ _ _ hn
    simp only [hn] at h1
    by_cases hr : u.replace = true
    · simp only [hr, if_true] at h1
      injection h1 with h1
      subst h1
      simp [updateNode, href, hi, hr, newSettings_idem]
    · have hr' : u.replace = false := by simpa using hr
      simp only [hr', Bool.false_eq_true, if_false] at h1
      cases hm : mergeData u n.data with
      | error e => simp [hm] at h1
      | ok nd =>
        simp only [hm] at h1
        injection h1 with h1
        subst h1
        by_cases hl : u.isList = true
        · have hnd := mergeData_list u n.data nd hl hm
          subst hnd
          simp [updateNode, href, hi, hr', hm, newSettings_idem]
        · have hl' : u.isList = false := by simpa using hl
          have hok : DataOk u.data := by
            rcases hg with h | h | h
            · exact absurd h hr
            · exact absurd h hl
            · exact h
          have htok : ∀ l ∈ n.data, (firstTok l).isSome = true := by
            unfold mergeData at hm
            cases hmo : mergeOld u.data u.isList n.data with
            | error e => simp [hmo] at hm
            | ok r => exact mergeOld_ok_tok _ _ _ r hmo
          have hnd : nd = mergeSpec u.data n.data := by
            have := mergeData_eq_spec u n.data hl' htok
            rw [hm] at this
            injection this
          have h2 := mergeData_eq_spec u (mergeSpec u.data n.data) hl' (mergeSpec_tok _ _ hok htok)
          rw [mergeSpec_idem _ _ hok] at h2
          subst hnd
          simp [updateNode, href, hi, hr', h2, newSettings_idem]

/-! ### Theorem 2b: an update of an ABSENT target only adds nodes -/

theorem join_append_singleton (sep : Str) (xs : List Str) (t : Str) (h : xs ≠ []) :
    join sep (xs ++ [t]) = join sep xs ++ sep ++ t := by
  induction xs with
  | nil => exact absurd rfl h
  | cons a r ih =>
    cases r with
    | nil => simp [join]
    | cons b r' =>
      have := ih (by simp)
      simp only [List.cons_append] at this ⊢
      simp only [join, this, List.append_assoc]

/-- every key of `node_ref` points into the arena -/
def RefOk (st : St) : Prop := ∀ k v, dget k st.ref = some v → v < st.arena.length

/-- `st'` extends `st`: nothing that existed changed its title / settings / data / parent / level, children
    lists and the root list only grew at the end, every key keeps its node -/
structure Ext (st st' : St) : Prop where
  len : st.arena.length ≤ st'.arena.length
  nodes : ∀ (j : Nat) (a : Node), st.arena[j]? = some a → ∃ b : Node, st'.arena[j]? = some b ∧ b.title = a.title ∧
    b.settings = a.settings ∧ b.data = a.data ∧ b.parent = a.parent ∧ b.level = a.level ∧ a.children <+: b.children
  roots : st.roots <+: st'.roots
  ref : ∀ k v, dget k st.ref = some v → dget k st'.ref = some v

theorem Ext.refl (st : St) : Ext st st :=
  ⟨Nat.le_refl _, fun _ a h => ⟨a, h, rfl, rfl, rfl, rfl, rfl, List.prefix_refl _⟩, List.prefix_refl _, fun _ _ h => h⟩

theorem Ext.trans {a b c : St} (h1 : Ext a b) (h2 : Ext b c) : Ext a c := by
  refine ⟨Nat.le_trans h1.len h2.len, ?_, List.IsPrefix.trans h1.roots h2.roots, fun k v h => h2.ref k v (h1.ref k v h)⟩
  intro j x hx
  obtain ⟨y, hy, e1, e2, e3, e4, e5, e6⟩ := h1.nodes j x hx
  obtain ⟨z, hz, f1, f2, f3, f4, f5, f6⟩ := h2.nodes j y hy
  exact ⟨z, hz, f1.trans e1, f2.trans e2, f3.trans e3, f4.trans e4, f5.trans e5, List.IsPrefix.trans e6 f6⟩

/-- appending a new root node under a fresh key -/
theorem ext_root (st : St) (nn : Node) (key : Str) (habs : dget key st.ref = none) :
    Ext st { arena := st.arena ++ [nn], roots := st.roots ++ [st.arena.length], ref := dset key st.arena.length st.ref } := by
  refine ⟨by simp, ?_, List.prefix_append _ _, ?_⟩
  · intro j a h
    have hj := getElem?_lt_of_some _ _ _ h
    exact ⟨a, by simp [List.getElem?_append_left hj, h], rfl, rfl, rfl, rfl, rfl, List.prefix_refl _⟩
  · intro k v h
    rw [dget_dset]
    by_cases e : key = k
    · subst e; rw [habs] at h; cases h
    · simp [e, h]

/-- appending a new child of `pi` under a fresh key -/
theorem ext_child (st : St) (pi : Nat) (pn nn : Node) (key : Str) (hp : st.arena[pi]? = some pn)
    (habs : dget key st.ref = none) :
    Ext st { arena := (st.arena.set pi { pn with children := pn.children ++ [st.arena.length] }) ++ [nn],
             roots := st.roots, ref := dset key st.arena.length st.ref } := by
  refine ⟨by simp, ?_, List.prefix_refl _, ?_⟩
  · intro j a h
    have hj := getElem?_lt_of_some _ _ _ h
    have hj' : j < (st.arena.set pi { pn with children := pn.children ++ [st.arena.length] }).length := by simpa using hj
    by_cases e : pi = j
    · subst e
      rw [hp] at h; injection h with h; subst h
      refine ⟨{ pn with children := pn.children ++ [st.arena.length] }, ?_, rfl, rfl, rfl, rfl, rfl, List.prefix_append _ _⟩
      simp [List.getElem?_append_left hj', hj]
    · refine ⟨a, ?_, rfl, rfl, rfl, rfl, rfl, List.prefix_refl _⟩
      simp [List.getElem?_append_left hj', e, h]
  · intro k v h
    rw [dget_dset]
    by_cases e : key = k
    · subst e; rw [habs] at h; cases h
    · simp [e, h]

theorem refOk_dset (st : St) (arena' : List Node) (roots' : List Nat) (key : Str)
    (hwf : RefOk st) (hlen : arena'.length = st.arena.length + 1) :
    RefOk { arena := arena', roots := roots', ref := dset key st.arena.length st.ref } := by
  intro k v h
  simp only at h ⊢
  rw [dget_dset] at h
  by_cases e : key = k
  · simp [e] at h; omega
  · simp only [e, if_false] at h
    have := hwf k v h
    omega

/-- `_add_node` never fails on a well-formed state whose `node_ref` lacks the target; it only extends the
    state, and the last arena entry is the requested node, registered under the target key. -/
theorem addNode_spec : ∀ (segs : List Str) (s d : List Str) (st : St), segs ≠ [] → RefOk st →
    dget (join arrow segs.reverse) st.ref = none →
    ∃ st', addNode segs s d st = .ok st' ∧ RefOk st' ∧ Ext st st' ∧ st.arena.length < st'.arena.length ∧
      (∀ k, (join arrow segs.reverse).length < k.length → dget k st'.ref = dget k st.ref) ∧
      ∃ nn, st'.arena[st'.arena.length - 1]? = some nn ∧
        dget (join arrow segs.reverse) st'.ref = some (st'.arena.length - 1) ∧
        segs.head? = some nn.title ∧ nn.settings = s ∧ nn.data = d ∧ nn.children = [] := by
  intro segs
  induction segs with
  | nil => intro s d st h; exact absurd rfl h
  | cons t rest ih =>
    intro s d st _ hwf habs
    cases rest with
    | nil =>
      simp only [List.reverse_cons, List.reverse_nil, List.nil_append, join] at habs ⊢
      refine ⟨_, rfl, refOk_dset st _ _ t hwf (by simp), ext_root st _ t habs, by simp, ?_, ?_⟩
      · intro k hk
        rw [dget_dset]
        have : ¬ t = k := by intro e; subst e; omega
        simp [this]
      · refine ⟨newNode t none s d 0, by simp, ?_, rfl, rfl, rfl, rfl⟩
        simp [dget_dset]
    | cons p ps =>
      have hjoin : join arrow (t :: p :: ps).reverse = join arrow (p :: ps).reverse ++ arrow ++ t := by
        have : (t :: p :: ps).reverse = (p :: ps).reverse ++ [t] := by simp
        rw [this]
        exact join_append_singleton arrow _ t (by simp)
      have hlen : (join arrow (p :: ps).reverse).length < (join arrow (t :: p :: ps).reverse).length := by
        rw [hjoin]; simp [arrow]
      -- the state after the (possible) creation of the parent
      have hst1 : ∃ st1 pi, (if (dget (join arrow (p :: ps).reverse) st.ref).isNone then addNode (p :: ps) [] [] st else .ok st) = .ok st1 ∧
          RefOk st1 ∧ Ext st st1 ∧ dget (join arrow (p :: ps).reverse) st1.ref = some pi ∧
          dget (join arrow (t :: p :: ps).reverse) st1.ref = none ∧
          (∀ k, (join arrow (t :: p :: ps).reverse).length < k.length → dget k st1.ref = dget k st.ref) := by
        cases hpar : dget (join arrow (p :: ps).reverse) st.ref with
        | none =>
          obtain ⟨st1, h1, hwf1, hext1, _, hkeys1, nn, _, hnn, _⟩ := ih [] [] st (by simp) hwf hpar
          refine ⟨st1, st1.arena.length - 1, by simpa using h1, hwf1, hext1, hnn, ?_, ?_⟩
          · rw [hkeys1 _ hlen]; exact habs
          · intro k hk; exact hkeys1 k (Nat.lt_trans hlen hk)
        | some pi =>
          exact ⟨st, pi, by simp, hwf, Ext.refl st, hpar, habs, fun _ _ => rfl⟩
      obtain ⟨st1, pi, h1, hwf1, hext1, hpar1, habs1, hkeys1⟩ := hst1
      have hpi := hwf1 _ _ hpar1
      obtain ⟨pn, hpn⟩ : ∃ pn, st1.arena[pi]? = some pn := ⟨st1.arena[pi], by simp [hpi]⟩
      refine ⟨_, ?_, ?_, Ext.trans hext1 (ext_child st1 pi pn (newNode t (some pi) s d (pn.level + 1)) _ hpn habs1), ?_, ?_, ?_⟩
      · simp only [addNode, h1, hpar1, hpn]
      · exact refOk_dset st1 _ _ _ hwf1 (by simp)
      · have := hext1.len
        simp; omega
      · intro k hk
        simp only
        rw [dget_dset]
        have : ¬ join arrow (t :: p :: ps).reverse = k := by intro e; subst e; omega
        simp only [this, if_false]
        exact hkeys1 k hk
      · refine ⟨newNode t (some pi) s d (pn.level + 1), by simp, ?_, rfl, rfl, rfl, rfl⟩
        simp [dget_dset]


theorem join_cons_ne_nil (sep a : Str) (rest : List Str) (h : rest ≠ []) :
    join sep (a :: rest) = a ++ sep ++ join sep rest := by
  cases rest with
  | nil => exact absurd rfl h
  | cons b r => simp [join]

theorem splitArrowGo_ne_nil (s acc : Str) (dash : Bool) : splitArrowGo s acc dash ≠ [] := by
  induction s generalizing acc dash with
  | nil => simp [splitArrowGo]
  | cons c t ih =>
    unfold splitArrowGo
    split
    · split
      · simp
      · split <;> exact ih _ _
    · split <;> exact ih _ _

/-- `"->".join(s.split("->")) == s` -/
theorem join_splitArrowGo (s acc : Str) (dash : Bool) :
    join arrow (splitArrowGo s acc dash) = acc.reverse ++ (if dash then ['-'] else []) ++ s := by
  induction s generalizing acc dash with
  | nil => cases dash <;> simp [splitArrowGo, join]
  | cons c t ih =>
    unfold splitArrowGo
    cases dash with
    | true =>
      simp only [if_true]
      by_cases h1 : c = '>'
      · subst h1
        simp only [if_true]
        rw [join_cons_ne_nil _ _ _ (splitArrowGo_ne_nil _ _ _), ih]
        simp [arrow]
      · by_cases h2 : c = '-'
        · subst h2
          simp only [h1, if_false, if_true]
          rw [ih]; simp
        · simp only [h1, h2, if_false]
          rw [ih]; simp
    | false =>
      simp only [Bool.false_eq_true, if_false]
      by_cases h2 : c = '-'
      · subst h2
        simp only [if_true]
        rw [ih]; simp
      · simp only [h2, if_false]
        rw [ih]; simp

theorem join_splitArrow (s : Str) : join arrow (splitArrow s) = s := by
  simp [splitArrow, join_splitArrowGo]

/-- Theorem 2b (code after fix 6e4f7f3).  An update whose target is not a key of `node_ref` never fails on a
    well-formed state; the new state extends the old one (`Ext`: no existing node's title / settings / data /
    parent / level changes, children lists and roots only grow, keys keep their nodes), at least one node is
    added, and the last node is the requested one: registered under the target, titled with the last
    segment, carrying the requested settings (`[]` when none were requested) and, as data, the formatted
    entries of the requested dict — `KEY value`, or the bare `KEY` for a `None` value (list data: the lines). -/
theorem cp2k_edit_exact_absent (u : Upd) (st : St) (hwf : RefOk st) (habs : dget u.target st.ref = none) :
    ∃ st', updateNode u st = .ok st' ∧ RefOk st' ∧ Ext st st' ∧ st.arena.length < st'.arena.length ∧
      ∃ nn, st'.arena[st'.arena.length - 1]? = some nn ∧ dget u.target st'.ref = some (st'.arena.length - 1) ∧
        (splitArrow u.target).getLast? = some nn.title ∧ nn.settings = u.settings.getD [] ∧
        nn.data = u.data.map fmtEntry ∧ nn.children = [] := by
  have hne : (splitArrow u.target).reverse ≠ [] := by
    simpa [splitArrow] using splitArrowGo_ne_nil u.target [] false
  have hkey : join arrow (splitArrow u.target).reverse.reverse = u.target := by
    rw [List.reverse_reverse, join_splitArrow]
  obtain ⟨st', h1, hwf', hext, hlt, _, nn, hnn, hget, hhead, hs, hd, hc⟩ :=
    addNode_spec (splitArrow u.target).reverse (u.settings.getD []) (u.data.map fmtEntry) st hne hwf (by rw [hkey]; exact habs)
  refine ⟨st', by simp [updateNode, habs, h1], hwf', hext, hlt, nn, hnn, by rw [hkey] at hget; exact hget, ?_, hs, hd, hc⟩
  rw [← hhead, List.head?_reverse]

/-- merging a dict into the lines `_format_data` made of it changes nothing -/
theorem mergeSpec_formatted (data : List (Str × Option Str)) (hok : DataOk data) :
    mergeSpec data (data.map fmtEntry) = data.map fmtEntry := by
  have hkeys : lineKeys (data.map fmtEntry) = data.map (·.1) := lineKeys_map_fmt data data (fun _ h => h) hok
  have hnil : data.filter (fun kv => decide (kv.1 ∉ lineKeys (data.map fmtEntry))) = [] := by
    rw [List.filter_eq_nil_iff]
    intro kv hkv
    rw [hkeys]
    simp only [decide_eq_true_eq, Decidable.not_not]
    exact List.mem_map.mpr ⟨kv, hkv, rfl⟩
  unfold mergeSpec
  rw [hnil, List.map_map]
  simp only [List.map_nil, List.append_nil]
  apply List.map_congr_left
  intro kv hkv
  exact rewriteLine_fmtEntry data kv hkv hok

theorem newSettings_getD (req : Option (List Str)) : newSettings req false (req.getD []) = req.getD [] := by
  cases req with
  | none => rfl
  | some s =>
    simp only [newSettings, Bool.false_eq_true, if_false, Option.getD_some]
    have : s.filter (fun x => decide (x ∉ s)) = [] := by
      rw [List.filter_eq_nil_iff]; intro x hx; simpa using hx
    rw [this]; simp

theorem St.ext' (a b : St) (h1 : a.arena = b.arena) (h2 : a.roots = b.roots) (h3 : a.ref = b.ref) : a = b := by
  cases a; cases b; simp_all

/-- Theorem 3, absent → present (the second half of the former finding new-section-drops-values): after an
    update has CREATED its target from dict data, applying the same entry again (now a merge into the
    present section) returns the same state.  Guards: merge mode (`replace = false`; with `replace = true`
    the second application stores the dict KEYS only — "data is already formatted" — which differs from the
    created `KEY value` lines), dict data with distinct token keys. -/
theorem cp2k_edit_idempotent_absent (u : Upd) (st st1 : St) (hwf : RefOk st) (habs : dget u.target st.ref = none)
    (hr : u.replace = false) (hl : u.isList = false) (hok : DataOk u.data)
    (h1 : updateNode u st = .ok st1) : updateNode u st1 = .ok st1 := by
  obtain ⟨st', h1', _, _, _, nn, hnn, hget, _, hs, hd, _⟩ := cp2k_edit_exact_absent u st hwf habs
  rw [h1] at h1'
  injection h1' with h1'
  subst h1'
  have htok : ∀ l ∈ nn.data, (firstTok l).isSome = true := by
    intro l hlm
    rw [hd] at hlm
    obtain ⟨kv, hkv, e⟩ := List.mem_map.mp hlm
    subst e
    rw [firstTok_fmtEntry kv (hok.tok kv hkv)]
    rfl
  obtain ⟨st2, h2, hroots, href, hlen, hoth, hent⟩ :=
    cp2k_edit_exact_present u st1 (st1.arena.length - 1) nn hget hnn (Or.inr ⟨hl, htok⟩)
  have hnode : ({ nn with data := if u.replace then u.data.map (·.1) else mergeSpec u.data nn.data,
                          settings := newSettings u.settings u.replace nn.settings } : Node) = nn := by
    rw [hr, hd, hs, mergeSpec_formatted u.data hok, newSettings_getD]
    simp only [Bool.false_eq_true, if_false]
    rw [← hd, ← hs]
  rw [hnode] at hent
  rw [h2]
  congr 1
  apply St.ext' _ _ _ hroots href
  apply List.ext_getElem?
  intro j
  by_cases hj : j = st1.arena.length - 1
  · subst hj; rw [hent, hnn]
  · exact hoth j hj

/-! ### removal -/

theorem dpop_absent {α : Type} (k : Str) (r : List (Str × α)) (h : dget k r = none) : dpop k r = r := by
  induction r with
  | nil => rfl
  | cons kv t ih =>
    obtain ⟨k2, v2⟩ := kv
    by_cases h2 : k2 = k
    · simp [dget, h2] at h
    · simp only [dget, h2, if_false] at h
      simp [dpop, h2, ih h]

theorem dget_dpop_self {α : Type} (k : Str) (r : List (Str × α)) (hn : (r.map (·.1)).Nodup) :
    dget k (dpop k r) = none := by
  induction r with
  | nil => rfl
  | cons kv t ih =>
    obtain ⟨k2, v2⟩ := kv
    simp only [List.map_cons, List.nodup_cons] at hn
    by_cases h2 : k2 = k
    · subst h2
      simp only [dpop, if_true]
      cases hd : dget k2 t with
      | none => rfl
      | some v =>
        exfalso
        have : k2 ∈ t.map (·.1) := by
          clear ih hn
          induction t with
          | nil => simp [dget] at hd
          | cons kv' t' ih' =>
            obtain ⟨k3, v3⟩ := kv'
            by_cases h3 : k3 = k2
            · simp [h3]
            · simp only [dget, h3, if_false] at hd
              simp [ih' hd]
        exact hn.1 this
    · simp [dpop, dget, h2, ih hn.2]

/-- `remove_node` drops exactly ONE key of `node_ref` — the target's own.  The keys of the removed
    section's descendants stay (the code's final loop pops node objects, not keys). -/
theorem removeNode_ref (target : Str) (st st' : St) (h : removeNode target st = .ok st') :
    st'.ref = dpop target st.ref := by
  unfold removeNode at h
  cases hd : dget target st.ref with
  | none =>
    simp only [hd] at h
    injection h with h; subst h
    exact (dpop_absent _ _ hd).symm
  | some i =>
    simp only [hd] at h
    cases hn : st.arena[i]? with
    | none => simp [hn] at h
    | some n =>
      simp only [hn] at h
      cases hp : n.parent with
      | none =>
        simp only [hp] at h
        split at h
        · injection h with h; subst h; rfl
        · cases h
      | some p =>
        simp only [hp] at h
        cases hpn : st.arena[p]? with
        | none => simp [hpn] at h
        | some pn =>
          simp only [hpn] at h
          split at h
          · injection h with h; subst h; rfl
          · cases h

/-- removal is idempotent (on a `node_ref` with distinct keys, as every Python dict has) -/
theorem cp2k_remove_idempotent (target : Str) (st st' : St) (hn : (st.ref.map (·.1)).Nodup)
    (h : removeNode target st = .ok st') : removeNode target st' = .ok st' := by
  have hr := removeNode_ref target st st' h
  have : dget target st'.ref = none := by rw [hr]; exact dget_dpop_self target st.ref hn
  simp [removeNode, this]

/-! ### Theorem 4: the duplicate-title disambiguation of `set_parents` -/

theorem dget_dset_ne {α : Type} (k k' : Str) (v : α) (r : List (Str × α)) (h : k' ≠ k) :
    dget k (dset k' v r) = dget k r := by rw [dget_dset, if_neg h]

theorem dget_dset_self {α : Type} (k : Str) (v : α) (r : List (Str × α)) :
    dget k (dset k v r) = some v := by rw [dget_dset, if_pos rfl]

theorem suffixed_ne (P x : Str) : P ++ arrow ++ x ≠ P := by
  intro e
  have := congrArg List.length e
  simp [arrow] at this

theorem suffixed_inj (P x y : Str) (h : x ≠ y) : P ++ arrow ++ x ≠ P ++ arrow ++ y := by
  intro e
  exact h (List.append_cancel_left e)

theorem register_fresh (arena : List Node) (ref : List (Str × Nat)) (a : Nat)
    (habs : dget (pathKey arena a) ref = none) : register arena ref a = dset (pathKey arena a) a ref := by
  simp [register, habs]

theorem register_second (arena : List Node) (ref : List (Str × Nat)) (a b : Nat)
    (hp : pathKey arena b = pathKey arena a) (habs : dget (pathKey arena a) ref = none) :
    register arena (dset (pathKey arena a) a ref) b =
      dset (pathKey arena a ++ arrow ++ settingsKey arena b) b
        (dset (pathKey arena a ++ arrow ++ settingsKey arena a) a ref) := by
  simp only [register, hp, dget_dset_self, dpop_dset_absent _ _ _ habs]

/-- Two nodes with the same title path and different settings: both end up under their suffixed key. -/
theorem register_pair (arena : List Node) (ref : List (Str × Nat)) (a b : Nat)
    (hp : pathKey arena b = pathKey arena a) (habs : dget (pathKey arena a) ref = none)
    (hs : settingsKey arena a ≠ settingsKey arena b) :
    dget (pathKey arena a ++ arrow ++ settingsKey arena a) (register arena (register arena ref a) b) = some a ∧
    dget (pathKey arena a ++ arrow ++ settingsKey arena b) (register arena (register arena ref a) b) = some b ∧
    dget (pathKey arena a) (register arena (register arena ref a) b) = none := by
  rw [register_fresh arena ref a habs, register_second arena ref a b hp habs]
  refine ⟨?_, ?_, ?_⟩
  · rw [dget_dset_ne _ _ _ _ (suffixed_inj _ _ _ (Ne.symm hs)), dget_dset_self]
  · rw [dget_dset_self]
  · rw [dget_dset_ne _ _ _ _ (suffixed_ne _ _), dget_dset_ne _ _ _ _ (suffixed_ne _ _), habs]

/-- The defect, for ANY arena: a THIRD node with the same title path is registered under the bare path again,
    and its own suffixed key does not exist — an update addressed to `path->settings` of that node does not
    find it (and `update_node` then creates a new child section instead). -/
theorem register_third_bare (arena : List Node) (ref : List (Str × Nat)) (a b c : Nat)
    (hpb : pathKey arena b = pathKey arena a) (hpc : pathKey arena c = pathKey arena a)
    (habs : dget (pathKey arena a) ref = none)
    (habs3 : dget (pathKey arena a ++ arrow ++ settingsKey arena c) ref = none)
    (hca : settingsKey arena c ≠ settingsKey arena a) (hcb : settingsKey arena c ≠ settingsKey arena b) :
    dget (pathKey arena a) (register arena (register arena (register arena ref a) b) c) = some c ∧
    dget (pathKey arena a ++ arrow ++ settingsKey arena c)
      (register arena (register arena (register arena ref a) b) c) = none := by
  rw [register_fresh arena ref a habs, register_second arena ref a b hpb habs]
  have h3abs : dget (pathKey arena c) (dset (pathKey arena a ++ arrow ++ settingsKey arena b) b
        (dset (pathKey arena a ++ arrow ++ settingsKey arena a) a ref)) = none := by
    rw [hpc, dget_dset_ne _ _ _ _ (suffixed_ne _ _), dget_dset_ne _ _ _ _ (suffixed_ne _ _), habs]
  rw [register_fresh arena _ c h3abs, hpc]
  refine ⟨dget_dset_self _ _ _, ?_⟩
  rw [dget_dset_ne _ _ _ _ (Ne.symm (suffixed_ne _ _)), dget_dset_ne _ _ _ _ (suffixed_inj _ _ _ (Ne.symm hcb)),
    dget_dset_ne _ _ _ _ (suffixed_inj _ _ _ (Ne.symm hca)), habs3]


/-! ### concrete witnesses (kernel `decide`) and non-vacuity examples -/

deriving instance DecidableEq for Except

instance (k : Str) : Decidable (IsTok k) := inferInstanceAs (Decidable (k ≠ [] ∧ ∀ c ∈ k, isWs c = false))

theorem refOk_of_all (st : St) (h : st.ref.all (fun kv => decide (kv.2 < st.arena.length)) = true) : RefOk st := by
  intro k v hk
  generalize st.ref = r at h hk
  induction r with
  | nil => simp [dget] at hk
  | cons kv t ih =>
    obtain ⟨k2, v2⟩ := kv
    simp only [List.all_cons, Bool.and_eq_true, decide_eq_true_eq] at h
    by_cases e : k2 = k
    · simp [dget, e] at hk; omega
    · simp only [dget, e, if_false] at hk
      exact ih h.2 hk

/-- the template `&MOTION / &MD / STEPS 10` -/
def tplMD : Str := "&MOTION\n &MD\n  STEPS 10\n &END MD\n&END MOTION\n".toList

/-- the state `read` + `set_parents` give for `tplMD` -/
def stMD : St :=
  { arena := [ { title := "MOTION".toList, parent := none, settings := [], data := [], children := [1], level := 0 },
               { title := "MD".toList, parent := some 0, settings := [], data := ["STEPS 10".toList], children := [], level := 1 } ],
    roots := [0],
    ref := [("MOTION".toList, 0), ("MOTION->MD".toList, 1)] }

example : (readText tplMD).map RS.toSt = .ok stMD := by decide

/-- `{"MOTION->MD": {"settings": ["X"]}}` -/
def updSettings : Upd :=
  { target := "MOTION->MD".toList, settings := some ["X".toList], replace := false, data := [], isList := false }

/-- `{"MOTION->MD": {"data": {"FOO": None}}}` -/
def updNone : Upd :=
  { target := "MOTION->MD".toList, settings := none, replace := false, data := [("FOO".toList, none)], isList := false }

/-- `{"MOTION->PRINT->EACH": {"data": {"MD": "5"}}}` -/
def updEach : Upd :=
  { target := "MOTION->PRINT->EACH".toList, settings := none, replace := false,
    data := [("MD".toList, some "5".toList)], isList := false }

/-- `&A / &K Y / V 2`: a section with a parameter -/
def tplKY : Str := "&A\n&K Y\nV 2\n&END\n&END\n".toList

/-- `{"A->K": {"replace": True, "data": ["W 9"]}}` (no "settings" entry) -/
def updReplace : Upd :=
  { target := "A->K".toList, settings := none, replace := true, data := [("W 9".toList, none)], isList := true }

/-! #### the repaired behaviour (code after fix 6e4f7f3), text level -/

/-- settings are added once: `&MD X` after the first and after the second application -/
theorem cp2k_fixed_settings_once :
    updateInput tplMD [updSettings] [] = .ok "&MOTION\n  &MD X\n    STEPS 10\n  &END MD\n&END MOTION\n".toList ∧
    updateInput "&MOTION\n  &MD X\n    STEPS 10\n  &END MD\n&END MOTION\n".toList [updSettings] [] =
      .ok "&MOTION\n  &MD X\n    STEPS 10\n  &END MD\n&END MOTION\n".toList := by
  constructor <;> decide

/-- a `None` value gives the bare key on the first and on the second application -/
theorem cp2k_fixed_none_value :
    updateInput tplMD [updNone] [] = .ok "&MOTION\n  &MD\n    STEPS 10\n    FOO\n  &END MD\n&END MOTION\n".toList ∧
    updateInput "&MOTION\n  &MD\n    STEPS 10\n    FOO\n  &END MD\n&END MOTION\n".toList [updNone] [] =
      .ok "&MOTION\n  &MD\n    STEPS 10\n    FOO\n  &END MD\n&END MOTION\n".toList := by
  constructor <;> decide

/-- a created section keeps its values: `MD 5` -/
theorem cp2k_fixed_new_section_keeps_values :
    updateInput tplMD [updEach] [] =
      .ok "&MOTION\n  &MD\n    STEPS 10\n  &END MD\n  &PRINT\n    &EACH\n      MD 5\n    &END EACH\n  &END PRINT\n&END MOTION\n".toList := by
  decide

/-- replace without a "settings" entry leaves the section parameters alone: `&K Y` stays -/
theorem cp2k_fixed_replace_keeps_settings :
    updateInput tplKY [updReplace] [] = .ok "&A\n  &K Y\n    W 9\n  &END K\n&END A\n".toList := by
  decide

/-- `{"MOTION->PRINT->RESTART": {"data": {"BACKUP_COPIES": 0}}}` — the value travels as `str(0) = "0"` -/
def updZero : Upd :=
  { target := "MOTION->PRINT->RESTART".toList, settings := none, replace := false,
    data := [("BACKUP_COPIES".toList, some "0".toList)], isList := false }

/-- `{"MOTION->PRINT->RESTART": {"data": {"FILENAME": ""}}}` -/
def updEmpty : Upd :=
  { target := "MOTION->PRINT->RESTART".toList, settings := none, replace := false,
    data := [("FILENAME".toList, some [])], isList := false }

set_option maxRecDepth 4000 in
/-- a created section (with a created parent) keeps a zero value: `some "0"` is not `none` (`is None`, not
    truthiness) -/
theorem cp2k_created_section_keeps_zero :
    updateInput tplMD [updZero] [] =
      .ok "&MOTION\n  &MD\n    STEPS 10\n  &END MD\n  &PRINT\n    &RESTART\n      BACKUP_COPIES 0\n    &END RESTART\n  &END PRINT\n&END MOTION\n".toList := by
  decide

set_option maxRecDepth 4000 in
/-- … and an empty-string value: the line is `KEY ` (key, blank, empty value), not the bare key -/
theorem cp2k_created_section_keeps_empty :
    updateInput tplMD [updEmpty] [] =
      .ok "&MOTION\n  &MD\n    STEPS 10\n  &END MD\n  &PRINT\n    &RESTART\n      FILENAME \n    &END RESTART\n  &END PRINT\n&END MOTION\n".toList := by
  decide

/-- instance of the conclusion of `cp2k_edit_exact_absent`: the created node's data are the formatted entries -/
example : updZero.data.map fmtEntry = ["BACKUP_COPIES 0".toList] ∧ updEmpty.data.map fmtEntry = ["FILENAME ".toList] ∧
    fmtEntry ("K".toList, some "False".toList) = "K False".toList ∧ fmtEntry ("K".toList, some "0.0".toList) = "K 0.0".toList ∧
    fmtEntry ("K".toList, none) = "K".toList := by decide

/-! #### historical record: the code BEFORE fix 6e4f7f3 (`…AsIs` copies of the functions the fix touched)

`mergeOldAsIs` printed `f"{key} {data[key]}"` also for `None`; `update_cp2k_input` defaulted "settings" to `[]`;
`update_node` did `node.settings += settings`; `_add_node` stored `list(data)` (the dict keys). -/

def valStrAsIs : Option Str → Str
  | none => ['N', 'o', 'n', 'e']
  | some v => v

def mergeOldAsIs (data : List (Str × Option Str)) (isList : Bool) : List Str → Except Err (List Str × List Str)
  | [] => .ok ([], [])
  | line :: t =>
    match firstTok line with
    | none => .error .index
    | some key =>
      match dget key data with
      | some v =>
        if isList then .error .type
        else
          match mergeOldAsIs data isList t with
          | .error e => .error e
          | .ok (ls, done) => .ok ((key ++ [' '] ++ valStrAsIs v) :: ls, key :: done)
      | none =>
        match mergeOldAsIs data isList t with
        | .error e => .error e
        | .ok (ls, done) => .ok (line :: ls, done)

def mergeDataAsIs (u : Upd) (old : List Str) : Except Err (List Str) :=
  match mergeOldAsIs u.data u.isList old with
  | .error e => .error e
  | .ok (ls, done) =>
    match mergeNew u.isList done u.data with
    | .error e => .error e
    | .ok app => .ok (ls ++ app)

def updateNodeAsIs (u : Upd) (st : St) : Except Err St :=
  match dget u.target st.ref with
  | none => addNode (splitArrow u.target).reverse (u.settings.getD []) (u.data.map (·.1)) st
  | some i =>
    match st.arena[i]? with
    | none => .error .attr
    | some n =>
      if u.replace then
        .ok { st with arena := st.arena.set i { n with data := u.data.map (·.1), settings := u.settings.getD [] } }
      else
        match mergeDataAsIs u n.data with
        | .error e => .error e
        | .ok nd => .ok { st with arena := st.arena.set i { n with data := nd, settings := n.settings ++ u.settings.getD [] } }

def applyUpdatesAsIs : List Upd → St → Except Err St
  | [], st => .ok st
  | u :: us, st =>
    match updateNodeAsIs u st with
    | .error e => .error e
    | .ok st' => applyUpdatesAsIs us st'

def updateInputAsIs (text : Str) (ups : List Upd) (rems : List Str) : Except Err Str :=
  match readText text with
  | .error e => .error e
  | .ok rs =>
    match applyUpdatesAsIs ups rs.toSt with
    | .error e => .error e
    | .ok st1 =>
      match applyRemoves rems st1 with
      | .error e => .error e
      | .ok st => .ok (printText st)

/-- (former finding C19:cp2k:settings-appended-twice) `&MD X`, then `&MD X X` -/
theorem cp2k_asIs_settings_appended_twice :
    updateInputAsIs tplMD [updSettings] [] = .ok "&MOTION\n  &MD X\n    STEPS 10\n  &END MD\n&END MOTION\n".toList ∧
    updateInputAsIs "&MOTION\n  &MD X\n    STEPS 10\n  &END MD\n&END MOTION\n".toList [updSettings] [] =
      .ok "&MOTION\n  &MD X X\n    STEPS 10\n  &END MD\n&END MOTION\n".toList := by
  constructor <;> decide

/-- (former finding C19:cp2k:none-value-printed-as-None) `FOO`, then `FOO None` -/
theorem cp2k_asIs_none_value :
    updateInputAsIs tplMD [updNone] [] = .ok "&MOTION\n  &MD\n    STEPS 10\n    FOO\n  &END MD\n&END MOTION\n".toList ∧
    updateInputAsIs "&MOTION\n  &MD\n    STEPS 10\n    FOO\n  &END MD\n&END MOTION\n".toList [updNone] [] =
      .ok "&MOTION\n  &MD\n    STEPS 10\n    FOO None\n  &END MD\n&END MOTION\n".toList := by
  constructor <;> decide

/-- (former finding C19:cp2k:new-section-drops-values) the requested `MD 5` was printed as `MD` -/
theorem cp2k_asIs_new_section_drops_values :
    updateInputAsIs tplMD [updEach] [] =
      .ok "&MOTION\n  &MD\n    STEPS 10\n  &END MD\n  &PRINT\n    &EACH\n      MD\n    &END EACH\n  &END PRINT\n&END MOTION\n".toList := by
  decide

/-- (former finding C19:cp2k:replace-wipes-settings) `&K Y` became `&K` -/
theorem cp2k_asIs_replace_wipes_settings :
    updateInputAsIs tplKY [updReplace] [] = .ok "&A\n  &K\n    W 9\n  &END K\n&END A\n".toList := by
  decide

/-! #### open findings (not touched by the fix) -/

/-- three same-titled siblings -/
def tpl3 : Str := "&A\n&K X\n&END\n&K Y\n&END\n&K Z\n&END\n&END\n".toList

def updZ : Upd :=
  { target := "A->K->Z".toList, settings := none, replace := false, data := [("V".toList, some "9".toList)], isList := false }

/-- COUNTEREXAMPLE (exactness with three duplicates): after `set_parents` the third `&K` is registered under the
    bare path `A->K`, the key `A->K->Z` does not exist, and an update addressed to `A->K->Z` creates a new
    section `&Z` inside `&K Z` instead of editing `&K Z`. -/
theorem cp2k_three_duplicates_counterexample :
    (readText tpl3).map (fun rs => rs.toSt.ref) =
      .ok [("A".toList, 0), ("A->K->X".toList, 1), ("A->K->Y".toList, 2), ("A->K".toList, 3)] ∧
    updateInput tpl3 [updZ] [] =
      .ok "&A\n  &K X\n  &END K\n  &K Y\n  &END K\n  &K Z\n    &Z\n      V 9\n    &END Z\n  &END K\n&END A\n".toList := by
  constructor <;> decide

/-- two same-titled siblings with a target THROUGH the suffixed address -/
def tpl2 : Str := "&A\n&K X\n&END\n&K Y\n&END\n&END\n".toList

def updThrough : Upd :=
  { target := "A->K->X->NEW".toList, settings := none, replace := false, data := [], isList := false }

/-- COUNTEREXAMPLE (idempotence, finding duplicate-children-unaddressable): descendants of disambiguated
    duplicates are registered without the suffix, so `A->K->X->NEW` is absent again on the second application
    and a second `&NEW` is created. -/
theorem cp2k_duplicate_children_counterexample :
    updateInput tpl2 [updThrough] [] = .ok "&A\n  &K X\n    &NEW\n    &END NEW\n  &END K\n  &K Y\n  &END K\n&END A\n".toList ∧
    updateInput "&A\n  &K X\n    &NEW\n    &END NEW\n  &END K\n  &K Y\n  &END K\n&END A\n".toList [updThrough] [] =
      .ok "&A\n  &K X\n    &NEW\n    &END NEW\n    &NEW\n    &END NEW\n  &END K\n  &K Y\n  &END K\n&END A\n".toList := by
  constructor <;> decide

/-- WITNESS (removed children stay addressable): after `remove_node("MOTION")` the key `MOTION->MD` is still in
    `node_ref`; a following `update_node("MOTION->MD", …)` succeeds on the detached node and the output is empty. -/
theorem cp2k_removed_children_witness :
    (removeNode "MOTION".toList stMD).map (fun st => (st.roots, st.ref)) = .ok ([], [("MOTION->MD".toList, 1)]) ∧
    (match removeNode "MOTION".toList stMD with
     | .ok st => (updateNode { updEach with target := "MOTION->MD".toList } st).map printText
     | .error e => .error e) = .ok [] := by
  constructor <;> decide

/-! non-vacuity of the hypotheses of the general theorems -/

def updMerge : Upd :=
  { target := "MOTION->MD".toList, settings := some ["X".toList, "X".toList], replace := false,
    data := [("STEPS".toList, some "20".toList), ("TIMESTEP".toList, none)], isList := false }

example : ∃ st', updateNode updMerge stMD = .ok st' ∧ st'.arena[1]? = some
    { title := "MD".toList, parent := some 0, settings := ["X".toList, "X".toList],
      data := ["STEPS 20".toList, "TIMESTEP".toList], children := [], level := 1 } := by
  obtain ⟨st', h, _, _, _, _, h5⟩ := cp2k_edit_exact_present updMerge stMD 1 _ (by decide) rfl (Or.inr ⟨rfl, by decide⟩)
  exact ⟨st', h, by rw [h5]; decide⟩

example : RefOk stMD ∧ dget updEach.target stMD.ref = none := ⟨refOk_of_all _ (by decide), by decide⟩

example : DataOk updMerge.data ∧ DataOk updEach.data := ⟨⟨by decide, by decide⟩, ⟨by decide, by decide⟩⟩

/-- idempotence with non-empty settings (even repeated inside the request) and a `None` value -/
example : ∃ st1, updateNode updMerge stMD = .ok st1 ∧ updateNode updMerge st1 = .ok st1 := by
  obtain ⟨st1, h1⟩ : ∃ st1, updateNode updMerge stMD = .ok st1 := ⟨_, rfl⟩
  exact ⟨st1, h1, cp2k_edit_idempotent updMerge stMD st1 1 (by decide) h1 (Or.inr (Or.inr ⟨by decide, by decide⟩))⟩

/-- absent → present -/
example : ∃ st1, updateNode updEach stMD = .ok st1 ∧ updateNode updEach st1 = .ok st1 := by
  obtain ⟨st1, h1⟩ : ∃ st1, updateNode updEach stMD = .ok st1 := ⟨_, rfl⟩
  exact ⟨st1, h1, cp2k_edit_idempotent_absent updEach stMD st1 (refOk_of_all _ (by decide)) (by decide) rfl rfl
    ⟨by decide, by decide⟩ h1⟩

/-- the arena read from `tpl3`: nodes 1, 2, 3 are the three `&K`; hypotheses of `register_third_bare` hold -/
def arena3 : List Node :=
  [ { title := "A".toList, parent := none, settings := [], data := [], children := [1, 2, 3], level := 0 },
    { title := "K".toList, parent := some 0, settings := ["X".toList], data := [], children := [], level := 1 },
    { title := "K".toList, parent := some 0, settings := ["Y".toList], data := [], children := [], level := 1 },
    { title := "K".toList, parent := some 0, settings := ["Z".toList], data := [], children := [], level := 1 } ]

example : (readText tpl3).map (fun rs => rs.arena) = .ok arena3 := by decide

example : pathKey arena3 2 = pathKey arena3 1 ∧ pathKey arena3 3 = pathKey arena3 1 ∧
    dget (pathKey arena3 1) [("A".toList, 0)] = none ∧
    dget (pathKey arena3 1 ++ arrow ++ settingsKey arena3 3) [("A".toList, 0)] = none ∧
    settingsKey arena3 3 ≠ settingsKey arena3 1 ∧ settingsKey arena3 3 ≠ settingsKey arena3 2 := by decide

example : (stMD.ref.map (·.1)).Nodup ∧ removeNode "MOTION->MD".toList stMD ≠ .ok stMD := by decide

/-! ### tokens, strip and the header line -/

theorem splitWsGo_tok_space (t rest : Str) (h : IsTok t) :
    splitWsGo (t ++ ' ' :: rest) [] = t :: splitWsGo rest [] := by
  obtain ⟨hne, hws⟩ := h
  have hr : t.reverse ≠ [] := by simpa using hne
  have hsp : isWs ' ' = true := by decide
  rw [splitWsGo_tok_prefix t _ [] hws]
  simp [splitWsGo, hsp, hr]

theorem splitWsGo_tok_end (t : Str) (h : IsTok t) : splitWsGo t [] = [t] := by
  obtain ⟨hne, hws⟩ := h
  have hr : t.reverse ≠ [] := by simpa using hne
  have := splitWsGo_tok_prefix t [] [] hws
  simp at this
  rw [this]; simp [splitWsGo, hr]

/-- settings round trip: `" ".join(tokens).split() == tokens` for whitespace-free non-empty tokens -/
theorem splitWs_join_toks (toks : List Str) (h : ∀ t ∈ toks, IsTok t) : splitWs (join [' '] toks) = toks := by
  induction toks with
  | nil => simp [join, splitWs, splitWsGo]
  | cons a r ih =>
    cases r with
    | nil => simpa [join, splitWs] using splitWsGo_tok_end a (h a List.mem_cons_self)
    | cons b r' =>
      have ih' := ih (fun t ht => h t (List.mem_cons_of_mem _ ht))
      simp only [join, splitWs, List.append_assoc, List.singleton_append] at ih' ⊢
      rw [splitWsGo_tok_space a _ (h a List.mem_cons_self), ih']

/-- the header of a section splits back into title and settings -/
theorem splitWs_header (title : Str) (setts : List Str) (ht : IsTok title) (hs : ∀ t ∈ setts, IsTok t) :
    splitWs (title ++ (if setts = [] then [] else ' ' :: join [' '] setts)) = title :: setts := by
  by_cases he : setts = []
  · subst he; simpa [splitWs] using splitWsGo_tok_end title ht
  · simp only [he, if_false, splitWs]
    rw [splitWsGo_tok_space title _ ht]
    have := splitWs_join_toks setts hs
    simp only [splitWs] at this
    rw [this]


theorem lstrip_of_head (s : Str) (hh : ∀ c, s.head? = some c → isWs c = false) : lstrip s = s := by
  cases s with
  | nil => rfl
  | cons c t => simp [lstrip, List.dropWhile, hh c rfl]

theorem lstrip_spaces (n : Nat) (s : Str) : lstrip (spaces n ++ s) = lstrip s := by
  induction n with
  | zero => simp [spaces]
  | succ k ih =>
    have hsp : isWs ' ' = true := by decide
    simp only [spaces, List.replicate_succ, List.cons_append, lstrip, List.dropWhile, hsp] at ih ⊢
    exact ih

/-- `strip` undoes the indentation of a printed line whose content starts and ends with a non-blank -/
theorem strip_indented (n : Nat) (s : Str) (hh : ∀ c, s.head? = some c → isWs c = false)
    (hl : ∀ c, s.getLast? = some c → isWs c = false) : strip (spaces n ++ s) = s := by
  unfold strip
  rw [lstrip_spaces, lstrip_of_head s hh, lstrip_of_head s.reverse (by simpa [List.head?_reverse] using hl)]
  simp

/-! ### Theorem 1 (print / read round trip): what is proved

Proved in general: the token-level facts the round trip rests on — `strip_indented` (indentation is undone),
`splitWs_header` (a printed header `TITLE s₁ … sₙ` splits back into title and settings when they are
whitespace-free non-empty tokens), `join_splitArrow`.  The structural induction over the section forest
(`readLines (printLines forest) = forest`) is NOT proved; it is checked on a concrete forest below and, on every
run, by the tie (predicate `print-read-roundtrip` on the real code, op `cp2kupdate` vs `cp2kstate` on the model). -/

/-- concrete round trip (kernel-checked): reading the printed text of `stMD` gives `stMD` back -/
example : (readText (printText stMD)).map RS.toSt = .ok stMD := by decide

example : IsTok "MD".toList ∧ ∀ t ∈ ["X".toList, "OFF".toList], IsTok t := by decide

end Infretis.Cp2k
