import Infretis.Model.TemplateCp2k
/-!
C19, part "cp2k": lemmas and theorems about the model of the CP2K input editor
(`Infretis.Cp2k`, file Model/TemplateCp2k.lean).
-/
namespace Infretis.Cp2k

/-! ### dict lemmas -/

theorem dget_dset {α : Type} (k k' : Str) (v : α) (r : List (Str × α)) :
    dget k (dset k' v r) = if k' = k then some v else dget k r := by
  induction r with
  | nil => simp [dset, dget]
  | cons kv t ih =>
    obtain ⟨k2, v2⟩ := kv
    by_cases h2 : k2 = k'
    · subst h2
      by_cases h : k2 = k <;> simp [dset, dget, h]
    · by_cases h : k2 = k
      · subst h
        have : ¬ k' = k2 := fun e => h2 e.symm
        simp [dset, dget, h2, this]
      · simp [dset, dget, h2, h, ih]

theorem dpop_dset_absent {α : Type} (k : Str) (v : α) (r : List (Str × α)) (h : dget k r = none) :
    dpop k (dset k v r) = r := by
  induction r with
  | nil => simp [dset, dpop]
  | cons kv t ih =>
    obtain ⟨k2, v2⟩ := kv
    by_cases h2 : k2 = k
    · simp [dget, h2] at h
    · simp only [dget, h2, if_false] at h
      simp [dset, dpop, h2, ih h]

theorem dget_isSome_of_mem {α : Type} (k : Str) (v : α) (r : List (Str × α)) (h : (k, v) ∈ r) :
    (dget k r).isSome = true := by
  induction r with
  | nil => cases h
  | cons kv t ih =>
    obtain ⟨k2, v2⟩ := kv
    by_cases h2 : k2 = k
    · simp [dget, h2]
    · simp only [dget, h2, if_false]
      rcases List.mem_cons.mp h with h | h
      · cases h; exact absurd rfl h2
      · exact ih h

theorem dget_of_mem_nodup {α : Type} (k : Str) (v : α) (r : List (Str × α)) (h : (k, v) ∈ r)
    (hn : (r.map (·.1)).Nodup) : dget k r = some v := by
  induction r with
  | nil => cases h
  | cons kv t ih =>
    obtain ⟨k2, v2⟩ := kv
    simp only [List.map_cons, List.nodup_cons] at hn
    rcases List.mem_cons.mp h with h | h
    · cases h; simp [dget]
    · have : k2 ≠ k := by
        intro e; subst e
        exact hn.1 (List.mem_map.mpr ⟨(k2, v), h, rfl⟩)
      simp [dget, this, ih h hn.2]


/-! ### the merge law of `update_node` (non-replace mode) -/

/-- what an existing line becomes: `key value` if its first token is a key of `data` -/
def rewriteLine (data : List (Str × Option Str)) (line : Str) : Str :=
  match firstTok line with
  | none => line
  | some key =>
    match dget key data with
    | some v => key ++ [' '] ++ valStr v
    | none => line

/-- first tokens of the lines -/
def lineKeys (old : List Str) : List Str := old.filterMap firstTok

/-- an appended entry: `None` gives the bare key -/
def fmtEntry (kv : Str × Option Str) : Str :=
  match kv.2 with
  | none => kv.1
  | some x => kv.1 ++ [' '] ++ x

/-- the merge law: existing keys are replaced in place, the keys that no existing line starts with
    are appended in dict order -/
def mergeSpec (data : List (Str × Option Str)) (old : List Str) : List Str :=
  old.map (rewriteLine data) ++ (data.filter (fun kv => decide (kv.1 ∉ lineKeys old))).map fmtEntry

theorem mergeOld_eq (data : List (Str × Option Str)) (old : List Str)
    (htok : ∀ l ∈ old, (firstTok l).isSome = true) :
    mergeOld data false old =
      .ok (old.map (rewriteLine data), (lineKeys old).filter (fun k => (dget k data).isSome)) := by
  induction old with
  | nil => simp [mergeOld, lineKeys]
  | cons l t ih =>
    have ht : ∀ l ∈ t, (firstTok l).isSome = true := fun x hx => htok x (List.mem_cons_of_mem _ hx)
    have hl := htok l List.mem_cons_self
    obtain ⟨key, hkey⟩ := Option.isSome_iff_exists.mp hl
    have ih' := ih ht
    cases hd : dget key data with
    | none =>
      simp [mergeOld, hkey, hd, ih', rewriteLine, lineKeys]
    | some v =>
      simp [mergeOld, hkey, hd, ih', rewriteLine, lineKeys]

theorem mergeOld_ok_tok (data : List (Str × Option Str)) (b : Bool) (old : List Str) (r : List Str × List Str)
    (h : mergeOld data b old = .ok r) : ∀ l ∈ old, (firstTok l).isSome = true := by
  induction old generalizing r with
  | nil => intro l hl; cases hl
  | cons l t ih =>
    intro x hx
    unfold mergeOld at h
    cases hk : firstTok l with
    | none => simp [hk] at h
    | some key =>
      simp only [hk] at h
      have htail : ∃ r', mergeOld data b t = .ok r' := by
        cases hd : dget key data with
        | none =>
          simp only [hd] at h
          cases hm : mergeOld data b t with
          | error e => simp [hm] at h
          | ok r' => exact ⟨r', rfl⟩
        | some v =>
          simp only [hd] at h
          cases b with
          | true => simp at h
          | false =>
            simp only [Bool.false_eq_true, if_false] at h
            cases hm : mergeOld data false t with
            | error e => simp [hm] at h
            | ok r' => exact ⟨r', rfl⟩
      obtain ⟨r', hr'⟩ := htail
      rcases List.mem_cons.mp hx with hx | hx
      · subst hx; simp [hk]
      · exact ih r' hr' x hx

theorem mergeNew_eq (done : List Str) (data : List (Str × Option Str)) :
    mergeNew false done data = .ok ((data.filter (fun kv => decide (kv.1 ∉ done))).map fmtEntry) := by
  induction data with
  | nil => simp [mergeNew]
  | cons kv t ih =>
    obtain ⟨k, v⟩ := kv
    by_cases hk : k ∈ done
    · simp [mergeNew, hk, ih]
    · cases v <;> simp [mergeNew, hk, ih, fmtEntry]

theorem mergeData_eq_spec (u : Upd) (old : List Str) (hl : u.isList = false)
    (htok : ∀ l ∈ old, (firstTok l).isSome = true) :
    mergeData u old = .ok (mergeSpec u.data old) := by
  unfold mergeData
  rw [hl, mergeOld_eq u.data old htok]
  simp only [mergeNew_eq, mergeSpec]
  congr 3
  apply List.filter_congr
  intro kv hkv
  have hs := dget_isSome_of_mem kv.1 kv.2 u.data (by simpa using hkv)
  simp [List.mem_filter, hs]


/-! ### Theorem 2a: an update of a PRESENT target changes exactly that node's data/settings -/

theorem getElem?_lt_of_some {α : Type} (l : List α) (i : Nat) (a : α) (h : l[i]? = some a) : i < l.length := by
  rcases Nat.lt_or_ge i l.length with h' | h'
  · exact h'
  · rw [List.getElem?_eq_none h'] at h; cases h

theorem cp2k_edit_exact_present (u : Upd) (st : St) (i : Nat) (n : Node)
    (href : dget u.target st.ref = some i) (hn : st.arena[i]? = some n)
    (hmode : u.replace = true ∨ (u.isList = false ∧ ∀ l ∈ n.data, (firstTok l).isSome = true)) :
    ∃ st', updateNode u st = .ok st' ∧ st'.roots = st.roots ∧ st'.ref = st.ref ∧
      st'.arena.length = st.arena.length ∧ (∀ j, j ≠ i → st'.arena[j]? = st.arena[j]?) ∧
      st'.arena[i]? = some { n with
        data := if u.replace then u.data.map (·.1) else mergeSpec u.data n.data,
        settings := if u.replace then u.settings else n.settings ++ u.settings } := by
  have hi := getElem?_lt_of_some _ _ _ hn
  by_cases hr : u.replace = true
  · refine ⟨{ st with arena := st.arena.set i { n with data := u.data.map (·.1), settings := u.settings } }, ?_, rfl, rfl, ?_, ?_, ?_⟩
    · simp [updateNode, href, hn, hr]
    · simp
    · intro j hj
      simp [List.getElem?_set, Ne.symm hj]
    · simp [List.getElem?_set, hi, hr]
  · have hr' : u.replace = false := by simpa using hr
    rcases hmode with h | ⟨hl, htok⟩
    · exact absurd h hr
    · have hm := mergeData_eq_spec u n.data hl htok
      refine ⟨{ st with arena := st.arena.set i { n with data := mergeSpec u.data n.data, settings := n.settings ++ u.settings } }, ?_, rfl, rfl, ?_, ?_, ?_⟩
      · simp [updateNode, href, hn, hr', hm]
      · simp
      · intro j hj
        simp [List.getElem?_set, Ne.symm hj]
      · simp [List.getElem?_set, hi, hr']


/-! ### tokens -/

/-- a non-empty string without whitespace: what `split()` returns -/
def IsTok (k : Str) : Prop := k ≠ [] ∧ ∀ c ∈ k, isWs c = false

theorem splitWsGo_tok_prefix (k rest acc : Str) (hk : ∀ c ∈ k, isWs c = false) :
    splitWsGo (k ++ rest) acc = splitWsGo rest (k.reverse ++ acc) := by
  induction k generalizing acc with
  | nil => simp
  | cons c t ih =>
    have hc : isWs c = false := hk c List.mem_cons_self
    have ht : ∀ c ∈ t, isWs c = false := fun x hx => hk x (List.mem_cons_of_mem _ hx)
    simp [splitWsGo, hc, ih (c :: acc) ht]

theorem firstTok_tok_space (k x : Str) (h : IsTok k) : firstTok (k ++ [' '] ++ x) = some k := by
  obtain ⟨hne, hws⟩ := h
  have : splitWsGo (k ++ ' ' :: x) [] = splitWsGo (' ' :: x) (k.reverse ++ []) :=
    splitWsGo_tok_prefix k _ [] hws
  have hr : k.reverse ≠ [] := by simpa using hne
  have hsp : isWs ' ' = true := by decide
  simp only [firstTok, splitWs, List.append_assoc, List.singleton_append, this]
  simp [splitWsGo, hsp, hr]

theorem firstTok_tok (k : Str) (h : IsTok k) : firstTok k = some k := by
  obtain ⟨hne, hws⟩ := h
  have : splitWsGo (k ++ []) [] = splitWsGo [] (k.reverse ++ []) := splitWsGo_tok_prefix k _ [] hws
  have hr : k.reverse ≠ [] := by simpa using hne
  simp at this
  simp [firstTok, splitWs, this, splitWsGo, hr]

theorem splitWsGo_all_tok (s acc : Str) (hacc : ∀ c ∈ acc, isWs c = false) :
    ∀ t ∈ splitWsGo s acc, IsTok t := by
  induction s generalizing acc with
  | nil =>
    intro t ht
    by_cases ha : acc = []
    · simp [splitWsGo, ha] at ht
    · simp only [splitWsGo, ha, if_false, List.mem_singleton] at ht
      subst ht
      exact ⟨by simpa using ha, by simpa using hacc⟩
  | cons c r ih =>
    intro t ht
    by_cases hc : isWs c = true
    · by_cases ha : acc = []
      · simp only [splitWsGo, hc, ha, if_true] at ht
        exact ih [] (by simp) t ht
      · simp only [splitWsGo, hc, ha, if_true, if_false, List.mem_cons] at ht
        rcases ht with ht | ht
        · subst ht
          exact ⟨by simpa using ha, by simpa using hacc⟩
        · exact ih [] (by simp) t ht
    · have hc' : isWs c = false := by simpa using hc
      simp only [splitWsGo, hc', Bool.false_eq_true, if_false] at ht
      refine ih (c :: acc) ?_ t ht
      intro x hx
      rcases List.mem_cons.mp hx with hx | hx
      · subst hx; exact hc'
      · exact hacc x hx

theorem firstTok_isTok (l key : Str) (h : firstTok l = some key) : IsTok key := by
  unfold firstTok splitWs at h
  have hmem : key ∈ splitWsGo l [] := List.mem_of_mem_head? h
  exact splitWsGo_all_tok l [] (by simp) key hmem


/-! ### idempotence of the merge law -/

/-- the guard on an update's `data` under which a second merge changes nothing:
    a real dict (distinct keys), keys are single tokens, no `None` values -/
structure DataOk (data : List (Str × Option Str)) : Prop where
  nodup : (data.map (·.1)).Nodup
  tok : ∀ kv ∈ data, IsTok kv.1
  val : ∀ kv ∈ data, kv.2 ≠ none

theorem firstTok_rewriteLine (data : List (Str × Option Str)) (l : Str) :
    firstTok (rewriteLine data l) = firstTok l := by
  cases hk : firstTok l with
  | none => simp [rewriteLine, hk]
  | some key =>
    cases hd : dget key data with
    | none => simp [rewriteLine, hk, hd]
    | some v =>
      have e : rewriteLine data l = key ++ [' '] ++ valStr v := by simp [rewriteLine, hk, hd]
      rw [e]
      exact firstTok_tok_space key (valStr v) (firstTok_isTok l key hk)

theorem rewriteLine_idem (data : List (Str × Option Str)) (l : Str) :
    rewriteLine data (rewriteLine data l) = rewriteLine data l := by
  cases hk : firstTok l with
  | none =>
    have : rewriteLine data l = l := by simp [rewriteLine, hk]
    rw [this, this]
  | some key =>
    cases hd : dget key data with
    | none =>
      have : rewriteLine data l = l := by simp [rewriteLine, hk, hd]
      rw [this, this]
    | some v =>
      have e : rewriteLine data l = key ++ [' '] ++ valStr v := by simp [rewriteLine, hk, hd]
      have h2 := firstTok_tok_space key (valStr v) (firstTok_isTok l key hk)
      rw [e]
      simp only [rewriteLine, h2, hd]

theorem firstTok_fmtEntry (kv : Str × Option Str) (htok : IsTok kv.1) : firstTok (fmtEntry kv) = some kv.1 := by
  obtain ⟨k, v⟩ := kv
  cases v with
  | none => simpa [fmtEntry] using firstTok_tok k htok
  | some x => simpa [fmtEntry] using firstTok_tok_space k x htok

theorem rewriteLine_fmtEntry (data : List (Str × Option Str)) (kv : Str × Option Str) (hmem : kv ∈ data)
    (hok : DataOk data) : rewriteLine data (fmtEntry kv) = fmtEntry kv := by
  have hk := firstTok_fmtEntry kv (hok.tok kv hmem)
  have hv := hok.val kv hmem
  obtain ⟨k, v⟩ := kv
  have hd := dget_of_mem_nodup k v data hmem hok.nodup
  cases v with
  | none => exact absurd rfl hv
  | some x =>
    unfold rewriteLine
    simp only [hk, hd]
    simp [fmtEntry, valStr]

theorem lineKeys_append (a b : List Str) : lineKeys (a ++ b) = lineKeys a ++ lineKeys b := by
  simp [lineKeys]

theorem lineKeys_map_rewrite (data : List (Str × Option Str)) (old : List Str) :
    lineKeys (old.map (rewriteLine data)) = lineKeys old := by
  induction old with
  | nil => rfl
  | cons l t ih =>
    simp only [lineKeys, List.map_cons, List.filterMap_cons, firstTok_rewriteLine] at ih ⊢
    rw [ih]

theorem lineKeys_map_fmt (data app : List (Str × Option Str)) (hsub : ∀ kv ∈ app, kv ∈ data) (hok : DataOk data) :
    lineKeys (app.map fmtEntry) = app.map (·.1) := by
  induction app with
  | nil => rfl
  | cons kv t ih =>
    have hk := firstTok_fmtEntry kv (hok.tok kv (hsub kv List.mem_cons_self))
    have ih' := ih (fun x hx => hsub x (List.mem_cons_of_mem _ hx))
    simp only [lineKeys, List.map_cons, List.filterMap_cons, hk] at ih' ⊢
    rw [ih']

theorem mergeSpec_idem (data : List (Str × Option Str)) (old : List Str) (hok : DataOk data) :
    mergeSpec data (mergeSpec data old) = mergeSpec data old := by
  have happ : ∀ kv ∈ data.filter (fun kv => decide (kv.1 ∉ lineKeys old)), kv ∈ data :=
    fun kv h => (List.mem_filter.mp h).1
  have hkeys : lineKeys (mergeSpec data old) =
      lineKeys old ++ (data.filter (fun kv => decide (kv.1 ∉ lineKeys old))).map (·.1) := by
    unfold mergeSpec
    rw [lineKeys_append, lineKeys_map_rewrite, lineKeys_map_fmt data _ happ hok]
  have hnil : data.filter (fun kv => decide (kv.1 ∉ lineKeys (mergeSpec data old))) = [] := by
    rw [List.filter_eq_nil_iff]
    intro kv hkv
    rw [hkeys]
    simp only [decide_eq_true_eq, Decidable.not_not, List.mem_append]
    by_cases h : kv.1 ∈ lineKeys old
    · exact Or.inl h
    · have h1 : kv ∈ data.filter (fun kv => decide (kv.1 ∉ lineKeys old)) := by
        simp [List.mem_filter, hkv, h]
      exact Or.inr (List.mem_map.mpr ⟨kv, h1, rfl⟩)
  rw [show mergeSpec data (mergeSpec data old) = (mergeSpec data old).map (rewriteLine data) ++
      (data.filter (fun kv => decide (kv.1 ∉ lineKeys (mergeSpec data old)))).map fmtEntry from rfl]
  rw [hnil]
  simp only [List.map_nil, List.append_nil]
  unfold mergeSpec
  rw [List.map_append, List.map_map]
  congr 1
  · apply List.map_congr_left
    intro l _
    exact rewriteLine_idem data l
  · rw [List.map_map]
    apply List.map_congr_left
    intro kv hkv
    exact rewriteLine_fmtEntry data kv (happ kv hkv) hok


theorem mergeSpec_tok (data : List (Str × Option Str)) (old : List Str) (hok : DataOk data)
    (htok : ∀ l ∈ old, (firstTok l).isSome = true) : ∀ l ∈ mergeSpec data old, (firstTok l).isSome = true := by
  intro l hl
  unfold mergeSpec at hl
  rcases List.mem_append.mp hl with h | h
  · obtain ⟨l0, hl0, e⟩ := List.mem_map.mp h
    subst e
    rw [firstTok_rewriteLine]
    exact htok l0 hl0
  · obtain ⟨kv, hkv, e⟩ := List.mem_map.mp h
    subst e
    rw [firstTok_fmtEntry kv (hok.tok kv (List.mem_filter.mp hkv).1)]
    rfl

/-! ### Theorem 3: idempotence of an update of a present target — what is true of the code -/

/-- PARTIAL: a second application of the same update entry to a present target changes nothing, provided
    `replace` is set, or no settings are given and `data` is a dict of token keys without `None` values.
    (Outside this guard the code is not idempotent: see the counterexamples below.) -/
theorem cp2k_edit_idempotent_partial (u : Upd) (st st1 : St) (i : Nat)
    (href : dget u.target st.ref = some i)
    (h1 : updateNode u st = .ok st1)
    (hg : u.replace = true ∨ (u.settings = [] ∧ u.isList = false ∧ DataOk u.data)) :
    updateNode u st1 = .ok st1 := by
  unfold updateNode at h1
  simp only [href] at h1
  cases hn : st.arena[i]? with
  | none => simp [hn] at h1
  | some n =>
    have hi := getElem?_lt_of_some _ _ _ hn
    simp only [hn] at h1
    by_cases hr : u.replace = true
    · simp only [hr, if_true] at h1
      injection h1 with h1
      subst h1
      simp [updateNode, href, hi, hr]
    · have hr' : u.replace = false := by simpa using hr
      rcases hg with h | ⟨hs, hl, hok⟩
      · exact absurd h hr
      · simp only [hr', Bool.false_eq_true, if_false] at h1
        cases hm : mergeData u n.data with
        | error e => simp [hm] at h1
        | ok nd =>
          simp only [hm] at h1
          injection h1 with h1
          subst h1
          have htok : ∀ l ∈ n.data, (firstTok l).isSome = true := by
            unfold mergeData at hm
            cases hmo : mergeOld u.data u.isList n.data with
            | error e => simp [hmo] at hm
            | ok r => exact mergeOld_ok_tok _ _ _ r hmo
          have hnd : nd = mergeSpec u.data n.data := by
            have := mergeData_eq_spec u n.data hl htok
            rw [hm] at this
            injection this
          have h2 := mergeData_eq_spec u (mergeSpec u.data n.data) hl (mergeSpec_tok _ _ hok htok)
          rw [mergeSpec_idem _ _ hok] at h2
          subst hnd
          simp [updateNode, href, hi, hr', h2, hs]

end Infretis.Cp2k
