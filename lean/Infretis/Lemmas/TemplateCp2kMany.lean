import Infretis.Lemmas.TemplateCp2k
/-!
C19, part "cp2k": the WHOLE update loop of `update_cp2k_input` (`applyUpdates`, one `update_node` per entry of
the `update` dict, in dict order), composed from the single-entry theorems of `Lemmas/TemplateCp2k.lean`.

* `Grow st st' T`  — frame: from `st` to `st'` no node lost its title / parent / level, children lists and roots
  only grew, every key kept its node, new keys name new nodes, and only the nodes with index in `T` may have
  changed data / settings.
* `Settled u st`   — the target of `u` exists in `st` and `update_node` maps its node to itself.
* `cp2k_edit_many_exact`       — after the loop exactly the nodes addressed by an entry may differ.
* `cp2k_edit_many_idempotent`  — after the loop every entry is settled, hence a second run of the loop returns
  the same state (entries with distinct targets, each a replace-with-lines or a merge of a dict with token keys).
-/
namespace Infretis.Cp2k

/-! ### what `update_node` does to the node it finds -/

def nodeStep (u : Upd) (n : Node) : Except Err Node :=
  if u.replace then .ok { n with data := u.data.map (·.1), settings := newSettings u.settings true n.settings }
  else
    match mergeData u n.data with
    | .error e => .error e
    | .ok nd => .ok { n with data := nd, settings := newSettings u.settings false n.settings }

theorem updateNode_present (u : Upd) (st : St) (i : Nat) (n : Node)
    (href : dget u.target st.ref = some i) (hn : st.arena[i]? = some n) :
    updateNode u st = match nodeStep u n with
      | .error e => .error e
      | .ok n' => .ok { st with arena := st.arena.set i n' } := by
  by_cases hr : u.replace = true
  · simp [updateNode, nodeStep, href, hn, hr]
  · have hr' : u.replace = false := by simpa using hr
    cases hm : mergeData u n.data <;> simp [updateNode, nodeStep, href, hn, hr', hm]

theorem nodeStep_keeps (u : Upd) (n n' : Node) (h : nodeStep u n = .ok n') :
    n'.title = n.title ∧ n'.parent = n.parent ∧ n'.level = n.level ∧ n'.children = n.children := by
  unfold nodeStep at h
  by_cases hr : u.replace = true
  · simp only [hr, if_true] at h
    injection h with h; subst h; exact ⟨rfl, rfl, rfl, rfl⟩
  · have hr' : u.replace = false := by simpa using hr
    simp only [hr', Bool.false_eq_true, if_false] at h
    cases hm : mergeData u n.data with
    | error e => simp [hm] at h
    | ok nd =>
      simp only [hm] at h
      injection h with h; subst h; exact ⟨rfl, rfl, rfl, rfl⟩

/-- the step reads only the data and the settings of the node -/
theorem nodeStep_congr (u : Upd) (n n' : Node) (hd : n'.data = n.data) (hs : n'.settings = n.settings)
    (h : nodeStep u n = .ok n) : nodeStep u n' = .ok n' := by
  unfold nodeStep at h ⊢
  by_cases hr : u.replace = true
  · simp only [hr, if_true] at h ⊢
    injection h with h
    have h1 : u.data.map (·.1) = n.data := by have := congrArg Node.data h; simpa using this
    have h2 : newSettings u.settings true n.settings = n.settings := by have := congrArg Node.settings h; simpa using this
    rw [hs, h1, h2, ← hd, ← hs]
  · have hr' : u.replace = false := by simpa using hr
    simp only [hr', Bool.false_eq_true, if_false] at h ⊢
    rw [hd]
    cases hm : mergeData u n.data with
    | error e => simp [hm] at h
    | ok nd =>
      simp only [hm] at h ⊢
      injection h with h
      have h1 : nd = n.data := by have := congrArg Node.data h; simpa using this
      have h2 : newSettings u.settings false n.settings = n.settings := by have := congrArg Node.settings h; simpa using this
      rw [hs, h1, h2, ← hd, ← hs]

/-- the target of `u` exists and `update_node` leaves its node as it is -/
def Settled (u : Upd) (st : St) : Prop :=
  ∃ i n, dget u.target st.ref = some i ∧ st.arena[i]? = some n ∧ nodeStep u n = .ok n

theorem set_self {α : Type} (l : List α) (i : Nat) (a : α) (h : l[i]? = some a) : l.set i a = l := by
  apply List.ext_getElem?
  intro j
  rw [List.getElem?_set]
  by_cases e : i = j
  · subst e
    have hi : i < l.length := getElem?_lt_of_some _ _ _ h
    simp only [hi, if_true, h]
  · simp [e]

theorem Settled.fix {u : Upd} {st : St} (h : Settled u st) : updateNode u st = .ok st := by
  obtain ⟨i, n, href, hn, hstep⟩ := h
  rw [updateNode_present u st i n href hn, hstep]
  simp only
  congr 1
  exact St.ext' _ _ (set_self _ _ _ hn) rfl rfl

theorem settled_of_fix {u : Upd} {st : St} {i : Nat} (href : dget u.target st.ref = some i)
    (h : updateNode u st = .ok st) : Settled u st := by
  cases hn : st.arena[i]? with
  | none => simp [updateNode, href, hn] at h
  | some n =>
    rw [updateNode_present u st i n href hn] at h
    cases hs : nodeStep u n with
    | error e => simp [hs] at h
    | ok n' =>
      simp only [hs] at h
      injection h with h
      have ha : st.arena.set i n' = st.arena := by have := congrArg St.arena h; simpa using this
      have hi : i < st.arena.length := getElem?_lt_of_some _ _ _ hn
      have : (st.arena.set i n')[i]? = some n' := by simp [hi]
      rw [ha, hn] at this
      injection this with this
      exact ⟨i, n, href, hn, by rw [hs, this]⟩

/-! ### invariants of `node_ref` -/

/-- no two keys of `node_ref` name the same node -/
def RefInj (st : St) : Prop := ∀ k k' v, dget k st.ref = some v → dget k' st.ref = some v → k = k'

/-- keys that `st` does not have name nodes that `st` does not have -/
def Fresh (st st' : St) : Prop := ∀ k v, dget k st'.ref = some v → dget k st.ref = none → st.arena.length ≤ v

theorem refInj_dset (st : St) (arena' : List Node) (roots' : List Nat) (key : Str) (hwf : RefOk st) (hinj : RefInj st) :
    RefInj { arena := arena', roots := roots', ref := dset key st.arena.length st.ref } := by
  intro k k' v h1 h2
  simp only at h1 h2
  rw [dget_dset] at h1 h2
  by_cases e1 : key = k
  · by_cases e2 : key = k'
    · rw [← e1, ← e2]
    · simp only [e1, if_true] at h1
      simp only [e2, if_false] at h2
      injection h1 with h1
      have := hwf k' v h2
      omega
  · by_cases e2 : key = k'
    · simp only [e1, if_false] at h1
      simp only [e2, if_true] at h2
      injection h2 with h2
      have := hwf k v h1
      omega
    · simp only [e1, if_false] at h1
      simp only [e2, if_false] at h2
      exact hinj k k' v h1 h2

theorem addNode_inj_fresh : ∀ (segs : List Str) (s d : List Str) (st : St), segs ≠ [] → RefOk st → RefInj st →
    dget (join arrow segs.reverse) st.ref = none →
    ∀ st', addNode segs s d st = .ok st' → RefInj st' ∧ Fresh st st' := by
  intro segs
  induction segs with
  | nil => intro s d st h; exact absurd rfl h
  | cons t rest ih =>
    intro s d st _ hwf hinj habs st' h
    cases rest with
    | nil =>
      simp only [addNode] at h
      injection h with h
      subst h
      refine ⟨refInj_dset st _ _ t hwf hinj, ?_⟩
      intro k v hk hnone
      simp only at hk
      rw [dget_dset] at hk
      by_cases e : t = k
      · simp only [e, if_true] at hk; injection hk with hk; omega
      · simp only [e, if_false] at hk; rw [hnone] at hk; cases hk
    | cons p ps =>
      -- the state after the (possible) creation of the parent
      have hst1 : ∃ st1 pi, (if (dget (join arrow (p :: ps).reverse) st.ref).isNone then addNode (p :: ps) [] [] st else .ok st) = .ok st1 ∧
          RefOk st1 ∧ RefInj st1 ∧ Fresh st st1 ∧ st.arena.length ≤ st1.arena.length ∧
          dget (join arrow (p :: ps).reverse) st1.ref = some pi := by
        cases hpar : dget (join arrow (p :: ps).reverse) st.ref with
        | none =>
          obtain ⟨st1, h1, hwf1, hext1, _, _, nn, _, hnn, _⟩ := addNode_spec (p :: ps) [] [] st (by simp) hwf hpar
          obtain ⟨hi1, hf1⟩ := ih [] [] st (by simp) hwf hinj hpar st1 h1
          exact ⟨st1, st1.arena.length - 1, by simpa using h1, hwf1, hi1, hf1, hext1.len, hnn⟩
        | some pi =>
          refine ⟨st, pi, by simp, hwf, hinj, ?_, Nat.le_refl _, hpar⟩
          intro k v hk hnone; rw [hnone] at hk; cases hk
      obtain ⟨st1, pi, h1, hwf1, hinj1, hfresh1, hlen1, hpar1⟩ := hst1
      have hpi := hwf1 _ _ hpar1
      obtain ⟨pn, hpn⟩ : ∃ pn, st1.arena[pi]? = some pn := ⟨st1.arena[pi], by simp [hpi]⟩
      simp only [addNode, h1, hpar1, hpn] at h
      injection h with h
      subst h
      refine ⟨refInj_dset st1 _ _ _ hwf1 hinj1, ?_⟩
      intro k v hk hnone
      simp only at hk
      rw [dget_dset] at hk
      by_cases e : join arrow (t :: p :: ps).reverse = k
      · simp only [e, if_true] at hk; injection hk with hk; omega
      · simp only [e, if_false] at hk
        exact hfresh1 k v hk hnone

/-! ### the frame of one `update_node` and of the whole loop -/

structure Grow (st st' : St) (T : List Nat) : Prop where
  len : st.arena.length ≤ st'.arena.length
  nodes : ∀ (j : Nat) (a : Node), st.arena[j]? = some a → ∃ b : Node, st'.arena[j]? = some b ∧ b.title = a.title ∧
    b.parent = a.parent ∧ b.level = a.level ∧ a.children <+: b.children ∧
    (j ∉ T → b.settings = a.settings ∧ b.data = a.data)
  roots : st.roots <+: st'.roots
  ref : ∀ k v, dget k st.ref = some v → dget k st'.ref = some v
  fresh : Fresh st st'

theorem Grow.refl (st : St) : Grow st st [] :=
  ⟨Nat.le_refl _, fun _ a h => ⟨a, h, rfl, rfl, rfl, List.prefix_refl _, fun _ => ⟨rfl, rfl⟩⟩, List.prefix_refl _,
   fun _ _ h => h, fun k v hk hn => by rw [hn] at hk; cases hk⟩

theorem Grow.trans {a b c : St} {T T' T'' : List Nat} (h1 : Grow a b T) (h2 : Grow b c T')
    (hT : ∀ j ∈ T', j < a.arena.length → j ∈ T'') : Grow a c (T ++ T'') := by
  refine ⟨Nat.le_trans h1.len h2.len, ?_, List.IsPrefix.trans h1.roots h2.roots,
    fun k v h => h2.ref k v (h1.ref k v h), ?_⟩
  · intro j x hx
    obtain ⟨y, hy, e1, e2, e3, e4, e5⟩ := h1.nodes j x hx
    obtain ⟨z, hz, f1, f2, f3, f4, f5⟩ := h2.nodes j y hy
    refine ⟨z, hz, f1.trans e1, f2.trans e2, f3.trans e3, List.IsPrefix.trans e4 f4, ?_⟩
    intro hj
    have hj1 : j ∉ T := fun m => hj (List.mem_append_left _ m)
    have hj2 : j ∉ T' := fun m => hj (List.mem_append_right _ (hT j m (getElem?_lt_of_some _ _ _ hx)))
    exact ⟨(f5 hj2).1.trans (e5 hj1).1, (f5 hj2).2.trans (e5 hj1).2⟩
  · intro k v hk hnone
    cases hb : dget k b.ref with
    | none => exact Nat.le_trans h1.len (h2.fresh k v hk hb)
    | some w =>
      have := h2.ref k w hb
      rw [hk] at this; injection this with this; subst this
      exact h1.fresh k v hb hnone

theorem Grow.mono {a b : St} {T T' : List Nat} (h : Grow a b T) (hT : ∀ j ∈ T, j ∈ T') : Grow a b T' :=
  ⟨h.len, fun j x hx => by
    obtain ⟨y, hy, e1, e2, e3, e4, e5⟩ := h.nodes j x hx
    exact ⟨y, hy, e1, e2, e3, e4, fun hj => e5 (fun m => hj (hT j m))⟩, h.roots, h.ref, h.fresh⟩

/-- **one `update_node`**: invariants kept, and only the node the target names (if any) may change data/settings -/
theorem updateNode_step (u : Upd) (st st1 : St) (hwf : RefOk st) (hinj : RefInj st)
    (h : updateNode u st = .ok st1) :
    RefOk st1 ∧ RefInj st1 ∧ Grow st st1 (dget u.target st.ref).toList := by
  cases href : dget u.target st.ref with
  | some i =>
    cases hn : st.arena[i]? with
    | none => simp [updateNode, href, hn] at h
    | some n =>
      rw [updateNode_present u st i n href hn] at h
      cases hs : nodeStep u n with
      | error e => simp [hs] at h
      | ok n' =>
        simp only [hs] at h
        injection h with h
        subst h
        obtain ⟨k1, k2, k3, k4⟩ := nodeStep_keeps u n n' hs
        have hi : i < st.arena.length := getElem?_lt_of_some _ _ _ hn
        refine ⟨?_, hinj, ?_⟩
        · intro k v hk
          have := hwf k v hk
          simpa using this
        · refine ⟨by simp, ?_, List.prefix_refl _, fun _ _ hk => hk, ?_⟩
          · intro j a ha
            by_cases e : i = j
            · subst e
              rw [hn] at ha; injection ha with ha; subst ha
              refine ⟨n', by simp [hi], k1, k2, k3, by rw [k4]; exact List.prefix_refl _, ?_⟩
              intro hj; exact absurd (by simp) hj
            · exact ⟨a, by simp [e, ha], rfl, rfl, rfl, List.prefix_refl _, fun _ => ⟨rfl, rfl⟩⟩
          · intro k v hk hnone; simp only at hk; rw [hnone] at hk; cases hk
  | none =>
    obtain ⟨st', h1', hwf', hext, _, _⟩ := cp2k_edit_exact_absent u st hwf href
    rw [h] at h1'
    injection h1' with h1'
    subst h1'
    have hne : (splitArrow u.target).reverse ≠ [] := by
      simpa [splitArrow] using splitArrowGo_ne_nil u.target [] false
    have hkey : join arrow (splitArrow u.target).reverse.reverse = u.target := by
      rw [List.reverse_reverse, join_splitArrow]
    have hadd : addNode (splitArrow u.target).reverse (u.settings.getD []) (u.data.map fmtEntry) st = .ok st1 := by
      simpa [updateNode, href] using h
    obtain ⟨hinj', hfresh⟩ := addNode_inj_fresh _ _ _ st hne hwf hinj (by rw [hkey]; exact href) st1 hadd
    refine ⟨hwf', hinj', ⟨hext.len, ?_, hext.roots, hext.ref, hfresh⟩⟩
    intro j a ha
    obtain ⟨b, hb, e1, e2, e3, e4, e5, e6⟩ := hext.nodes j a ha
    exact ⟨b, hb, e1, e4, e5, e6, fun _ => ⟨e2, e3⟩⟩

/-- a settled entry stays settled when another entry is applied -/
theorem settled_step (u u' : Upd) (st st1 : St) (hwf : RefOk st) (hinj : RefInj st)
    (hne : u'.target ≠ u.target) (hs : Settled u st) (h : updateNode u' st = .ok st1) : Settled u st1 := by
  obtain ⟨_, _, hg⟩ := updateNode_step u' st st1 hwf hinj h
  obtain ⟨i, n, href, hn, hstep⟩ := hs
  obtain ⟨b, hb, _, _, _, _, e5⟩ := hg.nodes i n hn
  have hi : i ∉ (dget u'.target st.ref).toList := by
    intro m
    cases h' : dget u'.target st.ref with
    | none => rw [h'] at m; simp at m
    | some i' =>
      rw [h'] at m
      simp only [Option.toList_some, List.mem_singleton] at m
      subst m
      exact hne (hinj _ _ _ h' href)
  obtain ⟨es, ed⟩ := e5 hi
  exact ⟨i, b, hg.ref _ _ href, hb, nodeStep_congr u n b ed es hstep⟩

/-- the entries after which a second application changes nothing: replace mode with ready lines (list data, or a
    dict all of whose values are `None`), or merge mode with a dict whose keys are distinct single tokens -/
def Guard (u : Upd) : Prop :=
  (u.replace = true ∧ ∀ kv ∈ u.data, kv.2 = none) ∨ (u.replace = false ∧ u.isList = false ∧ DataOk u.data)

theorem newSettings_true_getD (req : Option (List Str)) : newSettings req true (req.getD []) = req.getD [] := by
  cases req <;> simp [newSettings]

/-- **one `update_node` settles its entry**, whether the target existed or had to be created -/
theorem settle (u : Upd) (st st1 : St) (hwf : RefOk st) (hg : Guard u) (h : updateNode u st = .ok st1) :
    Settled u st1 := by
  cases href : dget u.target st.ref with
  | some i =>
    have hg' : u.replace = true ∨ u.isList = true ∨ DataOk u.data := by
      rcases hg with ⟨a, _⟩ | ⟨_, _, c⟩
      · exact Or.inl a
      · exact Or.inr (Or.inr c)
    have h2 := cp2k_edit_idempotent u st st1 i href h hg'
    have href1 : dget u.target st1.ref = some i := by
      cases hn : st.arena[i]? with
      | none => simp [updateNode, href, hn] at h
      | some n =>
        rw [updateNode_present u st i n href hn] at h
        cases hs : nodeStep u n with
        | error e => simp [hs] at h
        | ok n' =>
          simp only [hs] at h
          injection h with h
          subst h
          exact href
    exact settled_of_fix href1 h2
  | none =>
    obtain ⟨st', h1', _, _, _, nn, hnn, hget, _, hs, hd, _⟩ := cp2k_edit_exact_absent u st hwf href
    rw [h] at h1'
    injection h1' with h1'
    subst h1'
    rcases hg with ⟨hr, hnone⟩ | ⟨hr, hl, hok⟩
    · refine ⟨_, nn, hget, hnn, ?_⟩
      have hmap : u.data.map fmtEntry = u.data.map (·.1) := by
        apply List.map_congr_left
        intro kv hkv
        simp [fmtEntry, hnone kv hkv]
      simp only [nodeStep, hr, if_true]
      have e1 : u.data.map (·.1) = nn.data := by rw [hd, hmap]
      have e2 : newSettings u.settings true nn.settings = nn.settings := by rw [hs]; exact newSettings_true_getD _
      rw [e1, e2]
    · exact settled_of_fix hget (cp2k_edit_idempotent_absent u st st1 hwf href hr hl hok h)

/-- invariant of the loop: every entry already applied is settled -/
theorem applyUpdates_settles : ∀ (us : List Upd) (done : List Upd) (st st' : St), RefOk st → RefInj st →
    (∀ u ∈ done, Settled u st) → (∀ u ∈ us, Guard u) → (us.map (·.target)).Nodup →
    (∀ u ∈ us, ∀ d ∈ done, u.target ≠ d.target) → applyUpdates us st = .ok st' →
    RefOk st' ∧ RefInj st' ∧ ∀ u, u ∈ done ∨ u ∈ us → Settled u st' := by
  intro us
  induction us with
  | nil =>
    intro done st st' hwf hinj hd _ _ _ h
    simp only [applyUpdates] at h
    injection h with h; subst h
    exact ⟨hwf, hinj, fun u hu => by rcases hu with hu | hu; exact hd u hu; cases hu⟩
  | cons u us ih =>
    intro done st st' hwf hinj hd hg hnd hdis h
    simp only [applyUpdates] at h
    cases h1 : updateNode u st with
    | error e => simp [h1] at h
    | ok st1 =>
      simp only [h1] at h
      obtain ⟨hwf1, hinj1, _⟩ := updateNode_step u st st1 hwf hinj h1
      simp only [List.map_cons, List.nodup_cons] at hnd
      have hd1 : ∀ x ∈ u :: done, Settled x st1 := by
        intro x hx
        rcases List.mem_cons.1 hx with e | hx
        · subst e; exact settle x st st1 hwf (hg x (by simp)) h1
        · exact settled_step x u st st1 hwf hinj (hdis u (by simp) x hx) (hd x hx) h1
      have hdis1 : ∀ x ∈ us, ∀ d ∈ u :: done, x.target ≠ d.target := by
        intro x hx d hdm
        rcases List.mem_cons.1 hdm with e | hdm
        · subst e
          intro e'
          exact hnd.1 (List.mem_map.2 ⟨x, hx, e'⟩)
        · exact hdis x (List.mem_cons_of_mem _ hx) d hdm
      obtain ⟨a, b, c⟩ := ih (u :: done) st1 st' hwf1 hinj1 hd1 (fun x hx => hg x (List.mem_cons_of_mem _ hx)) hnd.2 hdis1 h
      refine ⟨a, b, fun x hx => c x ?_⟩
      rcases hx with hx | hx
      · exact Or.inl (List.mem_cons_of_mem _ hx)
      · rcases List.mem_cons.1 hx with e | hx
        · subst e; exact Or.inl (by simp)
        · exact Or.inr hx

theorem applyUpdates_fix : ∀ (us : List Upd) (st : St), (∀ u ∈ us, Settled u st) → applyUpdates us st = .ok st := by
  intro us
  induction us with
  | nil => intro st _; rfl
  | cons u us ih =>
    intro st h
    simp only [applyUpdates, (h u (by simp)).fix]
    exact ih st (fun x hx => h x (List.mem_cons_of_mem _ hx))

/-- **edit_idempotent (CP2K), the whole update loop.**  After `update_cp2k_input`'s loop over the `update` dict
    every entry's target exists and is a fixed point of its entry; running the loop again returns the same state. -/
theorem cp2k_edit_many_idempotent (us : List Upd) (st st' : St) (hwf : RefOk st) (hinj : RefInj st)
    (hnd : (us.map (·.target)).Nodup) (hg : ∀ u ∈ us, Guard u) (h : applyUpdates us st = .ok st') :
    (∀ u ∈ us, Settled u st') ∧ applyUpdates us st' = .ok st' := by
  obtain ⟨_, _, c⟩ := applyUpdates_settles us [] st st' hwf hinj (fun _ h => by cases h) hg hnd
    (fun _ _ _ h => by cases h) h
  have hs : ∀ u ∈ us, Settled u st' := fun u hu => c u (Or.inr hu)
  exact ⟨hs, applyUpdates_fix us st' hs⟩

/-- **edit_exact (CP2K), the whole update loop.**  Whatever the entries are: nothing is lost (every node keeps
    title, parent, level; children and roots only grow; every key keeps its node; new keys name new nodes), and a
    node of the template keeps its settings and data unless an entry's target names it. -/
theorem cp2k_edit_many_exact : ∀ (us : List Upd) (st st' : St), RefOk st → RefInj st →
    applyUpdates us st = .ok st' →
    RefOk st' ∧ RefInj st' ∧ Grow st st' (us.filterMap (fun u => dget u.target st.ref)) := by
  intro us
  induction us with
  | nil =>
    intro st st' hwf hinj h
    simp only [applyUpdates] at h
    injection h with h; subst h
    exact ⟨hwf, hinj, Grow.refl st⟩
  | cons u us ih =>
    intro st st' hwf hinj h
    simp only [applyUpdates] at h
    cases h1 : updateNode u st with
    | error e => simp [h1] at h
    | ok st1 =>
      simp only [h1] at h
      obtain ⟨hwf1, hinj1, hg1⟩ := updateNode_step u st st1 hwf hinj h1
      obtain ⟨a, b, hg2⟩ := ih st1 st' hwf1 hinj1 h
      refine ⟨a, b, ?_⟩
      have := Grow.trans hg1 hg2 (T'' := us.filterMap (fun u => dget u.target st.ref)) (by
        intro j hj hlt
        obtain ⟨x, hx, hxj⟩ := List.mem_filterMap.1 hj
        refine List.mem_filterMap.2 ⟨x, hx, ?_⟩
        cases hst : dget x.target st.ref with
        | none =>
          have := hg1.fresh _ _ hxj hst
          omega
        | some w =>
          have := hg1.ref _ _ hst
          rw [hxj] at this
          exact this.symm)
      refine this.mono ?_
      intro j hj
      rcases List.mem_append.1 hj with hj | hj
      · cases hu : dget u.target st.ref with
        | none => rw [hu] at hj; simp at hj
        | some w =>
          rw [hu] at hj
          simp only [Option.toList_some, List.mem_singleton] at hj
          subst hj
          simp [hu]
      · simp only [List.filterMap_cons]
        cases hu : dget u.target st.ref with
        | none => simpa using hj
        | some w => simp [hj]

/-! ### what a settled entry says about its node -/

/-- every requested entry is a line of the merged data (`KEY value`, or the bare `KEY`) -/
theorem fmtEntry_mem_mergeSpec (data : List (Str × Option Str)) (old : List Str) (hok : DataOk data)
    (kv : Str × Option Str) (hkv : kv ∈ data) : fmtEntry kv ∈ mergeSpec data old := by
  unfold mergeSpec
  by_cases h : kv.1 ∈ lineKeys old
  · obtain ⟨l, hl, hft⟩ := List.mem_filterMap.1 h
    apply List.mem_append_left
    refine List.mem_map.2 ⟨l, hl, ?_⟩
    have hd : dget kv.1 data = some kv.2 := dget_of_mem_nodup kv.1 kv.2 data hkv hok.nodup
    simp [rewriteLine, hft, hd]
  · apply List.mem_append_right
    exact List.mem_map.2 ⟨kv, List.mem_filter.2 ⟨hkv, by simpa using h⟩, rfl⟩

/-- replace mode: the node's data are exactly the requested lines -/
theorem Settled.replace_data {u : Upd} {st : St} (hs : Settled u st) (hr : u.replace = true) :
    ∃ i n, dget u.target st.ref = some i ∧ st.arena[i]? = some n ∧ n.data = u.data.map (·.1) := by
  obtain ⟨i, n, href, hn, hstep⟩ := hs
  refine ⟨i, n, href, hn, ?_⟩
  simp only [nodeStep, hr, if_true] at hstep
  injection hstep with hstep
  have := congrArg Node.data hstep
  simpa using this.symm

/-- merge mode: every requested entry is a line of the node's data -/
theorem Settled.merge_data {u : Upd} {st : St} (hs : Settled u st) (hr : u.replace = false) (hl : u.isList = false)
    (hok : DataOk u.data) :
    ∃ i n, dget u.target st.ref = some i ∧ st.arena[i]? = some n ∧ ∀ kv ∈ u.data, fmtEntry kv ∈ n.data := by
  obtain ⟨i, n, href, hn, hstep⟩ := hs
  refine ⟨i, n, href, hn, ?_⟩
  simp only [nodeStep, hr, Bool.false_eq_true, if_false] at hstep
  cases hm : mergeData u n.data with
  | error e => simp [hm] at hstep
  | ok nd =>
    simp only [hm] at hstep
    injection hstep with hstep
    have hnd : nd = n.data := by have := congrArg Node.data hstep; simpa using this
    have htok : ∀ l ∈ n.data, (firstTok l).isSome = true := by
      have hm' := hm
      unfold mergeData at hm'
      cases hmo : mergeOld u.data u.isList n.data with
      | error e => simp [hmo] at hm'
      | ok r => exact mergeOld_ok_tok _ _ _ r hmo
    have hspec := mergeData_eq_spec u n.data hl htok
    rw [hm] at hspec
    injection hspec with hspec
    intro kv hkv
    rw [← hnd, hspec]
    exact fmtEntry_mem_mergeSpec u.data n.data hok kv hkv

/-! ### `write_for_run_vel` -/

theorem listData_none (ls : List Str) : ∀ kv ∈ listData ls, kv.2 = none := by
  intro kv h
  obtain ⟨l, _, rfl⟩ := List.mem_map.1 h
  rfl

theorem listData_fst (ls : List Str) : (listData ls).map (·.1) = ls := by
  simp [listData, List.map_map, Function.comp_def]

theorem dataOk_of (data : List (Str × Option Str)) (ks : List Str) (hk : data.map (·.1) = ks) (h1 : ks.Nodup)
    (h2 : ∀ k ∈ ks, k ≠ [] ∧ ∀ c ∈ k, isWs c = false) : DataOk data :=
  ⟨by rw [hk]; exact h1, fun kv hkv => h2 kv.1 (by rw [← hk]; exact List.mem_map.2 ⟨kv, hkv, rfl⟩)⟩

/-- the nine targets, whatever the arguments -/
theorem wfrVel_targets (name timestep posfile : Str) (nsteps subcycles : Int) (pf : Option Int)
    (vel : List (Str × Str × Str)) :
    (wfrVelUpdates name timestep posfile nsteps subcycles pf vel).map (·.target) =
      ["GLOBAL".toList, "MOTION->MD".toList, "MOTION->PRINT->RESTART".toList, "MOTION->PRINT->RESTART->EACH".toList,
       "MOTION->PRINT->VELOCITIES->EACH".toList, "MOTION->PRINT->TRAJECTORY->EACH".toList,
       "FORCE_EVAL->SUBSYS->TOPOLOGY".toList, "FORCE_EVAL->SUBSYS->VELOCITY".toList,
       "FORCE_EVAL->DFT->SCF->PRINT->RESTART".toList] := rfl

theorem wfrVel_nodup (name timestep posfile : Str) (nsteps subcycles : Int) (pf : Option Int)
    (vel : List (Str × Str × Str)) :
    ((wfrVelUpdates name timestep posfile nsteps subcycles pf vel).map (·.target)).Nodup := by
  rw [wfrVel_targets]; decide

/-- every entry that `write_for_run_vel` builds is a replace-with-lines or a merge of a dict with token keys -/
theorem wfrVel_guard (name timestep posfile : Str) (nsteps subcycles : Int) (pf : Option Int)
    (vel : List (Str × Str × Str)) :
    ∀ u ∈ wfrVelUpdates name timestep posfile nsteps subcycles pf vel, Guard u := by
  intro u hu
  simp only [wfrVelUpdates, List.mem_cons, List.not_mem_nil, or_false] at hu
  rcases hu with rfl | rfl | rfl | rfl | rfl | rfl | rfl | rfl | rfl
  · exact Or.inl ⟨rfl, listData_none _⟩
  · exact Or.inr ⟨rfl, rfl, dataOk_of _ ["STEPS".toList, "TIMESTEP".toList] rfl (by decide) (by decide)⟩
  · exact Or.inl ⟨rfl, listData_none _⟩
  · exact Or.inr ⟨rfl, rfl, dataOk_of _ ["MD".toList] rfl (by decide) (by decide)⟩
  · exact Or.inr ⟨rfl, rfl, dataOk_of _ ["MD".toList] rfl (by decide) (by decide)⟩
  · exact Or.inr ⟨rfl, rfl, dataOk_of _ ["MD".toList] rfl (by decide) (by decide)⟩
  · exact Or.inr ⟨rfl, rfl, dataOk_of _ ["COORD_FILE_NAME".toList, "COORD_FILE_FORMAT".toList] rfl (by decide) (by decide)⟩
  · exact Or.inl ⟨rfl, listData_none _⟩
  · exact Or.inl ⟨rfl, listData_none _⟩

/-! ### decidable sufficient conditions for the invariants, and a concrete template -/

theorem dget_some_mem {α : Type} (k : Str) (v : α) : ∀ (r : List (Str × α)), dget k r = some v → (k, v) ∈ r := by
  intro r
  induction r with
  | nil => intro h; simp [dget] at h
  | cons kv t ih =>
    intro h
    obtain ⟨k2, v2⟩ := kv
    by_cases e : k2 = k
    · simp only [dget, e, if_true] at h; injection h with h; subst h; subst e; simp
    · simp only [dget, e, if_false] at h; exact List.mem_cons_of_mem _ (ih h)

theorem refInj_of_nodup (st : St) (h : (st.ref.map (·.2)).Nodup) : RefInj st := by
  intro k k' v h1 h2
  generalize st.ref = r at h h1 h2
  induction r with
  | nil => simp [dget] at h1
  | cons kv t ih =>
    obtain ⟨k2, v2⟩ := kv
    simp only [List.map_cons, List.nodup_cons] at h
    by_cases e1 : k2 = k
    · by_cases e2 : k2 = k'
      · rw [← e1, ← e2]
      · simp only [dget, e1, if_true] at h1
        simp only [dget, e2, if_false] at h2
        injection h1 with h1; subst h1
        exact absurd (List.mem_map.2 ⟨(k', v2), dget_some_mem _ _ _ h2, rfl⟩) h.1
    · by_cases e2 : k2 = k'
      · simp only [dget, e1, if_false] at h1
        simp only [dget, e2, if_true] at h2
        injection h2 with h2; subst h2
        exact absurd (List.mem_map.2 ⟨(k, v2), dget_some_mem _ _ _ h1, rfl⟩) h.1
      · simp only [dget, e1, if_false] at h1
        simp only [dget, e2, if_false] at h2
        exact ih h.2 h1 h2

theorem stMD_inv : RefOk stMD ∧ RefInj stMD :=
  ⟨refOk_of_all stMD (by decide), refInj_of_nodup stMD (by decide)⟩

/-- **the update loop of `write_for_run_vel`** on any well-formed state: a second run of the loop changes nothing;
    the VELOCITY section holds exactly the requested lines in order, GLOBAL exactly the three requested lines, MD
    the requested STEPS and TIMESTEP lines; nodes not addressed keep their settings and data. -/
theorem wfrVel_loop (name timestep posfile : Str) (nsteps subcycles : Int) (pf : Option Int)
    (vel : List (Str × Str × Str)) (st st' : St) (hwf : RefOk st) (hinj : RefInj st)
    (h : applyUpdates (wfrVelUpdates name timestep posfile nsteps subcycles pf vel) st = .ok st') :
    applyUpdates (wfrVelUpdates name timestep posfile nsteps subcycles pf vel) st' = .ok st' ∧
    (∃ i n, dget "FORCE_EVAL->SUBSYS->VELOCITY".toList st'.ref = some i ∧ st'.arena[i]? = some n ∧
      n.data = vel.map velLine) ∧
    (∃ i n, dget "GLOBAL".toList st'.ref = some i ∧ st'.arena[i]? = some n ∧
      n.data = ["PROJECT ".toList ++ name, "RUN_TYPE MD".toList, "PRINT_LEVEL LOW".toList]) ∧
    (∃ i n, dget "MOTION->MD".toList st'.ref = some i ∧ st'.arena[i]? = some n ∧
      ("STEPS".toList ++ [' '] ++ intStr (nsteps * subcycles)) ∈ n.data ∧ ("TIMESTEP".toList ++ [' '] ++ timestep) ∈ n.data) ∧
    Grow st st' ((wfrVelUpdates name timestep posfile nsteps subcycles pf vel).filterMap (fun u => dget u.target st.ref)) := by
  obtain ⟨hs, hfix⟩ := cp2k_edit_many_idempotent _ st st' hwf hinj
    (wfrVel_nodup name timestep posfile nsteps subcycles pf vel)
    (wfrVel_guard name timestep posfile nsteps subcycles pf vel) h
  obtain ⟨_, _, hgrow⟩ := cp2k_edit_many_exact _ st st' hwf hinj h
  refine ⟨hfix, ?_, ?_, ?_, hgrow⟩
  · have hu := hs { target := "FORCE_EVAL->SUBSYS->VELOCITY".toList, settings := none, replace := true, isList := true,
                    data := listData (vel.map velLine) } (by simp [wfrVelUpdates])
    obtain ⟨i, n, a, b, c⟩ := hu.replace_data rfl
    exact ⟨i, n, a, b, by rw [c]; exact listData_fst _⟩
  · have hu := hs { target := "GLOBAL".toList, settings := none, replace := true, isList := true,
                    data := listData ["PROJECT ".toList ++ name, "RUN_TYPE MD".toList, "PRINT_LEVEL LOW".toList] }
      (by simp [wfrVelUpdates])
    obtain ⟨i, n, a, b, c⟩ := hu.replace_data rfl
    exact ⟨i, n, a, b, by rw [c]; exact listData_fst _⟩
  · have hu := hs { target := "MOTION->MD".toList, settings := none, replace := false, isList := false,
                    data := [("STEPS".toList, some (intStr (nsteps * subcycles))), ("TIMESTEP".toList, some timestep)] }
      (by simp [wfrVelUpdates])
    obtain ⟨i, n, a, b, c⟩ := hu.merge_data rfl rfl
      (dataOk_of _ ["STEPS".toList, "TIMESTEP".toList] rfl (by decide) (by decide))
    refine ⟨i, n, a, b, ?_, ?_⟩
    · exact c ("STEPS".toList, some (intStr (nsteps * subcycles))) (by simp)
    · exact c ("TIMESTEP".toList, some timestep) (by simp)

end Infretis.Cp2k
