import Infretis.Model.TemplateCp2kRepaired
import Infretis.Lemmas.TemplateCp2k
/-!
C19 — the repaired variant of `update_node` (`Model/TemplateCp2kRepaired.lean`, keywords compared up to case): the
merge law of its two loops, and the statement the open finding C19:cp2k:wfrvel:keyword-case refutes for the code as
it is — after the edit every line of the section whose keyword is a requested one (in ANY case) is the requested line,
and there is at least one.
-/
namespace Infretis.Cp2k

/-- what the first loop makes of one line -/
def editLineR (data : List (Str × Option Str)) (line : Str) : Str :=
  match firstTok line with
  | none => line
  | some key =>
    match dgetCI key data with
    | some kv => fmtEntry kv
    | none => line

/-- the `done` set of the first loop -/
def doneR (data : List (Str × Option Str)) : List Str → List Str
  | [] => []
  | line :: t =>
    match firstTok line with
    | none => doneR data t
    | some key =>
      match dgetCI key data with
      | some kv => kv.1 :: doneR data t
      | none => doneR data t

theorem dgetCI_some {key : Str} {data : List (Str × Option Str)} {kv : Str × Option Str}
    (h : dgetCI key data = some kv) : kv ∈ data ∧ upper kv.1 = upper key := by
  induction data with
  | nil => simp [dgetCI] at h
  | cons a t ih =>
    simp only [dgetCI] at h
    by_cases e : upper a.1 = upper key
    · simp only [e, if_true, Option.some.injEq] at h
      subst h; exact ⟨by simp, e⟩
    · simp only [e, if_false] at h
      exact ⟨List.mem_cons_of_mem _ (ih h).1, (ih h).2⟩

theorem dgetCI_none {key : Str} {data : List (Str × Option Str)} (h : dgetCI key data = none) :
    ∀ kv ∈ data, upper kv.1 ≠ upper key := by
  induction data with
  | nil => intro kv hkv; simp at hkv
  | cons a t ih =>
    simp only [dgetCI] at h
    by_cases e : upper a.1 = upper key
    · simp [e] at h
    · simp only [e, if_false] at h
      intro x hx
      rcases List.mem_cons.1 hx with rfl | hx
      · exact e
      · exact ih h x hx

theorem mergeOldR_eq (data : List (Str × Option Str)) : ∀ (old : List Str), (∀ l ∈ old, (firstTok l).isSome = true) →
    mergeOldR data false old = .ok (old.map (editLineR data), doneR data old)
  | [], _ => rfl
  | line :: t, h => by
    have ih := mergeOldR_eq data t (fun l hl => h l (List.mem_cons_of_mem _ hl))
    have hl := h line (by simp)
    cases hf : firstTok line with
    | none => simp [hf] at hl
    | some key =>
      cases hd : dgetCI key data with
      | none => simp [mergeOldR, editLineR, doneR, hf, hd, ih]
      | some kv => simp [mergeOldR, editLineR, doneR, hf, hd, ih]

theorem mergeNewR_eq (done : List Str) : ∀ (data : List (Str × Option Str)),
    mergeNew false done data = .ok ((data.filter (fun kv => decide (kv.1 ∉ done))).map fmtEntry)
  | [] => rfl
  | (k, v) :: t => by
    have ih := mergeNewR_eq done t
    by_cases h : k ∈ done
    · simp [mergeNew, h, ih]
    · simp [mergeNew, h, ih]

/-- **the merge law of the repaired editor** (dict data, every old line has a first word) -/
theorem mergeDataR_eq (u : Upd) (old : List Str) (hl : u.isList = false)
    (htok : ∀ l ∈ old, (firstTok l).isSome = true) :
    mergeDataR u old = .ok (old.map (editLineR u.data) ++
      (u.data.filter (fun kv => decide (kv.1 ∉ doneR u.data old))).map fmtEntry) := by
  simp [mergeDataR, hl, mergeOldR_eq u.data old htok, mergeNewR_eq]

theorem doneR_mem {data : List (Str × Option Str)} {k : Str} : ∀ {old : List Str}, k ∈ doneR data old →
    ∃ line ∈ old, ∃ key kv, firstTok line = some key ∧ dgetCI key data = some kv ∧ kv.1 = k
  | [], h => by simp [doneR] at h
  | line :: t, h => by
    cases hf : firstTok line with
    | none =>
      simp only [doneR, hf] at h
      obtain ⟨l, hl, r⟩ := doneR_mem h
      exact ⟨l, List.mem_cons_of_mem _ hl, r⟩
    | some key =>
      cases hd : dgetCI key data with
      | none =>
        simp only [doneR, hf, hd] at h
        obtain ⟨l, hl, r⟩ := doneR_mem h
        exact ⟨l, List.mem_cons_of_mem _ hl, r⟩
      | some kv =>
        simp only [doneR, hf, hd, List.mem_cons] at h
        rcases h with rfl | h
        · exact ⟨line, by simp, key, kv, hf, hd, rfl⟩
        · obtain ⟨l, hl, r⟩ := doneR_mem h
          exact ⟨l, List.mem_cons_of_mem _ hl, r⟩

theorem inj_of_nodup_map {α β : Type} (f : α → β) : ∀ {l : List α}, (l.map f).Nodup →
    ∀ a ∈ l, ∀ b ∈ l, f a = f b → a = b
  | [], _, a, ha, _, _, _ => by simp at ha
  | x :: t, h, a, ha, b, hb, e => by
    simp only [List.map_cons, List.nodup_cons, List.mem_map, not_exists, not_and] at h
    rcases List.mem_cons.1 ha with rfl | ha' <;> rcases List.mem_cons.1 hb with rfl | hb'
    · rfl
    · exact absurd e.symm (h.1 b hb')
    · exact absurd e (h.1 a ha')
    · exact inj_of_nodup_map f h.2 a ha' b hb' e

/-- the requested keywords are distinct up to case and each is one word -/
structure KeysCI (data : List (Str × Option Str)) : Prop where
  nodup : (data.map (fun kv => upper kv.1)).Nodup
  tok : ∀ kv ∈ data, IsTok kv.1

/-- **what the finding refutes for the code as it is, proved for the repaired variant**: after the edit, for every
    requested entry, the requested line is in the section, and every line of the section whose first word is that
    keyword in any case IS the requested line (no stale `steps 3` next to `STEPS 21`) -/
theorem repaired_requested_entry (u : Upd) (old nd : List Str) (hl : u.isList = false)
    (htok : ∀ l ∈ old, (firstTok l).isSome = true) (hk : KeysCI u.data) (h : mergeDataR u old = .ok nd) :
    ∀ kv ∈ u.data, fmtEntry kv ∈ nd ∧
      ∀ l ∈ nd, ∀ key, firstTok l = some key → upper key = upper kv.1 → l = fmtEntry kv := by
  rw [mergeDataR_eq u old hl htok] at h
  have hnd := (Except.ok.inj h).symm
  subst hnd
  have hinj := inj_of_nodup_map (fun kv : Str × Option Str => upper kv.1) hk.nodup
  intro kv hkv
  constructor
  · by_cases hd : kv.1 ∈ doneR u.data old
    · obtain ⟨line, hline, key, kv', hf, hg, he⟩ := doneR_mem hd
      have hkv' := dgetCI_some hg
      have : kv' = kv := hinj kv' hkv'.1 kv hkv (by simp [he])
      subst this
      apply List.mem_append_left
      exact List.mem_map.2 ⟨line, hline, by simp [editLineR, hf, hg]⟩
    · apply List.mem_append_right
      exact List.mem_map.2 ⟨kv, List.mem_filter.2 ⟨hkv, by simpa using hd⟩, rfl⟩
  · intro l hlm key hf hup
    rcases List.mem_append.1 hlm with hm | hm
    · obtain ⟨line, hline, rfl⟩ := List.mem_map.1 hm
      cases hf0 : firstTok line with
      | none => exact absurd (htok line hline) (by simp [hf0])
      | some key0 =>
        cases hg : dgetCI key0 u.data with
        | none =>
          have e : editLineR u.data line = line := by simp [editLineR, hf0, hg]
          rw [e] at hf ⊢
          rw [hf0] at hf
          have : key0 = key := Option.some.inj hf
          subst this
          exact absurd hup.symm (dgetCI_none hg kv hkv)
        | some kv' =>
          have e : editLineR u.data line = fmtEntry kv' := by simp [editLineR, hf0, hg]
          rw [e] at hf ⊢
          have hkv' := dgetCI_some hg
          rw [firstTok_fmtEntry kv' (hk.tok kv' hkv'.1)] at hf
          have hkey : kv'.1 = key := Option.some.inj hf
          have : kv' = kv := hinj kv' hkv'.1 kv hkv (by simp [hkey, hup])
          rw [this]
    · obtain ⟨kv', hkv', rfl⟩ := List.mem_map.1 hm
      have hmem := (List.mem_filter.1 hkv').1
      rw [firstTok_fmtEntry kv' (hk.tok kv' hmem)] at hf
      have hkey : kv'.1 = key := Option.some.inj hf
      have : kv' = kv := hinj kv' hmem kv hkv (by simp [hkey, hup])
      rw [this]

/-- a line whose keyword is not requested in any case is kept -/
theorem editLineR_unrequested (data : List (Str × Option Str)) (l : Str)
    (h : ∀ key, firstTok l = some key → ∀ kv ∈ data, upper kv.1 ≠ upper key) : editLineR data l = l := by
  unfold editLineR
  cases hf : firstTok l with
  | none => rfl
  | some key =>
    cases hg : dgetCI key data with
    | none => simp [hg]
    | some kv => exact absurd (dgetCI_some hg).2 (h key hf kv (dgetCI_some hg).1)

end Infretis.Cp2k
