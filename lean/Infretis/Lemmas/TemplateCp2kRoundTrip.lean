import Infretis.Lemmas.TemplateCp2kMany
/-!
C19, part "cp2k": **print / read round trip over section forests** (the structural induction that
`Lemmas/TemplateCp2k.lean` left to the tie).

For every forest `ts` of trees that are `Tree.ok` (title one upper-case token not starting with "END", parameters
tokens, data lines stripped / non-empty / not starting with '&' / without line breaks):

* `readLines_printForest` — reading the printed lines builds exactly the arena `flats none 0 0 ts` (the nodes in
  preorder, children lists = the indices of the children, levels = depths) with roots `childIds 0 ts`;
* `toForest_flats` — the forest of that arena is `ts`;
* `cp2k_read_print_forest` — hence `readText (unlines (printForest ts))` has forest `ts` (parse ∘ print = id);
* `printLines_flats` / `cp2k_print_read_print` — and printing the state that was read gives the same text again
  (print ∘ parse ∘ print = print).
-/
namespace Infretis.Cp2k

/-! ### sizes, preorder numbering -/

mutual
def Tree.size : Tree → Nat
  | .node _ _ _ cs => sizes cs + 1
def sizes : List Tree → Nat
  | [] => 0
  | c :: cs => c.size + sizes cs
end

def childIds (id : Nat) : List Tree → List Nat
  | [] => []
  | c :: cs => id :: childIds (id + c.size) cs

mutual
/-- the nodes of a tree in preorder, numbered from `id` -/
def flat (par : Option Nat) (lvl id : Nat) : Tree → List Node
  | .node t s d cs =>
    { title := t, parent := par, settings := s, data := d, children := childIds (id + 1) cs, level := lvl }
      :: flats (some id) (lvl + 1) (id + 1) cs
def flats (par : Option Nat) (lvl id : Nat) : List Tree → List Node
  | [] => []
  | c :: cs => flat par lvl id c ++ flats par lvl (id + c.size) cs
end

mutual
theorem flat_length (par : Option Nat) (lvl id : Nat) : ∀ (t : Tree), (flat par lvl id t).length = t.size
  | .node t s d cs => by simp [flat, Tree.size, flats_length (some id) (lvl + 1) (id + 1) cs]
theorem flats_length (par : Option Nat) (lvl id : Nat) : ∀ (cs : List Tree), (flats par lvl id cs).length = sizes cs
  | [] => by simp [flats, sizes]
  | c :: cs => by simp [flats, sizes, flat_length par lvl id c, flats_length par lvl (id + c.size) cs]
end

theorem Tree.size_pos : ∀ (t : Tree), 0 < t.size
  | .node _ _ _ _ => by simp [Tree.size]

/-! ### small facts about the record updates of the reader -/

def addKids (ks : List Nat) (n : Node) : Node := { n with children := n.children ++ ks }
def addLines (ls : List Str) (n : Node) : Node := { n with data := n.data ++ ls }

theorem addKids_nil (n : Node) : addKids [] n = n := by cases n; simp [addKids]
theorem addKids_addKids (a b : List Nat) (n : Node) : addKids b (addKids a n) = addKids (a ++ b) n := by
  cases n; simp [addKids]
theorem addLines_nil (n : Node) : addLines [] n = n := by cases n; simp [addLines]
theorem addLines_addLines (a b : List Str) (n : Node) : addLines b (addLines a n) = addLines (a ++ b) n := by
  cases n; simp [addLines]

theorem getLast?_append_ne {α : Type} (l l' : List α) (h : l' ≠ []) : (l ++ l').getLast? = l'.getLast? := by
  rw [List.getLast?_append]
  cases hl : l'.getLast? with
  | none => exact absurd (List.getLast?_eq_none_iff.1 hl) h
  | some x => simp

theorem replicate_add_two {α : Type} (a : α) : ∀ (n : Nat), List.replicate (n + 2) a = List.replicate n a ++ [a, a] := by
  intro n
  induction n with
  | zero => rfl
  | succ k ih =>
    have : k + 1 + 2 = (k + 2) + 1 := by omega
    rw [this, List.replicate_succ, ih, List.replicate_succ]
    rfl

theorem readLines_append : ∀ (l1 l2 : List Str) (rs : RS),
    readLines rs (l1 ++ l2) = match readLines rs l1 with
      | .ok rs' => readLines rs' l2
      | .error e => .error e := by
  intro l1
  induction l1 with
  | nil => intro l2 rs; rfl
  | cons l ls ih =>
    intro l2 rs
    simp only [List.cons_append, readLines]
    cases h : readLine rs l with
    | error e => rfl
    | ok rs' => exact ih l2 rs'

/-! ### what the reader does with each kind of printed line -/

theorem tokOk_isTok {k : Str} (h : tokOk k = true) : IsTok k := by
  simp only [tokOk, Bool.and_eq_true, Bool.not_eq_true', List.all_eq_true] at h
  refine ⟨?_, fun c hc => by simpa using h.2 c hc⟩
  intro e; rw [e] at h; simp at h

theorem isTok_last {k : Str} (h : IsTok k) : ∀ c, k.getLast? = some c → isWs c = false :=
  fun c hc => h.2 c (List.mem_of_getLast? hc)

theorem isTok_head {k : Str} (h : IsTok k) : ∀ c, k.head? = some c → isWs c = false :=
  fun c hc => h.2 c (List.mem_of_head? hc)

/-- the text after the '&' of a header: title and parameters -/
def hdrRest (t : Str) (s : List Str) : Str := t ++ (if s = [] then [] else ' ' :: join [' '] s)

theorem join_last (s : List Str) (hs : ∀ x ∈ s, IsTok x) (hne : s ≠ []) :
    ∀ c, (join [' '] s).getLast? = some c → isWs c = false := by
  induction s with
  | nil => exact absurd rfl hne
  | cons a r ih =>
    cases r with
    | nil => simpa [join] using isTok_last (hs a (by simp))
    | cons b r' =>
      intro c hc
      have hne' : join [' '] (b :: r') ≠ [] := by
        cases r' with
        | nil => simpa [join] using (hs b (by simp)).1
        | cons x y => simp [join]
      simp only [join] at hc
      rw [getLast?_append_ne _ _ hne'] at hc
      exact ih (fun x hx => hs x (List.mem_cons_of_mem _ hx)) (by simp) c hc

theorem hdrRest_last (t : Str) (s : List Str) (ht : IsTok t) (hs : ∀ x ∈ s, IsTok x) :
    ∀ c, (hdrRest t s).getLast? = some c → isWs c = false := by
  unfold hdrRest
  by_cases he : s = []
  · simp only [he, if_true, List.append_nil]; exact isTok_last ht
  · simp only [he, if_false]
    intro c hc
    have hj : join [' '] s ≠ [] := by
      cases s with
      | nil => exact absurd rfl he
      | cons a r =>
        cases r with
        | nil => simpa [join] using (hs a (by simp)).1
        | cons b r' => simp [join]
    rw [getLast?_append_ne _ _ (by simp), List.getLast?_cons_of_ne_nil hj] at hc
    exact join_last s hs he c hc

theorem startsWithEnd_hdrRest (t : Str) (s : List Str) (ht : IsTok t) (h : startsWithEnd t = false) :
    startsWithEnd (hdrRest t s) = false := by
  unfold hdrRest
  by_cases he : s = []
  · simp [he, h]
  · simp only [he, if_false]
    match t, ht, h with
    | [], ht, _ => exact absurd rfl ht.1
    | [a], _, _ =>
      cases hj : join [' '] s with
      | nil => simp [startsWithEnd]
      | cons x y =>
        cases y with
        | nil => simp [startsWithEnd]
        | cons z w => simp [startsWithEnd]
    | [a, b], _, _ => simp [startsWithEnd]
    | a :: b :: c :: r, _, h => simpa [startsWithEnd] using h

/-- reading a header line at the top level -/
theorem readLine_header_root (A : List Node) (R : List Nat) (lvl : Nat) (t : Str) (s : List Str)
    (ht : IsTok t) (hu : upper t = t) (he : startsWithEnd t = false) (hs : ∀ x ∈ s, IsTok x) :
    readLine ⟨A, R, none⟩ (spaces (2 * lvl) ++ ['&'] ++ t ++ (if s = [] then [] else ' ' :: join [' '] s)) =
      .ok ⟨A ++ [{ title := t, parent := none, settings := s, data := [], children := [], level := 0 }],
           R ++ [A.length], some A.length⟩ := by
  have hstrip : strip (spaces (2 * lvl) ++ ['&'] ++ t ++ (if s = [] then [] else ' ' :: join [' '] s))
      = '&' :: hdrRest t s := by
    have := strip_indented (2 * lvl) ('&' :: hdrRest t s) (by intro c hc; simp at hc; subst hc; decide)
      (by
        intro c hc
        have hne : hdrRest t s ≠ [] := by unfold hdrRest; simp [ht.1]
        rw [List.getLast?_cons_of_ne_nil hne] at hc
        exact hdrRest_last t s ht hs c hc)
    simpa [hdrRest, List.append_assoc] using this
  have hsp : splitWs (hdrRest t s) = t :: s := splitWs_header t s ht hs
  simp only [readLine, hstrip, startsWithEnd_hdrRest t s ht he, hsp, hu, if_true, Bool.false_eq_true, if_false]

/-- reading a header line inside the section `cu` -/
theorem readLine_header_child (A : List Node) (R : List Nat) (cu : Nat) (p : Node) (lvl : Nat) (t : Str) (s : List Str)
    (hp : A[cu]? = some p)
    (ht : IsTok t) (hu : upper t = t) (he : startsWithEnd t = false) (hs : ∀ x ∈ s, IsTok x) :
    readLine ⟨A, R, some cu⟩ (spaces (2 * lvl) ++ ['&'] ++ t ++ (if s = [] then [] else ' ' :: join [' '] s)) =
      .ok ⟨A.set cu (addKids [A.length] p) ++
             [{ title := t, parent := some cu, settings := s, data := [], children := [], level := p.level + 1 }],
           R, some A.length⟩ := by
  have hstrip : strip (spaces (2 * lvl) ++ ['&'] ++ t ++ (if s = [] then [] else ' ' :: join [' '] s))
      = '&' :: hdrRest t s := by
    have := strip_indented (2 * lvl) ('&' :: hdrRest t s) (by intro c hc; simp at hc; subst hc; decide)
      (by
        intro c hc
        have hne : hdrRest t s ≠ [] := by unfold hdrRest; simp [ht.1]
        rw [List.getLast?_cons_of_ne_nil hne] at hc
        exact hdrRest_last t s ht hs c hc)
    simpa [hdrRest, List.append_assoc] using this
  have hsp : splitWs (hdrRest t s) = t :: s := splitWs_header t s ht hs
  simp only [readLine, hstrip, startsWithEnd_hdrRest t s ht he, hsp, hu, hp, if_true, Bool.false_eq_true, if_false,
    addKids]

theorem dataOk_props {l : Str} (h : dataOk l = true) :
    ∃ c r, l = c :: r ∧ isWs c = false ∧ c ≠ '&' ∧ (∀ z, l.getLast? = some z → isWs z = false) := by
  cases l with
  | nil => simp [dataOk] at h
  | cons c r =>
    simp only [dataOk, Bool.and_eq_true, Bool.not_eq_true', bne_iff_ne, ne_eq] at h
    obtain ⟨⟨⟨h1, h2⟩, h3⟩, _⟩ := h
    refine ⟨c, r, rfl, h1, h2, ?_⟩
    intro z hz
    rw [hz] at h3
    simpa using h3

/-- reading a data line inside the section `cu` -/
theorem readLine_data (A : List Node) (R : List Nat) (cu : Nat) (n : Node) (lvl : Nat) (l : Str)
    (hn : A[cu]? = some n) (hl : dataOk l = true) :
    readLine ⟨A, R, some cu⟩ (spaces (2 * lvl) ++ [' ', ' '] ++ l) = .ok ⟨A.set cu (addLines [l] n), R, some cu⟩ := by
  obtain ⟨c, r, rfl, h1, h2, h3⟩ := dataOk_props hl
  have hstrip : strip (spaces (2 * lvl) ++ [' ', ' '] ++ (c :: r)) = c :: r := by
    have := strip_indented (2 * lvl + 2) (c :: r) (by intro x hx; simp at hx; subst hx; exact h1) h3
    have e : spaces (2 * lvl + 2) = spaces (2 * lvl) ++ [' ', ' '] := replicate_add_two ' ' (2 * lvl)
    rw [e] at this
    exact this
  simp only [readLine, hstrip, h2, if_false, modifyAt, hn, addLines]

theorem startsWithEnd_end (t : Str) : startsWithEnd (['E', 'N', 'D', ' '] ++ t) = true := by
  simp [startsWithEnd]

/-- reading the end line of the section `cu` -/
theorem readLine_end (A : List Node) (R : List Nat) (cu : Nat) (n : Node) (lvl : Nat) (t : Str)
    (hn : A[cu]? = some n) (ht : IsTok t) :
    readLine ⟨A, R, some cu⟩ (spaces (2 * lvl) ++ ['&', 'E', 'N', 'D', ' '] ++ t) = .ok ⟨A, R, n.parent⟩ := by
  have hstrip : strip (spaces (2 * lvl) ++ ['&', 'E', 'N', 'D', ' '] ++ t) = '&' :: (['E', 'N', 'D', ' '] ++ t) := by
    have := strip_indented (2 * lvl) ('&' :: (['E', 'N', 'D', ' '] ++ t)) (by intro c hc; simp at hc; subst hc; decide)
      (by
        intro c hc
        have hne : ['E', 'N', 'D', ' '] ++ t ≠ [] := by simp
        rw [List.getLast?_cons_of_ne_nil hne, getLast?_append_ne _ _ ht.1] at hc
        exact isTok_last ht c hc)
    simpa [List.append_assoc] using this
  simp only [readLine, hstrip, startsWithEnd_end, if_true, hn]

/-- reading all data lines of a section -/
theorem readLines_data (R : List Nat) (cu lvl : Nat) : ∀ (d : List Str) (A : List Node) (n : Node),
    A[cu]? = some n → (∀ l ∈ d, dataOk l = true) →
    readLines ⟨A, R, some cu⟩ (d.map (fun l => spaces (2 * lvl) ++ [' ', ' '] ++ l)) =
      .ok ⟨A.set cu (addLines d n), R, some cu⟩ := by
  intro d
  induction d with
  | nil =>
    intro A n hn _
    simp only [List.map_nil, readLines, addLines_nil]
    rw [set_self A cu n hn]
  | cons l ls ih =>
    intro A n hn hd
    have hi : cu < A.length := getElem?_lt_of_some _ _ _ hn
    simp only [List.map_cons, readLines, readLine_data A R cu n lvl l hn (hd l (by simp))]
    rw [ih (A.set cu (addLines [l] n)) (addLines [l] n) (by simp [hi]) (fun x hx => hd x (List.mem_cons_of_mem _ hx))]
    simp [addLines_addLines]

/-! ### reading a printed tree -/

/-- after the header: data lines, children, end line (the statement about the children list is a premise) -/
theorem read_body (t : Str) (s d : List Str) (cs : List Tree) (par : Option Nat) (lvl : Nat)
    (B0 : List Node) (R : List Nat)
    (ht : IsTok t) (hd : ∀ l ∈ d, dataOk l = true)
    (hlist : ∀ (B : List Node) (n : Node), B[B0.length]? = some n → n.level = lvl →
      readLines ⟨B, R, some B0.length⟩ (printTrees (lvl + 1) cs) =
        .ok ⟨B.set B0.length (addKids (childIds B.length cs) n) ++ flats (some B0.length) (lvl + 1) B.length cs, R,
             some B0.length⟩) :
    readLines ⟨B0 ++ [{ title := t, parent := par, settings := s, data := [], children := [], level := lvl }], R,
               some B0.length⟩
      (d.map (fun l => spaces (2 * lvl) ++ [' ', ' '] ++ l) ++
        (printTrees (lvl + 1) cs ++ [spaces (2 * lvl) ++ ['&', 'E', 'N', 'D', ' '] ++ t])) =
      .ok ⟨B0 ++ flat par lvl B0.length (.node t s d cs), R, par⟩ := by
  let n0 : Node := { title := t, parent := par, settings := s, data := [], children := [], level := lvl }
  have h0 : (B0 ++ [n0])[B0.length]? = some n0 := by simp
  rw [readLines_append, readLines_data R B0.length lvl d (B0 ++ [n0]) n0 h0 hd]
  simp only
  have hset1 : (B0 ++ [n0]).set B0.length (addLines d n0) = B0 ++ [addLines d n0] := by
    rw [List.set_append_right _ _ (Nat.le_refl _)]; simp
  rw [hset1, readLines_append]
  have h1 : (B0 ++ [addLines d n0])[B0.length]? = some (addLines d n0) := by simp
  rw [hlist (B0 ++ [addLines d n0]) (addLines d n0) h1 rfl]
  simp only
  have hset2 : (B0 ++ [addLines d n0]).set B0.length (addKids (childIds (B0 ++ [addLines d n0]).length cs) (addLines d n0))
      = B0 ++ [addKids (childIds (B0.length + 1) cs) (addLines d n0)] := by
    rw [List.set_append_right _ _ (Nat.le_refl _)]; simp
  rw [hset2]
  have hlen : (B0 ++ [addLines d n0]).length = B0.length + 1 := by simp
  rw [hlen]
  have hfin : (B0 ++ [addKids (childIds (B0.length + 1) cs) (addLines d n0)] ++
      flats (some B0.length) (lvl + 1) (B0.length + 1) cs)[B0.length]?
      = some (addKids (childIds (B0.length + 1) cs) (addLines d n0)) := by
    rw [List.append_assoc, List.getElem?_append_right (Nat.le_refl _)]; simp
  simp only [readLines, readLine_end _ R B0.length _ lvl t hfin ht]
  congr 2
  simp [flat, addKids, addLines, n0]

theorem ok_node {t : Str} {s d : List Str} {cs : List Tree} (h : (Tree.node t s d cs).ok = true) :
    IsTok t ∧ upper t = t ∧ startsWithEnd t = false ∧ (∀ x ∈ s, IsTok x) ∧ (∀ l ∈ d, dataOk l = true) ∧ okTs cs = true := by
  simp only [Tree.ok, Bool.and_eq_true, Bool.not_eq_true', beq_iff_eq, List.all_eq_true] at h
  obtain ⟨⟨⟨⟨⟨⟨h1, _hascii⟩, h2⟩, h3⟩, h4⟩, h5⟩, h6⟩ := h
  exact ⟨tokOk_isTok h1, h2, h3, fun x hx => tokOk_isTok (h4 x hx), h5, h6⟩

mutual
/-- a printed tree read inside the section `p` -/
theorem read_tree_child : ∀ (t : Tree), t.ok = true → ∀ (A : List Node) (R : List Nat) (p : Nat) (pn : Node),
    A[p]? = some pn →
    readLines ⟨A, R, some p⟩ (printTree (pn.level + 1) t) =
      .ok ⟨A.set p (addKids [A.length] pn) ++ flat (some p) (pn.level + 1) A.length t, R, some p⟩
  | .node t s d cs, hok, A, R, p, pn, hp => by
    obtain ⟨ht, hu, he, hs, hd, hcs⟩ := ok_node hok
    simp only [printTree, readLines, readLine_header_child A R p pn (pn.level + 1) t s hp ht hu he hs]
    have hlenA : (A.set p (addKids [A.length] pn)).length = A.length := by simp
    have := read_body t s d cs (some p) (pn.level + 1) (A.set p (addKids [A.length] pn)) R ht hd
      (by
        intro B n hB hl
        rw [hlenA] at hB ⊢
        have := read_trees cs hcs B R A.length n hB
        rw [hl] at this
        exact this)
    rw [hlenA] at this
    exact this
/-- the printed children of the section `id` -/
theorem read_trees : ∀ (cs : List Tree), okTs cs = true → ∀ (B : List Node) (R : List Nat) (id : Nat) (n : Node),
    B[id]? = some n →
    readLines ⟨B, R, some id⟩ (printTrees (n.level + 1) cs) =
      .ok ⟨B.set id (addKids (childIds B.length cs) n) ++ flats (some id) (n.level + 1) B.length cs, R, some id⟩
  | [], _, B, R, id, n, hB => by
    simp only [printTrees, readLines, childIds, addKids_nil, flats, List.append_nil]
    rw [set_self B id n hB]
  | c :: cs, hok, B, R, id, n, hB => by
    simp only [okTs, Bool.and_eq_true] at hok
    have hi : id < B.length := getElem?_lt_of_some _ _ _ hB
    simp only [printTrees]
    rw [readLines_append, read_tree_child c hok.1 B R id n hB]
    simp only
    have hB' : (B.set id (addKids [B.length] n) ++ flat (some id) (n.level + 1) B.length c)[id]?
        = some (addKids [B.length] n) := by
      rw [List.getElem?_append_left (by simpa using hi)]; simp [hi]
    have hlvl : (addKids [B.length] n).level = n.level := rfl
    have := read_trees cs hok.2 _ R id (addKids [B.length] n) hB'
    rw [hlvl] at this
    rw [this]
    congr 2
    have hlen : (B.set id (addKids [B.length] n) ++ flat (some id) (n.level + 1) B.length c).length = B.length + c.size := by
      simp [flat_length]
    rw [hlen, List.set_append_left _ _ (by simpa using hi), List.set_set, addKids_addKids]
    simp [childIds, flats, List.append_assoc]
end

/-- a printed tree read at the top level -/
theorem read_tree_root (t : Tree) (hok : t.ok = true) (A : List Node) (R : List Nat) :
    readLines ⟨A, R, none⟩ (printTree 0 t) = .ok ⟨A ++ flat none 0 A.length t, R ++ [A.length], none⟩ := by
  match t, hok with
  | .node t s d cs, hok =>
    obtain ⟨ht, hu, he, hs, hd, hcs⟩ := ok_node hok
    simp only [printTree, readLines, readLine_header_root A R 0 t s ht hu he hs]
    exact read_body t s d cs none 0 A (R ++ [A.length]) ht hd
      (by
        intro B n hB hl
        have := read_trees cs hcs B (R ++ [A.length]) A.length n hB
        rw [hl] at this
        exact this)

theorem readLine_blank (rs : RS) : readLine rs [] = .ok rs := by
  simp [readLine, strip, lstrip]

/-- **reading a printed forest** builds the preorder arena -/
theorem readLines_printForest : ∀ (ts : List Tree), okTs ts = true → ∀ (A : List Node) (R : List Nat),
    readLines ⟨A, R, none⟩ (printForest ts) = .ok ⟨A ++ flats none 0 A.length ts, R ++ childIds A.length ts, none⟩
  | [], _, A, R => by simp [printForest, readLines, flats, childIds]
  | [r], hok, A, R => by
    simp only [okTs, Bool.and_eq_true] at hok
    simp only [printForest, read_tree_root r hok.1 A R, flats, childIds, List.append_nil]
  | r :: r' :: rs, hok, A, R => by
    simp only [okTs, Bool.and_eq_true] at hok
    have hok' : okTs (r' :: rs) = true := by simp only [okTs, Bool.and_eq_true]; exact hok.2
    simp only [printForest]
    rw [List.append_assoc, readLines_append, read_tree_root r hok.1 A R]
    simp only [List.singleton_append, readLines, readLine_blank]
    rw [readLines_printForest (r' :: rs) hok' _ _]
    have hlen : (A ++ flat none 0 A.length r).length = A.length + r.size := by simp [flat_length]
    rw [hlen]
    simp [flats, childIds, List.append_assoc]

/-! ### the forest and the text of a preorder arena -/

/-- the arena `X` carries the nodes `ns` from index `id` on -/
def Seg (X : List Node) (id : Nat) (ns : List Node) : Prop := ∀ j, j < ns.length → X[id + j]? = ns[j]?

theorem Seg.append {X : List Node} {id : Nat} {a b : List Node} (h : Seg X id (a ++ b)) :
    Seg X id a ∧ Seg X (id + a.length) b := by
  constructor
  · intro j hj
    have := h j (by simp; omega)
    rw [this, List.getElem?_append_left hj]
  · intro j hj
    have := h (a.length + j) (by simp; omega)
    rw [← Nat.add_assoc] at this
    rw [this, List.getElem?_append_right (by omega)]
    simp

theorem seg_self (A ns : List Node) : Seg (A ++ ns) A.length ns := by
  intro j hj
  rw [List.getElem?_append_right (by omega)]
  simp

theorem sizes_ge {c : Tree} {cs : List Tree} (h : c ∈ cs) : c.size ≤ sizes cs := by
  induction cs with
  | nil => cases h
  | cons a r ih =>
    rcases List.mem_cons.1 h with e | h
    · subst e; simp [sizes]
    · have := ih h; simp [sizes]; omega

mutual
theorem toTree_flat : ∀ (t : Tree) (par : Option Nat) (lvl id : Nat) (X : List Node) (fuel : Nat),
    Seg X id (flat par lvl id t) → t.size ≤ fuel → toTree X fuel id = t
  | .node t s d cs, par, lvl, id, X, fuel, hseg, hf => by
    cases fuel with
    | zero => simp [Tree.size] at hf
    | succ f =>
      have h0 := hseg 0 (by simp [flat])
      simp only [Nat.add_zero, flat, List.getElem?_cons_zero] at h0
      simp only [toTree, h0]
      have hs : Seg X (id + 1) (flats (some id) (lvl + 1) (id + 1) cs) := by
        have := (Seg.append (a := [_]) (by simpa [flat] using hseg)).2
        simpa using this
      rw [toTrees_flats cs (some id) (lvl + 1) (id + 1) X f hs (by simp [Tree.size] at hf; omega)]
theorem toTrees_flats : ∀ (cs : List Tree) (par : Option Nat) (lvl id : Nat) (X : List Node) (fuel : Nat),
    Seg X id (flats par lvl id cs) → sizes cs ≤ fuel → (childIds id cs).map (fun c => toTree X fuel c) = cs
  | [], _, _, _, _, _, _, _ => by simp [childIds]
  | c :: cs, par, lvl, id, X, fuel, hseg, hf => by
    simp only [flats] at hseg
    obtain ⟨h1, h2⟩ := Seg.append hseg
    rw [flat_length] at h2
    simp only [sizes] at hf
    simp only [childIds, List.map_cons]
    rw [toTree_flat c par lvl id X fuel h1 (by omega), toTrees_flats cs par lvl (id + c.size) X fuel h2 (by omega)]
end

/-- **the forest of the preorder arena is the forest it was built from** -/
theorem toForest_flats (ts : List Tree) : toForest (flats none 0 0 ts) (childIds 0 ts) = ts := by
  unfold toForest
  have hseg : Seg (flats none 0 0 ts) 0 (flats none 0 0 ts) := by
    have := seg_self [] (flats none 0 0 ts)
    simpa using this
  exact toTrees_flats ts none 0 0 _ _ hseg (by rw [flats_length]; exact Nat.le_refl _)

mutual
theorem printNode_flat : ∀ (t : Tree) (par : Option Nat) (lvl id : Nat) (X : List Node) (fuel : Nat),
    Seg X id (flat par lvl id t) → t.size ≤ fuel → printNode X fuel id = printTree lvl t
  | .node t s d cs, par, lvl, id, X, fuel, hseg, hf => by
    cases fuel with
    | zero => simp [Tree.size] at hf
    | succ f =>
      have h0 := hseg 0 (by simp [flat])
      simp only [Nat.add_zero, flat, List.getElem?_cons_zero] at h0
      have hs : Seg X (id + 1) (flats (some id) (lvl + 1) (id + 1) cs) := by
        have := (Seg.append (a := [_]) (by simpa [flat] using hseg)).2
        simpa using this
      simp only [printNode, h0, printTree, headerLine, endLine]
      rw [printNodes_flats cs (some id) (lvl + 1) (id + 1) X f hs (by simp [Tree.size] at hf; omega)]
      simp [List.append_assoc]
theorem printNodes_flats : ∀ (cs : List Tree) (par : Option Nat) (lvl id : Nat) (X : List Node) (fuel : Nat),
    Seg X id (flats par lvl id cs) → sizes cs ≤ fuel →
    (childIds id cs).flatMap (fun c => printNode X fuel c) = printTrees lvl cs
  | [], _, _, _, _, _, _, _ => by simp [childIds, printTrees]
  | c :: cs, par, lvl, id, X, fuel, hseg, hf => by
    simp only [flats] at hseg
    obtain ⟨h1, h2⟩ := Seg.append hseg
    rw [flat_length] at h2
    simp only [sizes] at hf
    simp only [childIds, List.flatMap_cons, printTrees]
    rw [printNode_flat c par lvl id X fuel h1 (by omega), printNodes_flats cs par lvl (id + c.size) X fuel h2 (by omega)]
end

/-- the arena printer on a preorder arena = the tree printer -/
theorem printLines_flats : ∀ (ts : List Tree) (X : List Node) (id : Nat), Seg X id (flats none 0 id ts) →
    sizes ts ≤ X.length → printLines X (childIds id ts) = printForest ts
  | [], _, _, _, _ => by simp [childIds, printLines, printForest]
  | [r], X, id, hseg, hf => by
    simp only [flats, List.append_nil] at hseg
    simp only [sizes, Nat.add_zero] at hf
    simp only [childIds, printLines, printForest]
    exact printNode_flat r none 0 id X _ hseg hf
  | r :: r' :: rs, X, id, hseg, hf => by
    simp only [flats] at hseg
    obtain ⟨h1, h2⟩ := Seg.append hseg
    rw [flat_length] at h2
    have hf' : r.size + sizes (r' :: rs) ≤ X.length := by simpa [sizes] using hf
    have ih := printLines_flats (r' :: rs) X (id + r.size) (by simpa [flats] using h2) (by omega)
    simp only [childIds] at ih ⊢
    simp only [printLines, printForest]
    rw [printNode_flat r none 0 id X _ h1 (by omega), ih]

/-! ### line breaks -/

def NoBrk (l : Str) : Prop := ∀ c ∈ l, c ≠ '\n' ∧ c ≠ '\r'

theorem noBrk_of_noWs {l : Str} (h : ∀ c ∈ l, isWs c = false) : NoBrk l := by
  intro c hc
  have := h c hc
  constructor <;> (intro e; subst e; simp [isWs] at this)

theorem noBrk_spaces (n : Nat) : NoBrk (spaces n) := by
  intro c hc
  simp only [spaces, List.mem_replicate] at hc
  rw [hc.2]; decide

theorem NoBrk.append {a b : Str} (ha : NoBrk a) (hb : NoBrk b) : NoBrk (a ++ b) := by
  intro c hc
  rcases List.mem_append.1 hc with h | h
  · exact ha c h
  · exact hb c h

theorem noBrk_join (s : List Str) (hs : ∀ x ∈ s, IsTok x) : NoBrk (join [' '] s) := by
  induction s with
  | nil => intro c hc; simp [join] at hc
  | cons a r ih =>
    cases r with
    | nil => simpa [join] using noBrk_of_noWs (hs a (by simp)).2
    | cons b r' =>
      simp only [join]
      refine (NoBrk.append (noBrk_of_noWs (hs a (by simp)).2) ?_).append (ih (fun x hx => hs x (List.mem_cons_of_mem _ hx)))
      intro c hc; simp only [List.mem_singleton] at hc; subst hc; decide

theorem dataOk_noBrk {l : Str} (h : dataOk l = true) : NoBrk l := by
  cases l with
  | nil => simp [dataOk] at h
  | cons c r =>
    simp only [dataOk, Bool.and_eq_true, List.all_eq_true, bne_iff_ne, ne_eq] at h
    intro x hx
    exact h.2 x hx

mutual
theorem noBrk_printTree : ∀ (t : Tree) (lvl : Nat), t.ok = true → ∀ l ∈ printTree lvl t, NoBrk l
  | .node t s d cs, lvl, hok, l, hl => by
    obtain ⟨ht, _, _, hs, hd, hcs⟩ := ok_node hok
    have hamp : NoBrk ['&'] := by intro c hc; simp only [List.mem_singleton] at hc; subst hc; decide
    simp only [printTree, List.mem_cons, List.mem_append, List.mem_map, List.not_mem_nil, or_false] at hl
    rcases hl with rfl | ⟨x, hx, rfl⟩ | h | rfl
    · refine ((noBrk_spaces _).append hamp).append (noBrk_of_noWs ht.2) |>.append ?_
      by_cases he : s = []
      · simp [he]; intro c hc; cases hc
      · simp only [he, if_false]
        intro c hc
        rcases List.mem_cons.1 hc with e | hc
        · subst e; decide
        · exact noBrk_join s hs c hc
    · refine ((noBrk_spaces _).append ?_).append (dataOk_noBrk (hd x hx))
      intro c hc; simp only [List.mem_cons, List.not_mem_nil, or_false] at hc; rcases hc with e | e <;> (subst e; decide)
    · exact noBrk_printTrees cs (lvl + 1) hcs l h
    · refine ((noBrk_spaces _).append ?_).append (noBrk_of_noWs ht.2)
      intro c hc
      simp only [List.mem_cons, List.not_mem_nil, or_false] at hc
      rcases hc with e | e | e | e | e <;> (subst e; decide)
theorem noBrk_printTrees : ∀ (cs : List Tree) (lvl : Nat), okTs cs = true → ∀ l ∈ printTrees lvl cs, NoBrk l
  | [], _, _, l, hl => by simp [printTrees] at hl
  | c :: cs, lvl, hok, l, hl => by
    simp only [okTs, Bool.and_eq_true] at hok
    simp only [printTrees, List.mem_append] at hl
    rcases hl with h | h
    · exact noBrk_printTree c lvl hok.1 l h
    · exact noBrk_printTrees cs lvl hok.2 l h
end

theorem noBrk_printForest : ∀ (ts : List Tree), okTs ts = true → ∀ l ∈ printForest ts, NoBrk l
  | [], _, l, hl => by simp [printForest] at hl
  | [r], hok, l, hl => by
    simp only [okTs, Bool.and_eq_true] at hok
    exact noBrk_printTree r 0 hok.1 l (by simpa [printForest] using hl)
  | r :: r' :: rs, hok, l, hl => by
    simp only [okTs, Bool.and_eq_true] at hok
    have hok' : okTs (r' :: rs) = true := by simp only [okTs, Bool.and_eq_true]; exact hok.2
    simp only [printForest, List.mem_append, List.mem_singleton] at hl
    rcases hl with (h | rfl) | h
    · exact noBrk_printTree r 0 hok.1 l h
    · intro c hc; cases hc
    · exact noBrk_printForest (r' :: rs) hok' l h

theorem splitLinesGo_line (l rest acc : Str) (h : NoBrk l) :
    splitLinesGo (l ++ '\n' :: rest) acc = (acc.reverse ++ l) :: splitLinesGo rest [] := by
  induction l generalizing acc with
  | nil => simp [splitLinesGo]
  | cons c t ih =>
    have hc := h c (by simp)
    have := ih (c :: acc) (fun x hx => h x (List.mem_cons_of_mem _ hx))
    simp only [List.cons_append, splitLinesGo, hc.1, hc.2, decide_false, Bool.or_self, Bool.false_eq_true, if_false]
    rw [this]; simp

/-- the lines of a text written line by line (every line followed by '\n'): the lines, then one empty piece -/
theorem splitLines_unlines : ∀ (ls : List Str), (∀ l ∈ ls, NoBrk l) → splitLines (unlines ls) = ls ++ [[]] := by
  intro ls
  induction ls with
  | nil => intro _; rfl
  | cons l t ih =>
    intro h
    have iht := ih (fun x hx => h x (List.mem_cons_of_mem _ hx))
    simp only [splitLines, unlines, List.append_assoc, List.singleton_append] at iht ⊢
    rw [splitLinesGo_line l _ [] (h l (by simp)), iht]
    simp

/-! ### the round trip -/

/-- **parse ∘ print = id and print ∘ parse ∘ print = print on section forests.**  For every forest of `ok` trees (any
    number of roots, any depth, any number of children, parameters and data lines): the text `dfs_print` writes for it
    is read back into a state whose forest is the very same forest (children in the same order), and printing that
    state gives the same text again. -/
theorem cp2k_read_print_forest (ts : List Tree) (hok : okTs ts = true) :
    ∃ rs, readText (unlines (printForest ts)) = .ok rs ∧ toForest rs.arena rs.roots = ts ∧
      printText rs.toSt = unlines (printForest ts) := by
  refine ⟨⟨flats none 0 0 ts, childIds 0 ts, none⟩, ?_, toForest_flats ts, ?_⟩
  · unfold readText
    rw [splitLines_unlines _ (noBrk_printForest ts hok), readLines_append]
    have := readLines_printForest ts hok [] []
    simp only [List.nil_append, List.length_nil] at this
    simp only [RS.init, this, readLines, readLine_blank]
  · simp only [printText, RS.toSt]
    congr 1
    have hseg : Seg (flats none 0 0 ts) 0 (flats none 0 0 ts) := by
      have := seg_self [] (flats none 0 0 ts)
      simpa using this
    exact printLines_flats ts _ 0 hseg (by rw [flats_length]; exact Nat.le_refl _)

end Infretis.Cp2k
