import Infretis.Lemmas.TemplateCp2kMany
/-!
Kernel-checked concrete run of the model of `write_for_run_vel` (kept in a file of its own: the evaluation takes
about a minute).
-/
namespace Infretis.Cp2k

/-- what `write_for_run_vel` writes for the template `tplMD` (`&MOTION / &MD / STEPS 10`), two atoms, 7 × 3 steps,
    `print_freq` None: every missing section is created, `STEPS` rewritten in place, `TIMESTEP` appended -/
def outRun : Str :=
  "&MOTION\n  &MD\n    STEPS 21\n    TIMESTEP 0.25\n  &END MD\n  &PRINT\n    &RESTART\n      BACKUP_COPIES 0\n      &EACH\n        MD 3\n      &END EACH\n    &END RESTART\n    &VELOCITIES\n      &EACH\n        MD 3\n      &END EACH\n    &END VELOCITIES\n    &TRAJECTORY\n      &EACH\n        MD 3\n      &END EACH\n    &END TRAJECTORY\n  &END PRINT\n&END MOTION\n\n&GLOBAL\n  PROJECT md_step\n  RUN_TYPE MD\n  PRINT_LEVEL LOW\n&END GLOBAL\n\n&FORCE_EVAL\n  &SUBSYS\n    &TOPOLOGY\n      COORD_FILE_NAME conf.xyz\n      COORD_FILE_FORMAT xyz\n    &END TOPOLOGY\n    &VELOCITY\n      0.5 -0.25 1e-05\n      0.0 0.0 -0.0\n    &END VELOCITY\n  &END SUBSYS\n  &DFT\n    &SCF\n      &PRINT\n        &RESTART\n          BACKUP_COPIES 0\n        &END RESTART\n      &END PRINT\n    &END SCF\n  &END DFT\n&END FORCE_EVAL\n".toList

def velRun : List (Str × Str × Str) :=
  [("0.5".toList, "-0.25".toList, "1e-05".toList), ("0.0".toList, "0.0".toList, "-0.0".toList)]

set_option maxRecDepth 8000 in
theorem wfrVel_run_witness :
    writeForRunVel tplMD "md_step".toList "0.25".toList "conf.xyz".toList 7 3 none velRun = .ok outRun := by
  decide +kernel

end Infretis.Cp2k
