import Infretis.Lemmas.Template
/-!
Lemmas for the editors as they are after the two repairs in /repo
(`modifyLines` / `modifyInput` with the newline before the first appended setting, eaf64e1;
`wfrVarsSub` / `wfrLinesSub` / `writeForRunSub` with `not_found.pop(var, None)`, f746fff — RECORD;
`wfrVars` / `wfrLines` / `writeForRun` with the whole-word replacement, 48a6c1e).
-/
namespace Infretis.Template

/-! ### texts whose last line may lack the newline -/

/-- a non-empty piece with no newline except possibly as its last character -/
def LineLike (l : Str) : Prop := l ≠ [] ∧ '\n' ∉ l.dropLast

/-- the pieces text-mode iteration yields: complete lines, the last one possibly unterminated -/
def Lines : List Str → Prop
  | [] => True
  | [l] => LineLike l
  | l :: l' :: r => Proper l ∧ Lines (l' :: r)

theorem Proper.lineLike {l : Str} (h : Proper l) : LineLike l := by
  obtain ⟨b, rfl, hb⟩ := h
  exact ⟨by simp, by simpa using hb⟩

theorem Proper.ne_nil {l : Str} (h : Proper l) : l ≠ [] := h.lineLike.1

theorem lines_cons {l : Str} {r : List Str} (hl : Proper l) (hr : Lines r) : Lines (l :: r) := by
  cases r with
  | nil => exact hl.lineLike
  | cons a b => exact ⟨hl, hr⟩

theorem Lines.ne_nil : ∀ {ls : List Str}, Lines ls → ∀ l ∈ ls, l ≠ []
  | [], _, l, h => by simp at h
  | [a], h, l, hm => by simp only [List.mem_singleton] at hm; subst hm; exact h.1
  | a :: b :: r, h, l, hm => by
    rcases List.mem_cons.1 hm with e | hm'
    · subst e; exact h.1.ne_nil
    · exact Lines.ne_nil h.2 l hm'

theorem lines_of_proper : ∀ (ls : List Str), (∀ l ∈ ls, Proper l) → Lines ls
  | [], _ => trivial
  | [a], h => (h a (by simp)).lineLike
  | a :: b :: r, h => ⟨h a (by simp), lines_of_proper (b :: r) (fun l hl => h l (List.mem_cons_of_mem _ hl))⟩

theorem linesKeepGo_nonl : ∀ (x cur : Str), '\n' ∉ x →
    linesKeepGo cur x = if (cur.reverse ++ x).isEmpty then [] else [cur.reverse ++ x] := by
  intro x
  induction x with
  | nil => intro cur _; cases cur <;> simp [linesKeepGo]
  | cons c x ih =>
    intro cur h
    have hc : c ≠ '\n' := by intro e; apply h; simp [e]
    simp only [linesKeepGo, hc, if_false]
    rw [ih (c :: cur) (by intro m; apply h; simp [m])]
    simp

theorem linesKeepGo_lines : ∀ (t cur : Str), '\n' ∉ cur → Lines (linesKeepGo cur t) := by
  intro t
  induction t with
  | nil =>
    intro cur h
    cases cur with
    | nil => simp [linesKeepGo, Lines]
    | cons a cur =>
      simp only [linesKeepGo, List.isEmpty_cons, Bool.false_eq_true, if_false, Lines]
      refine ⟨by simp, ?_⟩
      intro hm
      have : '\n' ∈ (a :: cur).reverse := (List.dropLast_sublist _).subset hm
      rw [List.mem_reverse] at this
      exact h this
  | cons c t ih =>
    intro cur h
    by_cases hc : c = '\n'
    · simp only [linesKeepGo, hc, if_true]
      refine lines_cons ⟨cur.reverse, by simp, by simpa using h⟩ (ih [] (by simp))
    · simp only [linesKeepGo, hc, if_false]
      exact ih (c :: cur) (by
        intro m; rcases List.mem_cons.1 m with m | m
        · exact hc m.symm
        · exact h m)

/-- the lines of any text -/
theorem linesKeep_lines (t : Str) : Lines (linesKeep t) := linesKeepGo_lines t [] (by simp)

theorem lineLike_cases {l : Str} (h : LineLike l) : Proper l ∨ '\n' ∉ l := by
  obtain ⟨hne, hd⟩ := h
  have hdec : l.dropLast ++ [l.getLast hne] = l := List.dropLast_concat_getLast hne
  by_cases hl : l.getLast hne = '\n'
  · left; exact ⟨l.dropLast, by rw [← hl]; exact hdec.symm, hd⟩
  · right
    intro hm
    rw [← hdec] at hm
    rcases List.mem_append.1 hm with hm | hm
    · exact hd hm
    · simp only [List.mem_singleton] at hm; exact hl hm.symm

theorem linesKeep_single {l : Str} (h : LineLike l) : linesKeep l = [l] := by
  rcases lineLike_cases h with ⟨b, rfl, hb⟩ | hn
  · have := linesKeepGo_body b hb [] []
    simpa [linesKeep, linesKeepGo] using this
  · have := linesKeepGo_nonl l [] hn
    have hne : l.isEmpty = false := by cases l with | nil => exact absurd rfl h.1 | cons _ _ => rfl
    simpa [linesKeep, hne] using this

/-- re-reading what was written line by line gives the lines back -/
theorem linesKeep_flatten_lines : ∀ (ls : List Str), Lines ls → linesKeep ls.flatten = ls
  | [], _ => by simp [linesKeep, linesKeepGo]
  | [a], h => by simpa using linesKeep_single h
  | a :: b :: r, h => by
    obtain ⟨body, rfl, hb⟩ := h.1
    have ih := linesKeep_flatten_lines (b :: r) h.2
    simp only [linesKeep] at ih ⊢
    simp only [List.flatten_cons, List.append_assoc, List.singleton_append] at ih ⊢
    rw [linesKeepGo_body body hb, ih]
    simp

/-! ### completing the last line -/

/-- the last line with its newline completed -/
def closeNL (l : Str) : Str := if l.getLast? = some '\n' then l else l ++ ['\n']

def closeLast : List Str → List Str
  | [] => []
  | [l] => [closeNL l]
  | l :: l' :: r => l :: closeLast (l' :: r)

theorem closeNL_proper {l : Str} (h : LineLike l) : Proper (closeNL l) := by
  unfold closeNL
  rcases lineLike_cases h with hp | hn
  · obtain ⟨b, rfl, hb⟩ := hp
    simp only [List.getLast?_append, List.getLast?_singleton, Option.some_or, if_true]
    exact ⟨b, rfl, hb⟩
  · have : l.getLast? ≠ some '\n' := by
      intro e; exact hn (List.mem_of_getLast? e)
    simp only [this, if_false]
    exact ⟨l, rfl, hn⟩

theorem closeNL_of_proper {l : Str} (h : Proper l) : closeNL l = l := by
  obtain ⟨b, rfl, _⟩ := h
  simp [closeNL]

theorem closeLast_proper : ∀ (ls : List Str), Lines ls → ∀ l ∈ closeLast ls, Proper l
  | [], _, l, h => by simp [closeLast] at h
  | [a], h, l, hm => by
    simp only [closeLast, List.mem_singleton] at hm; subst hm; exact closeNL_proper h
  | a :: b :: r, h, l, hm => by
    simp only [closeLast, List.mem_cons] at hm
    rcases hm with e | hm
    · subst e; exact h.1
    · exact closeLast_proper (b :: r) h.2 l (by simpa [closeLast] using hm)

/-- writing "\n" after a last piece that lacks it = completing the last line -/
theorem flatten_needNL : ∀ (out : List Str), (∀ l ∈ out, l ≠ []) →
    (if needNL out then out ++ [['\n']] else out).flatten = (closeLast out).flatten
  | [], _ => by simp [needNL, closeLast]
  | [a], h => by
    have hne : a ≠ [] := h a (by simp)
    have he : a.isEmpty = false := by cases a with | nil => exact absurd rfl hne | cons _ _ => rfl
    by_cases hl : a.getLast? = some '\n'
    · simp [needNL, closeLast, closeNL, hl, he]
    · simp [needNL, closeLast, closeNL, hl, he]
  | a :: b :: r, h => by
    have ih := flatten_needNL (b :: r) (fun l hl => h l (List.mem_cons_of_mem _ hl))
    have hn : needNL (a :: b :: r) = needNL (b :: r) := by
      simp [needNL, List.getLast?_cons_cons]
    rw [hn]
    have hc : (closeLast (a :: b :: r)).flatten = a ++ (closeLast (b :: r)).flatten := by
      simp [closeLast]
    by_cases hb : needNL (b :: r) = true
    · simp only [hb, if_true] at ih ⊢
      have : ((a :: b :: r) ++ [['\n']]).flatten = a ++ ((b :: r) ++ [['\n']]).flatten := by simp
      rw [this, ih, hc]
    · simp only [hb, Bool.false_eq_true, if_false] at ih ⊢
      have : (a :: b :: r).flatten = a ++ (b :: r).flatten := by simp
      rw [this, ih, hc]

/-! ### the editor on lines -/

theorem matchKey_snoc_nl : ∀ (l : Str), '\n' ∉ l → matchKey (l ++ ['\n']) = matchKey l := by
  intro l
  induction l with
  | nil => intro _; simp [matchKey]
  | cons c l ih =>
    intro h
    have := ih (by intro m; apply h; simp [m])
    simp [matchKey, this]

theorem matchKey_closeNL {l : Str} (h : LineLike l) : matchKey (closeNL l) = matchKey l := by
  rcases lineLike_cases h with hp | hn
  · rw [closeNL_of_proper hp]
  · have : l.getLast? ≠ some '\n' := fun e => hn (List.mem_of_getLast? e)
    simp only [closeNL, this, if_false]
    exact matchKey_snoc_nl l hn

theorem setLine_proper' {kw v : Str} (h1 : '\n' ∉ kw) (h2 : '\n' ∉ v) : Proper (setLine kw v) :=
  setLine_proper h1 h2

/-- editing commutes with completing the newline -/
theorem editOut_closeNL (s : Settings) (hv : ∀ kv ∈ s, '\n' ∉ kv.2) {l : Str} (h : LineLike l) :
    editOut s (closeNL l) = closeNL (editOut s l) := by
  have hm := matchKey_closeNL h
  cases hk : matchKey l with
  | none =>
    have e1 : editOut s l = l := by simp [editOut, editLine, hk]
    have e2 : editOut s (closeNL l) = closeNL l := by simp [editOut, editLine, hm, hk]
    rw [e1, e2]
  | some kw =>
    cases hl : lookup s (strip kw) with
    | none =>
      have e1 : editOut s l = l := by simp [editOut, editLine, hk, hl]
      have e2 : editOut s (closeNL l) = closeNL l := by simp [editOut, editLine, hm, hk, hl]
      rw [e1, e2]
    | some v =>
      rw [editOut_requested s l kw v hk hl, editOut_requested s _ kw v (by rw [hm, hk]) hl]
      obtain ⟨_, _, _, b⟩ := matchKey_some hk
      exact (closeNL_of_proper (setLine_proper b (hv _ (lookup_some_mem hl)))).symm

theorem editOut_lineLike (s : Settings) (hv : ∀ kv ∈ s, '\n' ∉ kv.2) {l : Str} (h : LineLike l) :
    LineLike (editOut s l) := by
  cases hk : matchKey l with
  | none => simpa [editOut, editLine, hk] using h
  | some kw =>
    cases hl : lookup s (strip kw) with
    | none => simpa [editOut, editLine, hk, hl] using h
    | some v =>
      rw [editOut_requested s l kw v hk hl]
      obtain ⟨_, _, _, b⟩ := matchKey_some hk
      exact (setLine_proper b (hv _ (lookup_some_mem hl))).lineLike

theorem lines_map_editOut (s : Settings) (hv : ∀ kv ∈ s, '\n' ∉ kv.2) :
    ∀ (ls : List Str), Lines ls → Lines (ls.map (editOut s))
  | [], _ => trivial
  | [_], h => editOut_lineLike s hv h
  | a :: b :: r, h => ⟨editOut_proper s hv a h.1, lines_map_editOut s hv (b :: r) h.2⟩

theorem writtenKeys_closeLast : ∀ (ls : List Str), Lines ls → writtenKeys (closeLast ls) = writtenKeys ls
  | [], _ => rfl
  | [a], h => by
    have h' : LineLike a := h
    simp only [closeLast, writtenKeys, List.filterMap_cons, List.filterMap_nil, matchKey_closeNL h']
  | a :: b :: r, h => by
    have ih := writtenKeys_closeLast (b :: r) h.2
    simp only [writtenKeys, closeLast, List.filterMap_cons] at ih ⊢
    rw [ih]

theorem map_editOut_closeLast (s : Settings) (hv : ∀ kv ∈ s, '\n' ∉ kv.2) :
    ∀ (ls : List Str), Lines ls → (closeLast ls).map (editOut s) = closeLast (ls.map (editOut s))
  | [], _ => rfl
  | [a], h => by simp [closeLast, editOut_closeNL s hv h]
  | a :: b :: r, h => by
    have ih := map_editOut_closeLast s hv (b :: r) h.2
    simp only [closeLast, List.map_cons] at ih ⊢
    rw [ih]

/-- what the repaired editor writes, as a list of lines: the edited template lines, the last one
    completed with a newline if anything is appended, then the appended settings -/
def outLines (s : Settings) (ls : List Str) : List Str :=
  match appended s (writtenKeys ls) with
  | [] => ls.map (editOut s)
  | a :: r => closeLast (ls.map (editOut s)) ++ a :: r

theorem modifyLines_flatten (s : Settings) (hv : ∀ kv ∈ s, '\n' ∉ kv.2) (ls : List Str) (h : Lines ls) :
    (modifyLines s ls).flatten = (outLines s ls).flatten := by
  unfold modifyLines outLines
  cases happ : appended s (writtenKeys ls) with
  | nil => rfl
  | cons a r =>
    have hne := Lines.ne_nil (lines_map_editOut s hv ls h)
    have := flatten_needNL (ls.map (editOut s)) hne
    by_cases hn : needNL (ls.map (editOut s)) = true
    · simp only [hn, if_true] at this ⊢
      simp only [List.flatten_append] at this ⊢
      rw [← this]; simp
    · simp only [hn, Bool.false_eq_true, if_false] at this ⊢
      simp only [List.flatten_append]
      rw [this]

theorem outLines_lines (s : Settings) (hk : ∀ kv ∈ s, '\n' ∉ kv.1) (hv : ∀ kv ∈ s, '\n' ∉ kv.2)
    (ls : List Str) (h : Lines ls) : Lines (outLines s ls) := by
  unfold outLines
  cases happ : appended s (writtenKeys ls) with
  | nil => exact lines_map_editOut s hv ls h
  | cons a r =>
    apply lines_of_proper
    intro l hl
    rcases List.mem_append.1 hl with hl | hl
    · exact closeLast_proper _ (lines_map_editOut s hv ls h) l hl
    · rw [← happ] at hl
      obtain ⟨k, v, hm, _, rfl⟩ := appended_mem hl
      exact newLine_proper (hk _ hm) (hv _ hm)

/-- a second pass over the written lines changes nothing -/
theorem outLines_idem {s : Settings} (hs : WFSettings s) (ls : List Str) (h : Lines ls) :
    outLines s (outLines s ls) = outLines s ls := by
  have hv := hs.val_nonl
  have hM := lines_map_editOut s hv ls h
  cases happ : appended s (writtenKeys ls) with
  | nil =>
    have e : outLines s ls = ls.map (editOut s) := by simp [outLines, happ]
    rw [e]
    have hw : writtenKeys (ls.map (editOut s)) = writtenKeys ls := writtenKeys_map_editOut s ls
    simp only [outLines, hw, happ, List.map_map]
    apply List.map_congr_left
    intro l _
    exact editOut_idem s l
  | cons a r =>
    have e : outLines s ls = closeLast (ls.map (editOut s)) ++ a :: r := by simp [outLines, happ]
    rw [e]
    have hwk : ∀ k ∈ keys s, k ∈ writtenKeys (closeLast (ls.map (editOut s)) ++ a :: r) := by
      intro k hk
      rw [writtenKeys_append, writtenKeys_closeLast _ hM, writtenKeys_map_editOut, ← happ]
      by_cases hin : k ∈ writtenKeys ls
      · exact List.mem_append_left _ hin
      · exact List.mem_append_right _ (writtenKeys_appended hs _ k hk hin)
    have happ2 : appended s (writtenKeys (closeLast (ls.map (editOut s)) ++ a :: r)) = [] :=
      appended_nil_of_subset hwk
    simp only [outLines, happ2, List.map_append]
    congr 1
    · rw [map_editOut_closeLast s hv _ hM, List.map_map]
      congr 1
      conv => rhs; rw [← List.map_id (ls.map (editOut s))]
      rw [List.map_map]
      apply List.map_congr_left
      intro l _
      simpa using editOut_idem s l
    · conv => rhs; rw [← List.map_id (a :: r)]
      apply List.map_congr_left
      intro l hl
      rw [← happ] at hl
      obtain ⟨k, v, hm, _, rfl⟩ := appended_mem hl
      simpa using editOut_newLine hs hm

/-! ### RECORD: `write_for_run` with `pop(var, None)` and substring `str.replace` (code between f746fff and 48a6c1e) -/

theorem wfrVarsSub_fst (spl : List Str) : ∀ (s : Settings) (line : Str) (nf : List Str),
    (wfrVarsSub spl s line nf).1 = substLine spl s line := by
  intro s
  induction s with
  | nil => intro _ _; rfl
  | cons kv t ih =>
    intro line nf
    obtain ⟨k, v⟩ := kv
    by_cases h : k ∈ spl
    · simp only [wfrVarsSub, substLine, h, if_true]; exact ih _ _
    · simp only [wfrVarsSub, substLine, h, if_false]; exact ih _ _

theorem wfrVarsSub_snd (spl : List Str) : ∀ (s : Settings) (line : Str) (nf : List Str), nf.Nodup →
    (wfrVarsSub spl s line nf).2.Nodup ∧
    ∀ k, k ∈ (wfrVarsSub spl s line nf).2 ↔ (k ∈ nf ∧ ¬ (k ∈ keys s ∧ k ∈ spl)) := by
  intro s
  induction s with
  | nil => intro _ nf h; exact ⟨h, by simp [wfrVarsSub, keys]⟩
  | cons kv t ih =>
    intro line nf hnf
    obtain ⟨var, v⟩ := kv
    by_cases h : var ∈ spl
    · simp only [wfrVarsSub, h, if_true]
      obtain ⟨a, b⟩ := ih (replaceAll var v line) (nf.erase var) (hnf.erase _)
      refine ⟨a, fun k => ?_⟩
      rw [b k]
      simp only [keys, List.map_cons, List.mem_cons]
      by_cases e : k = var
      · subst e; simp [h, hnf.not_mem_erase]
      · rw [List.mem_erase_of_ne e]; simp [e]
    · simp only [wfrVarsSub, h, if_false]
      obtain ⟨a, b⟩ := ih line nf hnf
      refine ⟨a, fun k => ?_⟩
      rw [b k]
      simp only [keys, List.map_cons, List.mem_cons]
      by_cases e : k = var
      · subst e; simp [h]
      · simp [e]

/-- invariant of the line loop: everything is written; the call ends without error iff every
    variable still in `not_found` is a token of one of the remaining lines -/
theorem wfrLinesSub_spec' (s : Settings) : ∀ (lines : List Str) (nf acc : List Str), nf.Nodup →
    (∀ k ∈ nf, k ∈ keys s) →
    (wfrLinesSub s lines nf acc).written = acc.reverse ++ lines.map (substOf s) ∧
    ((wfrLinesSub s lines nf acc).err = none ↔ ∀ k ∈ nf, 1 ≤ occ k lines) ∧
    ((wfrLinesSub s lines nf acc).err = some .value ↔ ∃ k ∈ nf, occ k lines = 0) := by
  intro lines
  induction lines with
  | nil =>
    intro nf acc _ _
    simp only [wfrLinesSub, occ, List.filter_nil, List.length_nil, List.map_nil, List.append_nil, true_and]
    cases nf with
    | nil => simp
    | cons a t =>
      simp only [List.isEmpty_cons, Bool.false_eq_true, if_false, reduceCtorEq, false_iff, true_iff]
      exact ⟨fun h => by have := h a (by simp); omega, ⟨a, by simp, trivial⟩⟩
  | cons line t ih =>
    intro nf acc hnf hsub
    obtain ⟨hn', hmem⟩ := wfrVarsSub_snd (splitWS line) s line nf hnf
    have hsub' : ∀ k ∈ (wfrVarsSub (splitWS line) s line nf).2, k ∈ keys s :=
      fun k hk => hsub k ((hmem k).1 hk).1
    obtain ⟨i1, i2, i3⟩ := ih _ ((wfrVarsSub (splitWS line) s line nf).1 :: acc) hn' hsub'
    have hstep : wfrLinesSub s (line :: t) nf acc =
        wfrLinesSub s t (wfrVarsSub (splitWS line) s line nf).2 ((wfrVarsSub (splitWS line) s line nf).1 :: acc) := rfl
    rw [hstep]
    refine ⟨?_, ?_, ?_⟩
    · rw [i1, wfrVarsSub_fst]; simp [substOf]
    · rw [i2]
      constructor
      · intro h k hk
        rw [occ_cons]
        by_cases hs : k ∈ splitWS line
        · simp only [hs, if_true]; omega
        · have : k ∈ (wfrVarsSub (splitWS line) s line nf).2 := (hmem k).2 ⟨hk, fun h' => hs h'.2⟩
          have := h k this
          simp only [hs, if_false]; omega
      · intro h k hk
        obtain ⟨hk1, hk2⟩ := (hmem k).1 hk
        have hs : k ∉ splitWS line := fun hs => hk2 ⟨hsub k hk1, hs⟩
        have := h k hk1
        rw [occ_cons] at this
        simp only [hs, if_false] at this
        omega
    · rw [i3]
      constructor
      · rintro ⟨k, hk, h0⟩
        obtain ⟨hk1, hk2⟩ := (hmem k).1 hk
        have hs : k ∉ splitWS line := fun hs => hk2 ⟨hsub k hk1, hs⟩
        exact ⟨k, hk1, by rw [occ_cons]; simp only [hs, if_false]; omega⟩
      · rintro ⟨k, hk, h0⟩
        rw [occ_cons] at h0
        have hs : k ∉ splitWS line := by
          intro hs; simp only [hs, if_true] at h0; omega
        simp only [hs, if_false] at h0
        exact ⟨k, (hmem k).2 ⟨hk, fun h' => hs h'.2⟩, by omega⟩

/-! ### `write_for_run` as it is now (48a6c1e): `pop(var, None)` and whole-word `re.sub` -/

theorem wfrVars_fst (spl : List Str) : ∀ (s : Settings) (line : Str) (nf : List Str),
    (wfrVars spl s line nf).1 = substLineW spl s line := by
  intro s
  induction s with
  | nil => intro _ _; rfl
  | cons kv t ih =>
    intro line nf
    obtain ⟨k, v⟩ := kv
    by_cases h : k ∈ spl
    · simp only [wfrVars, substLineW, h, if_true]; exact ih _ _
    · simp only [wfrVars, substLineW, h, if_false]; exact ih _ _

theorem wfrVars_snd (spl : List Str) : ∀ (s : Settings) (line : Str) (nf : List Str), nf.Nodup →
    (wfrVars spl s line nf).2.Nodup ∧
    ∀ k, k ∈ (wfrVars spl s line nf).2 ↔ (k ∈ nf ∧ ¬ (k ∈ keys s ∧ k ∈ spl)) := by
  intro s
  induction s with
  | nil => intro _ nf h; exact ⟨h, by simp [wfrVars, keys]⟩
  | cons kv t ih =>
    intro line nf hnf
    obtain ⟨var, v⟩ := kv
    by_cases h : var ∈ spl
    · simp only [wfrVars, h, if_true]
      obtain ⟨a, b⟩ := ih (reSubWord var v line) (nf.erase var) (hnf.erase _)
      refine ⟨a, fun k => ?_⟩
      rw [b k]
      simp only [keys, List.map_cons, List.mem_cons]
      by_cases e : k = var
      · subst e; simp [h, hnf.not_mem_erase]
      · rw [List.mem_erase_of_ne e]; simp [e]
    · simp only [wfrVars, h, if_false]
      obtain ⟨a, b⟩ := ih line nf hnf
      refine ⟨a, fun k => ?_⟩
      rw [b k]
      simp only [keys, List.map_cons, List.mem_cons]
      by_cases e : k = var
      · subst e; simp [h]
      · simp [e]

/-- invariant of the line loop: everything is written; the call ends without error iff every
    variable still in `not_found` is a token of one of the remaining lines -/
theorem wfrLines_spec' (s : Settings) : ∀ (lines : List Str) (nf acc : List Str), nf.Nodup →
    (∀ k ∈ nf, k ∈ keys s) →
    (wfrLines s lines nf acc).written = acc.reverse ++ lines.map (substOfW s) ∧
    ((wfrLines s lines nf acc).err = none ↔ ∀ k ∈ nf, 1 ≤ occ k lines) ∧
    ((wfrLines s lines nf acc).err = some .value ↔ ∃ k ∈ nf, occ k lines = 0) := by
  intro lines
  induction lines with
  | nil =>
    intro nf acc _ _
    simp only [wfrLines, occ, List.filter_nil, List.length_nil, List.map_nil, List.append_nil, true_and]
    cases nf with
    | nil => simp
    | cons a t =>
      simp only [List.isEmpty_cons, Bool.false_eq_true, if_false, reduceCtorEq, false_iff, true_iff]
      exact ⟨fun h => by have := h a (by simp); omega, ⟨a, by simp, trivial⟩⟩
  | cons line t ih =>
    intro nf acc hnf hsub
    obtain ⟨hn', hmem⟩ := wfrVars_snd (splitWS line) s line nf hnf
    have hsub' : ∀ k ∈ (wfrVars (splitWS line) s line nf).2, k ∈ keys s :=
      fun k hk => hsub k ((hmem k).1 hk).1
    obtain ⟨i1, i2, i3⟩ := ih _ ((wfrVars (splitWS line) s line nf).1 :: acc) hn' hsub'
    have hstep : wfrLines s (line :: t) nf acc =
        wfrLines s t (wfrVars (splitWS line) s line nf).2 ((wfrVars (splitWS line) s line nf).1 :: acc) := rfl
    rw [hstep]
    refine ⟨?_, ?_, ?_⟩
    · rw [i1, wfrVars_fst]; simp [substOfW]
    · rw [i2]
      constructor
      · intro h k hk
        rw [occ_cons]
        by_cases hs : k ∈ splitWS line
        · simp only [hs, if_true]; omega
        · have : k ∈ (wfrVars (splitWS line) s line nf).2 := (hmem k).2 ⟨hk, fun h' => hs h'.2⟩
          have := h k this
          simp only [hs, if_false]; omega
      · intro h k hk
        obtain ⟨hk1, hk2⟩ := (hmem k).1 hk
        have hs : k ∉ splitWS line := fun hs => hk2 ⟨hsub k hk1, hs⟩
        have := h k hk1
        rw [occ_cons] at this
        simp only [hs, if_false] at this
        omega
    · rw [i3]
      constructor
      · rintro ⟨k, hk, h0⟩
        obtain ⟨hk1, hk2⟩ := (hmem k).1 hk
        have hs : k ∉ splitWS line := fun hs => hk2 ⟨hsub k hk1, hs⟩
        exact ⟨k, hk1, by rw [occ_cons]; simp only [hs, if_false]; omega⟩
      · rintro ⟨k, hk, h0⟩
        rw [occ_cons] at h0
        have hs : k ∉ splitWS line := by
          intro hs; simp only [hs, if_true] at h0; omega
        simp only [hs, if_false] at h0
        exact ⟨k, (hmem k).2 ⟨hk, fun h' => hs h'.2⟩, by omega⟩

end Infretis.Template
