import Infretis.Lemmas.TemplateWords
/-!
The whole-word replacement `reSubWord` of `write_for_run` as it is after 48a6c1e
(`re.sub(r"(?<!\S)" + re.escape(var) + r"(?!\S)", value, line)`, `Model/Template.lean`):

* it acts chunk by chunk on a line `w0 ++ t₁ ++ w₁ ++ … ++ tₙ ++ wₙ` whose separators `wᵢ` are white space, whatever
  the chunks `tᵢ` contain (`reSubWord_line`) — so the successive replacements of one call stay inside the piece of
  text that one word of the template has become;
* on a single word it is "the word if it is not the variable, else the value" (`reSubWord_token`);
* hence the per-line function of the code, `substOfW`, is word by word the chain of replacements
  (`substOfW_tokenwise`, no hypothesis), and equals the word-level specification `wordsLine` as soon as no value
  substituted earlier on the line has a later variable of the line among its words (`substOfW_eq_wordsLine`).
-/
namespace Infretis.Template

/-- nothing follows, or a white-space character -/
def RestOK (rest : Str) : Prop := rest = [] ∨ ∃ c r, rest = c :: r ∧ isSpace c = true

theorem boundaryAt_of_restOK {rest : Str} (h : RestOK rest) : boundaryAt rest = true := by
  rcases h with rfl | ⟨c, r, rfl, hc⟩
  · rfl
  · exact hc

theorem restOK_of_boundaryAt {rest : Str} (h : boundaryAt rest = true) : RestOK rest := by
  cases rest with
  | nil => exact Or.inl rfl
  | cons c r => exact Or.inr ⟨c, r, rfl, h⟩

/-- a (non-empty, white-space free) variable is not a prefix of a text that starts with white space -/
theorem not_prefix_ws {k : Str} (hk : k ≠ []) (hkw : NoWS k) (c : Char) (r : Str) (hc : isSpace c = true) :
    k.isPrefixOf (c :: r) = false := by
  cases h : k.isPrefixOf (c :: r) with
  | false => rfl
  | true =>
    exfalso
    rw [List.isPrefixOf_iff_prefix] at h
    cases k with
    | nil => exact hk rfl
    | cons d k' =>
      obtain ⟨z, hz⟩ := h
      simp only [List.cons_append, List.cons.injEq] at hz
      have := hkw d (by simp)
      rw [hz.1, hc] at this
      cases this

theorem reSubGo_nil (k v : Str) (b : Bool) (n : Nat) : reSubGo k v n [] b = [] := by
  cases n <;> simp [reSubGo]

/-- a white-space character is copied; after it the scan is at a word boundary -/
theorem reSubGo_ws_head {k : Str} (v : Str) (hk : k ≠ []) (hkw : NoWS k) (b : Bool) (c : Char) (r : Str)
    (hc : isSpace c = true) : reSubGo k v 0 (c :: r) b = c :: reSubGo k v 0 r true := by
  simp [reSubGo, not_prefix_ws hk hkw c r hc, hc]

theorem reSubGo_ws {k : Str} (v : Str) (hk : k ≠ []) (hkw : NoWS k) : ∀ (w : Str), AllWS w → ∀ rest,
    reSubGo k v 0 (w ++ rest) true = w ++ reSubGo k v 0 rest true := by
  intro w
  induction w with
  | nil => intro _ rest; rfl
  | cons c w ih =>
    intro h rest
    rw [List.cons_append, reSubGo_ws_head v hk hkw true c _ (h c (by simp)),
        ih (fun x hx => h x (List.mem_cons_of_mem _ hx)) rest]
    rfl

/-- before nothing or before white space the boundary flag is immaterial -/
theorem reSubGo_restOK {k : Str} (v : Str) (hk : k ≠ []) (hkw : NoWS k) {rest : Str} (h : RestOK rest) (b : Bool) :
    reSubGo k v 0 rest b = reSubGo k v 0 rest true := by
  rcases h with rfl | ⟨c, r, rfl, hc⟩
  · simp [reSubGo_nil]
  · rw [reSubGo_ws_head v hk hkw b c r hc, reSubGo_ws_head v hk hkw true c r hc]

/-- dropping the rest of a matched variable -/
theorem reSubGo_skip (k v : Str) : ∀ (y z : Str), NoWS y →
    reSubGo k v y.length (y ++ z) false = reSubGo k v 0 z false := by
  intro y
  induction y with
  | nil => intro z _; rfl
  | cons c y ih =>
    intro z h
    have hc := h c (by simp)
    simp only [List.length_cons, List.cons_append, reSubGo, hc]
    exact ih z (fun x hx => h x (List.mem_cons_of_mem _ hx))

/-- characters inside a word (previous character not white space) are copied -/
theorem reSubGo_inside (k v : Str) : ∀ (x z : Str), NoWS x →
    reSubGo k v 0 (x ++ z) false = x ++ reSubGo k v 0 z false := by
  intro x
  induction x with
  | nil => intro z _; rfl
  | cons c x ih =>
    intro z h
    have hc := h c (by simp)
    simp only [List.cons_append, reSubGo, Bool.false_and, Bool.false_eq_true, if_false, hc]
    rw [ih z (fun y hy => h y (List.mem_cons_of_mem _ hy))]

/-- the test "the variable is here and ends at a boundary" looks only at the chunk when the chunk is followed
    by nothing or by white space -/
theorem matchAt_append {k : Str} (hkw : NoWS k) (x : Str) {rest : Str} (hr : RestOK rest) :
    (k.isPrefixOf (x ++ rest) && boundaryAt ((x ++ rest).drop k.length))
      = (k.isPrefixOf x && boundaryAt (x.drop k.length)) := by
  by_cases hp : k <+: x
  · obtain ⟨x', rfl⟩ := hp
    have h1 : k.isPrefixOf (k ++ x' ++ rest) = true := by
      rw [List.isPrefixOf_iff_prefix]; exact ⟨x' ++ rest, by simp⟩
    have h2 : k.isPrefixOf (k ++ x') = true := by
      rw [List.isPrefixOf_iff_prefix]; exact ⟨x', rfl⟩
    have d1 : (k ++ x' ++ rest).drop k.length = x' ++ rest := by
      rw [List.append_assoc]; exact List.drop_left
    have d2 : (k ++ x').drop k.length = x' := List.drop_left
    rw [h1, h2, d1, d2]
    cases x' with
    | nil =>
      have := boundaryAt_of_restOK hr
      simp only [List.nil_append, this]; rfl
    | cons c x'' => rfl
  · have h2 : k.isPrefixOf x = false := by
      cases h : k.isPrefixOf x with
      | false => rfl
      | true => exact absurd (List.isPrefixOf_iff_prefix.1 h) hp
    have h1 : k.isPrefixOf (x ++ rest) = false := by
      cases h : k.isPrefixOf (x ++ rest) with
      | false => rfl
      | true =>
        exfalso
        rw [List.isPrefixOf_iff_prefix] at h
        rcases prefix_append_cases h with h' | ⟨b', hb, hpre, hkeq⟩
        · exact hp h'
        · rcases hr with rfl | ⟨c, r, rfl, hc⟩
          · exact hb (List.prefix_nil.1 hpre)
          · cases b' with
            | nil => exact hb rfl
            | cons d b'' =>
              obtain ⟨z, hz⟩ := hpre
              simp only [List.cons_append, List.cons.injEq] at hz
              have := hkw d (by rw [hkeq]; simp)
              rw [hz.1, hc] at this
              cases this
    rw [h1, h2]; rfl

/-- **the replacement is local to a chunk** that is followed by nothing or by white space -/
theorem reSubGo_split {k : Str} (v : Str) (hk : k ≠ []) (hkw : NoWS k) {rest : Str} (hr : RestOK rest) :
    ∀ (n : Nat) (x : Str), x.length ≤ n → ∀ b,
      reSubGo k v 0 (x ++ rest) b = reSubGo k v 0 x b ++ reSubGo k v 0 rest true := by
  intro n
  induction n with
  | zero =>
    intro x hx b
    have : x = [] := List.eq_nil_of_length_eq_zero (by omega)
    subst this
    simp [reSubGo_nil, reSubGo_restOK v hk hkw hr b]
  | succ n ih =>
    intro x hx b
    cases x with
    | nil => simp [reSubGo_nil, reSubGo_restOK v hk hkw hr b]
    | cons c t =>
      have hm := matchAt_append hkw (c :: t) hr
      simp only [List.cons_append] at hm
      by_cases hcond : (b && k.isPrefixOf (c :: t) && boundaryAt ((c :: t).drop k.length)) = true
      · have hcond' : (b && k.isPrefixOf (c :: (t ++ rest)) && boundaryAt ((c :: (t ++ rest)).drop k.length)) = true := by
          rw [Bool.and_assoc, hm, ← Bool.and_assoc]; exact hcond
        simp only [List.cons_append, reSubGo, hcond, hcond', if_true]
        -- the chunk starts with the variable
        have hpre : k <+: c :: t := by
          have : k.isPrefixOf (c :: t) = true := by
            simp only [Bool.and_eq_true] at hcond; exact hcond.1.2
          exact List.isPrefixOf_iff_prefix.1 this
        obtain ⟨x', hx'⟩ := hpre
        cases k with
        | nil => exact absurd rfl hk
        | cons d k' =>
          simp only [List.cons_append, List.cons.injEq] at hx'
          obtain ⟨hd, ht⟩ := hx'
          subst hd
          have hk'w : NoWS k' := fun y hy => hkw y (List.mem_cons_of_mem _ hy)
          have hd0 : isSpace d = false := hkw d (by simp)
          simp only [List.length_cons, Nat.add_sub_cancel, hd0]
          rw [← ht, List.append_assoc, reSubGo_skip _ v k' (x' ++ rest) hk'w, reSubGo_skip _ v k' x' hk'w]
          have hlen : x'.length ≤ n := by
            have := congrArg List.length ht
            simp only [List.length_append] at this
            simp only [List.length_cons] at hx
            omega
          rw [ih x' hlen false, List.append_assoc]
      · have hcond' : ¬ (b && k.isPrefixOf (c :: (t ++ rest)) && boundaryAt ((c :: (t ++ rest)).drop k.length)) = true := by
          rw [Bool.and_assoc, hm, ← Bool.and_assoc]; exact hcond
        have hlen : t.length ≤ n := by simp only [List.length_cons] at hx; omega
        simp only [List.cons_append, reSubGo, hcond, hcond']
        rw [ih t hlen (isSpace c)]
        simp

theorem restOK_sep {w : Str} {r : List (Str × Str)} (hw : AllWS w) (hne : w ≠ [] ∨ r = []) :
    RestOK (w ++ body r) := by
  cases w with
  | nil =>
    rcases hne with h | h
    · exact absurd rfl h
    · left; subst h; rfl
  | cons c w' => right; exact ⟨c, w' ++ body r, rfl, hw c (by simp)⟩

theorem reSubGo_body {k : Str} (v : Str) (hk : k ≠ []) (hkw : NoWS k) : ∀ (items : List (Str × Str)), SepOK items →
    reSubGo k v 0 (body items) true = body (items.map (fun tw => (reSubWord k v tw.1, tw.2))) := by
  intro items
  induction items with
  | nil => intro _; rfl
  | cons tw r ih =>
    intro hs
    obtain ⟨t, w⟩ := tw
    obtain ⟨hw, hne, hs'⟩ := hs
    simp only [body, List.map_cons]
    rw [reSubGo_split v hk hkw (restOK_sep hw hne) t.length t (Nat.le_refl _) true,
        reSubGo_ws v hk hkw w hw, ih hs']
    rfl

/-- **`re.sub` on whole words acts chunk by chunk**, whatever the chunks contain -/
theorem reSubWord_line {k : Str} (v : Str) (hk : k ≠ []) (hkw : NoWS k) (w0 : Str) (hw0 : AllWS w0)
    (items : List (Str × Str)) (hs : SepOK items) :
    reSubWord k v (w0 ++ body items) = w0 ++ body (items.map (fun tw => (reSubWord k v tw.1, tw.2))) := by
  unfold reSubWord
  rw [reSubGo_ws v hk hkw w0 hw0, reSubGo_body v hk hkw items hs]
  rfl

/-- **on one word**: the value if the word is the variable, else the word -/
theorem reSubWord_token {k : Str} (v : Str) (hk : k ≠ []) (hkw : NoWS k) {t : Str} (ht : NoWS t) (hne : t ≠ []) :
    reSubWord k v t = if t = k then v else t := by
  by_cases e : t = k
  · subst e
    simp only [if_true]
    cases t with
    | nil => exact absurd rfl hne
    | cons d k' =>
      have hd0 : isSpace d = false := ht d (by simp)
      have hp : (d :: k').isPrefixOf (d :: k') = true := by
        rw [List.isPrefixOf_iff_prefix]; exact List.prefix_refl _
      simp only [reSubWord, reSubGo, hp, boundaryAt, Bool.and_self, List.length_cons,
        Nat.add_sub_cancel, hd0]
      have := reSubGo_skip (d :: k') v k' [] (fun y hy => ht y (List.mem_cons_of_mem _ hy))
      simp only [List.append_nil] at this
      rw [this, reSubGo_nil]; simp
  · simp only [e, if_false]
    cases t with
    | nil => exact absurd rfl hne
    | cons c t' =>
      have hc0 : isSpace c = false := ht c (by simp)
      have hcond : (k.isPrefixOf (c :: t') && boundaryAt ((c :: t').drop k.length)) = false := by
        cases hp : k.isPrefixOf (c :: t') with
        | false => rfl
        | true =>
          obtain ⟨x', hx'⟩ := List.isPrefixOf_iff_prefix.1 hp
          have d2 : (c :: t').drop k.length = x' := by rw [← hx']; exact List.drop_left
          rw [d2]
          cases x' with
          | nil => exact absurd (by simpa using hx'.symm) e
          | cons y x'' =>
            have : isSpace y = false := ht y (by rw [← hx']; simp)
            simp [boundaryAt, this]
      have hcond' : (true && k.isPrefixOf (c :: t') && boundaryAt ((c :: t').drop k.length)) = false := by
        rw [Bool.true_and]; exact hcond
      simp only [reSubWord, reSubGo, hcond', Bool.false_eq_true, if_false, hc0]
      have := reSubGo_inside k v t' [] (fun y hy => ht y (List.mem_cons_of_mem _ hy))
      simp only [List.append_nil, reSubGo_nil] at this
      rw [this]

/-! ### all variables of the line, one after the other -/

/-- variables are words: non-empty and free of white space -/
def KeysOK (s' : Settings) : Prop := ∀ kv ∈ s', kv.1 ≠ [] ∧ NoWS kv.1

theorem KeysOK.tail {kv : Str × Str} {r : Settings} (h : KeysOK (kv :: r)) : KeysOK r :=
  fun x hx => h x (List.mem_cons_of_mem _ hx)

/-- the loop acts only through the variables that are words of the original line -/
theorem substLineW_eq_chain (spl : List Str) : ∀ (s : Settings) (l : Str),
    substLineW spl s l = chain (s.filter (fun kv => decide (kv.1 ∈ spl))) l := by
  intro s
  induction s with
  | nil => intro l; rfl
  | cons kv r ih =>
    intro l
    obtain ⟨k, v⟩ := kv
    by_cases h : k ∈ spl
    · simp only [substLineW, h, if_true, List.filter, decide_true, chain]
      exact ih _
    · simp only [substLineW, h, if_false, List.filter, decide_false]
      exact ih _

theorem substOfW_eq_chain (s : Settings) (l : Str) : substOfW s l = chain (onLine s l) l :=
  substLineW_eq_chain (splitWS l) s l

/-- the chain of replacements acts chunk by chunk -/
theorem chain_line (w0 : Str) (hw0 : AllWS w0) : ∀ (s' : Settings), KeysOK s' → ∀ (items : List (Str × Str)),
    SepOK items → chain s' (w0 ++ body items) = w0 ++ body (items.map (fun tw => (chain s' tw.1, tw.2))) := by
  intro s'
  induction s' with
  | nil => intro _ items _; simp [chain]
  | cons kv r ih =>
    intro hs items hsep
    obtain ⟨k, v⟩ := kv
    obtain ⟨hk, hkw⟩ := hs (k, v) (by simp)
    simp only [chain]
    rw [reSubWord_line v hk hkw w0 hw0 items hsep, ih hs.tail _ (sepOK_map_fst _ items hsep), List.map_map]
    rfl

/-- a text none of whose words is the variable is kept -/
theorem reSubWord_noword {k : Str} (v : Str) (hk : k ≠ []) (hkw : NoWS k) (x : Str) (h : k ∉ splitWS x) :
    reSubWord k v x = x := by
  obtain ⟨h1, h2, h3, h4⟩ := decomp_spec x
  have hspl : splitWS x = (decomp x).2.map (·.1) := splitWS_decomp x
  conv => lhs; rw [h1]
  rw [reSubWord_line v hk hkw _ h2 _ h3]
  conv => rhs; rw [h1]
  congr 2
  conv => rhs; rw [← List.map_id (decomp x).2]
  apply List.map_congr_left
  intro tw htw
  have hne : tw.1 ≠ k := by
    intro e
    apply h
    rw [hspl, ← e]
    exact List.mem_map.2 ⟨tw, htw, rfl⟩
  rw [reSubWord_token v hk hkw (h4 tw htw).1 (h4 tw htw).2]
  simp [hne]

theorem chain_noword : ∀ (r : Settings) (x : Str), KeysOK r → (∀ kv ∈ r, kv.1 ∉ splitWS x) → chain r x = x := by
  intro r
  induction r with
  | nil => intro _ _ _; rfl
  | cons kv r ih =>
    intro x hs h
    obtain ⟨k, v⟩ := kv
    obtain ⟨hk, hkw⟩ := hs (k, v) (by simp)
    simp only [chain]
    rw [reSubWord_noword v hk hkw x (h (k, v) (by simp))]
    exact ih x hs.tail (fun kv hkv => h kv (List.mem_cons_of_mem _ hkv))

/-- **the chain on one word = one dict lookup**, when no value has a LATER variable among its words -/
theorem chain_token : ∀ (s' : Settings), KeysOK s' → s'.Pairwise (fun a b => b.1 ∉ splitWS a.2) →
    ∀ (t : Str), NoWS t → t ≠ [] → chain s' t = wordOf s' t := by
  intro s'
  induction s' with
  | nil => intro _ _ t _ _; rfl
  | cons kv r ih =>
    intro hs hp t ht hne
    obtain ⟨k, v⟩ := kv
    obtain ⟨hk, hkw⟩ := hs (k, v) (by simp)
    rw [List.pairwise_cons] at hp
    simp only [chain]
    rw [reSubWord_token v hk hkw ht hne]
    by_cases e : t = k
    · subst e
      simp only [if_true, wordOf, lookup]
      exact chain_noword r v hs.tail (fun kv hkv => hp.1 kv hkv)
    · have e' : k ≠ t := fun h => e h.symm
      simp only [e, if_false, wordOf, lookup, e']
      exact ih hs.tail hp.2 t ht hne

theorem onLine_keysOK (s : Settings) (l : Str) : KeysOK (onLine s l) := by
  obtain ⟨_, _, _, h4⟩ := decomp_spec l
  intro kv h
  have hm : kv.1 ∈ splitWS l := by simpa using (List.mem_filter.1 h).2
  rw [splitWS_decomp l] at hm
  obtain ⟨tw, htw, e⟩ := List.mem_map.1 hm
  rw [← e]
  exact ⟨(h4 tw htw).2, (h4 tw htw).1⟩

/-- **the per-line function of `write_for_run`, word by word — no hypothesis.**  All white space is kept;
    every word is replaced by what the chain of the line's variables makes of it. -/
theorem substOfW_tokenwise (s : Settings) (l : Str) :
    substOfW s l = (decomp l).1 ++ body ((decomp l).2.map (fun tw => (chain (onLine s l) tw.1, tw.2))) := by
  obtain ⟨h1, h2, h3, _⟩ := decomp_spec l
  rw [substOfW_eq_chain]
  have := chain_line _ h2 _ (onLine_keysOK s l) _ h3
  rw [← h1] at this
  exact this

/-- **one line against the word-level specification.**  Guard: of two variables that are both words of the
    line, the later one (dict order) is no word of the earlier one's value. -/
theorem substOfW_eq_wordsLine (s : Settings) (l : Str)
    (G : (onLine s l).Pairwise (fun a b => b.1 ∉ splitWS a.2)) : substOfW s l = wordsLine s l := by
  obtain ⟨_, _, _, h4⟩ := decomp_spec l
  rw [substOfW_tokenwise]
  unfold wordsLine
  congr 2
  apply List.map_congr_left
  intro tw htw
  have hmem : tw.1 ∈ splitWS l := by rw [splitWS_decomp l]; exact List.mem_map.2 ⟨tw, htw, rfl⟩
  rw [chain_token _ (onLine_keysOK s l) G tw.1 (h4 tw htw).1 (h4 tw htw).2]
  simp only [wordOf, onLine]
  rw [lookup_filter (splitWS l) tw.1 hmem s]

theorem substLineW_untouched (spl : List Str) (s : Settings) (line : Str)
    (h : ∀ k ∈ keys s, k ∉ spl) : substLineW spl s line = line := by
  induction s generalizing line with
  | nil => rfl
  | cons kv t ih =>
    obtain ⟨k, v⟩ := kv
    have hk : k ∉ spl := h k (by simp [keys])
    simp only [substLineW, hk, if_false]
    exact ih line (fun k' hk' => h k' (by simp only [keys, List.map_cons, List.mem_cons]; exact Or.inr hk'))

theorem pairwise_of_forall {α : Type} {R : α → α → Prop} : ∀ (l : List α), (∀ a ∈ l, ∀ b ∈ l, R a b) → l.Pairwise R
  | [], _ => List.Pairwise.nil
  | a :: r, h => List.Pairwise.cons (fun b hb => h a (by simp) b (List.mem_cons_of_mem _ hb))
      (pairwise_of_forall r (fun x hx y hy => h x (List.mem_cons_of_mem _ hx) y (List.mem_cons_of_mem _ hy)))

/-- **no variable remains on an edited line**, provided no value that is substituted on the line has a
    variable of `s` among its words (variables inside longer words of the value or of the template are harmless) -/
theorem substOfW_no_var (s : Settings) (l : Str)
    (G1 : ∀ kv ∈ onLine s l, ∀ k ∈ keys s, k ∉ splitWS kv.2) :
    ∀ k ∈ keys s, k ∉ splitWS (substOfW s l) := by
  intro k hk hmem
  obtain ⟨h1, h2, h3, h4⟩ := decomp_spec l
  have hG : (onLine s l).Pairwise (fun a b => b.1 ∉ splitWS a.2) :=
    pairwise_of_forall _ (fun a ha b hb => G1 a ha b.1 (List.mem_map.2 ⟨b, (List.mem_filter.1 hb).1, rfl⟩))
  rw [substOfW_eq_wordsLine s l hG] at hmem
  unfold wordsLine at hmem
  rw [splitWS_line _ h2 _ (sepOK_map_fst (wordOf s) _ h3)] at hmem
  simp only [List.map_map, List.mem_flatten, List.mem_map, Function.comp] at hmem
  obtain ⟨toks, ⟨tw, htw, rfl⟩, hk'⟩ := hmem
  have hmem' : tw.1 ∈ splitWS l := by rw [splitWS_decomp l]; exact List.mem_map.2 ⟨tw, htw, rfl⟩
  simp only [wordOf] at hk'
  cases hl : lookup s tw.1 with
  | none =>
    rw [hl] at hk'
    simp only at hk'
    rw [splitWS_token (h4 tw htw).1 (h4 tw htw).2, List.mem_singleton] at hk'
    rw [lookup_none_iff] at hl
    exact hl (hk' ▸ hk)
  | some v =>
    rw [hl] at hk'
    simp only at hk'
    have hin : (tw.1, v) ∈ onLine s l := by
      refine List.mem_filter.2 ⟨lookup_some_mem hl, by simpa using hmem'⟩
    exact G1 (tw.1, v) hin k hk hk'

end Infretis.Template
