import Infretis.Model.TemplateRepaired
import Infretis.Lemmas.TemplateNow
/-!
C19 — the repaired variant of `_modify_input` (`Model/TemplateRepaired.lean`, names compared up to `-`/`_`): the line
structure of its output (as `mdp_edit_exact` for the code as it is) and the statement the open finding
C19:mdp:dash-underscore-key refutes for the code as it is: a requested parameter that the template has under either
spelling is edited in place and not appended.
-/
namespace Infretis.Template

theorem lookupN_some_mem {s : Settings} {k v : Str} (h : lookupN s k = some v) :
    ∃ k', (k', v) ∈ s ∧ normKey k' = normKey k := by
  induction s with
  | nil => simp [lookupN] at h
  | cons kv t ih =>
    obtain ⟨k', v'⟩ := kv
    simp only [lookupN] at h
    by_cases e : normKey k' = normKey k
    · simp only [e, if_true, Option.some.injEq] at h
      subst h; exact ⟨k', by simp, e⟩
    · simp only [e, if_false] at h
      obtain ⟨k'', hm, hn⟩ := ih h
      exact ⟨k'', List.mem_cons_of_mem _ hm, hn⟩

theorem lookupN_none {s : Settings} {k : Str} (h : lookupN s k = none) : ∀ kv ∈ s, normKey kv.1 ≠ normKey k := by
  induction s with
  | nil => intro kv hkv; simp at hkv
  | cons kv t ih =>
    obtain ⟨k', v'⟩ := kv
    simp only [lookupN] at h
    by_cases e : normKey k' = normKey k
    · simp [e] at h
    · simp only [e, if_false] at h
      intro x hx
      rcases List.mem_cons.1 hx with rfl | hx
      · exact e
      · exact ih h x hx

theorem lookupN_isSome_of_mem {s : Settings} {k : Str} (kv : Str × Str) (hm : kv ∈ s) (hn : normKey kv.1 = normKey k) :
    (lookupN s k).isSome = true := by
  cases h : lookupN s k with
  | some v => rfl
  | none => exact absurd hn (lookupN_none h kv hm)

theorem editOutR_requested (s : Settings) (l kw v : Str)
    (hm : matchKey l = some kw) (hv : lookupN s (strip kw) = some v) : editOutR s l = setLine kw v := by
  simp [editOutR, editLineR, hm, hv]

theorem editOutR_unrequested (s : Settings) (l : Str)
    (h : ∀ kw, matchKey l = some kw → lookupN s (strip kw) = none) : editOutR s l = l := by
  unfold editOutR editLineR
  cases hm : matchKey l with
  | none => rfl
  | some kw => simp [h kw hm]

theorem editOutR_proper (s : Settings) (hv : ∀ kv ∈ s, '\n' ∉ kv.2) (l : Str) (hl : Proper l) :
    Proper (editOutR s l) := by
  cases hm : matchKey l with
  | none => simpa [editOutR, editLineR, hm] using hl
  | some kw =>
    cases hv' : lookupN s (strip kw) with
    | none => simpa [editOutR, editLineR, hm, hv'] using hl
    | some v =>
      obtain ⟨_, _, _, b⟩ := matchKey_some hm
      rw [editOutR_requested s l kw v hm hv']
      obtain ⟨k', hmem, _⟩ := lookupN_some_mem hv'
      exact setLine_proper b (hv _ hmem)

theorem editOutR_closeNL (s : Settings) (hv : ∀ kv ∈ s, '\n' ∉ kv.2) {l : Str} (h : LineLike l) :
    editOutR s (closeNL l) = closeNL (editOutR s l) := by
  have hm := matchKey_closeNL h
  cases hk : matchKey l with
  | none =>
    have e1 : editOutR s l = l := by simp [editOutR, editLineR, hk]
    have e2 : editOutR s (closeNL l) = closeNL l := by simp [editOutR, editLineR, hm, hk]
    rw [e1, e2]
  | some kw =>
    cases hl : lookupN s (strip kw) with
    | none =>
      have e1 : editOutR s l = l := by simp [editOutR, editLineR, hk, hl]
      have e2 : editOutR s (closeNL l) = closeNL l := by simp [editOutR, editLineR, hm, hk, hl]
      rw [e1, e2]
    | some v =>
      rw [editOutR_requested s l kw v hk hl, editOutR_requested s _ kw v (by rw [hm, hk]) hl]
      obtain ⟨_, _, _, b⟩ := matchKey_some hk
      obtain ⟨k', hmem, _⟩ := lookupN_some_mem hl
      exact (closeNL_of_proper (setLine_proper b (hv _ hmem))).symm

theorem editOutR_lineLike (s : Settings) (hv : ∀ kv ∈ s, '\n' ∉ kv.2) {l : Str} (h : LineLike l) :
    LineLike (editOutR s l) := by
  cases hk : matchKey l with
  | none => simpa [editOutR, editLineR, hk] using h
  | some kw =>
    cases hl : lookupN s (strip kw) with
    | none => simpa [editOutR, editLineR, hk, hl] using h
    | some v =>
      rw [editOutR_requested s l kw v hk hl]
      obtain ⟨_, _, _, b⟩ := matchKey_some hk
      obtain ⟨k', hmem, _⟩ := lookupN_some_mem hl
      exact (setLine_proper b (hv _ hmem)).lineLike

theorem lines_map_editOutR (s : Settings) (hv : ∀ kv ∈ s, '\n' ∉ kv.2) :
    ∀ (ls : List Str), Lines ls → Lines (ls.map (editOutR s))
  | [], _ => trivial
  | [_], h => editOutR_lineLike s hv h
  | a :: b :: r, h => ⟨editOutR_proper s hv a h.1, lines_map_editOutR s hv (b :: r) h.2⟩

theorem appendedR_mem {s : Settings} {w : List Str} {l : Str} (h : l ∈ appendedR s w) :
    ∃ k v, (k, v) ∈ s ∧ normKey k ∉ w ∧ l = newLine k v := by
  simp only [appendedR, List.mem_filterMap] at h
  obtain ⟨⟨k, v⟩, hm, he⟩ := h
  by_cases hw : normKey k ∈ w
  · simp [hw] at he
  · simp only [hw, if_false, Option.some.injEq] at he
    exact ⟨k, v, hm, hw, he.symm⟩

/-- what the repaired editor writes, as a list of lines -/
def outLinesR (s : Settings) (ls : List Str) : List Str :=
  match appendedR s (writtenKeysR ls) with
  | [] => ls.map (editOutR s)
  | a :: r => closeLast (ls.map (editOutR s)) ++ a :: r

theorem modifyLinesR_flatten (s : Settings) (hv : ∀ kv ∈ s, '\n' ∉ kv.2) (ls : List Str) (h : Lines ls) :
    (modifyLinesR s ls).flatten = (outLinesR s ls).flatten := by
  unfold modifyLinesR outLinesR
  cases happ : appendedR s (writtenKeysR ls) with
  | nil => rfl
  | cons a r =>
    have hne := Lines.ne_nil (lines_map_editOutR s hv ls h)
    have := flatten_needNL (ls.map (editOutR s)) hne
    by_cases hn : needNL (ls.map (editOutR s)) = true
    · simp only [hn, if_true] at this ⊢
      simp only [List.flatten_append] at this ⊢
      rw [← this]; simp
    · simp only [hn, Bool.false_eq_true, if_false] at this ⊢
      simp only [List.flatten_append]
      rw [this]

theorem outLinesR_lines (s : Settings) (hk : ∀ kv ∈ s, '\n' ∉ kv.1) (hv : ∀ kv ∈ s, '\n' ∉ kv.2)
    (ls : List Str) (h : Lines ls) : Lines (outLinesR s ls) := by
  unfold outLinesR
  cases happ : appendedR s (writtenKeysR ls) with
  | nil => exact lines_map_editOutR s hv ls h
  | cons a r =>
    apply lines_of_proper
    intro l hl
    rcases List.mem_append.1 hl with hl | hl
    · exact closeLast_proper _ (lines_map_editOutR s hv ls h) l hl
    · rw [← happ] at hl
      obtain ⟨k, v, hm, _, rfl⟩ := appendedR_mem hl
      exact newLine_proper (hk _ hm) (hv _ hm)

/-- the line structure of the repaired editor's output, for every template -/
theorem modifyInputR_lines (s : Settings) (t : Str)
    (hk : ∀ kv ∈ s, '\n' ∉ kv.1) (hv : ∀ kv ∈ s, '\n' ∉ kv.2) :
    linesKeep (modifyInputR s t) = outLinesR s (linesKeep t) := by
  unfold modifyInputR
  rw [modifyLinesR_flatten s hv _ (linesKeep_lines t),
      linesKeep_flatten_lines _ (outLinesR_lines s hk hv _ (linesKeep_lines t))]

/-- exactly the settings whose name (up to `-`/`_`) is not met in the file are appended, in dict order -/
theorem appendedR_exact (s : Settings) (w : List Str) :
    appendedR s w = (s.filter (fun kv => decide (normKey kv.1 ∉ w))).map (fun kv => newLine kv.1 kv.2) := by
  induction s with
  | nil => rfl
  | cons kv t ih =>
    simp only [appendedR] at ih ⊢
    by_cases h : normKey kv.1 ∈ w
    · simp [h, ih]
    · simp [h, ih]

/-- the name of every `keyword = …` line of the file is among the written names -/
theorem writtenKeysR_of_line {ls : List Str} {l kw : Str} (hl : l ∈ ls) (hm : matchKey l = some kw) :
    normKey (strip kw) ∈ writtenKeysR ls := by
  simp only [writtenKeysR, List.mem_filterMap]
  exact ⟨l, hl, by simp [hm]⟩

end Infretis.Template
