import Infretis.Lemmas.Template
/-!
`str.replace` on token boundaries: what `write_for_run` makes of a line whose variables occur
only as whole tokens (`Infretis/Model/Template.lean`, `substLine`), and the tokens of the result.

A line is looked at as `w0 ++ t₁ ++ w₁ ++ … ++ tₙ ++ wₙ` (`w0 ++ body items`), the `wᵢ` being
white space, non-empty except possibly the last.
-/
namespace Infretis.Template

def AllWS (w : Str) : Prop := ∀ c ∈ w, isSpace c = true
def NoWS (t : Str) : Prop := ∀ c ∈ t, isSpace c = false

/-- separators are white space and non-empty, except possibly the last one -/
def SepOK : List (Str × Str) → Prop
  | [] => True
  | tw :: r => AllWS tw.2 ∧ (tw.2 ≠ [] ∨ r = []) ∧ SepOK r

/-! ### `replaceGo` -/

theorem replaceGo_free (k v : Str) : ∀ (x rest : Str),
    (∀ i, i < x.length → k.isPrefixOf (x.drop i ++ rest) = false) →
    replaceGo k v 0 (x ++ rest) = x ++ replaceGo k v 0 rest := by
  intro x
  induction x with
  | nil => intro rest _; rfl
  | cons c x ih =>
    intro rest h
    have h0 := h 0 (by simp)
    simp only [List.drop_zero, List.cons_append] at h0
    simp only [List.cons_append, replaceGo, h0, Bool.false_eq_true, if_false]
    congr 1
    apply ih
    intro i hi
    have := h (i + 1) (by simp only [List.length_cons]; omega)
    simpa using this

theorem replaceGo_skip (k v : Str) : ∀ (y rest : Str),
    replaceGo k v y.length (y ++ rest) = replaceGo k v 0 rest := by
  intro y
  induction y with
  | nil => intro rest; rfl
  | cons c y ih => intro rest; simp only [List.length_cons, List.cons_append, replaceGo]; exact ih rest

theorem replaceGo_match (k v rest : Str) (hk : k ≠ []) :
    replaceGo k v 0 (k ++ rest) = v ++ replaceGo k v 0 rest := by
  cases k with
  | nil => exact absurd rfl hk
  | cons c k' =>
    have hp : (c :: k').isPrefixOf (c :: (k' ++ rest)) = true := by
      rw [List.isPrefixOf_iff_prefix]; exact ⟨rest, by simp⟩
    simp only [List.cons_append, replaceGo, hp, if_true, List.length_cons, Nat.add_sub_cancel]
    rw [replaceGo_skip]

/-- a prefix of `a ++ b` is a prefix of `a` or reaches into `b` -/
theorem prefix_append_cases {k a b : Str} (h : k <+: a ++ b) :
    k <+: a ∨ ∃ b', b' ≠ [] ∧ b' <+: b ∧ k = a ++ b' := by
  have ha : a <+: a ++ b := List.prefix_append a b
  rcases List.prefix_or_prefix_of_prefix h ha with h1 | h1
  · exact Or.inl h1
  · obtain ⟨b', rfl⟩ := h1
    by_cases hb : b' = []
    · left; subst hb; simp
    · right
      exact ⟨b', hb, (List.prefix_append_right_inj a).1 h, rfl⟩

/-- no occurrence of `k` starts inside a piece `x` that does not contain `k` and is followed by
    nothing or by a white-space character (`k` itself being free of white space) -/
theorem no_match_inside {k x rest : Str} (hkw : NoWS k) (hx : ¬ k <:+: x)
    (hrest : rest = [] ∨ ∃ c r, rest = c :: r ∧ isSpace c = true) :
    ∀ i, i < x.length → k.isPrefixOf (x.drop i ++ rest) = false := by
  intro i _
  cases hp : k.isPrefixOf (x.drop i ++ rest) with
  | false => rfl
  | true =>
    exfalso
    rw [List.isPrefixOf_iff_prefix] at hp
    rcases prefix_append_cases hp with h1 | ⟨b', hb, hpre, hk⟩
    · exact hx (List.IsInfix.trans h1.isInfix (List.drop_suffix i x).isInfix)
    · rcases hrest with rfl | ⟨c, r, rfl, hc⟩
      · exact hb (List.prefix_nil.1 hpre)
      · cases b' with
        | nil => exact hb rfl
        | cons d b'' =>
          have hd : d = c := by
            obtain ⟨z, hz⟩ := hpre
            simp only [List.cons_append, List.cons.injEq] at hz
            exact hz.1
          have : d ∈ k := by rw [hk]; simp
          have := hkw d this
          rw [hd, hc] at this
          cases this

theorem no_match_ws {k w rest : Str} (hk : k ≠ []) (hkw : NoWS k) (hw : AllWS w) :
    ∀ i, i < w.length → k.isPrefixOf (w.drop i ++ rest) = false := by
  intro i hi
  cases hp : k.isPrefixOf (w.drop i ++ rest) with
  | false => rfl
  | true =>
    exfalso
    rw [List.isPrefixOf_iff_prefix] at hp
    cases k with
    | nil => exact hk rfl
    | cons d k' =>
      have hne : w.drop i ≠ [] := by
        intro h; have := congrArg List.length h; simp at this; omega
      cases hdw : w.drop i with
      | nil => exact hne hdw
      | cons c w' =>
        rw [hdw] at hp
        obtain ⟨z, hz⟩ := hp
        simp only [List.cons_append, List.cons.injEq] at hz
        have hcw : c ∈ w := List.mem_of_mem_drop (by rw [hdw]; simp)
        have h1 := hw c hcw
        have h2 := hkw d (by simp)
        rw [hz.1, h1] at h2
        cases h2

/-- the substitution on one item: a piece equal to the variable becomes the value -/
def subst1 (k v : Str) (tw : Str × Str) : Str × Str := (if tw.1 = k then v else tw.1, tw.2)

/-- **`str.replace` respects token boundaries.**  If every piece is the variable itself or does
    not contain it, the replacement acts piece by piece. -/
theorem replaceGo_body (k v : Str) (hk : k ≠ []) (hkw : NoWS k) : ∀ (items : List (Str × Str)),
    SepOK items → (∀ tw ∈ items, tw.1 = k ∨ ¬ k <:+: tw.1) →
    replaceGo k v 0 (body items) = body (items.map (subst1 k v)) := by
  intro items
  induction items with
  | nil => intro _ _; rfl
  | cons tw r ih =>
    intro hs hg
    obtain ⟨t, w⟩ := tw
    obtain ⟨hw, hne, hs'⟩ := hs
    have ihr := ih hs' (fun x hx => hg x (List.mem_cons_of_mem _ hx))
    have hwstep : replaceGo k v 0 (w ++ body r) = w ++ body (r.map (subst1 k v)) := by
      rw [replaceGo_free k v w (body r) (no_match_ws hk hkw hw), ihr]
    have hrest : w ++ body r = [] ∨ ∃ c r', w ++ body r = c :: r' ∧ isSpace c = true := by
      cases w with
      | nil =>
        rcases hne with h | h
        · exact absurd rfl h
        · left; subst h; rfl
      | cons c w' => right; exact ⟨c, w' ++ body r, rfl, hw c (by simp)⟩
    simp only [body, List.map_cons, subst1]
    rcases hg (t, w) (by simp) with h | h
    · simp only at h
      subst h
      simp only [if_true]
      rw [replaceGo_match t v _ hk, hwstep]
    · simp only at h
      have hne' : t ≠ k := by intro e; apply h; rw [e]; exact List.infix_refl k
      simp only [hne', if_false]
      rw [replaceGo_free k v t _ (no_match_inside hkw h hrest), hwstep]

theorem replaceGo_line (k v w0 : Str) (hk : k ≠ []) (hkw : NoWS k) (hw0 : AllWS w0)
    (items : List (Str × Str)) (hs : SepOK items) (hg : ∀ tw ∈ items, tw.1 = k ∨ ¬ k <:+: tw.1) :
    replaceAll k v (w0 ++ body items) = w0 ++ body (items.map (subst1 k v)) := by
  have : k.isEmpty = false := by cases k with | nil => exact absurd rfl hk | cons _ _ => rfl
  simp only [replaceAll, this, Bool.false_eq_true, if_false]
  rw [replaceGo_free k v w0 _ (no_match_ws hk hkw hw0), replaceGo_body k v hk hkw items hs hg]

theorem sepOK_map (k v : Str) : ∀ (items : List (Str × Str)), SepOK items → SepOK (items.map (subst1 k v)) := by
  intro items
  induction items with
  | nil => intro h; exact h
  | cons tw r ih =>
    intro h
    obtain ⟨a, b, c⟩ := h
    refine ⟨a, ?_, ih c⟩
    rcases b with b | b
    · exact Or.inl b
    · right; subst b; rfl

/-! ### tokens of a decomposed line -/

theorem splitWSGo_append_ws (c : Char) (hc : isSpace c = true) (b : Str) : ∀ (a cur : Str),
    splitWSGo cur (a ++ c :: b) = splitWSGo cur a ++ splitWSGo [] b := by
  intro a
  induction a with
  | nil =>
    intro cur
    cases cur <;> simp [splitWSGo, hc]
  | cons x a ih =>
    intro cur
    by_cases hx : isSpace x = true
    · cases cur <;> simp [splitWSGo, hx, ih]
    · simp only [List.cons_append, splitWSGo, hx]
      exact ih (x :: cur)

theorem splitWSGo_ws_prefix : ∀ (w : Str), AllWS w → ∀ rest, splitWSGo [] (w ++ rest) = splitWSGo [] rest := by
  intro w
  induction w with
  | nil => intro _ rest; rfl
  | cons c w ih =>
    intro h rest
    have hc := h c (by simp)
    simp only [List.cons_append, splitWSGo, hc, if_true, List.isEmpty_nil]
    exact ih (fun x hx => h x (List.mem_cons_of_mem _ hx)) rest

theorem splitWSGo_mem_infix : ∀ (x cur tok : Str), tok ∈ splitWSGo cur x → tok <:+: cur.reverse ++ x := by
  intro x
  induction x with
  | nil =>
    intro cur tok h
    cases cur with
    | nil => simp [splitWSGo] at h
    | cons a cur =>
      simp only [splitWSGo, List.isEmpty_cons, Bool.false_eq_true, if_false, List.mem_singleton] at h
      subst h; simp
  | cons c x ih =>
    intro cur tok h
    by_cases hc : isSpace c = true
    · have hrec : tok ∈ splitWSGo [] x → tok <:+: cur.reverse ++ c :: x := by
        intro h'
        have := ih [] tok h'
        simp only [List.reverse_nil, List.nil_append] at this
        exact List.IsInfix.trans this ⟨cur.reverse ++ [c], [], by simp⟩
      cases cur with
      | nil =>
        simp only [splitWSGo, hc, if_true, List.isEmpty_nil] at h
        exact hrec h
      | cons a cur =>
        simp only [splitWSGo, hc, if_true, List.isEmpty_cons, Bool.false_eq_true, if_false,
          List.mem_cons] at h
        rcases h with h | h
        · subst h; exact ⟨[], c :: x, by simp⟩
        · exact hrec h
    · simp only [splitWSGo, hc] at h
      have := ih (c :: cur) tok h
      simpa using this

theorem splitWS_mem_infix {x tok : Str} (h : tok ∈ splitWS x) : tok <:+: x := by
  simpa using splitWSGo_mem_infix x [] tok h

theorem splitWS_body : ∀ (items : List (Str × Str)), SepOK items →
    splitWS (body items) = (items.map (fun tw => splitWS tw.1)).flatten := by
  intro items
  induction items with
  | nil => intro _; rfl
  | cons tw r ih =>
    intro hs
    obtain ⟨t, w⟩ := tw
    obtain ⟨hw, hne, hs'⟩ := hs
    simp only [body, List.map_cons, List.flatten_cons]
    cases w with
    | nil =>
      rcases hne with h | h
      · exact absurd rfl h
      · subst h; simp [body]
    | cons c w' =>
      have hc := hw c (by simp)
      unfold splitWS at ih ⊢
      rw [List.cons_append, splitWSGo_append_ws c hc, splitWSGo_ws_prefix w' (fun x hx => hw x (List.mem_cons_of_mem _ hx)), ih hs']

theorem splitWS_line (w0 : Str) (hw0 : AllWS w0) (items : List (Str × Str)) (hs : SepOK items) :
    splitWS (w0 ++ body items) = (items.map (fun tw => splitWS tw.1)).flatten := by
  have := splitWS_body items hs
  unfold splitWS at this ⊢
  rw [splitWSGo_ws_prefix w0 hw0, this]

theorem splitWSGo_nows : ∀ (t cur : Str), NoWS t → splitWSGo cur t =
    (if (cur.reverse ++ t).isEmpty then [] else [cur.reverse ++ t]) := by
  intro t
  induction t with
  | nil => intro cur _; cases cur <;> simp [splitWSGo]
  | cons c t ih =>
    intro cur h
    have hc := h c (by simp)
    simp only [splitWSGo, hc, Bool.false_eq_true, if_false]
    rw [ih (c :: cur) (fun x hx => h x (List.mem_cons_of_mem _ hx))]
    simp

theorem splitWS_token {t : Str} (h : NoWS t) (hne : t ≠ []) : splitWS t = [t] := by
  unfold splitWS
  rw [splitWSGo_nows t [] h]
  cases t with
  | nil => exact absurd rfl hne
  | cons _ _ => simp

/-! ### every line has such a decomposition -/

-- (`body`, `decompGo`, `decomp` live in `Model/Template.lean`: the word-by-word specification `wordsLine` uses them)

theorem mem_takeWhile_true {p : Char → Bool} : ∀ {l : Str} {x : Char}, x ∈ l.takeWhile p → p x = true := by
  intro l
  induction l with
  | nil => intro x h; simp at h
  | cons c l ih =>
    intro x h
    by_cases hc : p c = true
    · simp only [List.takeWhile, hc, List.mem_cons] at h
      rcases h with h | h
      · subst h; exact hc
      · exact ih h
    · simp [List.takeWhile, hc] at h

theorem dropWhile_head_false {p : Char → Bool} : ∀ (l : Str) (c : Char) (r : Str),
    l.dropWhile p = c :: r → p c = false := by
  intro l
  induction l with
  | nil => intro c r h; simp at h
  | cons d l ih =>
    intro c r h
    by_cases hd : p d = true
    · simp only [List.dropWhile, hd] at h
      exact ih c r h
    · simp only [List.dropWhile, hd, List.cons.injEq] at h
      rw [← h.1]; simpa using hd

theorem dropWhile_length_le {p : Char → Bool} (l : Str) : (l.dropWhile p).length ≤ l.length := by
  induction l with
  | nil => simp
  | cons d l ih =>
    by_cases hd : p d = true
    · simp only [List.dropWhile, hd, List.length_cons]; omega
    · simp [List.dropWhile, hd]

/-- head of the string is not white space (or the string is empty) -/
def HeadNoWS (s : Str) : Prop := ∀ c r, s = c :: r → isSpace c = false

theorem headNoWS_dropWhile (s : Str) : HeadNoWS (s.dropWhile isSpace) := by
  intro c r h
  exact dropWhile_head_false s c r h

theorem decompGo_spec : ∀ (fuel : Nat) (s : Str), s.length ≤ fuel → HeadNoWS s →
    body (decompGo fuel s) = s ∧ SepOK (decompGo fuel s) ∧
    ∀ tw ∈ decompGo fuel s, NoWS tw.1 ∧ tw.1 ≠ [] := by
  intro fuel
  induction fuel with
  | zero =>
    intro s hl _
    have : s = [] := List.eq_nil_of_length_eq_zero (by omega)
    subst this
    simp [decompGo, body, SepOK]
  | succ fuel ih =>
    intro s hl hh
    cases s with
    | nil => simp [decompGo, body, SepOK]
    | cons c s' =>
      have hc : isSpace c = false := hh c s' rfl
      simp only [decompGo, List.isEmpty_cons, Bool.false_eq_true, if_false]
      generalize ht : (c :: s').takeWhile (fun c => !isSpace c) = t
      generalize hr : (c :: s').dropWhile (fun c => !isSpace c) = r
      have hsplit : t ++ r = c :: s' := by rw [← ht, ← hr]; exact List.takeWhile_append_dropWhile
      have ht_ne : t ≠ [] := by rw [← ht]; simp [List.takeWhile, hc]
      have ht_nows : NoWS t := by
        intro x hx
        rw [← ht] at hx
        have := mem_takeWhile_true hx
        simpa using this
      have hwr : r.takeWhile isSpace ++ r.dropWhile isSpace = r := List.takeWhile_append_dropWhile
      have hlen : (r.dropWhile isSpace).length ≤ fuel := by
        have h1 : t.length + r.length = s'.length + 1 := by
          have := congrArg List.length hsplit; simpa using this
        have h2 : (r.dropWhile isSpace).length ≤ r.length := dropWhile_length_le r
        have h3 : 0 < t.length := List.length_pos_iff.2 ht_ne
        simp only [List.length_cons] at hl
        omega
      obtain ⟨i1, i2, i3⟩ := ih (r.dropWhile isSpace) hlen (headNoWS_dropWhile r)
      have hw_all : AllWS (r.takeWhile isSpace) := by
        intro x hx
        exact mem_takeWhile_true hx
      refine ⟨?_, ⟨hw_all, ?_, i2⟩, ?_⟩
      · simp only [body]
        rw [i1, hwr, hsplit]
      · -- the separator is empty only at the very end
        by_cases hw : r.takeWhile isSpace = []
        · right
          have hr_nil : r = [] := by
            cases hr' : r with
            | nil => rfl
            | cons d r' =>
              exfalso
              have hd : isSpace d = true := by
                have := dropWhile_head_false (p := fun c => !isSpace c) (c :: s') d r' (by rw [hr, hr'])
                simpa using this
              rw [hr'] at hw
              simp [List.takeWhile, hd] at hw
          subst hr_nil
          cases fuel <;> simp [decompGo]
        · exact Or.inl hw
      · intro tw htw
        rcases List.mem_cons.1 htw with h | h
        · subst h; exact ⟨ht_nows, ht_ne⟩
        · exact i3 tw h

theorem decomp_spec (l : Str) :
    l = (decomp l).1 ++ body (decomp l).2 ∧ AllWS (decomp l).1 ∧ SepOK (decomp l).2 ∧
    (∀ tw ∈ (decomp l).2, NoWS tw.1 ∧ tw.1 ≠ []) := by
  have hlen : (l.dropWhile isSpace).length ≤ l.length := dropWhile_length_le l
  obtain ⟨a, b, c⟩ := decompGo_spec l.length (l.dropWhile isSpace) hlen (headNoWS_dropWhile l)
  refine ⟨?_, ?_, b, c⟩
  · simp only [decomp]
    rw [a]; exact List.takeWhile_append_dropWhile.symm
  · intro x hx
    exact mem_takeWhile_true hx

/-- the tokens of a line are the first components of its decomposition -/
theorem splitWS_decomp (l : Str) : splitWS l = (decomp l).2.map (·.1) := by
  obtain ⟨h1, h2, h3, h4⟩ := decomp_spec l
  conv => lhs; rw [h1]
  rw [splitWS_line _ h2 _ h3]
  generalize (decomp l).2 = items at h4
  induction items with
  | nil => rfl
  | cons tw r ih =>
    have := h4 tw (by simp)
    simp only [List.map_cons, List.flatten_cons, splitWS_token this.1 this.2]
    rw [ih (fun x hx => h4 x (List.mem_cons_of_mem _ hx))]
    rfl

/-! ### all variables of a settings dict, one after the other -/

/-- no variable of `K` occurs anywhere in `t` -/
def KeyFree (K : List Str) (t : Str) : Prop := ∀ k ∈ K, ¬ k <:+: t

/-- a variable of `K` occurs in `t` only if `t` is that variable -/
def Good (K : List Str) (t : Str) : Prop := ∀ k ∈ K, k <:+: t → t = k

theorem KeyFree.good {K : List Str} {t : Str} (h : KeyFree K t) : Good K t :=
  fun k hk hi => absurd hi (h k hk)

/-- what the successive replacements make of one piece -/
def foldItem (spl : List Str) : Settings → Str → Str
  | [], t => t
  | (k, v) :: r, t => foldItem spl r (if k ∈ spl ∧ t = k then v else t)

theorem sepOK_map_fst (f : Str → Str) : ∀ (items : List (Str × Str)), SepOK items →
    SepOK (items.map (fun tw => (f tw.1, tw.2))) := by
  intro items
  induction items with
  | nil => intro h; exact h
  | cons tw r ih =>
    intro h
    obtain ⟨a, b, c⟩ := h
    refine ⟨a, ?_, ih c⟩
    rcases b with b | b
    · exact Or.inl b
    · right; subst b; rfl

theorem substLine_items (K spl : List Str) (hspl : ∀ tok ∈ spl, NoWS tok ∧ tok ≠ [])
    (w0 : Str) (hw0 : AllWS w0) : ∀ (s' : Settings) (items : List (Str × Str)),
    (∀ kv ∈ s', kv.1 ∈ K ∧ KeyFree K kv.2) → SepOK items → (∀ tw ∈ items, Good K tw.1) →
    substLine spl s' (w0 ++ body items)
      = w0 ++ body (items.map (fun tw => (foldItem spl s' tw.1, tw.2))) := by
  intro s'
  induction s' with
  | nil => intro items _ _ _; simp [substLine, foldItem]
  | cons kv r ih =>
    intro items hs hsep hgood
    obtain ⟨k, v⟩ := kv
    have hk := hs (k, v) (by simp)
    have hr : ∀ kv ∈ r, kv.1 ∈ K ∧ KeyFree K kv.2 := fun kv h => hs kv (List.mem_cons_of_mem _ h)
    by_cases hin : k ∈ spl
    · have hcond : ∀ tw ∈ items, tw.1 = k ∨ ¬ k <:+: tw.1 := by
        intro tw htw
        by_cases hi : k <:+: tw.1
        · exact Or.inl (hgood tw htw k hk.1 hi)
        · exact Or.inr hi
      simp only [substLine, hin, if_true]
      rw [replaceGo_line k v w0 (hspl k hin).2 (hspl k hin).1 hw0 items hsep hcond]
      rw [ih (items.map (subst1 k v)) hr (sepOK_map k v items hsep)]
      · congr 2
        rw [List.map_map]
        apply List.map_congr_left
        intro tw _
        simp [subst1, foldItem, hin]
      · intro tw htw
        obtain ⟨tw0, h0, rfl⟩ := List.mem_map.1 htw
        simp only [subst1]
        by_cases e : tw0.1 = k
        · simp only [e, if_true]; exact hk.2.good
        · simp only [e, if_false]; exact hgood tw0 h0
    · simp only [substLine, hin, if_false]
      rw [ih items hr hsep hgood]
      congr 2
      apply List.map_congr_left
      intro tw _
      simp [foldItem, hin]

theorem foldItem_keyFree (K spl : List Str) : ∀ (s' : Settings) (t : Str),
    (∀ kv ∈ s', kv.1 ∈ K) → KeyFree K t → foldItem spl s' t = t := by
  intro s'
  induction s' with
  | nil => intro t _ _; rfl
  | cons kv r ih =>
    intro t hs ht
    obtain ⟨k, v⟩ := kv
    have hne : t ≠ k := by
      intro e; subst e
      exact ht t (hs (t, v) (by simp)) (List.infix_refl t)
    simp only [foldItem, hne, and_false, if_false]
    exact ih t (fun kv h => hs kv (List.mem_cons_of_mem _ h)) ht

/-- a token of the original line ends up as a value (which contains no variable) or stays as it
    is, the latter only if it is not a variable -/
theorem foldItem_cases (K spl : List Str) : ∀ (s' : Settings) (t : Str),
    (∀ kv ∈ s', kv.1 ∈ K ∧ KeyFree K kv.2) → t ∈ spl →
    KeyFree K (foldItem spl s' t) ∨ (foldItem spl s' t = t ∧ t ∉ keys s') := by
  intro s'
  induction s' with
  | nil => intro t _ _; right; exact ⟨rfl, by simp [keys]⟩
  | cons kv r ih =>
    intro t hs ht
    obtain ⟨k, v⟩ := kv
    have hr : ∀ kv ∈ r, kv.1 ∈ K ∧ KeyFree K kv.2 := fun kv h => hs kv (List.mem_cons_of_mem _ h)
    by_cases e : t = k
    · subst e
      left
      simp only [foldItem, ht, and_self, if_true]
      rw [foldItem_keyFree K spl r v (fun kv h => (hr kv h).1) (hs (t, v) (by simp)).2]
      exact (hs (t, v) (by simp)).2
    · simp only [foldItem, e, and_false, if_false]
      rcases ih t hr ht with h | ⟨h1, h2⟩
      · exact Or.inl h
      · right
        refine ⟨h1, ?_⟩
        simp only [keys, List.map_cons, List.mem_cons, not_or]
        exact ⟨e, h2⟩

/-- **no variable remains on an edited line**, provided no value contains a variable (G1) and
    no token of the line contains a variable as a proper substring (G2) -/
theorem substOf_no_var (s : Settings) (l : Str)
    (G1 : ∀ kv ∈ s, KeyFree (keys s) kv.2) (G2 : ∀ tok ∈ splitWS l, Good (keys s) tok) :
    ∀ k ∈ keys s, k ∉ splitWS (substOf s l) := by
  intro k hk hmem
  obtain ⟨h1, h2, h3, h4⟩ := decomp_spec l
  have hspl : splitWS l = (decomp l).2.map (·.1) := splitWS_decomp l
  generalize hd : (decomp l).2 = items at h1 h3 h4 hspl
  generalize hw : (decomp l).1 = w0 at h1 h2
  have htok : ∀ tok ∈ splitWS l, NoWS tok ∧ tok ≠ [] := by
    intro tok h
    rw [hspl] at h
    obtain ⟨tw, htw, rfl⟩ := List.mem_map.1 h
    exact h4 tw htw
  have hs : ∀ kv ∈ s, kv.1 ∈ keys s ∧ KeyFree (keys s) kv.2 :=
    fun kv h => ⟨List.mem_map.2 ⟨kv, h, rfl⟩, G1 kv h⟩
  have hgood : ∀ tw ∈ items, Good (keys s) tw.1 := by
    intro tw htw
    exact G2 tw.1 (by rw [hspl]; exact List.mem_map.2 ⟨tw, htw, rfl⟩)
  have hsub := substLine_items (keys s) (splitWS l) htok w0 h2 s items hs h3 hgood
  rw [← h1] at hsub
  unfold substOf at hmem
  rw [hsub, splitWS_line w0 h2 _ (sepOK_map_fst _ items h3)] at hmem
  simp only [List.map_map, List.mem_flatten, List.mem_map, Function.comp] at hmem
  obtain ⟨toks, ⟨tw, htw, rfl⟩, hk'⟩ := hmem
  have hinf : k <:+: foldItem (splitWS l) s tw.1 := splitWS_mem_infix hk'
  have htw_spl : tw.1 ∈ splitWS l := by rw [hspl]; exact List.mem_map.2 ⟨tw, htw, rfl⟩
  rcases foldItem_cases (keys s) (splitWS l) s tw.1 hs htw_spl with h | ⟨e, hnk⟩
  · exact h k hk hinf
  · rw [e] at hinf
    have := hgood tw htw k hk hinf
    rw [this] at hnk
    exact hnk hk

end Infretis.Template
