import Infretis.Lemmas.TemplateSubst
/-!
`write_for_run` against its word-by-word specification `wordsLine` (Model/Template.lean):
on a line where the variables that are words of the line occur nowhere else on that line (neither
inside a longer word nor inside the value of another variable of that line) the substring
replacement of the code is exactly "every word that IS a requested variable becomes its value".
-/
namespace Infretis.Template

/-- variables that are no word of the line are skipped by the loop -/
theorem substLine_filter (spl : List Str) : ∀ (s : Settings) (l : Str),
    substLine spl s l = substLine spl (s.filter (fun kv => decide (kv.1 ∈ spl))) l := by
  intro s
  induction s with
  | nil => intro l; rfl
  | cons kv r ih =>
    intro l
    obtain ⟨k, v⟩ := kv
    by_cases h : k ∈ spl
    · simp only [substLine, h, if_true, List.filter, decide_true]
      exact ih _
    · simp only [substLine, h, if_false, List.filter, decide_false]
      exact ih _

/-- dict lookup of a word of the line sees only the variables that are words of the line -/
theorem lookup_filter (spl : List Str) (t : Str) (ht : t ∈ spl) : ∀ (s : Settings),
    lookup (s.filter (fun kv => decide (kv.1 ∈ spl))) t = lookup s t := by
  intro s
  induction s with
  | nil => rfl
  | cons kv r ih =>
    obtain ⟨k, v⟩ := kv
    by_cases h : k ∈ spl
    · simp only [List.filter, h, decide_true, lookup]
      rw [ih]
    · have hne : k ≠ t := fun e => h (e ▸ ht)
      simp only [List.filter, h, decide_false, lookup, hne, if_false]
      exact ih

/-- the successive replacements on one word = one dict lookup, when no value contains a variable -/
theorem foldItem_eq_wordOf (K spl : List Str) : ∀ (s' : Settings) (t : Str),
    (∀ kv ∈ s', kv.1 ∈ spl ∧ kv.1 ∈ K ∧ KeyFree K kv.2) → foldItem spl s' t = wordOf s' t := by
  intro s'
  induction s' with
  | nil => intro t _; rfl
  | cons kv r ih =>
    intro t hs
    obtain ⟨k, v⟩ := kv
    have hk := hs (k, v) (by simp)
    have hr : ∀ kv ∈ r, kv.1 ∈ spl ∧ kv.1 ∈ K ∧ KeyFree K kv.2 := fun kv h => hs kv (List.mem_cons_of_mem _ h)
    by_cases e : t = k
    · subst e
      simp only [foldItem, hk.1, and_self, if_true, wordOf, lookup]
      exact foldItem_keyFree K spl r v (fun kv h => (hr kv h).2.1) hk.2.2
    · have e' : k ≠ t := fun h => e h.symm
      simp only [foldItem, e, and_false, if_false, wordOf, lookup, e']
      exact ih t hr

/-- **one line, word by word.**  `G1`: no value of a variable that is a word of the line contains such a
    variable; `G2`: a word of the line that contains such a variable is that variable. -/
theorem substOf_eq_wordsLine (s : Settings) (l : Str)
    (G1 : ∀ kv ∈ onLine s l, KeyFree (keys (onLine s l)) kv.2)
    (G2 : ∀ tok ∈ splitWS l, Good (keys (onLine s l)) tok) :
    substOf s l = wordsLine s l := by
  obtain ⟨h1, h2, h3, h4⟩ := decomp_spec l
  have hspl : splitWS l = (decomp l).2.map (·.1) := splitWS_decomp l
  unfold wordsLine
  generalize hd : (decomp l).2 = items at h1 h3 h4 hspl
  generalize hw : (decomp l).1 = w0 at h1 h2
  have htok : ∀ tok ∈ splitWS l, NoWS tok ∧ tok ≠ [] := by
    intro tok h
    rw [hspl] at h
    obtain ⟨tw, htw, rfl⟩ := List.mem_map.1 h
    exact h4 tw htw
  have hon : ∀ kv ∈ onLine s l, kv.1 ∈ splitWS l ∧ kv.1 ∈ keys (onLine s l) ∧ KeyFree (keys (onLine s l)) kv.2 := by
    intro kv h
    refine ⟨?_, List.mem_map.2 ⟨kv, h, rfl⟩, G1 kv h⟩
    have := (List.mem_filter.1 h).2
    simpa using this
  have hgood : ∀ tw ∈ items, Good (keys (onLine s l)) tw.1 := by
    intro tw htw
    exact G2 tw.1 (by rw [hspl]; exact List.mem_map.2 ⟨tw, htw, rfl⟩)
  have hsub := substLine_items (keys (onLine s l)) (splitWS l) htok w0 h2 (onLine s l) items
    (fun kv h => ⟨(hon kv h).2.1, (hon kv h).2.2⟩) h3 hgood
  rw [← h1] at hsub
  unfold substOf
  rw [substLine_filter (splitWS l) s l]
  change substLine (splitWS l) (onLine s l) l = _
  rw [hsub]
  congr 2
  apply List.map_congr_left
  intro tw htw
  have hmem : tw.1 ∈ splitWS l := by rw [hspl]; exact List.mem_map.2 ⟨tw, htw, rfl⟩
  rw [foldItem_eq_wordOf (keys (onLine s l)) (splitWS l) (onLine s l) tw.1 hon]
  simp only [wordOf, onLine]
  rw [lookup_filter (splitWS l) tw.1 hmem s]

/-- a line none of whose words is a variable is its own word-by-word edit -/
theorem wordsLine_untouched (s : Settings) (l : Str) (h : ∀ k ∈ keys s, k ∉ splitWS l) :
    wordsLine s l = l := by
  have hon : onLine s l = [] := by
    simp only [onLine, List.filter_eq_nil_iff]
    intro kv hkv
    have := h kv.1 (List.mem_map.2 ⟨kv, hkv, rfl⟩)
    simpa using this
  have := substOf_eq_wordsLine s l (by rw [hon]; intro kv h; cases h) (by rw [hon]; intro tok _ k hk; cases hk)
  rw [← this]
  exact substLine_untouched _ s l h

end Infretis.Template
