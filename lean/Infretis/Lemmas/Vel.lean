import Infretis.Model.Vel
import Mathlib.Algebra.Order.Field.Rat
import Mathlib.Tactic.Ring
import Mathlib.Tactic.FieldSimp
import Mathlib.Tactic.Linarith
/-!
Helper lemmas for C16 (velocity regeneration): column arithmetic of `Infretis.Vel`.
-/
namespace Infretis.Vel

theorem dot_nil_left (b : List Rat) : dot [] b = 0 := by
  cases b <;> rfl

theorem dot_nil_right (a : List Rat) : dot a [] = 0 := by
  cases a <;> rfl

/-- Σ mᵢ (cᵢ − a) = Σ mᵢ cᵢ − a Σ mᵢ for columns as long as the mass vector -/
theorem dot_map_sub (a : Rat) : ∀ (ms col : List Rat), col.length = ms.length →
    dot ms (col.map (fun v => v - a)) = dot ms col - a * sumL ms := by
  intro ms
  induction ms with
  | nil => intro col _; simp [dot_nil_left, sumL]
  | cons m ms ih =>
    intro col h
    cases col with
    | nil => simp at h
    | cons c col =>
      simp only [List.length_cons, Nat.add_right_cancel_iff] at h
      simp only [List.map_cons, dot, sumL, ih col h]
      ring

/-- the column returned by `reset_momentum` carries no momentum -/
theorem dot_resetCol (ms col : List Rat) (hlen : col.length = ms.length) (hM : sumL ms ≠ 0) :
    dot ms (resetCol ms col) = 0 := by
  unfold resetCol
  simp only
  rw [dot_map_sub _ ms col hlen]
  field_simp
  ring

theorem sumL_pos : ∀ (ms : List Rat), ms ≠ [] → (∀ m ∈ ms, 0 < m) → 0 < sumL ms := by
  intro ms
  induction ms with
  | nil => intro h; exact absurd rfl h
  | cons m t ih =>
    intro _ hpos
    have hm : 0 < m := hpos m (by simp)
    cases t with
    | nil => simpa [sumL] using hm
    | cons m' t' =>
      have : 0 < sumL (m' :: t') := ih (by simp) (fun x hx => hpos x (by simp [hx]))
      simp only [sumL] at this ⊢
      linarith

theorem mulCol_length : ∀ (a b : List Rat), a.length = b.length → (mulCol a b).length = b.length := by
  intro a
  induction a with
  | nil => intro b h; cases b <;> simp_all [mulCol]
  | cons x a ih =>
    intro b h
    cases b with
    | nil => simp at h
    | cons y b =>
      simp only [List.length_cons, Nat.add_right_cancel_iff] at h
      simp [mulCol, ih b h]

theorem divCol_length : ∀ (a b : List Rat), a.length = b.length → (divCol a b).length = b.length := by
  intro a
  induction a with
  | nil => intro b h; cases b <;> simp_all [divCol]
  | cons x a ih =>
    intro b h
    cases b with
    | nil => simp at h
    | cons y b =>
      simp only [List.length_cons, Nat.add_right_cancel_iff] at h
      simp [divCol, ih b h]

/-- momentum of every column of `resetMomentum` is zero -/
theorem momentum_resetMomentum (ms : List Rat) (hM : sumL ms ≠ 0) :
    ∀ (vel : List (List Rat)), (∀ col ∈ vel, col.length = ms.length) →
      momentum ms (resetMomentum ms vel) = vel.map (fun _ => 0) := by
  intro vel
  induction vel with
  | nil => intro _; rfl
  | cons c t ih =>
    intro h
    have hc : c.length = ms.length := h c (by simp)
    have ht := ih (fun col hcol => h col (by simp [hcol]))
    simp only [momentum, resetMomentum, List.map_cons, List.map_map] at ht ⊢
    rw [dot_resetCol ms c hc hM]
    simp only [List.cons.injEq, true_and]
    simpa [Function.comp_def] using ht

/-- σᵢ²·mᵢ = 1/β for every particle with non-zero mass -/
theorem mulCol_sigmaSq (bet : Rat) : ∀ (ms : List Rat), (∀ m ∈ ms, m ≠ 0) →
    mulCol (sigmaSq bet ms) ms = ms.map (fun _ => 1 / bet) := by
  intro ms
  induction ms with
  | nil => intro _; rfl
  | cons m t ih =>
    intro h
    have hm : m ≠ 0 := h m (by simp)
    have ht := ih (fun x hx => h x (by simp [hx]))
    simp only [sigmaSq, List.map_cons, mulCol] at ht ⊢
    rw [ht]
    congr 1
    field_simp

theorem one_div_beta (s : Setup) (_h : s.temperature * kbBeta s ≠ 0) :
    1 / beta s = kbBeta s * s.temperature := by
  unfold beta
  rw [one_div_one_div, mul_comm]

end Infretis.Vel
