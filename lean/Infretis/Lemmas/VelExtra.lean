import Infretis.Model.VelExtra
import Infretis.Lemmas.Vel
import Mathlib.Tactic.Ring
import Mathlib.Tactic.FieldSimp
import Mathlib.Tactic.Linarith
/-!
Helper lemmas for the audit follow-up of C16 (`Model/VelExtra.lean`): LAMMPS masses, TurtleMD `dim`, column algebra.
-/
namespace Infretis.VelExtra
open Infretis.Vel

/-! ### `selMass` / `assignLoop` under a permutation of the Masses rows -/

theorem pickSingle_perm {l l' : List Rat} (h : l.Perm l') : pickSingle l = pickSingle l' := by
  match l, h with
  | [], h => have : l' = [] := List.Perm.nil_eq h |>.symm; subst this; rfl
  | [a], h =>
    have : l' = [a] := List.perm_singleton.mp h.symm
    subst this; rfl
  | a :: b :: t, h =>
    have hl : l'.length = t.length + 2 := by simpa using h.length_eq.symm
    match l', hl with
    | x :: y :: t', _ => rfl

theorem selMass_perm {mr mr' : List (Rat × Rat)} (h : mr.Perm mr') (t : Nat) :
    selMass .repaired mr t = selMass .repaired mr' t := by
  unfold selMass
  exact pickSingle_perm ((h.filter _).map _)

theorem assignLoop_perm {mr mr' : List (Rat × Rat)} (h : mr.Perm mr') (tyCol : List (Option Rat)) :
    ∀ (ts : List Nat) (masses : List Rat),
      assignLoop .repaired mr tyCol ts masses = assignLoop .repaired mr' tyCol ts masses := by
  intro ts
  induction ts with
  | nil => intro _; rfl
  | cons t ts ih =>
    intro masses
    simp only [assignLoop, selMass_perm h t]
    cases selMass .repaired mr' t with
    | error e => rfl
    | ok m => exact ih _

/-! ### sorting the Atoms rows by id does not depend on the order they come in -/

theorem insertById_perm (r : List Rat) : ∀ l, (insertById r l).Perm (r :: l) := by
  intro l
  induction l with
  | nil => exact List.Perm.refl _
  | cons b l ih =>
    simp only [insertById]
    split
    · exact List.Perm.refl _
    · exact (List.Perm.cons b ih).trans (List.Perm.swap r b l)

theorem sortById_perm : ∀ l, (sortById l).Perm l := by
  intro l
  induction l with
  | nil => exact List.Perm.refl _
  | cons b l ih => exact (insertById_perm b _).trans (List.Perm.cons b ih)

theorem sortById_length (l : List (List Rat)) : (sortById l).length = l.length := (sortById_perm l).length_eq

theorem insertById_pairwise (r : List Rat) : ∀ l, l.Pairwise (fun a b => rowId a ≤ rowId b) →
    (insertById r l).Pairwise (fun a b => rowId a ≤ rowId b) := by
  intro l
  induction l with
  | nil => intro _; simp [insertById]
  | cons b l ih =>
    intro h
    simp only [insertById]
    split
    · rename_i hle
      refine List.Pairwise.cons ?_ h
      intro x hx
      rcases List.mem_cons.mp hx with rfl | hx
      · exact hle
      · exact le_trans hle (List.rel_of_pairwise_cons h hx)
    · rename_i hnle
      refine List.Pairwise.cons ?_ (ih h.tail)
      intro x hx
      rcases List.mem_cons.mp ((insertById_perm r l).subset hx) with rfl | hx
      · exact le_of_lt (not_le.mp hnle)
      · exact List.rel_of_pairwise_cons h hx

theorem sortById_pairwise : ∀ l, (sortById l).Pairwise (fun a b => rowId a ≤ rowId b) := by
  intro l
  induction l with
  | nil => exact List.Pairwise.nil
  | cons b l ih => exact insertById_pairwise b _ ih

theorem sortById_perm_eq {rows rows' : List (List Rat)} (h : rows.Perm rows')
    (hid : ∀ a ∈ rows, ∀ b ∈ rows, rowId a = rowId b → a = b) :
    sortById rows = sortById rows' := by
  have p1 := sortById_perm rows
  have p2 := sortById_perm rows'
  refine List.Perm.eq_of_pairwise (le := fun a b => rowId a ≤ rowId b) ?_
    (sortById_pairwise rows) (sortById_pairwise rows') (p1.trans (h.trans p2.symm))
  intro a b ha hb hab hba
  have ha' : a ∈ rows := p1.subset ha
  have hb' : b ∈ rows := h.symm.subset (p2.subset hb)
  exact hid a ha' b hb' (le_antisymm hab hba)

/-! ### the loop gives every position the mass selected for its type -/

theorem assignLoop_length (v : Variant) (mr : List (Rat × Rat)) (tyCol : List (Option Rat)) :
    ∀ (ts : List Nat) (masses out : List Rat), tyCol.length = masses.length →
      assignLoop v mr tyCol ts masses = .ok out → out.length = masses.length := by
  intro ts
  induction ts with
  | nil => intro masses out _ h; simp only [assignLoop, Except.ok.injEq] at h; rw [← h]
  | cons t ts ih =>
    intro masses out hl h
    simp only [assignLoop] at h
    split at h
    · cases h
    · rename_i m _
      have := ih _ out (by simp [List.length_zipWith, hl]) h
      simpa [List.length_zipWith, hl] using this

/-- after the loop over `ts`: a position whose type is `t ∈ ts` holds the mass selected for `t`; a position whose
    type is none of `ts` keeps what it had -/
theorem assignLoop_spec (v : Variant) (mr : List (Rat × Rat)) (tyCol : List (Option Rat)) :
    ∀ (ts : List Nat) (masses out : List Rat), tyCol.length = masses.length →
      assignLoop v mr tyCol ts masses = .ok out →
      ∀ (p : Nat) (ty : Option Rat), tyCol[p]? = some ty →
        (∀ t ∈ ts, ty = some (t : Rat) → ∀ m, selMass v mr t = .ok m → out[p]? = some m)
        ∧ ((∀ t ∈ ts, ty ≠ some (t : Rat)) → out[p]? = masses[p]?) := by
  intro ts
  induction ts with
  | nil =>
    intro masses out _ h p ty _
    simp only [assignLoop, Except.ok.injEq] at h
    subst h
    exact ⟨fun t ht => absurd ht (by simp), fun _ => rfl⟩
  | cons t ts ih =>
    intro masses out hl h p ty hp
    simp only [assignLoop] at h
    split at h
    · cases h
    · rename_i m hm
      have hl' : tyCol.length
          = (List.zipWith (fun ty old => if ty = some (t : Rat) then m else old) tyCol masses).length := by
        simp [List.length_zipWith, hl]
      obtain ⟨ih1, ih2⟩ := ih _ out hl' h p ty hp
      have hplt : p < tyCol.length := by
        rcases Nat.lt_or_ge p tyCol.length with h1 | h1
        · exact h1
        · rw [List.getElem?_eq_none h1] at hp; cases hp
      have hpm : p < masses.length := hl ▸ hplt
      have hty : tyCol[p] = ty := by
        have := List.getElem?_eq_getElem hplt
        rw [this] at hp
        exact Option.some.inj hp
      have hstep : (List.zipWith (fun ty old => if ty = some (t : Rat) then m else old) tyCol masses)[p]?
          = some (if ty = some (t : Rat) then m else masses[p]) := by
        rw [List.getElem?_zipWith]
        simp [List.getElem?_eq_getElem hplt, List.getElem?_eq_getElem hpm, hty]
      constructor
      · intro t' ht' hty' m' hm'
        rcases List.mem_cons.mp ht' with rfl | hin
        · -- the head type: either it comes again in `ts` (same selection) or the value survives
          by_cases hagain : ∃ t'' ∈ ts, ty = some (t'' : Rat)
          · obtain ⟨t'', ht'', hty''⟩ := hagain
            have : (t'' : Rat) = (t' : Rat) := Option.some.inj (hty''.symm.trans hty')
            have : t'' = t' := by exact_mod_cast this
            subst this
            exact ih1 t'' ht'' hty'' m' hm'
          · have hnone : ∀ t'' ∈ ts, ty ≠ some (t'' : Rat) := fun t'' h1 h2 => hagain ⟨t'', h1, h2⟩
            rw [ih2 hnone, hstep]
            rw [hm] at hm'
            cases hm'
            simp [hty']
        · exact ih1 t' hin hty' m' hm'
      · intro hnone
        have h1 : ty ≠ some (t : Rat) := hnone t (by simp)
        have h2 : ∀ t'' ∈ ts, ty ≠ some (t'' : Rat) := fun t'' ht'' => hnone t'' (by simp [ht''])
        rw [ih2 h2, hstep]
        simp [h1, List.getElem?_eq_getElem hpm]

/-- the loop only succeeds when every type of `ts` has a selection -/
theorem assignLoop_ok_sel (v : Variant) (mr : List (Rat × Rat)) (tyCol : List (Option Rat)) :
    ∀ (ts : List Nat) (masses out : List Rat), assignLoop v mr tyCol ts masses = .ok out →
      ∀ t ∈ ts, ∃ m, selMass v mr t = .ok m := by
  intro ts
  induction ts with
  | nil => intro _ _ _ t ht; simp at ht
  | cons t0 ts ih =>
    intro masses out h t ht
    simp only [assignLoop] at h
    split at h
    · cases h
    · rename_i m hm
      rcases List.mem_cons.mp ht with rfl | hin
      · exact ⟨m, hm⟩
      · exact ih _ out h t hin

/-- with exactly one row for type `t`, the selection is that row's mass, wherever the row stands -/
theorem selMass_repaired_of_mem (mr : List (Rat × Rat)) (t : Nat) (m m' : Rat)
    (hsel : selMass .repaired mr t = .ok m') (hmem : ((t : Rat), m) ∈ mr) : m' = m := by
  unfold selMass at hsel
  simp only at hsel
  have hin : m ∈ (mr.filter (fun r => decide (r.1 = (t : Rat)))).map (·.2) := by
    simp only [List.mem_map, List.mem_filter, decide_eq_true_eq]
    exact ⟨((t : Rat), m), ⟨hmem, rfl⟩, rfl⟩
  generalize (mr.filter (fun r => decide (r.1 = (t : Rat)))).map (·.2) = l at hsel hin
  match l, hsel, hin with
  | [m0], hsel, hin =>
    simp only [pickSingle, Except.ok.injEq] at hsel
    subst hsel
    exact (List.mem_singleton.mp hin).symm

/-! ### kinetic energy of components side by side -/

theorem sumL_append (a b : List Rat) : sumL (a ++ b) = sumL a + sumL b := by
  induction a with
  | nil => simp [sumL]
  | cons x a ih => simp only [List.cons_append, sumL, ih]; ring

theorem kineticEnergy_append (ms : List Rat) (a b : List (List Rat)) :
    kineticEnergy ms (a ++ b) = kineticEnergy ms a + kineticEnergy ms b := by
  simp [kineticEnergy, sumL_append]

theorem kineticEnergy_take_drop (ms : List Rat) (v : List (List Rat)) (d : Nat) :
    kineticEnergy ms v = kineticEnergy ms (v.take d) + kineticEnergy ms (v.drop d) := by
  rw [← kineticEnergy_append, List.take_append_drop]

theorem kinCol_zeros (ms col : List Rat) (h : ∀ x ∈ col, x = 0) : kinCol ms col = 0 := by
  unfold kinCol
  suffices hs : ∀ (c ms : List Rat), (∀ x ∈ c, x = 0) → dot (mulCol c ms) c = 0 by rw [hs col ms h]; ring
  intro c
  induction c with
  | nil => intro ms _; cases ms <;> simp [mulCol, dot]
  | cons x c ih =>
    intro ms hc
    cases ms with
    | nil => simp [mulCol, dot]
    | cons m ms =>
      have hx : x = 0 := hc x (by simp)
      have := ih ms (fun y hy => hc y (by simp [hy]))
      simp [mulCol, dot, this, hx]

theorem kineticEnergy_zero_cols (ms : List Rat) (v : List (List Rat))
    (h : ∀ col ∈ v, ∀ x ∈ col, x = 0) : kineticEnergy ms v = 0 := by
  unfold kineticEnergy
  induction v with
  | nil => rfl
  | cons c v ih =>
    simp only [List.map_cons, sumL, kinCol_zeros ms c (h c (by simp))]
    rw [ih (fun col hc => h col (by simp [hc]))]
    ring

/-! ### written v² · m = (σ² m) · z², column by column -/

/-- `(sig·c)²·m = (sig²·m)·c²`, entry by entry over the common prefix -/
theorem sq_mass_col : ∀ (sig c ms : List Rat),
    mulCol (mulCol (mulCol sig c) (mulCol sig c)) ms = mulCol (mulCol (mulCol sig sig) ms) (mulCol c c) := by
  intro sig
  induction sig with
  | nil => intro c ms; simp [mulCol]
  | cons s sig ih =>
    intro c ms
    cases c with
    | nil => cases ms <;> simp [mulCol]
    | cons x c =>
      cases ms with
      | nil => simp [mulCol]
      | cons m ms =>
        simp only [mulCol, ih c ms]
        congr 1
        ring

theorem mulCol_const_left (k : Rat) : ∀ (ms c : List Rat), c.length = ms.length →
    mulCol (ms.map (fun _ => k)) c = c.map (fun x => k * x) := by
  intro ms
  induction ms with
  | nil => intro c h; cases c <;> simp_all [mulCol]
  | cons m ms ih =>
    intro c h
    cases c with
    | nil => simp at h
    | cons x c =>
      simp only [List.length_cons, Nat.add_right_cancel_iff] at h
      simp only [List.map_cons, mulCol, ih c h]

end Infretis.VelExtra
