import Infretis.Model.VelFlow
/-!
Helper lemmas for C16, per-engine file flow (`Infretis.VelFlow`).
-/
namespace Infretis.VelFlow
open Infretis.Vel

theorem readFile_writeFile_ne' (h : Heap) (f g : Nat) (frames : List Frame) (hne : f ≠ g) :
    (h.writeFile g frames).readFile f = h.readFile f := by
  simp [Heap.readFile, Heap.writeFile, Ne.symm hne]

theorem readFile_writeFile_self (h : Heap) (g : Nat) (frames : List Frame) :
    (h.writeFile g frames).readFile g = some frames := by
  simp [Heap.readFile, Heap.writeFile]

/-- what `dump_frame` may change: nothing but the file `conf.<ext>` -/
theorem dumpFrameE_effect (e : Engine) (g : GmxSrc) (top : List Nat) (h : Heap) (cfg : Nat × Option Nat)
    (conf : Nat) (h2 : Heap) (fr : Frame) (hd : dumpFrameE e g top h cfg conf = .ok (h2, fr)) :
    h2.systems = h.systems ∧ h2.objs = h.objs ∧ ∀ f, f ≠ conf → h2.readFile f = h.readFile f := by
  unfold dumpFrameE at hd
  simp only at hd
  split at hd
  · cases hd
  · rename_i h1 hw
    have key : h1.systems = h.systems ∧ h1.objs = h.objs ∧ ∀ f, f ≠ conf → h1.readFile f = h.readFile f := by
      split at hw
      · split at hw
        · cases hw; exact ⟨rfl, rfl, fun _ _ => rfl⟩
        · split at hw
          · cases hw
          · cases hw
            exact ⟨rfl, rfl, fun f hf => readFile_writeFile_ne' h f conf _ hf⟩
      · split at hw
        · cases hw
        · split at hw
          · cases hw
          · split at hw
            · cases hw
            · cases hw; exact ⟨rfl, rfl, fun _ _ => rfl⟩
            · cases hw
              exact ⟨rfl, rfl, fun f hf => readFile_writeFile_ne' h f conf _ hf⟩
    split at hd
    · cases hd
    · split at hd
      · cases hd
      · cases hd
        exact key

/-- an index that IS in the file: every engine regenerates from exactly that frame (GROMACS from a `.trr`: with the
    topology's identities; GROMACS `.g96`: the file is a single frame) -/
theorem dumpFrameE_in_range (e : Engine) (g : GmxSrc) (top : List Nat) (h : Heap) (src i conf : Nat)
    (frames : List Frame) (fr : Frame) (hsrc : h.readFile src = some frames) (hfr : frames[i]? = some fr)
    (hg : e = .gromacs → g = .trr ∨ (g = .g96 ∧ frames = [fr] ∧ src ≠ conf)) :
    ∃ h2, dumpFrameE e g top h (src, some i) conf
        = .ok (h2, if e = .gromacs ∧ g = .trr then { fr with ids := top } else fr)
      ∧ h2.readFile conf
        = some [if e = .gromacs ∧ g = .trr then { fr with ids := top } else fr] := by
  cases e
  case gromacs =>
    rcases hg rfl with hg | ⟨hg, hone, hne⟩
    · subst hg
      refine ⟨h.writeFile conf [{ fr with ids := top }], ?_, ?_⟩
      · simp [dumpFrameE, hsrc, extractFrame, hfr, readFile_writeFile_self, readConf]
      · simp [readFile_writeFile_self]
    · subst hg
      subst hone
      refine ⟨h.writeFile conf [fr], ?_, ?_⟩
      · simp [dumpFrameE, hsrc, extractFrame, hne, readFile_writeFile_self, readConf]
      · simp [readFile_writeFile_self]
  all_goals
    refine ⟨h.writeFile conf [fr], ?_, ?_⟩
    · simp [dumpFrameE, hsrc, extractFrame, hfr, readFile_writeFile_self, readConf]
    · simp [readFile_writeFile_self]

/-- index `None` on a single-frame file: every engine regenerates from that frame -/
theorem dumpFrameE_none_single (e : Engine) (g : GmxSrc) (top : List Nat) (h : Heap) (src conf : Nat)
    (fr : Frame) (hsrc : h.readFile src = some [fr]) :
    ∃ h2, dumpFrameE e g top h (src, none) conf = .ok (h2, fr) := by
  by_cases hc : src = conf
  · subst hc
    exact ⟨h, by cases e <;> simp [dumpFrameE, hsrc, readConf]⟩
  · exact ⟨h.writeFile conf [fr], by cases e <;> simp [dumpFrameE, hc, hsrc, readFile_writeFile_self, readConf]⟩

end Infretis.VelFlow
