import Infretis.Lemmas.Vel
/-!
C16, degrees of freedom: `reset_momentum` as a linear map on one velocity column and the variance it leaves.

`reset_momentum` subtracts the centre-of-mass velocity: `v'ᵢ = vᵢ − (Σₖ mₖ vₖ)/M = Σₖ cᵢₖ vₖ` with
`cᵢₖ = δᵢₖ − mₖ/M` (`coeffRow`).  For independent components with variances `sₖ` the variance of a linear
combination is `Σₖ cᵢₖ² sₖ` (`quadForm`; the probabilistic fact itself is outside the model, like the Gaussian).
With `sₖ = k_BT/mₖ` that is `k_BT·(1/mᵢ − 1/M)`.
-/
namespace Infretis.Vel

/-- row `i` of the matrix `reset_momentum` applies to a column: `δᵢₖ − mₖ/M` -/
def coeffRow (M : Rat) : List Rat → Nat → List Rat
  | [], _ => []
  | m :: t, 0 => (1 - m / M) :: t.map (fun m' => -(m' / M))
  | m :: t, i + 1 => (-(m / M)) :: coeffRow M t i

/-- `Σₖ cₖ² sₖ` -/
def quadForm (c s : List Rat) : Rat := dot (mulCol c c) s

theorem dot_map_neg_div (M : Rat) : ∀ (t col : List Rat),
    dot (t.map (fun m' => -(m' / M))) col = -(dot t col) / M := by
  intro t
  induction t with
  | nil => intro col; simp [dot_nil_left]
  | cons m t ih =>
    intro col
    cases col with
    | nil => simp [dot_nil_right]
    | cons c col =>
      simp only [List.map_cons, dot, ih col]
      ring

/-- the `i`-th entry of the reset column is the linear combination with `coeffRow` -/
theorem dot_coeffRow (M : Rat) : ∀ (ms col : List Rat) (i : Nat) (ci : Rat),
    col.length = ms.length → col[i]? = some ci →
    dot (coeffRow M ms i) col = ci - dot ms col / M := by
  intro ms
  induction ms with
  | nil =>
    intro col i ci hlen hci
    cases col with
    | nil => simp at hci
    | cons c col => simp at hlen
  | cons m ms ih =>
    intro col i ci hlen hci
    cases col with
    | nil => simp at hlen
    | cons c col =>
      simp only [List.length_cons, Nat.add_right_cancel_iff] at hlen
      cases i with
      | zero =>
        simp only [List.getElem?_cons_zero, Option.some.injEq] at hci
        subst hci
        simp only [coeffRow, dot, dot_map_neg_div]
        ring
      | succ i =>
        simp only [List.getElem?_cons_succ] at hci
        simp only [coeffRow, dot, ih col i ci hlen hci]
        ring

theorem resetCol_getElem? (ms col : List Rat) (i : Nat) (ci : Rat) (hlen : col.length = ms.length)
    (hci : col[i]? = some ci) :
    (resetCol ms col)[i]? = some (dot (coeffRow (sumL ms) ms i) col) := by
  rw [dot_coeffRow (sumL ms) ms col i ci hlen hci]
  simp [resetCol, hci]

theorem quadForm_map_neg_div (kT M : Rat) : ∀ (t : List Rat), (∀ m ∈ t, m ≠ 0) →
    quadForm (t.map (fun m' => -(m' / M))) (t.map (fun m => kT / m)) = kT * sumL t / (M * M) := by
  intro t
  induction t with
  | nil => intro _; simp [quadForm, mulCol, dot, sumL]
  | cons m t ih =>
    intro hm
    have hm0 : m ≠ 0 := hm m (by simp)
    have ih' := ih (fun m' hm' => hm m' (by simp [hm']))
    simp only [quadForm] at ih' ⊢
    simp only [List.map_cons, mulCol, dot, sumL, ih']
    by_cases hM : M = 0
    · subst hM; simp
    · field_simp

/-- general form (any `M`): `Σₖ cᵢₖ² k_BT/mₖ = k_BT/mᵢ − 2k_BT/M + k_BT·(Σm)/M²` -/
theorem quadForm_coeffRow (kT M : Rat) (hM : M ≠ 0) : ∀ (ms : List Rat) (i : Nat) (mi : Rat),
    (∀ m ∈ ms, m ≠ 0) → ms[i]? = some mi →
    quadForm (coeffRow M ms i) (ms.map (fun m => kT / m))
      = kT / mi - 2 * kT / M + kT * sumL ms / (M * M) := by
  intro ms
  induction ms with
  | nil => intro i mi _ hmi; simp at hmi
  | cons m ms ih =>
    intro i mi hm hmi
    have hm0 : m ≠ 0 := hm m (by simp)
    have hrest : ∀ m' ∈ ms, m' ≠ 0 := fun m' hm' => hm m' (by simp [hm'])
    cases i with
    | zero =>
      simp only [List.getElem?_cons_zero, Option.some.injEq] at hmi
      subst hmi
      have h := quadForm_map_neg_div kT M ms hrest
      simp only [quadForm] at h ⊢
      simp only [coeffRow, List.map_cons, mulCol, dot, sumL, h]
      field_simp
      ring
    | succ i =>
      simp only [List.getElem?_cons_succ] at hmi
      have h := ih i mi hrest hmi
      simp only [quadForm] at h ⊢
      simp only [coeffRow, List.map_cons, mulCol, dot, sumL, h]
      have hmi0 : mi ≠ 0 := hrest mi (List.mem_of_getElem? hmi)
      field_simp
      ring

theorem sumL_mass_times_var (kT M : Rat) : ∀ (ms : List Rat), (∀ m ∈ ms, m ≠ 0) →
    sumL (ms.map (fun m => m * (kT * (1 / m - 1 / M)))) = kT * ms.length - kT * sumL ms / M := by
  intro ms
  induction ms with
  | nil => intro _; simp [sumL]
  | cons m ms ih =>
    intro hm
    have hm0 : m ≠ 0 := hm m (by simp)
    have ih' := ih (fun m' hm' => hm m' (by simp [hm']))
    simp only [List.map_cons, sumL, ih', List.length_cons, Nat.cast_succ]
    by_cases hM : M = 0
    · subst hM; simp; field_simp; ring
    · field_simp
      ring

end Infretis.Vel
