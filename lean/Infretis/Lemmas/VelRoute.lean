import Infretis.Model.VelRoute
/-!
Helper lemmas for C16, settings routing (`Infretis.VelRoute`): Python-dict reads after in-place writes,
what `wire_fencing`'s two writes leave alone, the routed dicts of every move.
-/
namespace Infretis.VelRoute
open Infretis.Vel

theorem getKey_setKey_self (d : Settings) (k : String) (v : SVal) :
    getKey (setKey d k v) k = some v := by
  induction d with
  | nil => simp [setKey, getKey]
  | cons p t ih =>
    obtain ⟨k', v'⟩ := p
    by_cases h : k' = k
    · simp [setKey, getKey, h]
    · simp [setKey, getKey, h, ih]

theorem getKey_setKey_ne (d : Settings) (k k' : String) (v : SVal) (h : k' ≠ k) :
    getKey (setKey d k v) k' = getKey d k' := by
  induction d with
  | nil => simp [setKey, getKey, Ne.symm h]
  | cons p t ih =>
    obtain ⟨k1, v1⟩ := p
    by_cases h1 : k1 = k
    · subst h1
      simp [setKey, getKey, Ne.symm h]
    · simp [setKey, h1, getKey, ih]

/-- a key that is present stays present (with its value) under a write to another key; no key disappears -/
theorem getKey_setKey_isSome (d : Settings) (k k' : String) (v : SVal) (h : (getKey d k').isSome) :
    (getKey (setKey d k v) k').isSome := by
  by_cases hk : k' = k
  · subst hk; simp [getKey_setKey_self]
  · rw [getKey_setKey_ne d k k' v hk]; exact h

/-- the two in-place writes of `wire_fencing` leave every key other than `allowmaxlength` as configured -/
theorem wfSubSettings_getKey (ts d : Settings) (h : wfSubSettings ts = .ok d) :
    (∀ k, k ≠ "allowmaxlength" → getKey d k = getKey ts k)
    ∧ getKey d "allowmaxlength" = some (.bool true) := by
  unfold wfSubSettings at h
  simp only at h
  split at h
  · cases h
  · rename_i m hm
    cases h
    have hne : ("maxlength" : String) ≠ "allowmaxlength" := by decide
    have hm' : getKey ts "maxlength" = some m := by
      rw [getKey_setKey_ne ts "allowmaxlength" "maxlength" _ hne] at hm
      exact hm
    constructor
    · intro k hk
      by_cases hkm : k = "maxlength"
      · subst hkm
        rw [getKey_setKey_self, hm']
      · rw [getKey_setKey_ne _ _ _ _ hkm, getKey_setKey_ne _ _ _ _ hk]
    · rw [getKey_setKey_ne _ _ _ _ (Ne.symm hne), getKey_setKey_self]

/-- every dict a move hands to `modify_velocities` agrees with the configured `tis_set` on every key except
    `allowmaxlength` -/
theorem routeSettings_getKey (mv : Move) (ts : Settings) (hasSeg : Bool) (r : Routed)
    (h : routeSettings mv ts hasSeg = .ok r) :
    ∀ d ∈ r.calls, ∀ k, k ≠ "allowmaxlength" → getKey d k = getKey ts k := by
  intro d hd k hk
  cases mv
  case sh =>
    simp only [routeSettings] at h
    split at h
    · cases h
    · cases h
      simp only [List.mem_singleton] at hd
      rw [hd]
  case wf =>
    simp only [routeSettings] at h
    split at h
    · cases h; simp at hd
    · split at h
      · cases h
      · rename_i sub hsub
        split at h
        · cases h
        · cases h
          have := List.eq_of_mem_replicate hd
          rw [this]
          exact (wfSubSettings_getKey ts sub hsub).1 k hk
  case zeroSwap =>
    simp only [routeSettings] at h
    split at h
    · cases h
    · cases h; simp at hd

theorem zmEntry_congr (d d' : Settings) (h : getKey d "zero_momentum" = getKey d' "zero_momentum") :
    zmEntry d = zmEntry d' := by
  simp [zmEntry, h]

/-- when every routed dict gives the engine the same flag as `ts`, the zipped regeneration is a plain map with
    the configured dict's entry -/
theorem regenerate_eq_map (vk vr : Variant) (s : Setup) (ts : Settings) :
    ∀ (ds : List Settings) (inputs : List CallInput),
      (∀ d ∈ ds, zeroMomentumFlag s.engine (zmEntry d) = zeroMomentumFlag s.engine (zmEntry ts)) →
      regenerate vk vr s ds inputs
        = (inputs.take ds.length).map
            (fun i => modifyVelocities vk vr s i.src i.sysEkin (zmEntry ts) i.sig i.z) := by
  intro ds
  induction ds with
  | nil => intro inputs _; simp [regenerate]
  | cons d ds ih =>
    intro inputs hall
    cases inputs with
    | nil => simp [regenerate]
    | cons i is =>
      have hd := hall d (by simp)
      have hrest := ih is (fun d' hd' => hall d' (by simp [hd']))
      have hmod : modifyVelocities vk vr s i.src i.sysEkin (zmEntry d) i.sig i.z
          = modifyVelocities vk vr s i.src i.sysEkin (zmEntry ts) i.sig i.z := by
        cases hs : s.engine <;> simp_all [modifyVelocities, modifyNumpy, modifyAse]
      simp only [regenerate, List.length_cons, List.take_succ_cons, List.map_cons, hmod, hrest]

end Infretis.VelRoute
