import Infretis.Model.WF
/-! Helper lemmas for C10: the five-branch scan equals a three-state run counter (`runs`),
    which equals the per-frame specification (`countFrom`). -/
namespace Infretis.WF

theorem inside_iff (l r x : Int) : inside l r x = true ↔ l ≤ x ∧ x < r := by
  simp [inside]

theorem inside_false_iff (l r x : Int) : inside l r x = false ↔ (x < l ∨ r ≤ x) := by
  have := inside_iff l r x
  cases h : inside l r x
  · simp only [h, true_iff]
    simp [h] at this; omega
  · simp [h] at this ⊢; omega

/-- run counter: `pred` = nearest outside frame seen (if any), `run` = inside frames since -/
def runs (l r : Int) : Option Int → Nat → List Int → Nat
  | _, _, [] => 0
  | pred, run, x :: t =>
    if inside l r x then runs l r pred (run + 1) t
    else (if closes r pred (some x) then run else 0) + runs l r (some x) 0 t

/-- length of the leading inside run of a context -/
def runLen (l r : Int) : List Int → Nat
  | [] => 0
  | x :: t => if inside l r x then runLen l r t + 1 else 0

theorem closes_none_right (r : Int) (p : Option Int) : closes r p none = false := by
  cases p <;> rfl

theorem closes_none_left (r : Int) (q : Option Int) : closes r none q = false := by
  cases q <;> rfl

theorem closes_comm (r : Int) (p q : Option Int) : closes r p q = closes r q p := by
  cases p <;> cases q <;> simp [closes, Bool.and_comm]

theorem runs_eq_count (l r : Int) : ∀ (suf lctx : List Int),
    runs l r (firstOutside l r lctx) (runLen l r lctx) suf
      = (if closes r (firstOutside l r lctx) (firstOutside l r suf) then runLen l r lctx else 0)
        + countFrom l r lctx suf := by
  intro suf
  induction suf with
  | nil => intro lctx; simp [runs, countFrom, firstOutside, closes_none_right]
  | cons x t ih =>
    intro lctx
    have h := ih (x :: lctx)
    cases hx : inside l r x
    · simp only [firstOutside, runLen, hx] at h
      simp only [runs, countFrom, firstOutside, validAt, hx, Bool.false_and]
      simp at h ⊢
      omega
    · simp only [firstOutside, runLen, hx, if_true] at h
      simp only [runs, countFrom, firstOutside, validAt, hx, if_true, Bool.true_and]
      rw [h]
      split <;> omega

theorem runs_none_eq_spec (l r : Int) (ops : List Int) : runs l r none 0 ops = specWeight l r ops := by
  have := runs_eq_count l r ops []
  simpa [firstOutside, runLen, closes_none_left, specWeight] using this

/-! ### the scan invariant -/

/-- relation between the scan state just before looking at the pair starting at index `i`
    (whose first element is `a`) and the run counter having consumed `a`. -/
def Rel (l r : Int) (s : Scan) (i : Nat) (a : Int) (pred : Option Int) (run : Nat) : Prop :=
  if inside l r a then
    (pred = none ∧ s.keyL = false ∧ s.keyR = false) ∨
    (∃ p, pred = some p ∧ s.isave + run = i ∧
        ((p < l ∧ s.keyL = true ∧ s.keyR = false) ∨ (r ≤ p ∧ s.keyL = false ∧ s.keyR = true)))
  else pred = some a ∧ run = 0 ∧ s.keyL = false ∧ s.keyR = false

theorem sumLens_append (a : List (Nat × Nat × Nat)) (x : Nat × Nat × Nat) :
    sumLens (a ++ [x]) = sumLens a + x.2.2 := by
  simp [sumLens]

theorem step_rel_inside (l r : Int) (hlr : l ≤ r) (s : Scan) (i : Nat) (a b : Int)
    (pred : Option Int) (run : Nat) (hb : inside l r b = true) (h : Rel l r s i a pred run) :
    Rel l r (step l r s i a b) (i + 1) b pred (run + 1)
      ∧ sumLens (step l r s i a b).arr = sumLens s.arr := by
  rw [inside_iff] at hb
  unfold Rel at h ⊢
  have hb' : inside l r b = true := by rw [inside_iff]; exact hb
  rw [if_pos hb']
  by_cases ha : inside l r a = true
  · rw [if_pos ha] at h
    rw [inside_iff] at ha
    have hst : step l r s i a b = s := by
      unfold step
      rw [if_neg (by omega), if_neg (by omega), if_neg (by omega), if_neg (by omega), if_neg (by omega)]
    rw [hst]
    refine ⟨?_, rfl⟩
    rcases h with h | ⟨p, hp, hi, hk⟩
    · exact Or.inl h
    · exact Or.inr ⟨p, hp, by omega, hk⟩
  · rw [if_neg ha] at h
    have ha' : inside l r a = false := by simpa using ha
    rw [inside_false_iff] at ha'
    obtain ⟨hp, hr, hkl, hkr⟩ := h
    rcases ha' with ha' | ha'
    · have hst : step l r s i a b = { s with isave := i, keyL := true } := by
        unfold step
        rw [if_neg (by omega), if_pos ⟨by omega, by omega, hkl⟩]
      rw [hst]
      refine ⟨Or.inr ⟨a, hp, by simp; omega, Or.inl ⟨ha', rfl, hkr⟩⟩, rfl⟩
    · have hst : step l r s i a b = { s with isave := i, keyR := true } := by
        unfold step
        rw [if_neg (by omega), if_neg (by omega), if_pos ⟨by omega, by omega, hkr⟩]
      rw [hst]
      refine ⟨Or.inr ⟨a, hp, by simp; omega, Or.inr ⟨ha', hkl, rfl⟩⟩, rfl⟩

theorem step_rel_outside (l r : Int) (hlr : l ≤ r) (s : Scan) (i : Nat) (a b : Int)
    (pred : Option Int) (run : Nat) (hb : inside l r b = false) (h : Rel l r s i a pred run) :
    Rel l r (step l r s i a b) (i + 1) b (some b) 0
      ∧ sumLens (step l r s i a b).arr
          = sumLens s.arr + (if closes r pred (some b) then run else 0) := by
  unfold Rel at h ⊢
  rw [if_neg (by simp [hb])]
  rw [inside_false_iff] at hb
  by_cases ha : inside l r a = true
  · rw [if_pos ha] at h
    rw [inside_iff] at ha
    rcases h with ⟨hp, hkl, hkr⟩ | ⟨p, hp, hi, hk⟩
    · have hst : step l r s i a b = s := by
        unfold step
        rw [if_neg (by omega), if_neg (by omega), if_neg (by omega), if_neg (by simp [hkr]),
            if_neg (by simp [hkl, hkr])]
      rw [hst, hp]
      simp [closes_none_left, hkl, hkr]
    · subst hp
      rcases hk with ⟨hpl, hkl, hkr⟩ | ⟨hpr, hkl, hkr⟩
      · -- entered from the left: any exit closes the segment
        have hst : step l r s i a b =
            { keyL := false, keyR := false, isave := s.isave,
              arr := s.arr ++ [(s.isave, i + 1, i - s.isave)] } := by
          unfold step
          rw [if_neg (by omega), if_neg (by omega), if_neg (by omega), if_neg (by simp [hkr]),
              if_pos ⟨Or.inl hkl, by omega⟩]
        rw [hst]
        refine ⟨⟨rfl, rfl, rfl, rfl⟩, ?_⟩
        rw [sumLens_append]
        have : closes r (some p) (some b) = true := by
          simp [closes]; omega
        simp [this]; omega
      · rcases hb with hb | hb
        · have hst : step l r s i a b =
              { keyL := false, keyR := false, isave := s.isave,
                arr := s.arr ++ [(s.isave, i + 1, i - s.isave)] } := by
            unfold step
            rw [if_neg (by omega), if_neg (by omega), if_neg (by omega), if_neg (by omega),
                if_pos ⟨Or.inr hkr, by omega⟩]
          rw [hst]
          refine ⟨⟨rfl, rfl, rfl, rfl⟩, ?_⟩
          rw [sumLens_append]
          have : closes r (some p) (some b) = true := by
            simp [closes]; omega
          simp [this]; omega
        · have hst : step l r s i a b = { s with keyL := false, keyR := false } := by
            unfold step
            rw [if_neg (by omega), if_neg (by omega), if_neg (by omega), if_pos ⟨hkr, by omega, by omega⟩]
          rw [hst]
          refine ⟨⟨rfl, rfl, rfl, rfl⟩, ?_⟩
          have : closes r (some p) (some b) = false := by
            simp [closes]; omega
          simp [this]
  · rw [if_neg ha] at h
    have ha' : inside l r a = false := by simpa using ha
    rw [inside_false_iff] at ha'
    obtain ⟨hp, hr, hkl, hkr⟩ := h
    have hst : step l r s i a b = s := by
      unfold step
      by_cases hj : (a < l ∧ b ≥ r) ∨ (b < l ∧ a ≥ r)
      · rw [if_pos hj]
      · rw [if_neg hj, if_neg (by omega), if_neg (by omega), if_neg (by simp [hkr]),
            if_neg (by simp [hkl, hkr])]
    rw [hst, hr]
    simp [hkl, hkr]

theorem scanFrom_runs (l r : Int) (hlr : l ≤ r) : ∀ (t : List Int) (s : Scan) (i : Nat) (a : Int)
    (pred : Option Int) (run : Nat), Rel l r s i a pred run →
    sumLens (scanFrom l r s i (a :: t)).arr = sumLens s.arr + runs l r pred run t := by
  intro t
  induction t with
  | nil => intro s i a pred run _; simp [scanFrom, runs]
  | cons b t ih =>
    intro s i a pred run h
    simp only [scanFrom, runs]
    cases hb : inside l r b
    · obtain ⟨hrel, hsum⟩ := step_rel_outside l r hlr s i a b pred run hb h
      rw [ih _ _ _ _ _ hrel, hsum]
      simp; omega
    · obtain ⟨hrel, hsum⟩ := step_rel_inside l r hlr s i a b pred run hb h
      rw [ih _ _ _ _ _ hrel, hsum]
      simp

theorem weight_eq_runs (l r : Int) (hlr : l ≤ r) (ops : List Int) :
    weight l r ops = runs l r none 0 ops := by
  cases ops with
  | nil => simp [weight, scan, scanFrom, runs, sumLens, Scan.init]
  | cons a t =>
    unfold weight scan
    cases ha : inside l r a
    · rw [scanFrom_runs l r hlr t Scan.init 0 a (some a) 0 (by simp [Rel, ha, Scan.init])]
      simp [runs, ha, sumLens, Scan.init, closes_none_left]
    · rw [scanFrom_runs l r hlr t Scan.init 0 a none 1 (by simp [Rel, ha, Scan.init])]
      simp [runs, ha, sumLens, Scan.init]

end Infretis.WF
