import Infretis.Lemmas.WFSeg
import Infretis.Lemmas.WFExt
/-! C10, audit pass: lemmas for
  * `left > right` (a cap below the ensemble's interface): the scan never records anything, the specification
    counts nothing — so the exactness / symmetry / validity theorems need no `l ≤ r`,
  * time reversal of `compute_weight` and of the weight vector (`maxOf`, `head?`/`getLast?`),
  * `load_paths` with the state's own size, `run_md` over all its trials. -/
namespace Infretis.WF

/-! ### left > right -/

theorem step_arr_of_gt (l r : Int) (h : r < l) (s : Scan) (i : Nat) (a b : Int) :
    (step l r s i a b).arr = s.arr := by
  unfold step
  split
  · rfl
  · split
    · rfl
    · split
      · rfl
      · split
        · rfl
        · split
          · rename_i h1 _ _ _ h5
            obtain ⟨_, h5⟩ := h5
            exfalso
            omega
          · rfl

theorem scanFrom_arr_of_gt (l r : Int) (h : r < l) : ∀ (t : List Int) (s : Scan) (i : Nat),
    (scanFrom l r s i t).arr = s.arr := by
  intro t
  induction t with
  | nil => intro s i; rfl
  | cons a t ih =>
    intro s i
    cases t with
    | nil => rfl
    | cons b t =>
      simp only [scanFrom]
      rw [ih, step_arr_of_gt l r h]

theorem scan_arr_of_gt (l r : Int) (h : r < l) (ops : List Int) : (scan l r ops).arr = [] := by
  unfold scan
  rw [scanFrom_arr_of_gt l r h]
  rfl

theorem weight_of_gt (l r : Int) (h : r < l) (ops : List Int) : weight l r ops = 0 := by
  unfold weight
  rw [scan_arr_of_gt l r h]
  rfl

theorem inside_of_gt (l r : Int) (h : r < l) (x : Int) : inside l r x = false := by
  rw [inside_false_iff]; omega

theorem countFrom_of_gt (l r : Int) (h : r < l) : ∀ (R L : List Int), countFrom l r L R = 0 := by
  intro R
  induction R with
  | nil => intro L; rfl
  | cons x t ih =>
    intro L
    simp [countFrom, validAt, inside_of_gt l r h, ih]

theorem specWeight_of_gt (l r : Int) (h : r < l) (ops : List Int) : specWeight l r ops = 0 :=
  countFrom_of_gt l r h ops []

/-! ### time reversal: maximum, end points -/

theorem wfFoldlMax_spec : ∀ (t : List Int) (a : Int),
    (t.foldl (fun m x => if x > m then x else m) a = a ∨ t.foldl (fun m x => if x > m then x else m) a ∈ t) ∧
    a ≤ t.foldl (fun m x => if x > m then x else m) a ∧
    ∀ x ∈ t, x ≤ t.foldl (fun m x => if x > m then x else m) a := by
  intro t
  induction t with
  | nil => intro a; simp
  | cons y t ih =>
    intro a
    simp only [List.foldl_cons]
    obtain ⟨h1, h2, h3⟩ := ih (if y > a then y else a)
    refine ⟨?_, ?_, ?_⟩
    · rcases h1 with h1 | h1
      · by_cases hy : y > a
        · rw [if_pos hy] at h1 ⊢
          right; rw [h1]; simp
        · rw [if_neg hy] at h1 ⊢
          left; exact h1
      · right; exact List.mem_cons_of_mem _ h1
    · have : a ≤ (if y > a then y else a) := by split <;> omega
      omega
    · intro x hx
      rcases List.mem_cons.mp hx with rfl | hx
      · have : x ≤ (if x > a then x else a) := by split <;> omega
        omega
      · exact h3 x hx

/-- `maxOf` is the maximum: a member that bounds every member -/
theorem maxOf_spec (ops : List Int) (m : Int) :
    maxOf ops = some m ↔ m ∈ ops ∧ ∀ x ∈ ops, x ≤ m := by
  cases ops with
  | nil => simp [maxOf]
  | cons a t =>
    obtain ⟨h1, h2, h3⟩ := wfFoldlMax_spec t a
    simp only [maxOf, Option.some.injEq]
    constructor
    · intro h
      subst h
      refine ⟨?_, ?_⟩
      · rcases h1 with h1 | h1
        · rw [h1]; simp
        · exact List.mem_cons_of_mem _ h1
      · intro x hx
        rcases List.mem_cons.mp hx with rfl | hx
        · exact h2
        · exact h3 x hx
    · rintro ⟨hm, hb⟩
      have hle : t.foldl (fun m x => if x > m then x else m) a ≤ m := by
        apply hb
        rcases h1 with h1 | h1
        · rw [h1]; simp
        · exact List.mem_cons_of_mem _ h1
      have hge : m ≤ t.foldl (fun m x => if x > m then x else m) a := by
        rcases List.mem_cons.mp hm with rfl | hm
        · exact h2
        · exact h3 m hm
      omega

theorem maxOf_reverse (ops : List Int) : maxOf ops.reverse = maxOf ops := by
  cases h : maxOf ops with
  | none =>
    cases ops with
    | nil => rfl
    | cons a t => simp [maxOf] at h
  | some m =>
    rw [maxOf_spec] at h ⊢
    simpa using h

theorem sidesDiffer_comm (s e : Side) : sidesDiffer s e = sidesDiffer e s := by
  cases s <;> cases e <;> rfl

theorem startPoint_eq_endPoint (l r x : Int) : startPoint l r x = endPoint l r x := rfl

end Infretis.WF

namespace Infretis.WFExt
open Infretis.WF

/-! ### load_paths with the state's size -/

theorem loadPlusIdx_spec (intfs : List Int) (moves : List Move) (lm1 cap : Option Int) (paths : List (List Int)) :
    ∀ (k j : Nat) (ws : List (List Nat)), loadPlusIdx intfs moves lm1 cap paths j k = .ok ws →
      ws.length = k ∧ j + k ≤ max paths.length j ∧
      ∀ t, t < k → ∃ p w, paths[j + t]? = some p ∧ loadPathWeights intfs moves lm1 cap p = .ok w ∧ ws[t]? = some w := by
  intro k
  induction k with
  | zero =>
    intro j ws h
    simp [loadPlusIdx] at h
    subst h
    refine ⟨rfl, by omega, ?_⟩
    intro t ht; omega
  | succ k ih =>
    intro j ws h
    simp only [loadPlusIdx] at h
    cases hp : paths[j]? with
    | none => simp [hp] at h
    | some p =>
      simp only [hp] at h
      cases hw : loadPathWeights intfs moves lm1 cap p with
      | error e => simp [hw] at h
      | ok w =>
        simp only [hw] at h
        cases hr : loadPlusIdx intfs moves lm1 cap paths (j + 1) k with
        | error e => simp [hr] at h
        | ok ws' =>
          simp only [hr] at h
          injection h with h
          subst h
          obtain ⟨hl, hb, hget⟩ := ih (j + 1) ws' hr
          have hjlt : j < paths.length := (List.getElem?_eq_some_iff.mp hp).1
          refine ⟨by simp [hl], by omega, ?_⟩
          intro t ht
          cases t with
          | zero => exact ⟨p, w, by simpa using hp, hw, rfl⟩
          | succ t =>
            obtain ⟨p', w', h1, h2, h3⟩ := hget t (by omega)
            refine ⟨p', w', ?_, h2, by simpa using h3⟩
            rw [← h1]; congr 1; omega

theorem loadPlusIdx_eq_loadPlus (intfs : List Int) (moves : List Move) (lm1 cap : Option Int) :
    ∀ (rest : List (List Int)) (pre : List (List Int)),
      loadPlusIdx intfs moves lm1 cap (pre ++ rest) pre.length rest.length = loadPlus intfs moves lm1 cap rest := by
  intro rest
  induction rest with
  | nil => intro pre; simp [loadPlusIdx, loadPlus]
  | cons p ps ih =>
    intro pre
    have hget : (pre ++ p :: ps)[pre.length]? = some p := by simp
    have hnext := ih (pre ++ [p])
    simp only [List.append_assoc, List.singleton_append, List.length_append, List.length_cons, List.length_nil,
      Nat.zero_add] at hnext
    simp only [List.length_cons, loadPlusIdx, hget, loadPlus, hnext]

/-! ### run_md over all trials -/

theorem runMdAll_spec (intfs : List Int) (moves : List Move) (cap : Option Int) (acc : Bool) :
    ∀ (trials : List (List Int)) (keys : List (Int × Option Int)) (out : List (Option (List Nat))),
      runMdAll intfs moves cap acc trials keys = .ok out →
      out.length = min trials.length keys.length ∧
      ∀ k (hk : k < out.length) (ht : k < trials.length) (hq : k < keys.length),
        runMdOne intfs moves cap acc keys[k].1 keys[k].2 trials[k] = .ok out[k] := by
  intro trials
  induction trials with
  | nil =>
    intro keys out h
    simp [runMdAll] at h
    subst h
    simp
  | cons t ts ih =>
    intro keys out h
    cases keys with
    | nil =>
      simp [runMdAll] at h
      subst h
      simp
    | cons key ks =>
      obtain ⟨e, lm1⟩ := key
      simp only [runMdAll] at h
      cases h1 : runMdOne intfs moves cap acc e lm1 t with
      | error er => simp [h1] at h
      | ok w =>
        simp only [h1] at h
        cases h2 : runMdAll intfs moves cap acc ts ks with
        | error er => simp [h2] at h
        | ok ws =>
          simp only [h2] at h
          injection h with h
          subst h
          obtain ⟨hl, hget⟩ := ih ks ws h2
          refine ⟨by simp [hl], ?_⟩
          intro k hk ht hq
          cases k with
          | zero => simpa using h1
          | succ k =>
            simp only [List.getElem_cons_succ]
            exact hget k (by simpa using hk) (by simpa using ht) (by simpa using hq)

end Infretis.WFExt
