import Infretis.Lemmas.WF
import Infretis.Lemmas.WFSeg
import Infretis.Model.WFExt
/-! C10 extension: helper lemmas about `Infretis.WFExt` (trace = scan, range copy = slice, a valid segment's
    frames, the loop of `calc_cv_vector`). -/
namespace Infretis.WFExt
open Infretis.WF

/-! ### trace = scan -/

theorem applyBranch_eq_step (l r : Int) (s : Scan) (i : Nat) (a b : Int) :
    applyBranch (branchOf l r s a b) s i = step l r s i a b := by
  unfold branchOf step
  split
  · rfl
  · split
    · rfl
    · split
      · rfl
      · split
        · rfl
        · split <;> rfl

theorem traceFrom_length (l r : Int) : ∀ (t : List Int) (s : Scan) (i : Nat),
    (traceFrom l r s i t).length = t.length - 1 := by
  intro t
  induction t with
  | nil => intro s i; simp [traceFrom]
  | cons a t ih =>
    intro s i
    cases t with
    | nil => simp [traceFrom]
    | cons b t =>
      simp only [traceFrom, List.length_cons]
      rw [ih]
      simp

/-- last state of the trace (or the start state) = the scan's result -/
theorem traceFrom_last (l r : Int) : ∀ (t : List Int) (s : Scan) (i : Nat),
    (match (traceFrom l r s i t).getLast? with | some (_, s') => s' | none => s) = scanFrom l r s i t := by
  intro t
  induction t with
  | nil => intro s i; simp [traceFrom, scanFrom]
  | cons a t ih =>
    intro s i
    cases t with
    | nil => simp [traceFrom, scanFrom]
    | cons b t =>
      simp only [traceFrom, scanFrom]
      rw [← applyBranch_eq_step, ← ih (applyBranch (branchOf l r s a b) s i) (i + 1)]
      cases h : traceFrom l r (applyBranch (branchOf l r s a b) s i) (i + 1) (b :: t) with
      | nil => simp
      | cons x xs =>
        rw [List.getLast?_cons_cons]
        cases hl : (x :: xs).getLast? with
        | none => simp at hl
        | some y => rfl

/-! ### range copy = slice -/

theorem rangeCopy_eq_slice (maxlen : Option Nat) (ops : List Int) :
    ∀ (n j : Nat) (acc : List Int), j + n ≤ ops.length →
      (∀ m, maxlen = some m → acc.length + n ≤ m) →
      rangeCopy maxlen ops j n acc = .ok (acc ++ (ops.drop j).take n) := by
  intro n
  induction n with
  | zero => intro j acc _ _; simp [rangeCopy]
  | succ n ih =>
    intro j acc hj hm
    have hlt : j < ops.length := by omega
    simp only [rangeCopy, List.getElem?_eq_getElem hlt]
    have happ : appendMax maxlen acc ops[j] = acc ++ [ops[j]] := by
      unfold appendMax
      cases maxlen with
      | none => rfl
      | some m =>
        have := hm m rfl
        simp only []
        rw [if_pos (by omega)]
    rw [happ, ih (j + 1) (acc ++ [ops[j]]) (by omega)
      (by intro m h; have := hm m h; simp; omega)]
    congr 1
    rw [List.append_assoc]
    congr 1
    rw [List.drop_eq_getElem_cons hlt, List.take_succ_cons]
    rfl

/-! ### the frames of a valid segment -/

theorem list_ends (L : List Int) (h : 2 ≤ L.length) : ∃ p mid q, L = p :: (mid ++ [q]) := by
  cases L with
  | nil => simp at h
  | cons p t =>
    rcases List.eq_nil_or_concat t with ht | ⟨mid, q, ht⟩
    · subst ht; simp at h
    · exact ⟨p, mid, q, by rw [ht]; simp⟩

/-- the slice `ops[a .. b]` of a valid segment `(a, b, c)`: first and last frame outside `[l, r)`, not both on the
    right, exactly `c` frames in between, all inside -/
theorem validSeg_slice (l r : Int) (ops : List Int) (a b c : Nat) (h : ValidSeg l r ops (a, b, c)) :
    b + 1 - a = c + 2 ∧ a + (c + 2) ≤ ops.length ∧
    ∃ p mid q, (ops.drop a).take (c + 2) = p :: (mid ++ [q]) ∧ mid.length = c ∧
      (∀ x ∈ mid, inside l r x = true) ∧ inside l r p = false ∧ inside l r q = false ∧ ¬ (p ≥ r ∧ q ≥ r) := by
  obtain ⟨h1, h2, h3, h4, ⟨p, q, hp, hq, hpi, hqi, hpq⟩, hmid⟩ := h
  simp only at h1 h2 h3 h4 hp hq hmid
  refine ⟨by omega, by omega, ?_⟩
  have hlen : ((ops.drop a).take (c + 2)).length = c + 2 := by
    simp; omega
  obtain ⟨p', mid, q', hL⟩ := list_ends _ (by omega : 2 ≤ ((ops.drop a).take (c + 2)).length)
  have hmidlen : mid.length = c := by
    have := congrArg List.length hL
    simp [hlen] at this
    omega
  have hget : ∀ k, k < c + 2 → ((ops.drop a).take (c + 2))[k]? = ops[a + k]? := by
    intro k hk
    rw [List.getElem?_take_of_lt hk, List.getElem?_drop]
  have hp' : p' = p := by
    have := hget 0 (by omega)
    rw [hL] at this
    simp [hp] at this
    exact this
  have hq' : q' = q := by
    have := hget (c + 1) (by omega)
    rw [hL] at this
    have e : a + (c + 1) = b := by omega
    rw [e, hq] at this
    have h2 : (p' :: (mid ++ [q']))[c + 1]? = some q' := by
      simp [hmidlen]
    rw [h2] at this
    exact Option.some.inj this
  subst hp' hq'
  refine ⟨p', mid, q', hL, hmidlen, ?_, hpi, hqi, hpq⟩
  intro x hx
  obtain ⟨k, hk, hxk⟩ := List.getElem_of_mem hx
  have := hget (k + 1) (by omega)
  rw [hL] at this
  have h2 : (p' :: (mid ++ [q']))[k + 1]? = some x := by
    simp [List.getElem?_append_left hk]
    rw [List.getElem?_eq_getElem hk, hxk]
  rw [h2] at this
  obtain ⟨y, hy, hyi⟩ := hmid (a + (k + 1)) (by omega) (by omega)
  rw [hy] at this
  have : x = y := Option.some.inj this
  rw [this]; exact hyi

theorem pickGo_mem (xi : Rat) (seg : Nat × Nat × Nat) :
    ∀ (arr : List (Nat × Nat × Nat)) (n cum : Nat), pickGo n xi cum arr = some seg → seg ∈ arr := by
  intro arr
  induction arr with
  | nil => intro n cum hh; simp [pickGo] at hh
  | cons s t ih =>
    intro n cum hh
    simp only [pickGo] at hh
    split at hh
    · simp at hh; simp [hh]
    · exact List.mem_cons_of_mem _ (ih n _ hh)

/-! ### the loop of calc_cv_vector -/

/-- entry `k` of the loop's result is what the arm for `moves[k+1]` computes -/
theorem cvLoop_get (ops : List Int) (i0 c pmax : Int) :
    ∀ (is : List Int) (ms : List Move) (ws : List Nat), cvLoop ops i0 c pmax is ms = .ok ws →
      ws.length = is.length ∧
      ∀ k (hk : k < is.length) (hw : k < ws.length), ∃ mv, ms[k]? = some mv ∧
        (if mv = .wf then computeWeightM ops i0 is[k] c .wf
         else .ok (if is[k] ≤ pmax then 1 else 0)) = .ok ws[k] := by
  intro is
  induction is with
  | nil => intro ms ws h; simp [cvLoop] at h; subst h; simp
  | cons a is ih =>
    intro ms ws h
    cases ms with
    | nil => simp [cvLoop] at h
    | cons m ms =>
      simp only [cvLoop] at h
      split at h
      · simp at h
      · rename_i w hw0
        split at h
        · simp at h
        · rename_i ws' hws
          simp at h
          subst h
          obtain ⟨hlen, hrest⟩ := ih ms ws' hws
          refine ⟨by simp [hlen], ?_⟩
          intro k hk hw
          cases k with
          | zero => exact ⟨m, by simp, by simpa using hw0⟩
          | succ k =>
            obtain ⟨mv, h1, h2⟩ := hrest k (by simpa using hk) (by simpa using hw)
            exact ⟨mv, by simpa using h1, by simpa using h2⟩

end Infretis.WFExt
