import Infretis.Lemmas.WF
/-! C10 stretch: every segment recorded by the scan is a valid sub-path of the path
    (entry and exit frames outside, all frames in between inside, not right-to-right). -/
namespace Infretis.WF

/-- `(a, b, c)`: frames `a` and `b` are outside `[l, r)`, not both `≥ r`, every frame strictly
    between them is inside, and `c = b − a − 1 ≥ 1` is the number of those frames. -/
def ValidSeg (l r : Int) (ops : List Int) (seg : Nat × Nat × Nat) : Prop :=
  seg.1 < seg.2.1 ∧ seg.2.1 < ops.length ∧ seg.2.2 + seg.1 + 1 = seg.2.1 ∧ 1 ≤ seg.2.2 ∧
  (∃ p q, ops[seg.1]? = some p ∧ ops[seg.2.1]? = some q ∧ inside l r p = false ∧ inside l r q = false ∧
      ¬ (p ≥ r ∧ q ≥ r)) ∧
  ∀ m, seg.1 < m → m < seg.2.1 → ∃ x, ops[m]? = some x ∧ inside l r x = true

/-- scan invariant with indices into the full path -/
structure SInv (l r : Int) (full : List Int) (s : Scan) (i : Nat) : Prop where
  segs : ∀ seg ∈ s.arr, ValidSeg l r full seg ∧ seg.2.1 ≤ i
  cur : ∃ a, full[i]? = some a ∧
    (if inside l r a = true then
      (s.keyL = false ∧ s.keyR = false) ∨
      (s.isave < i ∧
        (∃ p, full[s.isave]? = some p ∧
          ((p < l ∧ s.keyL = true ∧ s.keyR = false) ∨ (r ≤ p ∧ s.keyL = false ∧ s.keyR = true))) ∧
        ∀ m, s.isave < m → m ≤ i → ∃ x, full[m]? = some x ∧ inside l r x = true)
    else s.keyL = false ∧ s.keyR = false)

theorem sinv_step (l r : Int) (hlr : l ≤ r) (full : List Int) (s : Scan) (i : Nat) (a b : Int)
    (ha : full[i]? = some a) (hb : full[i + 1]? = some b) (h : SInv l r full s i) :
    SInv l r full (step l r s i a b) (i + 1) := by
  obtain ⟨hseg, a', ha', hcur⟩ := h
  have : a' = a := by rw [ha] at ha'; exact (Option.some.inj ha').symm
  subst this
  have hlen : i + 1 < full.length := by
    obtain ⟨h, _⟩ := List.getElem?_eq_some_iff.mp hb
    exact h
  have segs_mono : ∀ seg ∈ s.arr, ValidSeg l r full seg ∧ seg.2.1 ≤ i + 1 :=
    fun seg hs => ⟨(hseg seg hs).1, by have := (hseg seg hs).2; omega⟩
  by_cases hia : inside l r a' = true
  · rw [if_pos hia] at hcur
    have hia' := (inside_iff l r a').1 hia
    by_cases hib : inside l r b = true
    · -- inside → inside: nothing happens
      have hib' := (inside_iff l r b).1 hib
      have hst : step l r s i a' b = s := by
        unfold step
        rw [if_neg (by omega), if_neg (by omega), if_neg (by omega), if_neg (by omega), if_neg (by omega)]
      rw [hst]
      refine ⟨segs_mono, b, hb, ?_⟩
      rw [if_pos hib]
      rcases hcur with hk | ⟨hlt, hp, hall⟩
      · exact Or.inl hk
      · refine Or.inr ⟨by omega, hp, ?_⟩
        intro m hm1 hm2
        by_cases hmi : m ≤ i
        · exact hall m hm1 hmi
        · have : m = i + 1 := by omega
          subst this
          exact ⟨b, hb, hib⟩
    · -- inside → outside
      have hib0 : inside l r b = false := by simpa using hib
      have hib' := (inside_false_iff l r b).1 hib0
      rcases hcur with ⟨hkl, hkr⟩ | ⟨hlt, ⟨p, hp, hk⟩, hall⟩
      · have hst : step l r s i a' b = s := by
          unfold step
          rw [if_neg (by omega), if_neg (by omega), if_neg (by omega), if_neg (by simp [hkr]),
              if_neg (by simp [hkl, hkr])]
        rw [hst]
        refine ⟨segs_mono, b, hb, ?_⟩
        rw [if_neg hib]
        exact ⟨hkl, hkr⟩
      · rcases hk with ⟨hpl, hkl, hkr⟩ | ⟨hpr, hkl, hkr⟩
        · have hst : step l r s i a' b =
              { keyL := false, keyR := false, isave := s.isave,
                arr := s.arr ++ [(s.isave, i + 1, i - s.isave)] } := by
            unfold step
            rw [if_neg (by omega), if_neg (by omega), if_neg (by omega), if_neg (by simp [hkr]),
                if_pos ⟨Or.inl hkl, by omega⟩]
          rw [hst]
          refine ⟨?_, b, hb, by rw [if_neg hib]; exact ⟨rfl, rfl⟩⟩
          intro seg hs
          simp only [List.mem_append, List.mem_singleton] at hs
          rcases hs with hs | rfl
          · exact segs_mono seg hs
          · refine ⟨⟨by simp; omega, by simpa using hlen, by simp; omega, by simp; omega,
              ⟨p, b, by simpa using hp, by simpa using hb, (inside_false_iff l r p).2 (Or.inl hpl), hib0,
                by omega⟩, ?_⟩, by simp⟩
            intro m hm1 hm2
            exact hall m (by simpa using hm1) (by simp at hm2; omega)
        · rcases hib' with hbl | hbr
          · have hst : step l r s i a' b =
                { keyL := false, keyR := false, isave := s.isave,
                  arr := s.arr ++ [(s.isave, i + 1, i - s.isave)] } := by
              unfold step
              rw [if_neg (by omega), if_neg (by omega), if_neg (by omega), if_neg (by omega),
                  if_pos ⟨Or.inr hkr, by omega⟩]
            rw [hst]
            refine ⟨?_, b, hb, by rw [if_neg hib]; exact ⟨rfl, rfl⟩⟩
            intro seg hs
            simp only [List.mem_append, List.mem_singleton] at hs
            rcases hs with hs | rfl
            · exact segs_mono seg hs
            · refine ⟨⟨by simp; omega, by simpa using hlen, by simp; omega, by simp; omega,
                ⟨p, b, by simpa using hp, by simpa using hb, (inside_false_iff l r p).2 (Or.inr hpr), hib0,
                  by omega⟩, ?_⟩, by simp⟩
              intro m hm1 hm2
              exact hall m (by simpa using hm1) (by simp at hm2; omega)
          · have hst : step l r s i a' b = { s with keyL := false, keyR := false } := by
              unfold step
              rw [if_neg (by omega), if_neg (by omega), if_neg (by omega), if_pos ⟨hkr, by omega, by omega⟩]
            rw [hst]
            exact ⟨segs_mono, b, hb, by rw [if_neg hib]; exact ⟨rfl, rfl⟩⟩
  · rw [if_neg hia] at hcur
    obtain ⟨hkl, hkr⟩ := hcur
    have hia0 : inside l r a' = false := by simpa using hia
    have hia' := (inside_false_iff l r a').1 hia0
    by_cases hib : inside l r b = true
    · have hib' := (inside_iff l r b).1 hib
      rcases hia' with hal | har
      · have hst : step l r s i a' b = { s with isave := i, keyL := true } := by
          unfold step
          rw [if_neg (by omega), if_pos ⟨by omega, by omega, hkl⟩]
        rw [hst]
        refine ⟨segs_mono, b, hb, ?_⟩
        rw [if_pos hib]
        refine Or.inr ⟨by simp, ⟨a', by simpa using ha, Or.inl ⟨hal, rfl, hkr⟩⟩, ?_⟩
        intro m hm1 hm2
        have : m = i + 1 := by simp at hm1; omega
        subst this
        exact ⟨b, hb, hib⟩
      · have hst : step l r s i a' b = { s with isave := i, keyR := true } := by
          unfold step
          rw [if_neg (by omega), if_neg (by omega), if_pos ⟨by omega, by omega, hkr⟩]
        rw [hst]
        refine ⟨segs_mono, b, hb, ?_⟩
        rw [if_pos hib]
        refine Or.inr ⟨by simp, ⟨a', by simpa using ha, Or.inr ⟨har, hkl, rfl⟩⟩, ?_⟩
        intro m hm1 hm2
        have : m = i + 1 := by simp at hm1; omega
        subst this
        exact ⟨b, hb, hib⟩
    · have hib0 : inside l r b = false := by simpa using hib
      have hib' := (inside_false_iff l r b).1 hib0
      have hst : step l r s i a' b = s := by
        unfold step
        by_cases hj : (a' < l ∧ b ≥ r) ∨ (b < l ∧ a' ≥ r)
        · rw [if_pos hj]
        · rw [if_neg hj, if_neg (by omega), if_neg (by omega), if_neg (by simp [hkr]),
              if_neg (by simp [hkl, hkr])]
      rw [hst]
      exact ⟨segs_mono, b, hb, by rw [if_neg hib]; exact ⟨hkl, hkr⟩⟩

theorem scanFrom_sinv (l r : Int) (hlr : l ≤ r) (full : List Int) :
    ∀ (t : List Int) (s : Scan) (i : Nat) (a : Int), full.drop i = a :: t → SInv l r full s i →
      ∀ seg ∈ (scanFrom l r s i (a :: t)).arr, ValidSeg l r full seg := by
  intro t
  induction t with
  | nil => intro s i a _ h seg hs; simp only [scanFrom] at hs; exact (h.segs seg hs).1
  | cons b t ih =>
    intro s i a hd h seg hs
    simp only [scanFrom] at hs
    have ha : full[i]? = some a := by
      have := congrArg List.head? hd
      simpa [List.head?_drop] using this
    have hd' : full.drop (i + 1) = b :: t := by
      have := congrArg List.tail hd
      simpa [List.tail_drop] using this
    have hb : full[i + 1]? = some b := by
      have := congrArg List.head? hd'
      simpa [List.head?_drop] using this
    exact ih (step l r s i a b) (i + 1) b hd' (sinv_step l r hlr full s i a b ha hb h) seg hs

theorem scan_segments_valid' (l r : Int) (hlr : l ≤ r) (ops : List Int) :
    ∀ seg ∈ (scan l r ops).arr, ValidSeg l r ops seg := by
  intro seg hs
  cases ops with
  | nil => simp [scan, scanFrom, Scan.init] at hs
  | cons a t =>
    unfold scan at hs
    refine scanFrom_sinv l r hlr (a :: t) t Scan.init 0 a (by simp) ?_ seg hs
    refine ⟨by simp [Scan.init], a, by simp, ?_⟩
    split <;> simp [Scan.init]

end Infretis.WF
