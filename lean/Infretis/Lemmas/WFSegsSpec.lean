import Infretis.Lemmas.WFAudit
/-! C10, audit pass: `path_arr` of the five-branch scan IS the list of valid sub-paths (`specSegs`), in order —
    the completeness half that `scan_segments_valid` (every recorded segment is valid) leaves open. -/
namespace Infretis.WFExt
open Infretis.WF

/-- relation between the scan state just before the pair starting at index `i` (first element `a`) and the
    specification walk having consumed `a` -/
def RelS (l r : Int) (s : Scan) (i : Nat) (a : Int) (pred : Option (Nat × Int)) (run : Nat) : Prop :=
  if inside l r a then
    (pred = none ∧ s.keyL = false ∧ s.keyR = false) ∨
    (∃ p, pred = some (s.isave, p) ∧ s.isave + run = i ∧ 1 ≤ run ∧
        ((p < l ∧ s.keyL = true ∧ s.keyR = false) ∨ (r ≤ p ∧ s.keyL = false ∧ s.keyR = true)))
  else pred = some (i, a) ∧ run = 0 ∧ s.keyL = false ∧ s.keyR = false

theorem step_relS_inside (l r : Int) (hlr : l ≤ r) (s : Scan) (i : Nat) (a b : Int)
    (pred : Option (Nat × Int)) (run : Nat) (hb : inside l r b = true) (h : RelS l r s i a pred run) :
    RelS l r (step l r s i a b) (i + 1) b pred (run + 1) ∧ (step l r s i a b).arr = s.arr := by
  rw [inside_iff] at hb
  unfold RelS at h ⊢
  have hb' : inside l r b = true := by rw [inside_iff]; exact hb
  rw [if_pos hb']
  by_cases ha : inside l r a = true
  · rw [if_pos ha] at h
    rw [inside_iff] at ha
    have hst : step l r s i a b = s := by
      unfold step
      rw [if_neg (by omega), if_neg (by omega), if_neg (by omega), if_neg (by omega), if_neg (by omega)]
    rw [hst]
    refine ⟨?_, rfl⟩
    rcases h with h | ⟨p, hp, hi, h1, hk⟩
    · exact Or.inl h
    · exact Or.inr ⟨p, hp, by omega, by omega, hk⟩
  · rw [if_neg ha] at h
    have ha' : inside l r a = false := by simpa using ha
    rw [inside_false_iff] at ha'
    obtain ⟨hp, hr, hkl, hkr⟩ := h
    rcases ha' with ha' | ha'
    · have hst : step l r s i a b = { s with isave := i, keyL := true } := by
        unfold step
        rw [if_neg (by omega), if_pos ⟨by omega, by omega, hkl⟩]
      rw [hst]
      refine ⟨Or.inr ⟨a, hp, by simp; omega, by omega, Or.inl ⟨ha', rfl, hkr⟩⟩, rfl⟩
    · have hst : step l r s i a b = { s with isave := i, keyR := true } := by
        unfold step
        rw [if_neg (by omega), if_neg (by omega), if_pos ⟨by omega, by omega, hkr⟩]
      rw [hst]
      refine ⟨Or.inr ⟨a, hp, by simp; omega, by omega, Or.inr ⟨ha', hkl, rfl⟩⟩, rfl⟩

/-- what the specification lists when the walk meets the outside frame `b` at index `i + 1` -/
def emit (r : Int) (pred : Option (Nat × Int)) (run i : Nat) (b : Int) : List (Nat × Nat × Nat) :=
  match pred with
  | some (j, p) => if run ≠ 0 ∧ ¬ (p ≥ r ∧ b ≥ r) then [(j, i, run)] else []
  | none => []

theorem step_relS_outside (l r : Int) (hlr : l ≤ r) (s : Scan) (i : Nat) (a b : Int)
    (pred : Option (Nat × Int)) (run : Nat) (hb : inside l r b = false) (h : RelS l r s i a pred run) :
    RelS l r (step l r s i a b) (i + 1) b (some (i + 1, b)) 0
      ∧ (step l r s i a b).arr = s.arr ++ emit r pred run (i + 1) b := by
  unfold RelS at h ⊢
  rw [if_neg (by simp [hb])]
  rw [inside_false_iff] at hb
  by_cases ha : inside l r a = true
  · rw [if_pos ha] at h
    rw [inside_iff] at ha
    rcases h with ⟨hp, hkl, hkr⟩ | ⟨p, hp, hi, h1, hk⟩
    · have hst : step l r s i a b = s := by
        unfold step
        rw [if_neg (by omega), if_neg (by omega), if_neg (by omega), if_neg (by simp [hkr]),
            if_neg (by simp [hkl, hkr])]
      rw [hst, hp]
      simp [emit, hkl, hkr]
    · subst hp
      rcases hk with ⟨hpl, hkl, hkr⟩ | ⟨hpr, hkl, hkr⟩
      · have hst : step l r s i a b =
            { keyL := false, keyR := false, isave := s.isave,
              arr := s.arr ++ [(s.isave, i + 1, i - s.isave)] } := by
          unfold step
          rw [if_neg (by omega), if_neg (by omega), if_neg (by omega), if_neg (by simp [hkr]),
              if_pos ⟨Or.inl hkl, by omega⟩]
        rw [hst]
        refine ⟨⟨rfl, rfl, rfl, rfl⟩, ?_⟩
        have hrun : i - s.isave = run := by omega
        have hc : run ≠ 0 ∧ ¬ (p ≥ r ∧ b ≥ r) := ⟨by omega, by omega⟩
        simp only [emit, if_pos hc, hrun]
      · rcases hb with hb | hb
        · have hst : step l r s i a b =
              { keyL := false, keyR := false, isave := s.isave,
                arr := s.arr ++ [(s.isave, i + 1, i - s.isave)] } := by
            unfold step
            rw [if_neg (by omega), if_neg (by omega), if_neg (by omega), if_neg (by omega),
                if_pos ⟨Or.inr hkr, by omega⟩]
          rw [hst]
          refine ⟨⟨rfl, rfl, rfl, rfl⟩, ?_⟩
          have hrun : i - s.isave = run := by omega
          have hc : run ≠ 0 ∧ ¬ (p ≥ r ∧ b ≥ r) := ⟨by omega, by omega⟩
          simp only [emit, if_pos hc, hrun]
        · have hst : step l r s i a b = { s with keyL := false, keyR := false } := by
            unfold step
            rw [if_neg (by omega), if_neg (by omega), if_neg (by omega), if_pos ⟨hkr, by omega, by omega⟩]
          rw [hst]
          refine ⟨⟨rfl, rfl, rfl, rfl⟩, ?_⟩
          have hc : ¬ (run ≠ 0 ∧ ¬ (p ≥ r ∧ b ≥ r)) := by omega
          simp only [emit, if_neg hc, List.append_nil]
  · rw [if_neg ha] at h
    have ha' : inside l r a = false := by simpa using ha
    rw [inside_false_iff] at ha'
    obtain ⟨hp, hr, hkl, hkr⟩ := h
    have hst : step l r s i a b = s := by
      unfold step
      by_cases hj : (a < l ∧ b ≥ r) ∨ (b < l ∧ a ≥ r)
      · rw [if_pos hj]
      · rw [if_neg hj, if_neg (by omega), if_neg (by omega), if_neg (by simp [hkr]),
            if_neg (by simp [hkl, hkr])]
    rw [hst, hp, hr]
    simp [emit, hkl, hkr]

theorem scanFrom_segs (l r : Int) (hlr : l ≤ r) : ∀ (t : List Int) (s : Scan) (i : Nat) (a : Int)
    (pred : Option (Nat × Int)) (run : Nat), RelS l r s i a pred run →
    (scanFrom l r s i (a :: t)).arr = s.arr ++ segsFrom l r pred run (i + 1) t := by
  intro t
  induction t with
  | nil => intro s i a pred run _; simp [scanFrom, segsFrom]
  | cons b t ih =>
    intro s i a pred run h
    simp only [scanFrom, segsFrom]
    cases hb : inside l r b
    · obtain ⟨hrel, harr⟩ := step_relS_outside l r hlr s i a b pred run hb h
      rw [ih _ _ _ _ _ hrel, harr]
      simp only [Bool.false_eq_true, if_false, List.append_assoc]
      congr 1
    · obtain ⟨hrel, harr⟩ := step_relS_inside l r hlr s i a b pred run hb h
      rw [ih _ _ _ _ _ hrel, harr]
      simp

theorem scan_arr_eq_specSegs_le (l r : Int) (hlr : l ≤ r) (ops : List Int) :
    (scan l r ops).arr = specSegs l r ops := by
  cases ops with
  | nil => rfl
  | cons a t =>
    unfold scan specSegs
    cases ha : inside l r a
    · rw [scanFrom_segs l r hlr t Scan.init 0 a (some (0, a)) 0 (by simp [RelS, ha, Scan.init])]
      simp [segsFrom, ha, Scan.init]
    · rw [scanFrom_segs l r hlr t Scan.init 0 a none 1 (by simp [RelS, ha, Scan.init])]
      simp [segsFrom, ha, Scan.init]

theorem segsFrom_of_gt (l r : Int) (h : r < l) : ∀ (t : List Int) (pred : Option (Nat × Int)) (i : Nat),
    segsFrom l r pred 0 i t = [] := by
  intro t
  induction t with
  | nil => intro pred i; rfl
  | cons x t ih =>
    intro pred i
    simp only [segsFrom, inside_of_gt l r h x, Bool.false_eq_true, if_false, ih]
    cases pred with
    | none => rfl
    | some jp => simp

theorem scan_arr_eq_specSegs (l r : Int) (ops : List Int) : (scan l r ops).arr = specSegs l r ops := by
  by_cases hlr : l ≤ r
  · exact scan_arr_eq_specSegs_le l r hlr ops
  · rw [scan_arr_of_gt l r (by omega)]
    unfold specSegs
    rw [segsFrom_of_gt l r (by omega)]

/-! ### completeness: every valid sub-path is listed -/

/-- after the entry frame `(j, p)`: `m` inside frames, then an outside frame `q` not closing right-to-right -/
theorem segsFrom_emits (l r : Int) (j : Nat) (p q : Int) (hpq : ¬ (p ≥ r ∧ q ≥ r)) (hq : inside l r q = false) :
    ∀ (m : Nat) (t : List Int) (run i : Nat),
      (∀ k, k < m → ∃ x, t[k]? = some x ∧ inside l r x = true) → t[m]? = some q → run + m ≠ 0 →
      (j, i + m, run + m) ∈ segsFrom l r (some (j, p)) run i t := by
  intro m
  induction m with
  | zero =>
    intro t run i _ hm hrun
    cases t with
    | nil => simp at hm
    | cons x t =>
      simp at hm
      subst hm
      have hc : run ≠ 0 ∧ ¬ (p ≥ r ∧ x ≥ r) := ⟨by omega, hpq⟩
      simp only [segsFrom, hq, Bool.false_eq_true, if_false, if_pos hc]
      simp
  | succ m ih =>
    intro t run i hin hm hrun
    cases t with
    | nil => simp at hm
    | cons x t =>
      obtain ⟨x', hx', hxin⟩ := hin 0 (by omega)
      simp at hx'
      subst hx'
      simp only [segsFrom, hxin, if_true]
      have := ih t (run + 1) (i + 1)
        (fun k hk => by
          obtain ⟨y, hy, hyin⟩ := hin (k + 1) (by omega)
          exact ⟨y, by simpa using hy, hyin⟩)
        (by simpa using hm) (by omega)
      have e1 : i + 1 + m = i + (m + 1) := by omega
      have e2 : run + 1 + m = run + (m + 1) := by omega
      rw [e1, e2] at this
      exact this

theorem segsFrom_complete (l r : Int) (c : Nat) (hc : 1 ≤ c) (p q : Int) (hp : inside l r p = false)
    (hq : inside l r q = false) (hpq : ¬ (p ≥ r ∧ q ≥ r)) :
    ∀ (d : Nat) (t : List Int) (pred : Option (Nat × Int)) (run i : Nat),
      t[d]? = some p → (∀ k, d < k → k < d + c + 1 → ∃ x, t[k]? = some x ∧ inside l r x = true) →
      t[d + c + 1]? = some q →
      (i + d, i + d + c + 1, c) ∈ segsFrom l r pred run i t := by
  intro d
  induction d with
  | zero =>
    intro t pred run i h0 hin hlast
    cases t with
    | nil => simp at h0
    | cons x t =>
      simp at h0
      subst h0
      simp only [segsFrom, hp, Bool.false_eq_true, if_false]
      apply List.mem_append_right
      have := segsFrom_emits l r i x q hpq hq c t 0 (i + 1)
        (fun k hk => by
          obtain ⟨y, hy, hyin⟩ := hin (k + 1) (by omega) (by omega)
          exact ⟨y, by simpa using hy, hyin⟩)
        (by simpa [Nat.add_assoc] using hlast) (by omega)
      have e1 : i + 1 + c = i + 0 + c + 1 := by omega
      rw [e1, Nat.zero_add] at this
      exact this
  | succ d ih =>
    intro t pred run i hd hin hlast
    cases t with
    | nil => simp at hd
    | cons x t =>
      have hrec : ∀ pred' run', (i + 1 + d, i + 1 + d + c + 1, c) ∈ segsFrom l r pred' run' (i + 1) t := by
        intro pred' run'
        apply ih t pred' run' (i + 1) (by simpa using hd)
        · intro k hk1 hk2
          obtain ⟨y, hy, hyin⟩ := hin (k + 1) (by omega) (by omega)
          exact ⟨y, by simpa using hy, hyin⟩
        · have : d + 1 + c + 1 = (d + c + 1) + 1 := by omega
          rw [this] at hlast
          simpa using hlast
      have e1 : i + 1 + d = i + (d + 1) := by omega
      rw [e1] at hrec
      simp only [segsFrom]
      split
      · exact hrec _ _
      · exact List.mem_append_right _ (hrec _ _)

/-- **`specSegs` lists exactly the valid sub-paths.** -/
theorem mem_specSegs_iff (l r : Int) (ops : List Int) (seg : Nat × Nat × Nat) :
    seg ∈ specSegs l r ops ↔ ValidSeg l r ops seg := by
  constructor
  · intro h
    rw [← scan_arr_eq_specSegs] at h
    by_cases hlr : l ≤ r
    · exact scan_segments_valid' l r hlr ops seg h
    · rw [scan_arr_of_gt l r (by omega)] at h
      simp at h
  · intro hv
    obtain ⟨a, b, c⟩ := seg
    obtain ⟨hab, hbl, hcnt, hc1, ⟨p, q, hp, hq, hpo, hqo, hpq⟩, hmid⟩ := hv
    simp only at hab hbl hcnt hc1 hp hq hmid
    have hb : b = a + c + 1 := by omega
    subst hb
    have := segsFrom_complete l r c hc1 p q hpo hqo hpq a ops none 0 0 hp
      (fun k hk1 hk2 => hmid k hk1 (by omega)) hq
    simpa [specSegs] using this

/-! ### order: each listed sub-path ends before the next one starts (so none is listed twice) -/

theorem segsFrom_sorted (l r : Int) : ∀ (t : List Int) (pred : Option (Nat × Int)) (run i : Nat),
    (∀ j p, pred = some (j, p) → j < i) →
    (segsFrom l r pred run i t).Pairwise (fun s u => s.2.1 ≤ u.1) ∧
    ∀ s ∈ segsFrom l r pred run i t, i ≤ s.2.1 ∧ s.1 < s.2.1 ∧ ((∃ j p, pred = some (j, p) ∧ j ≤ s.1) ∨ i ≤ s.1) := by
  intro t
  induction t with
  | nil => intro pred run i _; simp [segsFrom]
  | cons x t ih =>
    intro pred run i hpred
    simp only [segsFrom]
    split
    · obtain ⟨h1, h2⟩ := ih pred (run + 1) (i + 1) (fun j p h => by have := hpred j p h; omega)
      refine ⟨h1, ?_⟩
      intro s hs
      obtain ⟨a, b, c⟩ := h2 s hs
      refine ⟨by omega, b, ?_⟩
      rcases c with c | c
      · exact Or.inl c
      · exact Or.inr (by omega)
    · obtain ⟨h1, h2⟩ := ih (some (i, x)) 0 (i + 1) (fun j p h => by simp at h; omega)
      have hlater : ∀ s ∈ segsFrom l r (some (i, x)) 0 (i + 1) t, i ≤ s.1 ∧ i ≤ s.2.1 ∧ s.1 < s.2.1 := by
        intro s hs
        obtain ⟨a, b, c⟩ := h2 s hs
        rcases c with ⟨j, p, hj, hle⟩ | c
        · simp at hj; omega
        · omega
      cases pred with
      | none =>
        simp only [List.nil_append]
        refine ⟨h1, ?_⟩
        intro s hs
        obtain ⟨a, b, c⟩ := hlater s hs
        exact ⟨b, c, Or.inr a⟩
      | some jp =>
        obtain ⟨j, p⟩ := jp
        have hj := hpred j p rfl
        simp only []
        split
        · refine ⟨?_, ?_⟩
          · simp only [List.singleton_append, List.pairwise_cons]
            exact ⟨fun s hs => (hlater s hs).1, h1⟩
          · intro s hs
            simp only [List.singleton_append, List.mem_cons] at hs
            rcases hs with rfl | hs
            · exact ⟨Nat.le_refl _, hj, Or.inl ⟨j, p, rfl, Nat.le_refl _⟩⟩
            · obtain ⟨a, b, c⟩ := hlater s hs
              exact ⟨b, c, Or.inr a⟩
        · simp only [List.nil_append]
          refine ⟨h1, ?_⟩
          intro s hs
          obtain ⟨a, b, c⟩ := hlater s hs
          exact ⟨b, c, Or.inr a⟩

/-- the listed sub-paths come in path order, each ending (at its exit frame) no later than the next one's entry frame -/
theorem specSegs_sorted (l r : Int) (ops : List Int) :
    (specSegs l r ops).Pairwise (fun s u => s.2.1 ≤ u.1) ∧ ∀ s ∈ specSegs l r ops, s.1 < s.2.1 := by
  obtain ⟨h1, h2⟩ := segsFrom_sorted l r ops none 0 0 (by simp)
  exact ⟨h1, fun s hs => (h2 s hs).2.1⟩

theorem specSegs_nodup (l r : Int) (ops : List Int) : (specSegs l r ops).Nodup := by
  obtain ⟨h1, h2⟩ := specSegs_sorted l r ops
  unfold List.Nodup
  refine List.Pairwise.imp_of_mem ?_ h1
  intro s u hs _ hle heq
  subst heq
  have := h2 s hs
  omega

end Infretis.WFExt
