/-
Lemmas about the frame-level helpers of the zero-swap model (Model/ZeroSwap.lean):
`appendMax`, `appendAll`, `propagate`, `buildPath0`, `buildPath1`.
-/
import Infretis.Lemmas.ZeroSwapFeed

namespace Infretis.ZeroSwap
open Infretis.Engine

theorem appendMax_eq (p : List Frame) (m : Nat) (f : Frame) :
    appendMax p m f = if p.length < m then p ++ [f] else p := by
  unfold appendMax pathAppend
  by_cases h : p.length < m <;> simp [h]

theorem appendAll_eq : ∀ (xs p : List Frame) (m : Nat), p.length ≤ m →
    appendAll p m xs = p ++ xs.take (m - p.length) := by
  intro xs
  induction xs with
  | nil => intro p m _; simp [appendAll]
  | cons x t ih =>
    intro p m h
    have hstep : appendAll p m (x :: t) = appendAll (appendMax p m x) m t := by simp [appendAll]
    rw [hstep, appendMax_eq]
    by_cases hlt : p.length < m
    · simp only [hlt, if_true]
      rw [ih (p ++ [x]) m (by simp; omega)]
      have : m - p.length = (m - (p ++ [x]).length) + 1 := by simp; omega
      rw [this, List.take_succ_cons]
      simp
    · simp only [hlt, if_false]
      rw [ih p m h]
      have : m - p.length = 0 := by omega
      simp [this]

theorem appendAll_nil (xs : List Frame) (m : Nat) : appendAll [] m xs = xs.take m := by
  simpa using appendAll_eq xs [] m (by simp)

theorem ops_take (p : List Frame) (n : Nat) : ops (p.take n) = (ops p).take n := by
  simp [ops, List.map_take]

theorem ops_length (p : List Frame) : (ops p).length = p.length := by simp [ops]

theorem propagate_zero (l r : Int) (sys : Frame) (rev : Bool) (scr : Script) :
    propagate 0 l r sys rev scr = none := by
  simp [propagate, streamOf, ops, feed, addToPath, pathAppend]

/-- what a `propagate` call into an empty path returns: a prefix of the offered stream, cut
    where `feed` stopped -/
theorem propagate_spec {m : Nat} {l r : Int} {sys : Frame} {rev : Bool} {scr : Script}
    {tmp : List Frame} {s : Bool} (h : propagate m l r sys rev scr = some (tmp, s)) :
    0 < m ∧ tmp = (streamOf sys rev scr).take tmp.length ∧ tmp.length ≤ (streamOf sys rev scr).length ∧
      FeedOut l r m [] (ops (streamOf sys rev scr)) (ops tmp) := by
  have hm : 0 < m := by
    rcases Nat.eq_zero_or_pos m with h0 | h0
    · subst h0; rw [propagate_zero] at h; cases h
    · exact h0
  refine ⟨hm, ?_⟩
  unfold propagate at h
  simp only at h
  cases hf : feed l r (some m) [] (ops (streamOf sys rev scr)) 0 with
  | none => simp [hf] at h
  | some res =>
    obtain ⟨ops', s', k'⟩ := res
    simp only [hf, Option.some.injEq, Prod.mk.injEq] at h
    have hspec := feed_spec (ops (streamOf sys rev scr)) [] 0 (by simpa using hm) hf
    have hle : ops'.length ≤ (streamOf sys rev scr).length := by
      cases hspec with
      | crossed pre x post hx ho _ _ _ =>
        have := congrArg List.length hx
        simp [ops_length] at this
        simp [ho]; omega
      | full pre post hx ho _ _ =>
        have := congrArg List.length hx
        simp [ops_length] at this
        simp [ho]; omega
      | dry ho _ _ => simp [ho, ops_length]
    have hops : ops' = (ops (streamOf sys rev scr)).take ops'.length := by
      cases hspec with
      | crossed pre x post hx ho _ _ _ =>
        rw [hx, ho]
        have e1 : pre ++ x :: post = (pre ++ [x]) ++ post := by simp
        have e2 : ([] ++ pre ++ [x]).length = (pre ++ [x]).length := by simp
        rw [e1, e2, List.take_left' rfl]; simp
      | full pre post hx ho _ _ =>
        rw [hx, ho]; simp
      | dry ho _ _ => rw [ho]; simp
    have hlen : tmp.length = ops'.length := by
      rw [← h.1, List.length_take]; omega
    refine ⟨?_, ?_, ?_⟩
    · rw [hlen]; exact h.1.symm
    · omega
    · have : ops tmp = ops' := by
        rw [← h.1, ops_take]; exact hops.symm
      rw [this]; exact hspec

theorem streamOf_length (sys : Frame) (rev : Bool) (scr : Script) :
    (streamOf sys rev scr).length = scr.rest.length + 1 := by simp [streamOf]

/-- a `propagate` call that neither filled its path nor ran out of MD frames stopped at the first
    frame outside `[l, r]` -/
theorem propagate_crossed {m : Nat} {l r : Int} {sys : Frame} {rev : Bool} {scr : Script}
    {tmp : List Frame} {s : Bool} (h : propagate m l r sys rev scr = some (tmp, s))
    (hlt : tmp.length < m) (hlong : m ≤ scr.rest.length + 1) :
    ∃ tpre tx post, tmp = tpre ++ [tx] ∧ streamOf sys rev scr = tpre ++ tx :: post ∧
      (∀ g ∈ tpre, ¬ Crosses l r g.op) ∧ Crosses l r tx.op := by
  obtain ⟨_, htake, hle, hout⟩ := propagate_spec h
  cases hout with
  | crossed pre x post hx ho hpre hc hlen =>
    have ho' : ops tmp = pre ++ [x] := by simpa using ho
    -- split the stream at tmp.length
    have hsplit := List.take_append_drop tmp.length (streamOf sys rev scr)
    rw [← htake] at hsplit
    have hlen' : tmp.length = pre.length + 1 := by
      have := congrArg List.length ho'; simpa [ops_length] using this
    -- tmp = tpre ++ [tx]
    have hne : tmp ≠ [] := by intro e; rw [e] at hlen'; simp at hlen'
    refine ⟨tmp.dropLast, tmp.getLast hne, List.drop tmp.length (streamOf sys rev scr), ?_, ?_, ?_, ?_⟩
    · exact (List.dropLast_concat_getLast hne).symm
    · have : tmp.dropLast ++ tmp.getLast hne :: List.drop tmp.length (streamOf sys rev scr)
          = (tmp.dropLast ++ [tmp.getLast hne]) ++ List.drop tmp.length (streamOf sys rev scr) := by simp
      rw [this, List.dropLast_concat_getLast hne]; exact hsplit.symm
    · intro g hg
      have h1 : ops tmp.dropLast = pre := by
        have : ops tmp = ops (tmp.dropLast ++ [tmp.getLast hne]) := by rw [List.dropLast_concat_getLast hne]
        rw [ho'] at this
        simp only [ops, List.map_append, List.map_cons, List.map_nil] at this
        have hl : pre.length = (List.map (fun x => x.op) tmp.dropLast).length := by simp; omega
        exact (List.append_inj this hl).1.symm
      apply hpre
      rw [← h1]; exact List.mem_map_of_mem hg
    · have h2 : (tmp.getLast hne).op = x := by
        have : ops tmp = ops (tmp.dropLast ++ [tmp.getLast hne]) := by rw [List.dropLast_concat_getLast hne]
        rw [ho'] at this
        simp only [ops, List.map_append, List.map_cons, List.map_nil] at this
        have hl : pre.length = (List.map (fun x => x.op) tmp.dropLast).length := by simp; omega
        have := (List.append_inj this hl).2
        simpa using this.symm
      rw [h2]; exact hc
  | full pre post hx ho hpre hlen =>
    rw [ops_length] at hlen; omega
  | dry ho hpre hlen =>
    have := congrArg List.length ho
    simp [ops_length, streamOf_length] at this
    omega

/-- the first frame outside is unique -/
theorem first_cross_unique {l r : Int} {a b : List Frame} {x y : Frame} {p q : List Frame}
    (h : a ++ x :: p = b ++ y :: q) (ha : ∀ g ∈ a, ¬ Crosses l r g.op) (hb : ∀ g ∈ b, ¬ Crosses l r g.op)
    (hx : Crosses l r x.op) (hy : Crosses l r y.op) : a = b ∧ x = y ∧ p = q := by
  induction a generalizing b with
  | nil =>
    cases b with
    | nil => simp at h; exact ⟨rfl, h.1, h.2⟩
    | cons b0 b' =>
      simp at h
      exact absurd (h.1 ▸ hx) (hb b0 (by simp))
  | cons a0 a' ih =>
    cases b with
    | nil =>
      simp at h
      exact absurd (h.1 ▸ hy) (ha a0 (by simp))
    | cons b0 b' =>
      simp at h
      obtain ⟨rfl, h'⟩ := h
      obtain ⟨e1, e2, e3⟩ := ih h' (fun g hg => ha g (by simp [hg])) (fun g hg => hb g (by simp [hg]))
      exact ⟨by rw [e1], e2, e3⟩

/-! ### ensemble membership, as the code's checks define it -/

/-- a [0-] path: starts outside (right of λ0 = `i2`, or left of λ₋₁ = `i0` if 'L' is an allowed start),
    the interior is not outside `[i0, i2]`, it ends at or right of λ0; length within the limit -/
def ValidMinus (e0 : Ens) (p : List Frame) : Prop :=
  ∃ f mid l, p = f :: mid ++ [l] ∧ mid ≠ [] ∧ (f.op > e0.i2 ∨ (e0.scL = true ∧ f.op < e0.i0)) ∧
    (∀ g ∈ mid, ¬ Crosses e0.i0 e0.i2 g.op) ∧ l.op ≥ e0.i2 ∧ p.length ≤ e0.maxlen

/-- a [0+] path: starts at or left of λ0 = `i0`, the interior is not outside `[i0, i2]`, the last
    frame is outside; length within the limit -/
def ValidPlus (e1 : Ens) (p : List Frame) : Prop :=
  ∃ f mid l, p = f :: mid ++ [l] ∧ mid ≠ [] ∧ f.op ≤ e1.i0 ∧
    (∀ g ∈ mid, ¬ Crosses e1.i0 e1.i2 g.op) ∧ Crosses e1.i0 e1.i2 l.op ∧ p.length ≤ e1.maxlen

/-! ### statuses -/

theorem status0_acc {e0 : Ens} {p : List Frame} (h : status0 e0 p = .ACC) :
    p.length ≠ e0.maxlen ∧ 3 ≤ p.length ∧
      (e0.scL = false → startIsL e0.lo p = false ∧ endIsL e0.lo p = false) := by
  unfold status0 at h
  by_cases h1 : p.length = e0.maxlen
  · simp [h1] at h
  · by_cases h2 : p.length < 3
    · simp [h1, h2] at h
    · by_cases h3 : (!e0.scL && (startIsL e0.lo p || endIsL e0.lo p)) = true
      · simp [h1, h2, h3] at h
      · refine ⟨h1, by omega, ?_⟩
        intro hsc
        simp [hsc] at h3
        exact h3

theorem status1_acc {e1 : Ens} {p : List Frame} (h : status1 e1 p = .ACC) :
    p.length < e1.maxlen ∧ 3 ≤ p.length := by
  unfold status1 at h
  by_cases h1 : p.length ≥ e1.maxlen
  · simp [h1] at h
  · by_cases h2 : p.length < 3
    · simp [h1, h2] at h
    · omega

/-! ### the two construction steps on ACC -/

theorem buildPath0_acc {e0 e1 : Ens} {allowed : Bool} {old1 : List Frame} {bw : Script}
    {path0 : List Frame} {rq : List Req}
    (h : buildPath0 e0 e1 allowed old1 bw = .ok (path0, rq)) (hs : status0 e0 path0 = .ACC) :
    ∃ first1 second1 rest tmp s, old1 = first1 :: second1 :: rest ∧ allowed = true ∧
      propagate (e1.maxlen - 1) e0.i0 e0.i2 first1 true bw = some (tmp, s) ∧
      path0 = tmp.reverse ++ [second1] ∧ 2 ≤ tmp.length ∧ tmp.length + 1 < e0.maxlen ∧
      rq = [propReq 0 (e1.maxlen - 1) e0.i0 e0.i2 first1 true, Req.dump 1 1 second1.cfg true] := by
  obtain ⟨hne, h3, _⟩ := status0_acc hs
  unfold buildPath0 at h
  cases old1 with
  | nil => simp at h
  | cons first1 rest1 =>
    cases rest1 with
    | nil =>
      simp only at h
      split at h <;> simp at h
    | cons second1 rest =>
      simp only at h
      cases allowed with
      | false =>
        simp only [Bool.false_eq_true, if_false] at h
        simp only [Except.ok.injEq, Prod.mk.injEq] at h
        have hp := h.1
        rw [appendAll_nil, appendMax_eq] at hp
        have hl : path0.length ≤ 2 := by
          rw [← hp]
          have : (appendMax [] (e1.maxlen - 1) first1).length ≤ 1 := by
            rw [appendMax_eq]; split <;> simp
          split
          · simp [List.length_take]; omega
          · simp [List.length_take]; omega
        omega
      | true =>
        simp only [if_true] at h
        cases hp : propagate (e1.maxlen - 1) e0.i0 e0.i2 first1 true bw with
        | none => simp [hp] at h
        | some res =>
          obtain ⟨tmp, s⟩ := res
          simp only [hp, Except.ok.injEq, Prod.mk.injEq] at h
          have hp0 := h.1
          rw [appendAll_nil, appendMax_eq] at hp0
          by_cases hlt : (List.take e0.maxlen tmp.reverse).length < e0.maxlen
          · simp only [hlt, if_true] at hp0
            have hlen : tmp.length < e0.maxlen := by
              simp [List.length_take] at hlt; omega
            have htake : List.take e0.maxlen tmp.reverse = tmp.reverse := by
              apply List.take_of_length_le; simp; omega
            rw [htake] at hp0
            have hl : path0.length = tmp.length + 1 := by rw [← hp0]; simp
            refine ⟨first1, second1, rest, tmp, s, rfl, rfl, hp, hp0.symm, by omega, by omega, ?_⟩
            simpa using h.2.symm
          · simp only [hlt, if_false] at hp0
            have : path0.length = e0.maxlen := by
              rw [← hp0]; simp [List.length_take] at hlt ⊢; omega
            exact absurd this hne

theorem buildPath1_acc {e1 : Ens} {allowed : Bool} {old0 : List Frame} {last0 : Frame} {fw : Script}
    {path1 : List Frame} {rq : List Req}
    (h : buildPath1 e1 allowed old0 last0 fw = .ok (path1, rq)) (hs : status1 e1 path1 = .ACC) :
    ∃ pre secondLast last tmp s, old0 = pre ++ [secondLast, last] ∧ allowed = true ∧
      propagate (e1.maxlen - 1) e1.i0 e1.i2 last0 false fw = some (tmp, s) ∧
      path1 = secondLast :: tmp ∧ 2 ≤ tmp.length ∧ tmp.length + 1 < e1.maxlen ∧
      rq = [propReq 1 (e1.maxlen - 1) e1.i0 e1.i2 last0 false, Req.dump 0 0 secondLast.cfg true] := by
  obtain ⟨hlt, h3⟩ := status1_acc hs
  unfold buildPath1 at h
  cases allowed with
  | false =>
    simp only [Bool.false_eq_true, if_false, Except.ok.injEq, Prod.mk.injEq] at h
    have : path1.length ≤ 1 := by
      rw [← h.1, appendMax_eq]; split <;> simp
    omega
  | true =>
    simp only [if_true] at h
    cases hp : propagate (e1.maxlen - 1) e1.i0 e1.i2 last0 false fw with
    | none => simp [hp] at h
    | some res =>
      obtain ⟨tmp, s⟩ := res
      simp only [hp] at h
      cases hr : old0.reverse with
      | nil => simp [hr] at h
      | cons last rrest =>
        cases rrest with
        | nil => simp [hr] at h
        | cons secondLast pre' =>
          simp only [hr, Except.ok.injEq, Prod.mk.injEq] at h
          have hold : old0 = pre'.reverse ++ [secondLast, last] := by
            have := congrArg List.reverse hr
            simpa using this
          have hp1 := h.1
          have hm : 0 < e1.maxlen := by omega
          rw [appendMax_eq] at hp1
          simp only [List.length_nil, hm, if_true, List.nil_append] at hp1
          rw [appendAll_eq tmp [secondLast] e1.maxlen (by simp; omega)] at hp1
          have hl : path1.length = 1 + min (e1.maxlen - 1) tmp.length := by
            rw [← hp1]; simp [List.length_take]; omega
          have hlen : tmp.length < e1.maxlen - 1 := by omega
          have htake : List.take (e1.maxlen - [secondLast].length) tmp = tmp := by
            apply List.take_of_length_le; simp; omega
          rw [htake] at hp1
          refine ⟨pre'.reverse, secondLast, last, tmp, s, hold, rfl, rfl, by simpa using hp1.symm, ?_, by omega, ?_⟩
          · rw [← hp1] at h3; simp at h3; omega
          · simpa using h.2.symm

/-! ### the final bookkeeping -/

theorem finish_spec {e0 e1 : Ens} {old1 path0 path1 : List Frame} {reqs : List Req} {xi : Rat}
    {r : Result} (h : finish e0 e1 old1 path0 path1 reqs xi = .ok r) :
    r.path0 = path0 ∧ r.path1 = path1 ∧ r.reqs = reqs ∧
      (r.accept = true → status0 e0 path0 = .ACC ∧ status1 e1 path1 = .ACC ∧ r.status = .ACC) ∧
      (r.accept = true ↔ r.status = .ACC) := by
  unfold finish at h
  simp only at h
  cases hw0 : finalWeight path0 e0 with
  | error x => split at h <;> simp [hw0] at h
  | ok w0 =>
    cases hw1 : finalWeight path1 e1 with
    | error x => split at h <;> simp [hw0, hw1] at h
    | ok w1 =>
      by_cases hc : (decide (status0 e0 path0 = .ACC) && decide (status1 e1 path1 = .ACC) && (e0.wf || e1.wf)) = true
      · simp only [hc, if_true] at h
        have hacc : status0 e0 path0 = .ACC ∧ status1 e1 path1 = .ACC := by
          simp only [Bool.and_eq_true, decide_eq_true_eq] at hc
          exact hc.1
        cases hh : highAcc e0 e1 path1 old1 xi with
        | error x => simp [hh] at h
        | ok a =>
          simp only [hh, hw0, hw1, Except.ok.injEq] at h
          subst h
          cases a <;> simp [hacc]
      · simp only [hc] at h
        simp only [Bool.false_eq_true, if_false, hw0, hw1, Except.ok.injEq] at h
        subst h
        by_cases h0 : status0 e0 path0 = .ACC <;> by_cases h1 : status1 e1 path1 = .ACC <;> simp [h0, h1]

theorem retis_ok {e0 e1 : Ens} {old0 old1 : List Frame} {bw fw : Script} {xi : Rat} {r : Result}
    (h : retisSwapZero e0 e1 old0 old1 bw fw xi = .ok r) :
    e0.i0 ≤ e0.i2 ∧ ∃ last0, old0.getLast? = some last0 ∧
      ((earlyLeft e0 last0 = true ∧ r = rejected0L old0 old1) ∨
       (earlyLeft e0 last0 = false ∧ ∃ path0 rq0 path1 rq1,
          buildPath0 e0 e1 (allowedOf e0 last0) old1 bw = .ok (path0, rq0) ∧
          buildPath1 e1 (allowedOf e0 last0) old0 last0 fw = .ok (path1, rq1) ∧
          finish e0 e1 old1 path0 path1 (rq0 ++ rq1) xi = .ok r)) := by
  unfold retisSwapZero at h
  by_cases hi : e0.i0 ≤ e0.i2
  · refine ⟨hi, ?_⟩
    simp only [hi, not_true_eq_false, if_false] at h
    cases hl : old0.getLast? with
    | none => simp [hl] at h
    | some last0 =>
      refine ⟨last0, rfl, ?_⟩
      simp only [hl] at h
      by_cases he : earlyLeft e0 last0 = true
      · simp only [he, if_true, Except.ok.injEq] at h
        exact Or.inl ⟨he, h.symm⟩
      · simp only [he] at h
        right
        refine ⟨by simpa using he, ?_⟩
        cases h0 : buildPath0 e0 e1 (allowedOf e0 last0) old1 bw with
        | error x => simp [h0] at h
        | ok p0 =>
          obtain ⟨path0, rq0⟩ := p0
          simp only [h0] at h
          cases h1 : buildPath1 e1 (allowedOf e0 last0) old0 last0 fw with
          | error x => simp [h1] at h
          | ok p1 =>
            obtain ⟨path1, rq1⟩ := p1
            simp only [h1] at h
            exact ⟨path0, rq0, path1, rq1, rfl, rfl, by simpa using h⟩
  · simp [hi] at h

end Infretis.ZeroSwap
