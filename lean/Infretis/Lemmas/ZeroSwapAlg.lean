/-
C11 extension: the path surgery of `quantis_swap_zero` done with the path algebra of C15
(`PathAlg.paste`, `PathAlg.Path.reverse` on a heap of System objects) gives the frames the private list
functions of Model/ZeroSwap.lean (`appendAll`) give.
-/
import Infretis.Lemmas.PathAlgRev
import Infretis.Lemmas.ZeroSwapStatus

namespace Infretis.ZeroSwap
open Infretis.PathAlg

/-- the values a list of frames has as System objects -/
def fvals (fs : List Frame) : List (Option Vals) := fs.map (fun f => some f.toVals)

theorem fvals_length (fs : List Frame) : (fvals fs).length = fs.length := by simp [fvals]

theorem vals_length (h : Heap) (p : Path) : (vals h p).length = p.frames.length := by simp [vals]

theorem wf_of_vals {h : Heap} {p : Path} {fs : List Frame} (hv : vals h p = fvals fs) : WF h p.frames := by
  intro r hr
  have hmem : (h.look r).map (·.v) ∈ vals h p := List.mem_map_of_mem (f := fun r => (h.look r).map (·.v)) hr
  rw [hv] at hmem
  obtain ⟨f, _, hf⟩ := List.mem_map.mp hmem
  cases hl : h.look r with
  | none => rw [hl] at hf; simp at hf
  | some s =>
    unfold Heap.look at hl
    exact (List.getElem?_eq_some_iff.mp hl).1

theorem capTake_nat {α : Type} (m : Nat) (xs : List α) : capTake (some (m : Int)) xs = xs.take m := by
  simp [capTake]

/-- **`paste_paths(back, forw, maxlen=m)` of C15 on frames = the private `appendAll`s of the swap model.**
    In any heap in which the frames of `B` / `F` hold the values of `back` / `forw`. -/
theorem paste_alg (h : Heap) (B F : Path) (back forw : List Frame) (m : Nat)
    (hB : vals h B = fvals back) (hF : vals h F = fvals forw) :
    ∃ P, PathAlg.paste B F true (some (m : Int)) = .ok P ∧
      vals h P = fvals (appendAll (appendAll [] m back.reverse) m forw.tail) ∧
      P.maxlen = some (m : Int) ∧ P.timeOrigin = B.timeOrigin - (back.length : Int) + 1 := by
  have hlen : B.frames.length = back.length := by
    rw [← vals_length h B, hB, fvals_length]
  have hc := paste_closed B F true (some (m : Int)) (some (m : Int)) rfl
  refine ⟨_, hc, ?_, rfl, ?_⟩
  · rw [appendAll2_eq]
    unfold vals at hB hF ⊢
    simp only [withFrames_frames, capTake_nat, forwPart, if_true]
    rw [List.map_take, List.map_append, List.map_reverse, List.map_drop, hB, hF]
    simp [fvals, List.map_take, List.map_reverse]
  · simp [hlen]; rfl

/-- tis.py:1265 -/
theorem paste0_alg (h : Heap) (B T : Path) (back tmp0 : List Frame) (m : Nat)
    (hB : vals h B = fvals back) (hT : vals h T = fvals tmp0) :
    ∃ P, quantisPaste0 B T m = .ok P ∧
      vals h P = fvals (appendAll (appendAll [] m back.reverse) m tmp0.tail) ∧
      P.maxlen = some (m : Int) ∧ P.timeOrigin = B.timeOrigin - (back.length : Int) + 1 :=
  paste_alg h B T back tmp0 m hB hT

/-- tis.py:1303-1305: `tmp_path1.reverse(None, rev_v=False)` (copies, same values, reversed order; `tmp_path1`
    holds at most its `maxlen` frames) pasted in front of the forward completion -/
theorem paste1_alg (h : Heap) (T F : Path) (tmp1 forw : List Frame) (m : Nat)
    (hT : vals h T = fvals tmp1) (hF : vals h F = fvals forw)
    (hfit : capLen T.maxlen tmp1.length = tmp1.length) :
    ∃ h1 P, quantisPaste1 h T F m = .ok (h1, P) ∧
      vals h1 P = fvals (appendAll (appendAll [] m tmp1.reverse.reverse) m forw.tail) ∧
      P.maxlen = some (m : Int) ∧ P.timeOrigin = 0 - (tmp1.length : Int) + 1 ∧
      (∀ r, r < h.sys.length → h1.look r = h.look r) := by
  have hwT := wf_of_vals hT
  have hwF := wf_of_vals hF
  have hrv := reverse_vals h T none false hwT
  obtain ⟨_, hold⟩ := reverse_heap h T none false hwT
  have hR : vals (Path.reverse h T none false).1 (Path.reverse h T none false).2 = fvals tmp1.reverse := by
    rw [hrv, hT]
    have hid : ∀ v, revVals none false v = v := fun v => by simp [revVals]
    have : (fvals tmp1).reverse.map (Option.map (revVals none false)) = fvals tmp1.reverse := by
      simp [fvals, hid, List.map_reverse]
    rw [this]
    apply capTake_of_fits
    rw [fvals_length, List.length_reverse]; exact hfit
  have hF' : vals (Path.reverse h T none false).1 F = fvals forw := by
    rw [← hF]
    unfold vals
    apply List.map_congr_left
    intro r hr
    rw [hold r (hwF r hr)]
  obtain ⟨P, hP, hv, hm, ht⟩ := paste_alg _ _ F tmp1.reverse forw m hR hF'
  refine ⟨(Path.reverse h T none false).1, P, ?_, hv, hm, ?_, hold⟩
  · unfold quantisPaste1
    simp only [hP]
  · rw [ht]
    have : (Path.reverse h T none false).2.timeOrigin = 0 := by
      rw [reverse_snd h T none false hwT]; rfl
    rw [this]; simp

end Infretis.ZeroSwap
