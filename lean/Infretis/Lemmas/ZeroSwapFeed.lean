/-
Lemmas about the shared `Engine.addToPath` / `Engine.feed` (AddToPath.lean) as the zero swaps use
them: always with a length limit `some m`, and (in `propagate`) starting from the empty path.
-/
import Infretis.Model.ZeroSwap

namespace Infretis.ZeroSwap
open Infretis.Engine

/-- the frame is outside `[l, r]`: `add_to_path` reports a crossing -/
def Crosses (l r x : Int) : Prop := x < l ∨ x > r

instance (l r x : Int) : Decidable (Crosses l r x) := by unfold Crosses; infer_instance

theorem addToPath_lt {ops : List Int} {m : Nat} (x l r : Int) (h : ops.length < m) :
    ∃ res, addToPath ops (some m) x l r = some (ops ++ [x], res) ∧
      (res.stop = true ↔ (Crosses l r x ∨ ops.length + 1 = m)) ∧
      (res.success = true ↔ Crosses l r x) := by
  unfold addToPath pathAppend Crosses
  simp only [h, if_true, List.getLast?_append, List.getLast?_singleton, Option.some_or,
    List.length_append, List.length_singleton, Option.some.injEq]
  by_cases h1 : x < l
  · simp [h1]
  · by_cases h2 : x > r
    · simp [h1, h2]
    · by_cases h3 : m = ops.length + 1
      · simp [h1, h2, h3]
      · have : ¬ ops.length + 1 = m := fun e => h3 e.symm
        simp [h1, h2, h3, this]

/-- what `feed` returns, by the reason it stopped -/
inductive FeedOut (l r : Int) (m : Nat) (ops xs ops' : List Int) : Prop
  /-- a frame crossed (possibly the one that also filled the path) -/
  | crossed (pre : List Int) (x : Int) (post : List Int) (hx : xs = pre ++ x :: post)
      (ho : ops' = ops ++ pre ++ [x]) (hpre : ∀ y ∈ pre, ¬ Crosses l r y) (hc : Crosses l r x)
      (hlen : ops.length + pre.length + 1 ≤ m)
  /-- the path became full on a frame that did not cross -/
  | full (pre post : List Int) (hx : xs = pre ++ post) (ho : ops' = ops ++ pre)
      (hpre : ∀ y ∈ pre, ¬ Crosses l r y) (hlen : ops'.length = m)
  /-- the MD program ended before anything stopped it -/
  | dry (ho : ops' = ops ++ xs) (hpre : ∀ y ∈ xs, ¬ Crosses l r y) (hlen : ops'.length < m)

theorem feed_spec {l r : Int} {m : Nat} : ∀ (xs ops : List Int) (k : Nat) {ops' : List Int} {s : Bool} {k' : Nat},
    ops.length < m → feed l r (some m) ops xs k = some (ops', s, k') → FeedOut l r m ops xs ops' := by
  intro xs
  induction xs with
  | nil =>
    intro ops k ops' s k' hlt h
    simp only [feed, Option.some.injEq, Prod.mk.injEq] at h
    exact .dry (by simp [h.1]) (by simp) (by rw [← h.1]; exact hlt)
  | cons x t ih =>
    intro ops k ops' s k' hlt h
    obtain ⟨res, hres, hstop, hsucc⟩ := addToPath_lt x l r hlt
    simp only [feed, hres] at h
    by_cases hs : res.stop = true
    · simp only [hs, if_true, Option.some.injEq, Prod.mk.injEq] at h
      rcases hstop.mp hs with hc | hm
      · exact .crossed [] x t (by simp) (by simp [h.1]) (by simp) hc (by simp; omega)
      · by_cases hc : Crosses l r x
        · exact .crossed [] x t (by simp) (by simp [h.1]) (by simp) hc (by simp; omega)
        · exact .full [x] t (by simp) (by simp [h.1]) (by simpa using hc) (by rw [← h.1]; simp; omega)
    · simp only [hs] at h
      have hnc : ¬ Crosses l r x := fun hc => hs (hstop.mpr (Or.inl hc))
      have hne : ¬ ops.length + 1 = m := fun hm => hs (hstop.mpr (Or.inr hm))
      have hlt' : (ops ++ [x]).length < m := by simp; omega
      have := ih (ops ++ [x]) (k + 1) hlt' (by simpa using h)
      cases this with
      | crossed pre y post hx ho hpre hc hlen =>
        exact .crossed (x :: pre) y post (by simp [hx]) (by simp [ho])
          (by intro z hz; rcases List.mem_cons.mp hz with rfl | hz; exact hnc; exact hpre z hz) hc
          (by simp at hlen ⊢; omega)
      | full pre post hx ho hpre hlen =>
        exact .full (x :: pre) post (by simp [hx]) (by simp [ho])
          (by intro z hz; rcases List.mem_cons.mp hz with rfl | hz; exact hnc; exact hpre z hz) hlen
      | dry ho hpre hlen =>
        exact .dry (by simp [ho])
          (by intro z hz; rcases List.mem_cons.mp hz with rfl | hz; exact hnc; exact hpre z hz) hlen

/-- the converse for a stream whose first crossing frame fits: `feed` stops exactly there -/
theorem feed_crossed {l r : Int} {m : Nat} : ∀ (pre ops : List Int) (k : Nat) (x : Int) (post : List Int),
    (∀ y ∈ pre, ¬ Crosses l r y) → Crosses l r x → ops.length + pre.length + 1 ≤ m →
    feed l r (some m) ops (pre ++ x :: post) k = some (ops ++ pre ++ [x], true, k + pre.length + 1) := by
  intro pre
  induction pre with
  | nil =>
    intro ops k x post _ hc hlen
    obtain ⟨res, hres, hstop, hsucc⟩ := addToPath_lt x l r (show ops.length < m by simp at hlen; omega)
    have h1 : res.stop = true := hstop.mpr (Or.inl hc)
    have h2 : res.success = true := hsucc.mpr hc
    simp [feed, hres, h1, h2]
  | cons y pre ih =>
    intro ops k x post hpre hc hlen
    obtain ⟨res, hres, hstop, hsucc⟩ := addToPath_lt y l r (show ops.length < m by simp at hlen; omega)
    have hny : ¬ Crosses l r y := hpre y (by simp)
    have h1 : ¬ res.stop = true := by
      intro hs
      rcases hstop.mp hs with h | h
      · exact hny h
      · simp at hlen; omega
    have := ih (ops ++ [y]) (k + 1) x post (fun z hz => hpre z (by simp [hz])) hc (by simp at hlen ⊢; omega)
    simp only [List.cons_append, feed, hres, h1]
    simp only [Bool.false_eq_true, if_false]
    rw [this]
    simp
    omega

end Infretis.ZeroSwap
