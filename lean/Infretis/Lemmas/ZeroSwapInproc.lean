/-
C11, audit pass 2026-09-30: (1) the frame count of the in-process engines' loops (`inprocOffered`), so that the
engine hypothesis of `swap_members` ("the MD program does not end before the length limit") is discharged for
ASE / TurtleMD; (2) the statuses of `quantis_swap_zero` that no input can produce.
-/
import Infretis.Lemmas.ZeroSwapStatus
import Infretis.Lemmas.ZeroSwapTwiceV

namespace Infretis.ZeroSwap
open Infretis.Engine

/-! ### the loop `for i in range(n): if i % sub == 0: <offer a frame>` -/

theorem offered_block (sub m : Nat) (hsub : 0 < sub) :
    (((List.range sub).map (fun x => sub * m + x)).filter (fun i => i % sub == 0)).length = 1 := by
  obtain ⟨k, rfl⟩ : ∃ k, sub = k + 1 := ⟨sub - 1, by omega⟩
  rw [List.filter_map, List.length_map, List.range_succ_eq_map]
  have h0 : ((fun i => i % (k + 1) == 0) ∘ fun x => (k + 1) * m + x) 0 = true := by
    simp [Function.comp, Nat.mul_mod_right]
  rw [List.filter_cons_of_pos h0]
  have hnil : List.filter ((fun i => i % (k + 1) == 0) ∘ fun x => (k + 1) * m + x)
      (List.map Nat.succ (List.range k)) = [] := by
    rw [List.filter_eq_nil_iff]
    intro a ha
    simp only [List.mem_map, List.mem_range] at ha
    obtain ⟨j, hj, rfl⟩ := ha
    simp only [Function.comp, Nat.mul_add_mod, beq_iff_eq]
    rw [Nat.mod_eq_of_lt (by omega)]
    omega
  rw [hnil]; rfl

/-- `sub * m` loop iterations offer exactly `m` frames -/
theorem offeredAt_mul (sub : Nat) (hsub : 0 < sub) : ∀ m, (offeredAt sub (sub * m)).length = m
  | 0 => by simp [offeredAt]
  | m + 1 => by
    have ih := offeredAt_mul sub hsub m
    unfold offeredAt at ih ⊢
    rw [Nat.mul_succ, List.range_add, List.filter_append, List.length_append, ih, offered_block sub m hsub]

/-- ASE offers exactly `maxlen` frames, TurtleMD `maxlen` or `maxlen + 1` (its last one is refused by `append`) -/
theorem inprocOffered_bounds (sub maxlen : Nat) (ase : Bool) (hsub : 0 < sub) :
    maxlen ≤ inprocOffered sub maxlen ase ∧ inprocOffered sub maxlen ase ≤ maxlen + 1 ∧
      (ase = true → inprocOffered sub maxlen ase = maxlen) := by
  unfold inprocOffered
  cases ase with
  | true => simp [offeredAt_mul sub hsub maxlen]
  | false =>
    simp only [Bool.false_eq_true, if_false]
    have h := offeredAt_mul sub hsub maxlen
    unfold offeredAt at h ⊢
    rw [List.range_succ, List.filter_append, List.length_append, h]
    refine ⟨by omega, ?_, by intro h; cases h⟩
    have := List.length_filter_le (fun i => i % sub == 0) [sub * maxlen]
    simp only [List.length_singleton] at this
    omega

/-- the engine hypothesis of the membership theorems, for a path of `maxlen1 - 1` -/
theorem inprocSteps_enough (sub maxlen1 : Nat) (ase : Bool) (hsub : 0 < sub) :
    maxlen1 ≤ inprocSteps sub (maxlen1 - 1) ase + 2 := by
  have := (inprocOffered_bounds sub (maxlen1 - 1) ase hsub).1
  unfold inprocSteps
  omega

/-! ### statuses of the QuanTIS completion that cannot occur -/

/-- with both one-step paths as `quantisPre` hands them over (two frames each, the [0-] shooting frame at or left
    of λ0, its successor not left of λ0, `start_cond1 == "L"`) the completion never answers 'QR*', 'QLR', '0+R' -/
theorem core_dead {e0 e1 : Ens} {lam : Int} {m0 m1 : Nat} {f0 g0 f1 g1 : Frame} {scC scD : Script}
    {reqs : List Req} {out : CoreOut}
    (h : quantisCompleteCore e0 e1 lam m0 m1 true [f0, g0] [f1, g1] scC scD reqs = .ok out)
    (hf1 : f1.op ≤ lam) (hg1 : ¬ g1.op < lam) :
    out.2.1 ≠ .QRS ∧ out.2.1 ≠ .QLR ∧ out.2.1 ≠ .ZR := by
  unfold quantisCompleteCore at h
  simp only [Bool.not_true, Bool.false_eq_true, if_false] at h
  cases hb : propagate (m0 - 1) e0.i0 e0.i2 f0 true scC with
  | none => simp [hb] at h
  | some bres =>
    obtain ⟨back, sb⟩ := bres
    simp only [hb] at h
    have hr0 := qstatus0_range e0 m0 (appendAll (appendAll [] m0 back.reverse) m0 [g0])
    generalize qstatus0 e0 m0 (appendAll (appendAll [] m0 back.reverse) m0 [g0]) = s0 at h hr0
    rcases hr0 with rfl | rfl | rfl | rfl
    · simp at h; subst h; simp
    · simp at h; subst h; simp
    · simp at h; subst h; simp
    · simp only [ne_eq, not_true_eq_false, if_false, List.getLast?_cons_cons, List.getLast?_singleton, hg1,
        decide_false, Bool.false_eq_true] at h
      cases hf : propagate (m1 - 1) e1.i0 e1.i2 g1 false scD with
      | none => simp [hf] at h
      | some fres =>
        obtain ⟨forw, sf⟩ := fres
        simp only [hf] at h
        have hnz : qstatus1 lam m1 (appendAll (appendAll [] m1 [f1, g1].reverse.reverse) m1 forw.tail) ≠ .ZR := by
          rw [List.reverse_reverse, appendAll2_eq]
          unfold qstatus1
          cases m1 with
          | zero => simp
          | succ k =>
            have hL : startIsL lam (List.take (k + 1) ([f1, g1] ++ forw.tail)) = true := by
              simp [startIsL, hf1]
            rw [hL]
            repeat' split
            all_goals simp_all
        have hr1 := qstatus1_range lam m1 (appendAll (appendAll [] m1 [f1, g1].reverse.reverse) m1 forw.tail)
        generalize qstatus1 lam m1 (appendAll (appendAll [] m1 [f1, g1].reverse.reverse) m1 forw.tail) = s1 at h hr1 hnz
        rcases hr1 with rfl | rfl | rfl | rfl
        · simp at h; subst h; simp
        · simp at h; subst h; simp
        · exact absurd rfl hnz
        · simp at h; subst h; simp

end Infretis.ZeroSwap
