/-
Lemmas for the status tables of the two zero swaps (C11 extension): ranges of the per-path statuses, the
final bookkeeping of `retis_swap_zero`, one-step propagation (`maxlen = 2`), and the shape of every outcome of
`quantis_swap_zero`.
-/
import Infretis.Lemmas.ZeroSwap
import Infretis.Model.ZeroSwapAlg

namespace Infretis.ZeroSwap
open Infretis.Engine

theorem status0_range (e0 : Ens) (p : List Frame) :
    status0 e0 p = .BTX ∨ status0 e0 p = .BTS ∨ status0 e0 p = .ZL ∨ status0 e0 p = .ACC := by
  unfold status0; repeat' split
  all_goals simp

theorem status1_range (e1 : Ens) (p : List Frame) :
    status1 e1 p = .FTX ∨ status1 e1 p = .FTS ∨ status1 e1 p = .ACC := by
  unfold status1; repeat' split
  all_goals simp

theorem qstatus0_range (e0 : Ens) (m : Nat) (p : List Frame) :
    qstatus0 e0 m p = .BTX ∨ qstatus0 e0 m p = .BTS ∨ qstatus0 e0 m p = .ZL ∨ qstatus0 e0 m p = .ACC := by
  unfold qstatus0; repeat' split
  all_goals simp

theorem qstatus1_range (lam : Int) (m : Nat) (p : List Frame) :
    qstatus1 lam m p = .FTX ∨ qstatus1 lam m p = .FTS ∨ qstatus1 lam m p = .ZR ∨ qstatus1 lam m p = .ACC := by
  unfold qstatus1; repeat' split
  all_goals simp

/-- the whole final bookkeeping of `retis_swap_zero` (tis.py:976-1010) as a table -/
theorem finish_table {e0 e1 : Ens} {old1 path0 path1 : List Frame} {reqs : List Req} {xi : Rat}
    {r : Result} (h : finish e0 e1 old1 path0 path1 reqs xi = .ok r) :
    ∃ a : Bool,
      (status0 e0 path0 = .ACC → status1 e1 path1 = .ACC → (e0.wf || e1.wf) = true →
        highAcc e0 e1 path1 old1 xi = .ok a) ∧
      r.status = retisTable (status0 e0 path0) (status1 e1 path1) (e0.wf || e1.wf) a ∧
      r.accept = decide (r.status = .ACC) ∧
      r.st0 = r.status ∧ r.st1 = retisField1 (status1 e1 path1) r.status ∧
      r.draws = (if status0 e0 path0 = .ACC ∧ status1 e1 path1 = .ACC ∧ (e0.wf || e1.wf) = true then 1 else 0) ∧
      r.expArg = none := by
  unfold finish at h
  simp only at h
  cases hw0 : finalWeight path0 e0 with
  | error x => split at h <;> simp [hw0] at h
  | ok w0 =>
    cases hw1 : finalWeight path1 e1 with
    | error x => split at h <;> simp [hw0, hw1] at h
    | ok w1 =>
      rcases status0_range e0 path0 with h0 | h0 | h0 | h0 <;>
      rcases status1_range e1 path1 with h1 | h1 | h1
      all_goals
        first
        | -- some path failed: no high-acceptance step
          (simp only [h0, h1, hw0, hw1] at h
           simp at h
           subst h
           exact ⟨false, by simp [h0, h1], by simp [retisTable, retisField1, h0, h1]⟩)
        | -- both fine
          (cases hwf : (e0.wf || e1.wf) with
           | false =>
             simp only [h0, h1, hw0, hw1, hwf] at h
             simp at h
             subst h
             exact ⟨false, by simp, by simp [retisTable, retisField1, h0, h1]⟩
           | true =>
             simp only [h0, h1, hwf] at h
             cases hh : highAcc e0 e1 path1 old1 xi with
             | error x => simp [hh] at h
             | ok a =>
               simp only [hh, hw0, hw1] at h
               simp at h
               subst h
               cases a <;> exact ⟨_, fun _ _ _ => rfl, by simp [retisTable, retisField1, h0, h1]⟩)

/-! ### one-step propagation -/

/-- a `propagate` call into a path of `maxlen = 2` (the one-step paths of QuanTIS): frame 0 is the start;
    a second frame is added exactly when frame 0 is not outside `[l, r]` and the MD program produced one -/
theorem propagate_two (l r : Int) (sys : Frame) (rev : Bool) (scr : Script) :
    ∃ s, propagate 2 l r sys rev scr = some
      ((if Crosses l r sys.op then [{ op := sys.op, cfg := startCfg sys rev, vr := rev, vpot := scr.v0 }]
        else match scr.rest with
          | [] => [{ op := sys.op, cfg := startCfg sys rev, vr := rev, vpot := scr.v0 }]
          | g :: _ => [{ op := sys.op, cfg := startCfg sys rev, vr := rev, vpot := scr.v0 },
                       { op := g.op, cfg := g.cfg, vr := rev, vpot := g.vpot }]), s) := by
  unfold propagate streamOf Crosses
  cases hr : scr.rest with
  | nil =>
    by_cases h1 : sys.op < l
    · exact ⟨true, by simp [ops, feed, addToPath, pathAppend, h1]⟩
    · by_cases h2 : sys.op > r
      · exact ⟨true, by simp [ops, feed, addToPath, pathAppend, h1, h2]⟩
      · exact ⟨false, by simp [ops, feed, addToPath, pathAppend, h1, h2]⟩
  | cons g t =>
    by_cases h1 : sys.op < l
    · exact ⟨true, by simp [ops, feed, addToPath, pathAppend, h1]⟩
    · by_cases h2 : sys.op > r
      · exact ⟨true, by simp [ops, feed, addToPath, pathAppend, h1, h2]⟩
      · by_cases h3 : g.op < l
        · exact ⟨true, by simp [ops, feed, addToPath, pathAppend, h1, h2, h3]⟩
        · by_cases h4 : g.op > r
          · exact ⟨true, by simp [ops, feed, addToPath, pathAppend, h1, h2, h3, h4]⟩
          · exact ⟨false, by simp [ops, feed, addToPath, pathAppend, h1, h2, h3, h4]⟩

/-! ### the part of `quantis_swap_zero` before the energy rule, outcome by outcome -/

/-- frame 0 of a forward trajectory started on `sys` (what the engine reports for the swapped configuration:
    same order value, same phase point, the engine's own energy `v0`) -/
def startFrame (sys : Frame) (scr : Script) : Frame :=
  { op := sys.op, cfg := startCfg sys false, vr := false, vpot := scr.v0 }

def genFrame (g : GenFrame) (rev : Bool) : Frame := { op := g.op, cfg := g.cfg, vr := rev, vpot := g.vpot }

/-- the one-step crossing condition of QuanTIS on the inputs: the shooting point is not left of λ₋₁, the MD
    program produced a next frame, and that frame is strictly right of λ0 (`get_end_point(lambda0) == "R"`) -/
def oneStep (e0 : Ens) (sys : Frame) (scr : Script) : Option GenFrame :=
  if Crosses e0.i0 e0.i2 sys.op then none
  else match scr.rest with
    | g :: _ => if g.op > e0.i2 then some g else none
    | [] => none

theorem oneStep_propagate (e0 : Ens) (sys : Frame) (scr : Script) (hl : sys.op < e0.i2) :
    ∃ tmp s, propagate 2 e0.i0 e0.i2 sys false scr = some (tmp, s) ∧
      (match oneStep e0 sys scr with
       | some g => tmp = [startFrame sys scr, genFrame g false] ∧ endIsR e0.i2 tmp = true
       | none => endIsR e0.i2 tmp = false ∧ tmp.head? = some (startFrame sys scr)) := by
  obtain ⟨s, hs⟩ := propagate_two e0.i0 e0.i2 sys false scr
  refine ⟨_, s, hs, ?_⟩
  unfold oneStep
  by_cases hc : Crosses e0.i0 e0.i2 sys.op
  · simp only [hc, if_true]
    refine ⟨?_, rfl⟩
    simp [endIsR]; omega
  · simp only [hc, if_false]
    cases hr : scr.rest with
    | nil =>
      refine ⟨?_, rfl⟩
      simp [endIsR]; omega
    | cons g t =>
      by_cases hg : g.op > e0.i2
      · simp only [hg, if_true]
        refine ⟨rfl, ?_⟩
        simp [endIsR]; omega
      · simp only [hg, if_false]
        refine ⟨?_, rfl⟩
        simp [endIsR]; omega

/-- **`quantisPre`, outcome by outcome** (well-formed paths: [0+] has a first frame, [0-] a second-last one).
    The five conditions are exhaustive and mutually exclusive. -/
theorem quantisPre_cases (e0 : Ens) (pre0 rest1 : List Frame) (sp1 last sp0 : Frame) (scA scB : Script)
    (b0 b1 : Rat) :
    let P := quantisPre e0 (pre0 ++ [sp1, last]) (sp0 :: rest1) scA scB b0 b1
    let rq0 := propReq 0 2 e0.i0 e0.i2 sp0 false
    let rq1 := propReq 1 2 e0.i0 e0.i2 sp1 false
    ((sp0.vpot = none ∨ sp1.vpot = none) → P = .early .QNE [sp0] [sp1] .QNE .QNE []) ∧
    (sp0.vpot ≠ none → sp1.vpot ≠ none → ¬ (sp0.op < e0.i2 ∧ sp1.op < e0.i2) →
      P = .early .QLL [sp0] [sp1] .QLL .QLL []) ∧
    (sp0.vpot ≠ none → sp1.vpot ≠ none → sp0.op < e0.i2 → sp1.op < e0.i2 → oneStep e0 sp0 scA = none →
      ∃ tmp0, P = .early .QS0 tmp0 [sp1] .QS0 .QS0 [rq0] ∧ tmp0.head? = some (startFrame sp0 scA)) ∧
    (∀ g0, sp0.vpot ≠ none → sp1.vpot ≠ none → sp0.op < e0.i2 → sp1.op < e0.i2 →
      oneStep e0 sp0 scA = some g0 → oneStep e0 sp1 scB = none →
      ∃ tmp1, P = .early .QS1 [startFrame sp0 scA, genFrame g0 false] tmp1 .none .QS1 [rq0, rq1] ∧
        tmp1.head? = some (startFrame sp1 scB)) ∧
    (∀ g0 g1 v0r0 v1r1, sp1.vpot = some v0r0 → sp0.vpot = some v1r1 → sp0.op < e0.i2 → sp1.op < e0.i2 →
      oneStep e0 sp0 scA = some g0 → oneStep e0 sp1 scB = some g1 →
      (∀ v0r1 v1r0, scA.v0 = some v0r1 → scB.v0 = some v1r0 →
        P = .reached [startFrame sp0 scA, genFrame g0 false] [startFrame sp1 scB, genFrame g1 false] [rq0, rq1]
              (expArgOf b0 b1 v0r0 v0r1 v1r1 v1r0) true) ∧
      ((scA.v0 = none ∨ scB.v0 = none) → P = .err .type)) := by
  intro P rq0 rq1
  have hrev : (pre0 ++ [sp1, last]).reverse = last :: sp1 :: pre0.reverse := by simp
  have hP : P = quantisPre e0 (pre0 ++ [sp1, last]) (sp0 :: rest1) scA scB b0 b1 := rfl
  unfold quantisPre at hP
  simp only [hrev] at hP
  refine ⟨?_, ?_, ?_, ?_, ?_⟩
  · intro hn
    have : (sp0.vpot.isNone || sp1.vpot.isNone) = true := by
      rcases hn with h | h <;> simp [h]
    rw [hP]; simp [this, appendMax_eq]
  · intro h0 h1 hl
    have hn : (sp0.vpot.isNone || sp1.vpot.isNone) = false := by
      cases hh0 : sp0.vpot <;> cases hh1 : sp1.vpot <;> simp_all
    have hl' : (!decide (sp0.op < e0.i2) || !decide (sp1.op < e0.i2)) = true := by
      by_cases ha : sp0.op < e0.i2 <;> by_cases hb : sp1.op < e0.i2 <;> simp_all
    rw [hP]; simp [hn, hl', appendMax_eq]
  · intro h0 h1 hl0 hl1 hone
    have hn : (sp0.vpot.isNone || sp1.vpot.isNone) = false := by
      cases hh0 : sp0.vpot <;> cases hh1 : sp1.vpot <;> simp_all
    obtain ⟨tmp0, s, hp, hm⟩ := oneStep_propagate e0 sp0 scA hl0
    rw [hone] at hm
    refine ⟨tmp0, ?_, hm.2⟩
    rw [hP]; simp [hn, hl0, hl1, hp, hm.1, appendMax_eq]
    rfl
  · intro g0 h0 h1 hl0 hl1 hone0 hone1
    have hn : (sp0.vpot.isNone || sp1.vpot.isNone) = false := by
      cases hh0 : sp0.vpot <;> cases hh1 : sp1.vpot <;> simp_all
    obtain ⟨tmp0, s0, hp0, hm0⟩ := oneStep_propagate e0 sp0 scA hl0
    obtain ⟨tmp1, s1, hp1, hm1⟩ := oneStep_propagate e0 sp1 scB hl1
    rw [hone0] at hm0
    rw [hone1] at hm1
    obtain ⟨ht0, he0⟩ := hm0
    subst ht0
    refine ⟨tmp1, ?_, hm1.2⟩
    rw [hP]; simp [hn, hl0, hl1, hp0, he0, hp1, hm1.1]
    exact ⟨rfl, rfl⟩
  · intro g0 g1 v0r0 v1r1 hv1 hv0 hl0 hl1 hone0 hone1
    have hn : (sp0.vpot.isNone || sp1.vpot.isNone) = false := by simp [hv0, hv1]
    obtain ⟨tmp0, s0, hp0, hm0⟩ := oneStep_propagate e0 sp0 scA hl0
    obtain ⟨tmp1, s1, hp1, hm1⟩ := oneStep_propagate e0 sp1 scB hl1
    rw [hone0] at hm0
    rw [hone1] at hm1
    obtain ⟨ht0, he0⟩ := hm0
    obtain ⟨ht1, he1⟩ := hm1
    subst ht0 ht1
    have hvA : (startFrame sp0 scA).vpot = scA.v0 := rfl
    have hvB : (startFrame sp1 scB).vpot = scB.v0 := rfl
    refine ⟨?_, ?_⟩
    · intro v0r1 v1r0 hA hB
      rw [hP]
      simp [hl0, hl1, hp0, he0, hp1, he1, hv0, hv1, hvA, hvB, hA, hB]
      exact ⟨rfl, rfl⟩
    · intro hnone
      rw [hP]
      rcases hnone with hA | hB
      · simp [hl0, hl1, hp0, he0, hp1, he1, hv0, hv1, hvA, hvB, hA]
      · cases hA : scA.v0 <;> simp [hl0, hl1, hp0, he0, hp1, he1, hv0, hv1, hvA, hvB, hA, hB]

/-! ### the completion of `quantis_swap_zero` -/

/-- the two nested append loops of `paste_paths`: truncation of the concatenation -/
theorem appendAll2_eq (a b : List Frame) (m : Nat) :
    appendAll (appendAll [] m a) m b = (a ++ b).take m := by
  rw [appendAll_nil, appendAll_eq b (a.take m) m (by simp [List.length_take]; omega)]
  rw [List.take_append]
  congr 1
  simp [List.length_take]
  omega

theorem take_of_short {α : Type} (xs : List α) (m : Nat) (h : (xs.take m).length < m) : xs.take m = xs := by
  apply List.take_of_length_le
  simp [List.length_take] at h
  omega

abbrev CoreOut := Bool × Status × List Frame × List Frame × Status × Status × Nat × List Req

/-- status table of the completion: the returned status is one of nine, the move is accepted exactly on
    'ACC', and the status fields of the two returned path objects are those of `quantisFields` -/
theorem core_table {e0 e1 : Ens} {lam : Int} {m0 m1 : Nat} {sc1L : Bool}
    {tmp0 tmp1 : List Frame} {scC scD : Script} {reqs : List Req} {out : CoreOut}
    (h : quantisCompleteCore e0 e1 lam m0 m1 sc1L tmp0 tmp1 scC scD reqs = .ok out) :
    (out.1 = true ↔ out.2.1 = .ACC) ∧ (out.2.2.2.2.1, out.2.2.2.2.2.1) = quantisFields out.2.1 ∧
      (out.2.1 = .QRS ∨ out.2.1 = .BTX ∨ out.2.1 = .BTS ∨ out.2.1 = .ZL ∨ out.2.1 = .QLR ∨
       out.2.1 = .FTX ∨ out.2.1 = .FTS ∨ out.2.1 = .ZR ∨ out.2.1 = .ACC) := by
  unfold quantisCompleteCore at h
  dsimp only at h
  cases tmp0 with
  | nil => simp at h
  | cons sp0 t0 =>
    simp only at h
    cases hsc : sc1L with
    | false => simp [hsc] at h; subst h; simp [quantisFields]
    | true =>
      simp only [hsc, Bool.not_true, Bool.false_eq_true, if_false] at h
      cases hb : propagate (m0 - 1) e0.i0 e0.i2 sp0 true scC with
      | none => simp [hb] at h
      | some bres =>
        obtain ⟨back, sb⟩ := bres
        simp only [hb] at h
        have hr0 := qstatus0_range e0 m0 (appendAll (appendAll [] m0 back.reverse) m0 t0)
        generalize qstatus0 e0 m0 (appendAll (appendAll [] m0 back.reverse) m0 t0) = s0 at h hr0
        rcases hr0 with rfl | rfl | rfl | rfl
        · simp at h; subst h; simp [quantisFields]
        · simp at h; subst h; simp [quantisFields]
        · simp at h; subst h; simp [quantisFields]
        · simp only [ne_eq, not_true_eq_false, if_false] at h
          cases hl : tmp1.getLast? with
          | none => simp [hl] at h
          | some sp1 =>
            simp only [hl] at h
            by_cases hlt : sp1.op < lam
            · simp [hlt] at h; subst h; simp [quantisFields]
            · simp only [hlt, decide_false, Bool.false_eq_true, if_false] at h
              cases hf : propagate (m1 - 1) e1.i0 e1.i2 sp1 false scD with
              | none => simp [hf] at h
              | some fres =>
                obtain ⟨forw, sf⟩ := fres
                simp only [hf] at h
                have hr1 := qstatus1_range lam m1 (appendAll (appendAll [] m1 tmp1.reverse.reverse) m1 forw.tail)
                generalize qstatus1 lam m1 (appendAll (appendAll [] m1 tmp1.reverse.reverse) m1 forw.tail) = s1 at h hr1
                rcases hr1 with rfl | rfl | rfl | rfl
                · simp at h; subst h; simp [quantisFields]
                · simp at h; subst h; simp [quantisFields]
                · simp at h; subst h; simp [quantisFields]
                · simp at h; subst h; simp [quantisFields]

/-- the pieces of an accepted completion -/
theorem core_acc {e0 e1 : Ens} {lam : Int} {m0 m1 : Nat} {sc1L : Bool}
    {sp0 : Frame} {t0 tmp1 : List Frame} {scC scD : Script} {reqs : List Req} {out : CoreOut}
    (h : quantisCompleteCore e0 e1 lam m0 m1 sc1L (sp0 :: t0) tmp1 scC scD reqs = .ok out)
    (ha : out.1 = true) :
    ∃ back sb sp1 forw sf,
      propagate (m0 - 1) e0.i0 e0.i2 sp0 true scC = some (back, sb) ∧
      out.2.2.1 = back.reverse ++ t0 ∧ qstatus0 e0 m0 out.2.2.1 = .ACC ∧
      tmp1.getLast? = some sp1 ∧ ¬ sp1.op < lam ∧
      propagate (m1 - 1) e1.i0 e1.i2 sp1 false scD = some (forw, sf) ∧
      out.2.2.2.1 = tmp1 ++ forw.tail ∧ qstatus1 lam m1 out.2.2.2.1 = .ACC ∧
      out.2.2.2.2.2.2.2 = reqs ++ [propReq 0 (m0 - 1) e0.i0 e0.i2 sp0 true, propReq 1 (m1 - 1) e1.i0 e1.i2 sp1 false] ∧
      out.2.1 = .ACC := by
  unfold quantisCompleteCore at h
  dsimp only at h
  cases hsc : sc1L with
  | false => simp [hsc] at h; subst h; simp at ha
  | true =>
    simp only [hsc, Bool.not_true, Bool.false_eq_true, if_false] at h
    cases hb : propagate (m0 - 1) e0.i0 e0.i2 sp0 true scC with
    | none => simp [hb] at h
    | some bres =>
      obtain ⟨back, sb⟩ := bres
      simp only [hb] at h
      by_cases hs0 : qstatus0 e0 m0 (appendAll (appendAll [] m0 back.reverse) m0 t0) = .ACC
      · simp only [hs0, ne_eq, not_true_eq_false, if_false] at h
        cases hl : tmp1.getLast? with
        | none => simp [hl] at h
        | some sp1 =>
          simp only [hl] at h
          by_cases hlt : sp1.op < lam
          · simp [hlt] at h; subst h; simp at ha
          · simp only [hlt, decide_false, Bool.false_eq_true, if_false] at h
            cases hf : propagate (m1 - 1) e1.i0 e1.i2 sp1 false scD with
            | none => simp [hf] at h
            | some fres =>
              obtain ⟨forw, sf⟩ := fres
              simp only [hf] at h
              by_cases hs1 : qstatus1 lam m1 (appendAll (appendAll [] m1 tmp1.reverse.reverse) m1 forw.tail) = .ACC
              · simp only [hs1, ne_eq, not_true_eq_false, if_false, Except.ok.injEq] at h
                subst h
                have e0' : appendAll (appendAll [] m0 back.reverse) m0 t0 = back.reverse ++ t0 := by
                  rw [appendAll2_eq]
                  apply take_of_short
                  rw [appendAll2_eq] at hs0
                  unfold qstatus0 at hs0
                  by_cases hge : (List.take m0 (back.reverse ++ t0)).length ≥ m0
                  · rw [if_pos hge] at hs0; cases hs0
                  · omega
                have e1' : appendAll (appendAll [] m1 tmp1.reverse.reverse) m1 forw.tail = tmp1 ++ forw.tail := by
                  rw [appendAll2_eq, List.reverse_reverse]
                  apply take_of_short
                  rw [appendAll2_eq, List.reverse_reverse] at hs1
                  unfold qstatus1 at hs1
                  have hle : (List.take m1 (tmp1 ++ forw.tail)).length ≤ m1 := by simp [List.length_take]; omega
                  by_cases heq : (List.take m1 (tmp1 ++ forw.tail)).length = m1
                  · rw [if_pos heq] at hs1; cases hs1
                  · omega
                refine ⟨back, sb, sp1, forw, sf, (by first | exact hb | rfl), ?_, ?_, (by first | exact hl | rfl), hlt, (by first | exact hf | rfl), ?_, ?_, ?_, rfl⟩
                · exact e0'
                · simpa using hs0
                · exact e1'
                · simpa using hs1
                · simp
              · simp only [hs1, ne_eq, not_false_eq_true, if_true, Except.ok.injEq] at h
                subst h; simp at ha
      · simp only [hs0, ne_eq, not_false_eq_true, if_true, Except.ok.injEq] at h
        subst h; simp at ha

/-- every early return of the part before the energy rule: one of four statuses, the status fields of
    `quantisFields`, at most two engine requests -/
theorem quantisPre_early {e0 : Ens} {old0 old1 : List Frame} {scA scB : Script} {b0 b1 : Rat}
    {st : Status} {p0 p1 : List Frame} {s0 s1 : Status} {rq : List Req}
    (h : quantisPre e0 old0 old1 scA scB b0 b1 = .early st p0 p1 s0 s1 rq) :
    (st = .QNE ∨ st = .QLL ∨ st = .QS0 ∨ st = .QS1) ∧ (s0, s1) = quantisFields st ∧ rq.length ≤ 2 := by
  unfold quantisPre at h
  dsimp only at h
  repeat' split at h
  all_goals first
    | (cases h; done)
    | (cases h; simp [quantisFields])

theorem quantisPre_reached {e0 : Ens} {old0 old1 : List Frame} {scA scB : Script} {b0 b1 : Rat}
    {t0 t1 : List Frame} {rq : List Req} {ea : Rat} {sc : Bool}
    (h : quantisPre e0 old0 old1 scA scB b0 b1 = .reached t0 t1 rq ea sc) : rq.length = 2 := by
  unfold quantisPre at h
  dsimp only at h
  repeat' split at h
  all_goals first
    | (cases h; done)
    | (cases h; simp)

/-- the completion only appends requests -/
theorem core_reqs {e0 e1 : Ens} {lam : Int} {m0 m1 : Nat} {sc1L : Bool}
    {tmp0 tmp1 : List Frame} {scC scD : Script} {reqs : List Req} {out : CoreOut}
    (h : quantisCompleteCore e0 e1 lam m0 m1 sc1L tmp0 tmp1 scC scD reqs = .ok out) :
    ∃ more, out.2.2.2.2.2.2.2 = reqs ++ more := by
  unfold quantisCompleteCore at h
  dsimp only at h
  repeat' split at h
  all_goals first
    | (cases h; done)
    | (cases h; exact ⟨_, rfl⟩)
    | (cases h; exact ⟨[], (List.append_nil _).symm⟩)
    | (cases h; exact ⟨_, List.append_assoc _ _ _⟩)

end Infretis.ZeroSwap
