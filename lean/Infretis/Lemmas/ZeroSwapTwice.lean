/-
Lemmas for the swap-twice statement of C11: a deterministic, time-reversible engine retraces a
trajectory it is started on.
-/
import Infretis.Lemmas.ZeroSwap

namespace Infretis.ZeroSwap
open Infretis.Engine

/-- consecutive frames are related by `R` -/
def Consec (R : Frame → Frame → Prop) : List Frame → Prop
  | [] => True
  | [_] => True
  | a :: b :: t => R a b ∧ Consec R (b :: t)

theorem Consec.tail {R : Frame → Frame → Prop} {a : Frame} {l : List Frame} (h : Consec R (a :: l)) :
    Consec R l := by
  cases l with
  | nil => trivial
  | cons b t => exact h.2

theorem Consec.imp {R S : Frame → Frame → Prop} (hRS : ∀ u w, R u w → S u w) :
    ∀ {l : List Frame}, Consec R l → Consec S l
  | [], _ => trivial
  | [_], _ => trivial
  | _ :: b :: t, h => ⟨hRS _ _ h.1, Consec.imp hRS (l := b :: t) h.2⟩

theorem consec_append_singleton {R : Frame → Frame → Prop} :
    ∀ {l : List Frame} {x : Frame}, Consec R (l ++ [x]) ↔ Consec R l ∧ ∀ y, l.getLast? = some y → R y x
  | [], x => by simp [Consec]
  | [a], x => by simp [Consec]
  | a :: b :: t, x => by
    have ih := consec_append_singleton (R := R) (l := b :: t) (x := x)
    simp only [List.cons_append, Consec] at ih ⊢
    rw [ih]
    simp only [List.getLast?_cons_cons]
    constructor
    · rintro ⟨h1, h2, h3⟩; exact ⟨⟨h1, h2⟩, h3⟩
    · rintro ⟨⟨h1, h2⟩, h3⟩; exact ⟨h1, h2, h3⟩

theorem Consec.prefix {R : Frame → Frame → Prop} {l : List Frame} {x : Frame} (h : Consec R (l ++ [x])) :
    Consec R l := (consec_append_singleton.mp h).1

theorem consec_reverse {R : Frame → Frame → Prop} :
    ∀ {l : List Frame}, Consec R l → Consec (fun u w => R w u) l.reverse
  | [], _ => by simp [Consec]
  | [a], _ => by simp [Consec]
  | a :: b :: t, h => by
    have ih := consec_reverse (l := b :: t) h.2
    rw [List.reverse_cons]
    refine consec_append_singleton.mpr ⟨ih, ?_⟩
    intro y hy
    have : y = b := by
      simp at hy
      rcases hy with h | h <;> simp_all
    rw [this]; exact h.1

/-- a deterministic engine: one-step map on stored configurations, order function, energy -/
structure Dyn where
  step : Cfg → Cfg
  opf : Cfg → Int
  vf : Cfg → Option Int

/-- time-reversibility: stepping the velocity-reversed image of a step leads back -/
def Dyn.Reversible (D : Dyn) : Prop := ∀ c, D.step (D.step c).flip = c.flip

/-- the order parameter does not depend on the sign of the velocities -/
def Dyn.OpEven (D : Dyn) : Prop := ∀ c, D.opf c.flip = D.opf c

/-- `p` is a trajectory of `D`: every frame's order value is that of its phase point and each
    phase point is the image of the previous one -/
def IsTraj (D : Dyn) (p : List Frame) : Prop :=
  (∀ f ∈ p, f.op = D.opf f.phys) ∧ Consec (fun f g => g.phys = D.step f.phys) p

theorem flip_flip (c : Cfg) : c.flip.flip = c := by
  cases c; simp [Cfg.flip]

theorem phys_start (sys : Frame) (rev : Bool) (o : Int) (v : Option Int) :
    ({ op := o, cfg := startCfg sys rev, vr := rev, vpot := v } : Frame).phys = sys.phys := by
  cases rev <;> cases hv : sys.vr <;> simp [Frame.phys, startCfg, hv, flip_flip]

/-- the engine follows a list of frames whose stored images under `κ` are consecutive steps -/
theorem orbit_follow (D : Dyn) (κ : Cfg → Cfg) (hκop : ∀ c, D.opf (κ c) = D.opf c) :
    ∀ (l : List Frame) (q : Frame) (n : Nat), l.length ≤ n →
      Consec (fun u w => D.step (κ u.phys) = κ w.phys) (q :: l) → (∀ f ∈ l, f.op = D.opf f.phys) →
      ∃ post, orbit D.step D.opf D.vf n (κ q.phys) =
        l.map (fun f => ({ op := f.op, cfg := κ f.phys, vpot := D.vf (κ f.phys) } : GenFrame)) ++ post := by
  intro l
  induction l with
  | nil => intro q n _ _ _; exact ⟨orbit D.step D.opf D.vf n (κ q.phys), by simp⟩
  | cons w l ih =>
    intro q n hn hc hop
    cases n with
    | zero => simp at hn
    | succ n =>
      have hstep : D.step (κ q.phys) = κ w.phys := hc.1
      obtain ⟨post, hpost⟩ := ih w n (by simpa using hn) hc.2 (fun f hf => hop f (by simp [hf]))
      refine ⟨post, ?_⟩
      simp only [orbit, hstep, List.map_cons, List.cons_append]
      rw [hpost, hκop, ← hop w (by simp)]

/-- started on `q` (in direction `rev`), the engine's frame stream begins with frames that have
    the order values and phase points of `q :: l` -/
theorem retrace (D : Dyn) (κ : Cfg → Cfg) (rev : Bool) (hκop : ∀ c, D.opf (κ c) = D.opf c)
    (hκ : ∀ c, (if rev then (κ c).flip else κ c) = c)
    (q : Frame) (l : List Frame) (n : Nat) (hn : l.length ≤ n) (hstart : startCfg q rev = κ q.phys)
    (hc : Consec (fun u w => D.step (κ u.phys) = κ w.phys) (q :: l)) (hop : ∀ f ∈ l, f.op = D.opf f.phys) :
    ∃ retr post, streamOf q rev (detScript D.step D.opf D.vf n (startCfg q rev)) = retr ++ post ∧
      retr.map Frame.phys = (q :: l).map Frame.phys ∧ ops retr = ops (q :: l) := by
  obtain ⟨post, hpost⟩ := orbit_follow D κ hκop l q n hn hc hop
  refine ⟨{ op := q.op, cfg := startCfg q rev, vr := rev, vpot := D.vf (startCfg q rev) } ::
      l.map (fun f => ({ op := f.op, cfg := κ f.phys, vr := rev, vpot := D.vf (κ f.phys) } : Frame)),
    post.map (fun g => { op := g.op, cfg := g.cfg, vr := rev, vpot := g.vpot }), ?_, ?_, ?_⟩
  · simp only [streamOf, detScript, hstart, hpost, List.map_append, List.map_map, List.cons_append]
    congr 1
  · simp only [List.map_cons, phys_start, List.map_map]
    congr 1
    apply List.map_congr_left
    intro f _
    have := hκ f.phys
    simp only [Function.comp]
    generalize f.phys = c at this ⊢
    cases rev <;> simpa [Frame.phys] using this
  · simp [ops, List.map_map, Function.comp]

theorem orbit_length (st : Cfg → Cfg) (opf : Cfg → Int) (vf : Cfg → Option Int) :
    ∀ (n : Nat) (c : Cfg), (orbit st opf vf n c).length = n
  | 0, _ => rfl
  | n + 1, c => by simp [orbit, orbit_length st opf vf n]

theorem startCfg_true (q : Frame) : startCfg q true = q.phys.flip := by
  cases hv : q.vr <;> simp [startCfg, Frame.phys, hv, flip_flip]

theorem startCfg_false (q : Frame) : startCfg q false = q.phys := by
  cases hv : q.vr <;> simp [startCfg, Frame.phys, hv]

theorem split_by_ops {retr qpre : List Frame} {qx : Frame} (h : ops retr = ops (qpre ++ [qx])) :
    ∃ rpre rx, retr = rpre ++ [rx] ∧ ops rpre = ops qpre ∧ rx.op = qx.op := by
  simp only [ops, List.map_append, List.map_cons, List.map_nil] at h
  obtain ⟨l1, l2, hl, h1, h2⟩ := List.map_eq_append_iff.mp h
  obtain ⟨rx, hrx, hop⟩ := List.map_eq_singleton_iff.mp h2
  exact ⟨l1, rx, by rw [hl, hrx], h1, hop⟩

/-- a `propagate` call of the deterministic engine started on `q`, where `q :: lst` is a piece of
    trajectory (in the direction of the call) whose last frame is the first one outside: the call
    returns exactly that piece (order values and phase points) -/
theorem propagate_retrace (D : Dyn) (κ : Cfg → Cfg) (rev : Bool) (hκop : ∀ c, D.opf (κ c) = D.opf c)
    (hκ : ∀ c, (if rev then (κ c).flip else κ c) = c)
    {m : Nat} {l r : Int} {q : Frame} {lst lpre : List Frame} {lx : Frame} {n : Nat}
    {tmp : List Frame} {s : Bool}
    (h : propagate m l r q rev (detScript D.step D.opf D.vf n (startCfg q rev)) = some (tmp, s))
    (hlt : tmp.length < m) (hlong : m ≤ n + 1) (hn : lst.length ≤ n)
    (hstart : startCfg q rev = κ q.phys)
    (hc : Consec (fun u w => D.step (κ u.phys) = κ w.phys) (q :: lst))
    (hop : ∀ f ∈ lst, f.op = D.opf f.phys)
    (hsplit : q :: lst = lpre ++ [lx]) (hnc : ∀ g ∈ lpre, ¬ Crosses l r g.op) (hcx : Crosses l r lx.op) :
    tmp.map Frame.phys = (q :: lst).map Frame.phys ∧ ops tmp = ops (q :: lst) := by
  obtain ⟨tpre, tx, post, htmp, hstream, htnc, htc⟩ :=
    propagate_crossed h hlt (by simp [detScript, orbit_length]; exact hlong)
  obtain ⟨retr, post', hretr, hphys, hops⟩ := retrace D κ rev hκop hκ q lst n hn hstart hc hop
  rw [hsplit] at hops
  obtain ⟨rpre, rx, hr, hrpre, hrx⟩ := split_by_ops hops
  have hrnc : ∀ g ∈ rpre, ¬ Crosses l r g.op := by
    intro g hg
    have : g.op ∈ ops rpre := List.mem_map_of_mem hg
    rw [hrpre] at this
    obtain ⟨f, hf, hfo⟩ := List.mem_map.mp this
    rw [← hfo]; exact hnc f hf
  have hrc : Crosses l r rx.op := by rw [hrx]; exact hcx
  have heq : tpre ++ tx :: post = rpre ++ rx :: post' := by
    rw [← hstream, hretr, hr]; simp
  obtain ⟨e1, e2, _⟩ := first_cross_unique heq htnc hrnc htc hrc
  have htr : tmp = retr := by rw [htmp, hr, e1, e2]
  refine ⟨by rw [htr]; exact hphys, ?_⟩
  rw [htr, hsplit]; exact hops

end Infretis.ZeroSwap
