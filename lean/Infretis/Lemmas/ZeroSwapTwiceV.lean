/-
C11 extension: the retrace lemmas of Lemmas/ZeroSwapTwice.lean for a deterministic engine whose order parameter
is evaluated on the PHYSICAL phase point (`orbitV`, `detScriptV` of Model/ZeroSwapAlg.lean) — no evenness of the
order parameter in the velocities is needed.
-/
import Infretis.Lemmas.ZeroSwapTwice
import Infretis.Model.ZeroSwapAlg

namespace Infretis.ZeroSwap
open Infretis.Engine

/-- the engine follows a list of frames whose stored images under `κ` are consecutive steps -/
theorem orbitV_follow (D : Dyn) (κ : Cfg → Cfg) (rev : Bool) (hκ : ∀ c, physOf rev (κ c) = c) :
    ∀ (l : List Frame) (q : Frame) (n : Nat), l.length ≤ n →
      Consec (fun u w => D.step (κ u.phys) = κ w.phys) (q :: l) → (∀ f ∈ l, f.op = D.opf f.phys) →
      ∃ post, orbitV D.step D.opf D.vf rev n (κ q.phys) =
        l.map (fun f => ({ op := f.op, cfg := κ f.phys, vpot := D.vf (κ f.phys) } : GenFrame)) ++ post := by
  intro l
  induction l with
  | nil => intro q n _ _ _; exact ⟨orbitV D.step D.opf D.vf rev n (κ q.phys), by simp⟩
  | cons w l ih =>
    intro q n hn hc hop
    cases n with
    | zero => simp at hn
    | succ n =>
      have hstep : D.step (κ q.phys) = κ w.phys := hc.1
      obtain ⟨post, hpost⟩ := ih w n (by simpa using hn) hc.2 (fun f hf => hop f (by simp [hf]))
      refine ⟨post, ?_⟩
      simp only [orbitV, hstep, List.map_cons, List.cons_append]
      rw [hpost, hκ, ← hop w (by simp)]

/-- started on `q` (in direction `rev`), the engine's frame stream begins with frames that have
    the order values and phase points of `q :: l` -/
theorem retraceV (D : Dyn) (κ : Cfg → Cfg) (rev : Bool)
    (hκ : ∀ c, physOf rev (κ c) = c)
    (q : Frame) (l : List Frame) (n : Nat) (hn : l.length ≤ n) (hstart : startCfg q rev = κ q.phys)
    (hc : Consec (fun u w => D.step (κ u.phys) = κ w.phys) (q :: l)) (hop : ∀ f ∈ l, f.op = D.opf f.phys) :
    ∃ retr post, streamOf q rev (detScriptV D.step D.opf D.vf rev n (startCfg q rev)) = retr ++ post ∧
      retr.map Frame.phys = (q :: l).map Frame.phys ∧ ops retr = ops (q :: l) := by
  obtain ⟨post, hpost⟩ := orbitV_follow D κ rev hκ l q n hn hc hop
  refine ⟨{ op := q.op, cfg := startCfg q rev, vr := rev, vpot := D.vf (startCfg q rev) } ::
      l.map (fun f => ({ op := f.op, cfg := κ f.phys, vr := rev, vpot := D.vf (κ f.phys) } : Frame)),
    post.map (fun g => { op := g.op, cfg := g.cfg, vr := rev, vpot := g.vpot }), ?_, ?_, ?_⟩
  · simp only [streamOf, detScriptV, hstart, hpost, List.map_append, List.map_map, List.cons_append]
    congr 1
  · simp only [List.map_cons, phys_start, List.map_map]
    congr 1
    apply List.map_congr_left
    intro f _
    have := hκ f.phys
    unfold physOf at this
    simp only [Function.comp]
    generalize f.phys = c at this ⊢
    cases rev <;> simpa [Frame.phys] using this
  · simp [ops, List.map_map, Function.comp]

theorem orbitV_length (st : Cfg → Cfg) (opf : Cfg → Int) (vf : Cfg → Option Int) (rev : Bool) :
    ∀ (n : Nat) (c : Cfg), (orbitV st opf vf rev n c).length = n
  | 0, _ => rfl
  | n + 1, c => by simp [orbitV, orbitV_length st opf vf rev n]

/-- a `propagate` call of the deterministic engine started on `q`, where `q :: lst` is a piece of
    trajectory (in the direction of the call) whose last frame is the first one outside: the call
    returns exactly that piece (order values and phase points) -/
theorem propagate_retraceV (D : Dyn) (κ : Cfg → Cfg) (rev : Bool)
    (hκ : ∀ c, physOf rev (κ c) = c)
    {m : Nat} {l r : Int} {q : Frame} {lst lpre : List Frame} {lx : Frame} {n : Nat}
    {tmp : List Frame} {s : Bool}
    (h : propagate m l r q rev (detScriptV D.step D.opf D.vf rev n (startCfg q rev)) = some (tmp, s))
    (hlt : tmp.length < m) (hlong : m ≤ n + 1) (hn : lst.length ≤ n)
    (hstart : startCfg q rev = κ q.phys)
    (hc : Consec (fun u w => D.step (κ u.phys) = κ w.phys) (q :: lst))
    (hop : ∀ f ∈ lst, f.op = D.opf f.phys)
    (hsplit : q :: lst = lpre ++ [lx]) (hnc : ∀ g ∈ lpre, ¬ Crosses l r g.op) (hcx : Crosses l r lx.op) :
    tmp.map Frame.phys = (q :: lst).map Frame.phys ∧ ops tmp = ops (q :: lst) := by
  obtain ⟨tpre, tx, post, htmp, hstream, htnc, htc⟩ :=
    propagate_crossed h hlt (by simp [detScriptV, orbitV_length]; exact hlong)
  obtain ⟨retr, post', hretr, hphys, hops⟩ := retraceV D κ rev hκ q lst n hn hstart hc hop
  rw [hsplit] at hops
  obtain ⟨rpre, rx, hr, hrpre, hrx⟩ := split_by_ops hops
  have hrnc : ∀ g ∈ rpre, ¬ Crosses l r g.op := by
    intro g hg
    have : g.op ∈ ops rpre := List.mem_map_of_mem hg
    rw [hrpre] at this
    obtain ⟨f, hf, hfo⟩ := List.mem_map.mp this
    rw [← hfo]; exact hnc f hf
  have hrc : Crosses l r rx.op := by rw [hrx]; exact hcx
  have heq : tpre ++ tx :: post = rpre ++ rx :: post' := by
    rw [← hstream, hretr, hr]; simp
  obtain ⟨e1, e2, _⟩ := first_cross_unique heq htnc hrnc htc hrc
  have htr : tmp = retr := by rw [htmp, hr, e1, e2]
  refine ⟨by rw [htr]; exact hphys, ?_⟩
  rw [htr, hsplit]; exact hops

end Infretis.ZeroSwap
