/-
Shared model of `EngineBase.add_to_path` (enginebase.py:77-115) and `Path.append`
(path.py:158-165).  A path is the list of its frames' order values plus `maxlen`
(`none` = Python `None`).  Used by the move models (C09, C11) and the engine-loop
models (C12).  No imports.
-/
namespace Infretis.Engine

inductive PStatus
  | running        -- "Running propagate..."
  | crossedLeft    -- "Crossed left interface!"
  | crossedRight   -- "Crossed right interface!"
  | maxLenNoAdd    -- "Max. path length exceeded"   (append refused)
  | maxLen         -- "Max. path length exceeded!"  (length == maxlen after the append)
deriving Repr, DecidableEq

structure AddResult where
  status : PStatus
  success : Bool
  stop : Bool
  added : Bool
deriving Repr, DecidableEq

/-- `Path.append`: refuses iff `maxlen` is set and `length ≥ maxlen` -/
def pathAppend {α : Type} (ops : List α) (maxlen : Option Nat) (x : α) : List α × Bool :=
  match maxlen with
  | none => (ops ++ [x], true)
  | some m => if ops.length < m then (ops ++ [x], true) else (ops, false)

/-- `add_to_path(path, phase_point, left, right)` on order values.
    Returns the new frame list and the result; `none` = IndexError from `phasepoints[-1]`
    (only reachable with an empty path and `maxlen = 0`).
    The code's three `if` blocks run in this order, later ones overriding earlier ones:
    (1) append refused → stop, no success; (2) last frame `< left` / `> right` → success, stop;
    (3) `length == maxlen and not success` → no success, stop (since the repair f955162 in /repo a
        crossing detected in (2) on that same frame is no longer overridden). -/
def addToPath (ops : List Int) (maxlen : Option Nat) (x : Int) (left right : Int) :
    Option (List Int × AddResult) :=
  let (ops', add) := pathAppend ops maxlen x
  match ops'.getLast? with
  | none => none
  | some last =>
    let r0 : AddResult := { status := .running, success := false, stop := false, added := add }
    let r1 : AddResult := if add then r0 else { r0 with status := .maxLenNoAdd, success := false, stop := true }
    let r2 : AddResult :=
      if last < left then { r1 with status := .crossedLeft, success := true, stop := true }
      else if last > right then { r1 with status := .crossedRight, success := true, stop := true }
      else r1
    let r3 : AddResult :=
      if maxlen = some ops'.length ∧ r2.success = false then
        { r2 with status := .maxLen, success := false, stop := true }
      else r2
    some (ops', r3)

/-- feed a stream of order values (what the MD program produces, in order) through
    `add_to_path` until it says stop; returns frames, success flag and how many values were consumed.
    This is the common skeleton of every engine's `_propagate_from` loop. -/
def feed (left right : Int) (maxlen : Option Nat) : List Int → List Int → Nat → Option (List Int × Bool × Nat)
  | ops, [], k => some (ops, false, k)          -- the program ended without a stop (engine-specific handling)
  | ops, x :: t, k =>
    match addToPath ops maxlen x left right with
    | none => none
    | some (ops', r) => if r.stop then some (ops', r.success, k + 1) else feed left right maxlen ops' t (k + 1)

end Infretis.Engine
