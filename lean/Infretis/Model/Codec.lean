/-
C19 (part "codec"): the decimal fixed-point text codecs of infretis.

Mirrors, branch by branch:
  infretis/classes/engines/gromacs.py     read_gromos96_file, write_gromos96_file,
                                          GromacsEngine._reverse_velocities
                                          (`_extract_frame` g96→g96 is `shutil.copyfile`: identity on bytes)
  infretis/classes/engines/engineparts.py get_box_from_header, read_txt_snapshots, read_xyz_file,
                                          write_xyz_trajectory, convert_snapshot
  infretis/classes/engines/cp2k.py        CP2KEngine._extract_frame, _read_configuration,
                                          _reverse_velocities

Text is `List Char` (ASCII assumed; Python reads UTF-8, the tie only feeds ASCII).

Numbers.  A Python float that is written with `'{:W.Pf}'` appears in the file as a correctly
rounded decimal with P fractional digits and a sign (Python floats have a signed zero and
`-1 * vel` turns `0.0` into `-0.0`, printed as `-0.000000000`).  The model therefore carries a
number as the sign-magnitude fixed-point value it is printed as: `Dec.neg`, `Dec.mag` with value
`± mag · 10^-prec`.  The rounding float → decimal (and decimal → float on reading) is outside the
model; the tie feeds floats whose correctly rounded `%.Pf` text is the given decimal.

Reader domain.  Python's `float()` / `int()` accept many more spellings (`1e5`, `+1`, `inf`, `1_0`,
fewer or more fractional digits …).  The model's `parseFixed prec` accepts exactly the writer's image
(blanks, optional `-`, digits, `.`, exactly `prec` digits) and answers `none` (→ ValueError) for
everything else; `parseCount` accepts plain digits only.  `fmtFixed` always prints the point
(Python omits it for precision 0; only precisions 9 and 4 are used by the code).
-/
import Infretis.Model.Proto
namespace Infretis.Codec

abbrev Text := List Char
abbrev Line := List Char

inductive Err | index | key | value | unbound
deriving Repr, DecidableEq

/-! ### characters, Python `strip` / `split` / line iteration -/

/-- `str.isspace` restricted to ASCII -/
def isWs (c : Char) : Bool :=
  c = ' ' || c = '\t' || c = '\n' || c = '\r' || c = '\x0b' || c = '\x0c' ||
  c = '\x1c' || c = '\x1d' || c = '\x1e' || c = '\x1f'

def lstrip (l : Line) : Line := l.dropWhile isWs
def rstrip (l : Line) : Line := (l.reverse.dropWhile isWs).reverse
/-- `str.strip()` -/
def strip (l : Line) : Line := lstrip (rstrip l)

/-- `str.split()` (whitespace runs separate tokens, no empty tokens) -/
def splitWs : List Char → List (List Char)
  | [] => []
  | c :: t =>
    if isWs c then splitWs t
    else
      match t with
      | [] => [[c]]
      | d :: _ =>
        if isWs d then [c] :: splitWs t
        else
          match splitWs t with
          | tok :: rest => (c :: tok) :: rest
          | [] => [[c]]

/-- `for line in open(f)` with universal newlines: `\n`, `\r\n` and `\r` end a line; the pieces are
    returned without their terminator (every consumer strips / rstrips the line first); no empty
    piece after a final terminator. -/
def pyLines : List Char → List Line
  | [] => []
  | c :: t =>
    if c = '\n' then [] :: pyLines t
    else if c = '\r' then
      -- `\r\n` is one terminator: the `\n` that follows produces the break
      if t.head? = some '\n' then pyLines t else [] :: pyLines t
    else
      match pyLines t with
      | [] => [[c]]
      | l :: ls => (c :: l) :: ls

/-- what a sequence of `write(f"{line}\n")` leaves in the file -/
def unlines : List Line → Text
  | [] => []
  | l :: t => l ++ '\n' :: unlines t

/-- `str.lower()` on ASCII -/
def lowerC (c : Char) : Char :=
  if 'A' ≤ c ∧ c ≤ 'Z' then Char.ofNat (c.toNat + 32) else c

/-! ### sign-magnitude fixed point numbers -/

structure Dec where
  neg : Bool
  mag : Nat
deriving Repr, DecidableEq

/-- `-1 * x`: flips the sign bit, also of zero -/
def Dec.negate (d : Dec) : Dec := ⟨!d.neg, d.mag⟩
/-- `0.0` of `np.zeros` -/
def Dec.zero : Dec := ⟨false, 0⟩

structure V3 where
  x : Dec
  y : Dec
  z : Dec
deriving Repr, DecidableEq

def V3.negate (v : V3) : V3 := ⟨v.x.negate, v.y.negate, v.z.negate⟩
def V3.zero : V3 := ⟨Dec.zero, Dec.zero, Dec.zero⟩

def digitChar (d : Nat) : Char :=
  match d with
  | 0 => '0' | 1 => '1' | 2 => '2' | 3 => '3' | 4 => '4'
  | 5 => '5' | 6 => '6' | 7 => '7' | 8 => '8' | _ => '9'

def digitVal? (c : Char) : Option Nat :=
  if c = '0' then some 0 else if c = '1' then some 1 else if c = '2' then some 2
  else if c = '3' then some 3 else if c = '4' then some 4 else if c = '5' then some 5
  else if c = '6' then some 6 else if c = '7' then some 7 else if c = '8' then some 8
  else if c = '9' then some 9 else none

def natDigitsF : Nat → Nat → List Char
  | 0, _ => []
  | f + 1, n => if n < 10 then [digitChar n] else natDigitsF f (n / 10) ++ [digitChar (n % 10)]

/-- decimal digits of a natural number, `"0"` for 0 (fuel `n+1` is always enough) -/
def natDigits (n : Nat) : List Char := natDigitsF (n + 1) n

/-- exactly `prec` digits of `m mod 10^prec`, zero padded -/
def fracDigits : Nat → Nat → List Char
  | 0, _ => []
  | p + 1, m => fracDigits p (m / 10) ++ [digitChar (m % 10)]

/-- value of a digit string (`none` if a non-digit occurs) -/
def digitsValAcc : Nat → List Char → Option Nat
  | acc, [] => some acc
  | acc, c :: t =>
    match digitVal? c with
    | some d => digitsValAcc (acc * 10 + d) t
    | none => none

def digitsVal (s : List Char) : Option Nat := digitsValAcc 0 s

/-- the unpadded text of `'{:.{prec}f}'` -/
def fmtCore (prec : Nat) (d : Dec) : List Char :=
  (if d.neg then ['-'] else []) ++ natDigits (d.mag / 10 ^ prec) ++ '.' :: fracDigits prec (d.mag % 10 ^ prec)

/-- `'{:{width}.{prec}f}'.format(x)`: left-padded with blanks, never truncated -/
def fmtFixed (width prec : Nat) (d : Dec) : List Char :=
  List.replicate (width - (fmtCore prec d).length) ' ' ++ fmtCore prec d

/-- split at the first `.` -/
def splitDot : List Char → Option (List Char × List Char)
  | [] => none
  | c :: t =>
    if c = '.' then some ([], t)
    else
      match splitDot t with
      | some (a, b) => some (c :: a, b)
      | none => none

def parseBody (prec : Nat) (neg : Bool) (body : List Char) : Option Dec :=
  match splitDot body with
  | none => none
  | some (ip, fp) =>
    if ip = [] then none
    else if fp.length ≠ prec then none
    else
      match digitsVal ip, digitsVal fp with
      | some i, some f => some ⟨neg, i * 10 ^ prec + f⟩
      | _, _ => none

def parseCore (prec : Nat) (s : List Char) : Option Dec :=
  match s with
  | [] => none
  | c :: t => if c = '-' then parseBody prec true t else parseBody prec false (c :: t)

/-- `float(s)` on the writer's image (see the header comment) -/
def parseFixed (prec : Nat) (s : List Char) : Option Dec := parseCore prec (strip s)

/-- `int(s.strip())` on plain digit strings -/
def parseCount (s : List Char) : Option Nat :=
  match strip s with
  | [] => none
  | t => digitsVal t

/-- all-or-nothing map (`[float(i) for i in …]`) -/
def parseAll (prec : Nat) : List (List Char) → Option (List Dec)
  | [] => some []
  | t :: ts =>
    match parseFixed prec t, parseAll prec ts with
    | some d, some ds => some (d :: ds)
    | _, _ => none

/-! ### GROMACS .g96 -/

inductive Sec | title | position | velocity | box | positionred | velocityred
deriving Repr, DecidableEq

def kwEND : Line := ['E', 'N', 'D']
def kwTITLE : Line := ['T', 'I', 'T', 'L', 'E']
def kwPOSITION : Line := ['P', 'O', 'S', 'I', 'T', 'I', 'O', 'N']
def kwVELOCITY : Line := ['V', 'E', 'L', 'O', 'C', 'I', 'T', 'Y']
def kwBOX : Line := ['B', 'O', 'X']
def kwPOSITIONRED : Line := kwPOSITION ++ ['R', 'E', 'D']
def kwVELOCITYRED : Line := kwVELOCITY ++ ['R', 'E', 'D']

/-- `for key in rawdata: if stripline == key` -/
def keyOf (s : Line) : Option Sec :=
  if s = kwTITLE then some .title
  else if s = kwPOSITION then some .position
  else if s = kwVELOCITY then some .velocity
  else if s = kwBOX then some .box
  else if s = kwPOSITIONRED then some .positionred
  else if s = kwVELOCITYRED then some .velocityred
  else none

/-- `rawdata` as produced by the reader: all six keys present.  After `read_gromos96_file`
    `pos` / `vel` hold the 24-column text labels, not the whole lines. -/
structure G96Raw where
  title : List Line
  pos : List Line
  vel : List Line
  box : List Line
  posred : List Line
  velred : List Line
deriving Repr, DecidableEq

def G96Raw.empty : G96Raw := ⟨[], [], [], [], [], []⟩

/-- prepend a line to a section (the collector below recurses from the front, so the lists come
    out in file order, as with `rawdata[section].append`) -/
def G96Raw.push (r : G96Raw) (s : Sec) (l : Line) : G96Raw :=
  match s with
  | .title => { r with title := l :: r.title }
  | .position => { r with pos := l :: r.pos }
  | .velocity => { r with vel := l :: r.vel }
  | .box => { r with box := l :: r.box }
  | .positionred => { r with posred := l :: r.posred }
  | .velocityred => { r with velred := l :: r.velred }

/-- first loop of `read_gromos96_file`: `END` skipped, a stripped line equal to a key switches the
    section, every other line is appended rstripped to the current section; `rawdata[""]` →
    KeyError when no section was opened yet. -/
def g96Collect : Option Sec → List Line → Except Err G96Raw
  | _, [] => .ok G96Raw.empty
  | sec, l :: rest =>
    if strip l = kwEND then g96Collect sec rest
    else
      match keyOf (strip l) with
      | some k => g96Collect (some k) rest
      | none =>
        match sec with
        | none => .error .key
        | some s =>
          match g96Collect sec rest with
          | .ok r => .ok (r.push s (rstrip l))
          | .error e => .error e

/-- `line[a : a+n]` -/
def slice (l : Line) (a n : Nat) : Line := (l.drop a).take n

/-- `[float(line[i:i+15]) for i in (o, o+15, o+30)]` -/
def g96Parse3 (o : Nat) (l : Line) : Option V3 :=
  match parseFixed 9 (slice l o 15), parseFixed 9 (slice l (o + 15) 15), parseFixed 9 (slice l (o + 30) 15) with
  | some a, some b, some c => some ⟨a, b, c⟩
  | _, _, _ => none

def g96ParseRows (o : Nat) : List Line → Except Err (List V3)
  | [] => .ok []
  | l :: ls =>
    match g96Parse3 o l with
    | none => .error .value
    | some v =>
      match g96ParseRows o ls with
      | .ok vs => .ok (v :: vs)
      | .error e => .error e

structure G96Data where
  raw : G96Raw
  xyz : List V3
  vel : List V3
  box : Option (List Dec)
deriving Repr, DecidableEq

/-- `read_gromos96_file` on the list of lines.  POSITION rows: label `line[:24]`, numbers at columns
    24/39/54; POSITIONRED rows (appended after them): label `line[:24]`, numbers at 0/15/30.
    No VELOCITY rows → zeros shaped like the positions.  Box: whitespace split of the first BOX line. -/
def readG96Lines (ls : List Line) : Except Err G96Data :=
  match g96Collect none ls with
  | .error e => .error e
  | .ok raw =>
    match g96ParseRows 24 raw.pos, g96ParseRows 0 raw.posred with
    | .error e, _ => .error e
    | .ok _, .error e => .error e
    | .ok p1, .ok p2 =>
      match g96ParseRows 24 raw.vel, g96ParseRows 0 raw.velred with
      | .error e, _ => .error e
      | .ok _, .error e => .error e
      | .ok v1, .ok v2 =>
        let ptxt := (raw.pos ++ raw.posred).map (fun l => l.take 24)
        let vtxt := (raw.vel ++ raw.velred).map (fun l => l.take 24)
        let xyz := p1 ++ p2
        let vel := if vtxt = [] then xyz.map (fun _ => V3.zero) else v1 ++ v2
        let raw' := { raw with pos := ptxt, vel := vtxt }
        match raw.box with
        | [] => .ok ⟨raw', xyz, vel, none⟩
        | b :: _ =>
          match parseAll 9 (splitWs b) with
          | none => .error .value
          | some bx => .ok ⟨raw', xyz, vel, some bx⟩

def readG96 (t : Text) : Except Err G96Data := readG96Lines (pyLines t)

/-- `_G96_FMT.format(line, *v)` without the newline -/
def g96Row (txt : Line) (v : V3) : Line :=
  txt ++ fmtFixed 15 9 v.x ++ fmtFixed 15 9 v.y ++ fmtFixed 15 9 v.z

/-- `for i, line in enumerate(raw[key]): … xyz[i]` — IndexError when the rows run out -/
def g96Rows : List Line → List V3 → Except Err (List Line)
  | [], _ => .ok []
  | _ :: _, [] => .error .index
  | t :: ts, v :: vs =>
    match g96Rows ts vs with
    | .ok r => .ok (g96Row t v :: r)
    | .error e => .error e

def fmtCat (w p : Nat) : List Dec → Line
  | [] => []
  | d :: ds => fmtFixed w p d ++ fmtCat w p ds

/-- `_G96_BOX_FMT_3` for exactly three components, else `_G96_BOX_FMT` (nine fields: IndexError if
    fewer are given, further ones are ignored by `str.format`) -/
def g96BoxLine (box : List Dec) : Except Err Line :=
  if box.length = 3 then .ok (fmtCat 15 9 box)
  else if box.length < 9 then .error .index
  else .ok (fmtCat 15 9 (box.take 9))

/-- `write_gromos96_file(filename, raw, xyz, vel, box)` as the list of written lines (all four keys
    are in `raw`).  `vel = none` → empty VELOCITY block; `box = none` → the raw BOX lines verbatim;
    `box = some b` → the formatted box once per raw BOX line.  (On an IndexError the real function
    leaves a truncated file behind; the model only reports the error.) -/
def writeG96Lines (raw : G96Raw) (xyz : List V3) (vel : Option (List V3)) (box : Option (List Dec)) :
    Except Err (List Line) :=
  match g96Rows raw.pos xyz with
  | .error e => .error e
  | .ok p =>
    match (match vel with | none => Except.ok [] | some v => g96Rows raw.vel v) with
    | .error e => .error e
    | .ok v =>
      match (match box with
             | none => Except.ok raw.box
             | some bx =>
               if raw.box = [] then Except.ok []
               else match g96BoxLine bx with
                    | .ok l => Except.ok (raw.box.map (fun _ => l))
                    | .error e => Except.error e) with
      | .error e => .error e
      | .ok b =>
        .ok ([kwTITLE] ++ raw.title ++ [kwEND, kwPOSITION] ++ p ++ [kwEND, kwVELOCITY] ++ v
              ++ [kwEND, kwBOX] ++ b ++ [kwEND])

def writeG96 (raw : G96Raw) (xyz : List V3) (vel : Option (List V3)) (box : Option (List Dec)) :
    Except Err Text :=
  match writeG96Lines raw xyz vel box with
  | .ok ls => .ok (unlines ls)
  | .error e => .error e

/-- `GromacsEngine._reverse_velocities`: read, write with `-1 * vel` and `box=None` -/
def reverseG96 (t : Text) : Except Err Text :=
  match readG96 t with
  | .error e => .error e
  | .ok d => writeG96 d.raw d.xyz (some (d.vel.map V3.negate)) none

/-! ### extended xyz -/

/-- the snapshot dict of `read_txt_snapshots`; a column key is absent iff its list is empty -/
structure Snap where
  header : Line
  box : Option (List Dec)
  names : List Line
  x : List Dec
  y : List Dec
  z : List Dec
  vx : List Dec
  vy : List Dec
  vz : List Dec
deriving Repr, DecidableEq

def kwBoxLower : Line := ['b', 'o', 'x', ':']

/-- text after the first `box:` -/
def afterBox : List Char → Option (List Char)
  | [] => none
  | c :: t => if kwBoxLower.isPrefixOf (c :: t) then some ((c :: t).drop 4) else afterBox t

/-- text before the first `box:` (all of it if there is none) -/
def upToBox : List Char → List Char
  | [] => []
  | c :: t => if kwBoxLower.isPrefixOf (c :: t) then [] else c :: upToBox t

/-- `get_box_from_header`: `low.split("box:")[1].strip().split()` → floats (4 decimals in files
    written by `write_xyz_trajectory`) -/
def getBox (header : Line) : Except Err (Option (List Dec)) :=
  match afterBox (header.map lowerC) with
  | none => .ok none
  | some r =>
    match parseAll 4 (splitWs (strip (upToBox r))) with
    | none => .error .value
    | some b => .ok (some b)

/-- `for i, (val, key) in enumerate(zip(data, data_keys))` on one atom line: token 0 is the name,
    tokens 1..6 go through `float`; missing columns are simply not appended, tokens beyond the
    seventh are never looked at. -/
def addData (s : Snap) (toks : List (List Char)) : Except Err Snap :=
  match toks with
  | [] => .ok s
  | nm :: r1 =>
    let s := { s with names := s.names ++ [nm] }
    match r1 with
    | [] => .ok s
    | t :: r2 =>
      match parseFixed 9 t with
      | none => .error .value
      | some v =>
        let s := { s with x := s.x ++ [v] }
        match r2 with
        | [] => .ok s
        | t :: r3 =>
          match parseFixed 9 t with
          | none => .error .value
          | some v =>
            let s := { s with y := s.y ++ [v] }
            match r3 with
            | [] => .ok s
            | t :: r4 =>
              match parseFixed 9 t with
              | none => .error .value
              | some v =>
                let s := { s with z := s.z ++ [v] }
                match r4 with
                | [] => .ok s
                | t :: r5 =>
                  match parseFixed 9 t with
                  | none => .error .value
                  | some v =>
                    let s := { s with vx := s.vx ++ [v] }
                    match r5 with
                    | [] => .ok s
                    | t :: r6 =>
                      match parseFixed 9 t with
                      | none => .error .value
                      | some v =>
                        let s := { s with vy := s.vy ++ [v] }
                        match r6 with
                        | [] => .ok s
                        | t :: _ =>
                          match parseFixed 9 t with
                          | none => .error .value
                          | some v => .ok { s with vz := s.vz ++ [v] }

def Snap.blank : Snap := ⟨[], none, [], [], [], [], [], [], []⟩

/-- the state machine of `read_txt_snapshots` (a generator): state = `lines_to_read`, `snapshot`
    (`none` = the empty dict `{}`), `read_header`.  Result: the snapshots yielded so far and the
    exception that ended the generator, if any (ValueError from `int` / `float`).  A trailing
    partial snapshot is yielded too; `{}` (count line at EOF) is not. -/
def xyzLoop : Nat → Option Snap → Bool → List Line → List Snap × Option Err
  | _, snap, _, [] => (snap.toList, none)
  | ltr, snap, rh, l :: rest =>
    if rh then
      match getBox (strip l) with
      | .error e => ([], some e)
      | .ok b => xyzLoop ltr (some { Snap.blank with header := strip l, box := b }) false rest
    else if ltr = 0 then
      match parseCount l with
      | none => (snap.toList, some .value)
      | some n =>
        let r := xyzLoop n none true rest
        (snap.toList ++ r.1, r.2)
    else
      -- `snap = none` cannot happen here (a header line always follows a count line)
      match addData (snap.getD Snap.blank) (splitWs (strip l)) with
      | .error e => ([], some e)
      | .ok s' => xyzLoop (ltr - 1) (some s') false rest

def readXyzLines (ls : List Line) : List Snap × Option Err := xyzLoop 0 none false ls

/-- `list(read_xyz_file(f))`, lazily: (snapshots yielded, terminating exception) -/
def readXyzFrames (t : Text) : List Snap × Option Err := readXyzLines (pyLines t)

/-- `arr[:, i] = column` of numpy: same length, or length one (broadcast), else ValueError -/
def fitCol (natom : Nat) (c : List Dec) : Except Err (List Dec) :=
  if c.length = natom then .ok c
  else match c with
    | [v] => .ok (List.replicate natom v)
    | _ => .error .value

/-- position column: KeyError when absent -/
def posCol (natom : Nat) (c : List Dec) : Except Err (List Dec) :=
  if c = [] then .error .key else fitCol natom c

/-- velocity column: zeros when absent -/
def velCol (natom : Nat) (c : List Dec) : Except Err (List Dec) :=
  if c = [] then .ok (List.replicate natom Dec.zero) else fitCol natom c

def zip3 : List Dec → List Dec → List Dec → List V3
  | a :: as, b :: bs, c :: cs => ⟨a, b, c⟩ :: zip3 as bs cs
  | _, _, _ => []

structure Conf where
  box : Option (List Dec)
  pos : List V3
  vel : List V3
  names : List Line
deriving Repr, DecidableEq

/-- `convert_snapshot` (columns are looked at in the order x, vx, y, vy, z, vz) -/
def convertSnapshot (s : Snap) : Except Err Conf :=
  if s.names = [] then .error .key
  else
    let n := s.names.length
    match posCol n s.x with
    | .error e => .error e
    | .ok x =>
    match velCol n s.vx with
    | .error e => .error e
    | .ok vx =>
    match posCol n s.y with
    | .error e => .error e
    | .ok y =>
    match velCol n s.vy with
    | .error e => .error e
    | .ok vy =>
    match posCol n s.z with
    | .error e => .error e
    | .ok z =>
    match velCol n s.vz with
    | .error e => .error e
    | .ok vz => .ok ⟨s.box, zip3 x y z, zip3 vx vy vz, s.names⟩

/-- `'{:5s}'.format(name)` -/
def padName (nm : Line) : Line := nm ++ List.replicate (5 - nm.length) ' '

/-- `_XYZ_BIG_VEL_FMT.format(name, x, y, z, vx, vy, vz)` -/
def xyzAtomLine (nm : Line) (p v : V3) : Line :=
  padName nm ++ ' ' :: fmtFixed 15 9 p.x ++ ' ' :: fmtFixed 15 9 p.y ++ ' ' :: fmtFixed 15 9 p.z
    ++ ' ' :: fmtFixed 15 9 v.x ++ ' ' :: fmtFixed 15 9 v.y ++ ' ' :: fmtFixed 15 9 v.z

/-- `for i in range(npart)` with `names[i]`, `pos[i]`, `vel[i]`: IndexError when names or
    velocities run out, surplus ones ignored -/
def xyzAtomLines : List Line → List V3 → List V3 → Except Err (List Line)
  | _, [], _ => .ok []
  | nm :: ns, p :: ps, v :: vs =>
    match xyzAtomLines ns ps vs with
    | .ok r => .ok (xyzAtomLine nm p v :: r)
    | .error e => .error e
  | _, _ :: _, _ => .error .index

/-- `" ".join(parts)` -/
def joinSp : List (List Char) → List Char
  | [] => []
  | [a] => a
  | a :: b :: t => a ++ ' ' :: joinSp (b :: t)

def intDigits (i : Int) : List Char :=
  if i < 0 then '-' :: natDigits i.natAbs else natDigits i.toNat

def kwStep : Line := ['S', 't', 'e', 'p', ':', ' ']
def kwBox : Line := ['B', 'o', 'x', ':', ' ']

/-- the header line `" ".join(["#", "Step: n"?, "Box: …"?, "\n"])` without its newline
    (note the blank before the newline) -/
def xyzHeader (box : Option (List Dec)) (step : Option Int) : Line :=
  joinSp (['#'] ::
    ((match step with | none => [] | some s => [kwStep ++ intDigits s]) ++
     (match box with | none => [] | some b => [kwBox ++ joinSp (b.map (fmtFixed 9 4))]) ++ [[]]))

/-- `write_xyz_trajectory(…)` of one frame as lines; a trajectory (append mode) is the
    concatenation of such frames -/
def writeXyzLines (names : Option (List Line)) (pos vel : List V3) (box : Option (List Dec))
    (step : Option Int) : Except Err (List Line) :=
  let nms := match names with | none => List.replicate pos.length ['X'] | some n => n
  match xyzAtomLines nms pos vel with
  | .error e => .error e
  | .ok ls => .ok (natDigits pos.length :: xyzHeader box step :: ls)

def writeXyz (names : Option (List Line)) (pos vel : List V3) (box : Option (List Dec))
    (step : Option Int) : Except Err Text :=
  match writeXyzLines names pos vel box step with
  | .ok ls => .ok (unlines ls)
  | .error e => .error e

def writeConf (c : Conf) : Except Err Text := writeXyz (some c.names) c.pos c.vel c.box none

/-- `CP2KEngine._extract_frame(traj, idx, out)` for `idx ≥ 0`: `ok (some text)` = content of
    `out_file`, `ok none` = nothing written (index beyond the last frame: only logged);
    an exception of the reader counts only if it comes before frame `idx` was yielded. -/
def extractFrame (k : Nat) (t : Text) : Except Err (Option Text) :=
  let r := readXyzFrames t
  match r.1[k]? with
  | some s =>
    match convertSnapshot s with
    | .error e => .error e
    | .ok c =>
      match writeConf c with
      | .ok o => .ok (some o)
      | .error e => .error e
  | none =>
    match r.2 with
    | some e => .error e
    | none => .ok none

/-- `CP2KEngine._read_configuration`: the first snapshot; no snapshot at all → UnboundLocalError -/
def readConfiguration (t : Text) : Except Err Conf :=
  let r := readXyzFrames t
  match r.1 with
  | s :: _ => convertSnapshot s
  | [] =>
    match r.2 with
    | some e => .error e
    | none => .error .unbound

/-- `CP2KEngine._reverse_velocities` -/
def reverseXyz (t : Text) : Except Err Text :=
  match readConfiguration t with
  | .error e => .error e
  | .ok c => writeConf { c with vel := c.vel.map V3.negate }

/-! ### line protocol

Tokens: `dec` := `p<mag>` | `n<mag>` (sign-magnitude integer mantissa, so that −0 exists);
`txt` := hex of the bytes (`-` for empty); lists are length-prefixed; vectors are three `dec`
in a flat list (`list<dec>` with 3·n entries).

  g96write <vel?0/1> <box?0/1> title:list<txt> pos:list<txt> vel:list<txt> boxlines:list<txt>
           xyz:list<dec> vel:list<dec> box:list<dec>          → `ok <txt>` | `err:<kind>`
  g96read <txt>    → `ok T <list txt> P <list txt> V <list txt> B <list txt> X <list dec> W <list dec> BOX <none|list dec>` | err
  g96rev <txt>     → `ok <txt>` | err
  xyzwrite <names?0/1> names:list<txt> <box?0/1> box:list<dec> <step: none|int> pos:list<dec> vel:list<dec> → `ok <txt>` | err
  xyzread <txt>    → `F <n> {H <txt> BOX <none|list dec> N <list txt> x.. y.. z.. vx.. vy.. vz.. (6 × list dec)}ⁿ E <none|err:kind>`
  xyzconv <k> <txt>    → convert_snapshot of yielded frame k: `ok BOX <none|list> N <list txt> X <list dec> W <list dec>` | err | `noframe`
  xyzconf <txt>        → _read_configuration, same output as xyzconv
  xyzextract <k> <txt> → `ok none` | `ok <txt>` | err
  xyzrev <txt>         → `ok <txt>` | err
-/

open Infretis.Proto

def showErr : Err → String
  | .index => "err:index" | .key => "err:key" | .value => "err:value"
  | .unbound => "err:other:UnboundLocalError"

def showDec (d : Dec) : String := (if d.neg then "n" else "p") ++ toString d.mag

def parseDec? (s : String) : Option Dec :=
  match s.toList with
  | c :: t =>
    if c = 'p' then (String.ofList t).toNat?.map (fun m => ⟨false, m⟩)
    else if c = 'n' then (String.ofList t).toNat?.map (fun m => ⟨true, m⟩)
    else none
  | [] => none

def txtTok (t : List Char) : String := hexStr (String.ofList t)
def parseTxt? (s : String) : Option (List Char) := (unhexStr s).map String.toList

def toV3s : List Dec → Option (List V3)
  | [] => some []
  | a :: b :: c :: t => (toV3s t).map (fun r => ⟨a, b, c⟩ :: r)
  | _ => none

def flatV3 (vs : List V3) : List Dec := vs.flatMap (fun v => [v.x, v.y, v.z])

def showOptDecs : Option (List Dec) → String
  | none => "none"
  | some b => showList showDec b

def showTextRes : Except Err Text → String
  | .ok t => "ok " ++ txtTok t
  | .error e => showErr e

def showConf : Except Err Conf → String
  | .error e => showErr e
  | .ok c => "ok BOX " ++ showOptDecs c.box ++ " N " ++ showList txtTok c.names
      ++ " X " ++ showList showDec (flatV3 c.pos) ++ " W " ++ showList showDec (flatV3 c.vel)

def showSnap (s : Snap) : String :=
  "H " ++ txtTok s.header ++ " BOX " ++ showOptDecs s.box ++ " N " ++ showList txtTok s.names
    ++ " " ++ showList showDec s.x ++ " " ++ showList showDec s.y ++ " " ++ showList showDec s.z
    ++ " " ++ showList showDec s.vx ++ " " ++ showList showDec s.vy ++ " " ++ showList showDec s.vz

def showG96 : Except Err G96Data → String
  | .error e => showErr e
  | .ok d => "ok T " ++ showList txtTok d.raw.title ++ " P " ++ showList txtTok d.raw.pos
      ++ " V " ++ showList txtTok d.raw.vel ++ " B " ++ showList txtTok d.raw.box
      ++ " X " ++ showList showDec (flatV3 d.xyz) ++ " W " ++ showList showDec (flatV3 d.vel)
      ++ " BOX " ++ showOptDecs d.box

def handleG96Write (hv hb : String) (rest : List String) : Option String := do
  let (title, r) ← takeList parseTxt? rest
  let (ptxt, r) ← takeList parseTxt? r
  let (vtxt, r) ← takeList parseTxt? r
  let (blines, r) ← takeList parseTxt? r
  let (xyz, r) ← takeList parseDec? r
  let (vel, r) ← takeList parseDec? r
  let (box, r) ← takeList parseDec? r
  if r ≠ [] then none
  let xyz ← toV3s xyz
  let vel ← toV3s vel
  let raw : G96Raw := ⟨title, ptxt, vtxt, blines, [], []⟩
  some (showTextRes (writeG96 raw xyz (if hv = "1" then some vel else none) (if hb = "1" then some box else none)))

def handleXyzWrite (hn : String) (rest : List String) : Option String := do
  let (names, r) ← takeList parseTxt? rest
  match r with
  | hb :: r =>
    let (box, r) ← takeList parseDec? r
    match r with
    | st :: r =>
      let step : Option Int ← (if st = "none" then some none else (parseInt? st).map some)
      let (pos, r) ← takeList parseDec? r
      let (vel, r) ← takeList parseDec? r
      if r ≠ [] then none
      let pos ← toV3s pos
      let vel ← toV3s vel
      some (showTextRes (writeXyz (if hn = "1" then some names else none) pos vel
              (if hb = "1" then some box else none) step))
    | [] => none
  | [] => none

def handle (toks : List String) : Option String :=
  match toks with
  | "g96write" :: hv :: hb :: rest => some ((handleG96Write hv hb rest).getD "bad-op")
  | ["g96read", t] =>
    match parseTxt? t with
    | some t => some (showG96 (readG96 t))
    | none => some "bad-op"
  | ["g96rev", t] =>
    match parseTxt? t with
    | some t => some (showTextRes (reverseG96 t))
    | none => some "bad-op"
  | "xyzwrite" :: hn :: rest => some ((handleXyzWrite hn rest).getD "bad-op")
  | ["xyzread", t] =>
    match parseTxt? t with
    | some t =>
      let r := readXyzFrames t
      some ("F " ++ toString r.1.length ++ r.1.foldl (fun acc s => acc ++ " " ++ showSnap s) ""
            ++ " E " ++ (match r.2 with | none => "none" | some e => showErr e))
    | none => some "bad-op"
  | ["xyzconv", k, t] =>
    match parseNat? k, parseTxt? t with
    | some k, some t =>
      match (readXyzFrames t).1[k]? with
      | some s => some (showConf (convertSnapshot s))
      | none => some "noframe"
    | _, _ => some "bad-op"
  | ["xyzconf", t] =>
    match parseTxt? t with
    | some t => some (showConf (readConfiguration t))
    | none => some "bad-op"
  | ["xyzextract", k, t] =>
    match parseNat? k, parseTxt? t with
    | some k, some t =>
      match extractFrame k t with
      | .ok none => some "ok none"
      | .ok (some o) => some ("ok " ++ txtTok o)
      | .error e => some (showErr e)
    | _, _ => some "bad-op"
  | ["xyzrev", t] =>
    match parseTxt? t with
    | some t => some (showTextRes (reverseXyz t))
    | none => some "bad-op"
  | _ => none

end Infretis.Codec
