import Infretis.Model.Proto
/-
Model of the box-matrix helpers behind the codecs (C19):

  engineparts.box_matrix_to_list   (engineparts.py:167-199)   3×3 matrix → 3 or 9 numbers
  cp2k.read_box_data, A/B/C branch (cp2k.py:421-427)          cell vectors are the COLUMNS
  GromacsEngine._extract_frame     (gromacs.py:388)           TRR box matrix → g96 BOX line, full=True

The nine-component order is the GROMACS .g96 one: xx yy zz xy xz yx yz zx zy, where the first
letter is the ROW index of the matrix (`xy = m[0,1]`, `yx = m[1,0]`, `yz = m[1,2]`).
Entries are `Int` (the tie feeds integers / dyadics, exact as floats).  The code has no inverse
(there is no list→matrix function in the repo); `listToMatrix` is the specification's inverse,
used to state that the flattening loses nothing.
-/
namespace Infretis.Box

/-- a 3×3 matrix, row-major -/
structure M3 where
  xx : Int
  xy : Int
  xz : Int
  yx : Int
  yy : Int
  yz : Int
  zx : Int
  zy : Int
  zz : Int
deriving Repr, DecidableEq

def M3.toList (m : M3) : List Int := [m.xx, m.xy, m.xz, m.yx, m.yy, m.yz, m.zx, m.zy, m.zz]

/-- `np.count_nonzero(matrix)` -/
def countNonzero (m : M3) : Nat := (m.toList.filter (· ≠ 0)).length

/-- the nine components in .g96 order -/
def g96Order (m : M3) : List Int := [m.xx, m.yy, m.zz, m.xy, m.xz, m.yx, m.yz, m.zx, m.zy]

/-- `box_matrix_to_list(matrix, full)` for a matrix that is not None.  Quirk mirrored: the short
    form is chosen by the NUMBER of non-zero entries (≤ 3), not by their position. -/
def boxMatrixToList (m : M3) (full : Bool) : List Int :=
  if countNonzero m ≤ 3 && !full then [m.xx, m.yy, m.zz] else g96Order m

/-- the specification's inverse: 9 numbers in .g96 order, or 3 numbers (a diagonal box) -/
def listToMatrix : List Int → Option M3
  | [xx, yy, zz, xy, xz, yx, yz, zx, zy] => some ⟨xx, xy, xz, yx, yy, yz, zx, zy, zz⟩
  | [xx, yy, zz] => some ⟨xx, 0, 0, 0, yy, 0, 0, 0, zz⟩
  | _ => none

/-- `read_box_data` with A, B, C given: `box_matrix[:, 0] = A` etc. (vectors are columns),
    then `box_matrix_to_list(box_matrix)` with `full=False` -/
def cellABC (a b c : Int × Int × Int) : List Int :=
  boxMatrixToList ⟨a.1, b.1, c.1, a.2.1, b.2.1, c.2.1, a.2.2, b.2.2, c.2.2⟩ false

/-! ### line-protocol handler (ops `box…`) -/
open Infretis.Proto

def showInts (l : List Int) : String := showList toString l

def handle (toks : List String) : Option String :=
  match toks with
  | "boxlist" :: full :: rest =>
    match rest.mapM parseInt? with
    | some [a, b, c, d, e, f, g, h, i] =>
      some (showInts (boxMatrixToList ⟨a, b, c, d, e, f, g, h, i⟩ (full = "1")))
    | _ => some "bad-op"
  | "boxabc" :: rest =>
    match rest.mapM parseInt? with
    | some [a, b, c, d, e, f, g, h, i] => some (showInts (cellABC (a, b, c) (d, e, f) (g, h, i)))
    | _ => some "bad-op"
  | "boxmat" :: rest =>
    match rest.mapM parseInt? with
    | some l =>
      match listToMatrix l with
      | some m => some (showInts m.toList)
      | none => some "none"
    | none => some "bad-op"
  | _ => none

end Infretis.Box
