import Infretis.Model.Codec
import Infretis.Model.CodecUni
import Infretis.Model.CodecBox
import Infretis.Model.TemplateCp2k
/-
Model of the CP2K cell reader (C19):

  cp2k.read_box_data   (cp2k.py:415-464)   lines of the FORCE_EVAL->SUBSYS->CELL section → (box, periodic)
  cp2k.read_cp2k_box   (cp2k.py:492-519)   template file → read_cp2k_input → set_parents → read_box_data,
                                           with the 100 Å cube fallback when the file has no CELL section

Parsing rules mirrored as they are:
  * a line belongs to key K iff it starts with `K + " "` (one blank — a tab or a lower-case key does not match; the
    six keys are tried in the order A, B, C, ABC, ALPHA_BETA_GAMMA, PERIODIC); a later line of the same key overwrites
    the earlier one; other lines are ignored;
  * vector values are `[float(i) for i in line.split()[1:]]`, PERIODIC is `" ".join(line.split()[1:])`;
  * A, B and C all present: the vectors are the COLUMNS of the matrix (numpy broadcasts a one-number vector to the whole
    column, any other length than 1 or 3 is a ValueError), then `box_matrix_to_list(matrix)` (`Infretis.Box.cellABC`);
    else ABC and ALPHA_BETA_GAMMA: `box_vector_angles` (IndexError when one of them has fewer than three numbers);
    else ABC alone: the numbers as they are (any count); else `None`;
  * periodic = [axis in PERIODIC.upper() for X, Y, Z], default "XYZ".

Numbers.  `float()` is outside the model except on the tokens `[+-]digits[.0*]` (the integers, as the tie writes
them: exact as floats), which are carried as `Int`.  `classify` sorts every other token into `bad` (it contains an
ASCII character that no float literal contains — certainly a ValueError) and `other` (the model does not apply: result
`outside`, the tie does not compare).  Of `box_vector_angles` only the rectangular case is rational: all three
angles 90 (`math.isclose(angle, 90.0)` ⇒ cosine 0.0) gives the diagonal `l0, |l1|, |l2|` (`sqrt(l*l)`); other angles
(and `l1 = 0`, a 0/0) are `outside`.  White space of `line.split()` is Python's complete `str.isspace` set (`splitPy`:
the ASCII split after `CodecUni.normT` has shown every non-ASCII white-space character as a blank — the tokens hold no
white space, so they are the tokens of Python; until the audit of 2026-09-30 this was the ASCII split, and the line
`ABC 1<U+00A0>2 3` was a ValueError for the model and the box 1 2 3 for the code).
-/
namespace Infretis.BoxData
open Infretis.Codec (isWs splitWs joinSp digitsVal)
open Infretis.Box (M3 boxMatrixToList cellABC)

abbrev Str := List Char

/-- `line.split()` with Python's complete white-space set -/
def splitPy (line : Str) : List Str := splitWs (Infretis.CodecUni.normT line)

inductive Err | value | index | outside
deriving DecidableEq, Repr

inductive Tok
  | int (i : Int)
  | bad
  | other
deriving DecidableEq, Repr

/-- digits, then optionally a '.' followed by zeros only -/
def splitFrac : Str → Option Str
  | [] => some []
  | c :: t => if c = '.' then (if t.all (· = '0') then some [] else none) else (splitFrac t).map (c :: ·)

/-- the value of an unsigned token `digits[.0*]` -/
def parseUnsigned (s : Str) : Option Nat :=
  match splitFrac s with
  | some [] => none
  | some ds => digitsVal ds
  | none => none

/-- `float(tok)` on the integer tokens `[+-]digits[.0*]` -/
def ofNat? : Option Nat → Option Int
  | some n => some (Int.ofNat n)
  | none => none

def negNat? : Option Nat → Option Int
  | some n => some (-(Int.ofNat n))
  | none => none

def parseIntTok (s : Str) : Option Int :=
  match s with
  | '-' :: r => negNat? (parseUnsigned r)
  | '+' :: r => ofNat? (parseUnsigned r)
  | r => ofNat? (parseUnsigned r)

/-- characters that occur in some Python float literal: digits, sign, point, exponent, underscore and the letters of
    "infinity" / "nan" in either case -/
def floatAlpha (c : Char) : Bool :=
  c.isDigit || c = '+' || c = '-' || c = '.' || c = 'e' || c = 'E' || c = '_' ||
  "infinityan".toList.contains c.toLower

def classify (t : Str) : Tok :=
  match parseIntTok t with
  | some i => .int i
  | none => if t.any (fun c => c.toNat < 128 && !floatAlpha c) then .bad else .other

/-- `[float(i) for i in toks]`, left to right -/
def nums : List Str → Except Err (List Int)
  | [] => .ok []
  | t :: r =>
    match classify t with
    | .int i =>
      match nums r with
      | .ok v => .ok (i :: v)
      | .error e => .error e
    | .bad => .error .value
    | .other => .error .outside

/-- the dict `data` of `read_box_data` -/
structure BoxDict where
  a : Option (List Int) := none
  b : Option (List Int) := none
  c : Option (List Int) := none
  abc : Option (List Int) := none
  abg : Option (List Int) := none
  periodic : Option Str := none
deriving DecidableEq, Repr

inductive Key | A | B | C | ABC | ABG | PERIODIC
deriving DecidableEq, Repr

def Key.text : Key → Str
  | .A => ['A'] | .B => ['B'] | .C => ['C'] | .ABC => ['A', 'B', 'C']
  | .ABG => ['A', 'L', 'P', 'H', 'A', '_', 'B', 'E', 'T', 'A', '_', 'G', 'A', 'M', 'M', 'A']
  | .PERIODIC => ['P', 'E', 'R', 'I', 'O', 'D', 'I', 'C']

/-- `vectors + strings`, in the order of the code -/
def allKeys : List Key := [.A, .B, .C, .ABC, .ABG, .PERIODIC]

def setVec (d : BoxDict) : Key → List Int → BoxDict
  | .A, v => { d with a := some v }
  | .B, v => { d with b := some v }
  | .C, v => { d with c := some v }
  | .ABC, v => { d with abc := some v }
  | .ABG, v => { d with abg := some v }
  | .PERIODIC, _ => d

/-- `lines.startswith(f"{key} ")` -/
def startsKey (k : Key) (line : Str) : Bool := (k.text ++ [' ']).isPrefixOf line

/-- the body of `for key in vectors + strings` for one key -/
def stepKey (line : Str) (d : BoxDict) (k : Key) : Except Err BoxDict :=
  if startsKey k line then
    if k = .PERIODIC then .ok { d with periodic := some (joinSp ((splitPy line).drop 1)) }
    else
      match nums ((splitPy line).drop 1) with
      | .ok v => .ok (setVec d k v)
      | .error e => .error e
  else .ok d

def stepKeys (line : Str) : List Key → BoxDict → Except Err BoxDict
  | [], d => .ok d
  | k :: ks, d =>
    match stepKey line d k with
    | .ok d' => stepKeys line ks d'
    | .error e => .error e

/-- `for lines in box_data` -/
def collect : List Str → BoxDict → Except Err BoxDict
  | [], d => .ok d
  | l :: ls, d =>
    match stepKeys l allKeys d with
    | .ok d' => collect ls d'
    | .error e => .error e

/-- `box_matrix[:, j] = vector`: a vector of three numbers, or one number broadcast to the column -/
def column : List Int → Except Err (Int × Int × Int)
  | [x] => .ok (x, x, x)
  | [x, y, z] => .ok (x, y, z)
  | _ => .error .value

/-- the branches after the loop -/
def finish (d : BoxDict) : Except Err (Option (List Int)) :=
  match d.a, d.b, d.c with
  | some a, some b, some c =>
    match column a, column b, column c with
    | .ok a, .ok b, .ok c => .ok (some (cellABC a b c))
    | .error e, _, _ => .error e
    | _, .error e, _ => .error e
    | _, _, .error e => .error e
  | _, _, _ =>
    match d.abc, d.abg with
    | some l, some g =>
      match g with
      | g0 :: g1 :: g2 :: _ =>
        match l with
        | l0 :: l1 :: l2 :: _ =>
          if g0 = 90 ∧ g1 = 90 ∧ g2 = 90 ∧ l1 ≠ 0 then
            .ok (some (boxMatrixToList ⟨l0, 0, 0, 0, (l1.natAbs : Int), 0, 0, 0, (l2.natAbs : Int)⟩ false))
          else .error .outside
        | _ => .error .index
      | _ => .error .index
    | some l, none => .ok (some l)
    | none, _ => .ok none

def upperC (c : Char) : Char := c.toUpper

/-- `[axis in data.get("PERIODIC", "XYZ").upper() for axis in ["X", "Y", "Z"]]` -/
def periodicFlags (p : Option Str) : Bool × Bool × Bool :=
  let s := (p.getD "XYZ".toList).map upperC
  (s.contains 'X', s.contains 'Y', s.contains 'Z')

/-- `read_box_data(box_data)` -/
def readBoxData (lines : List Str) : Except Err (Option (List Int) × (Bool × Bool × Bool)) :=
  match collect lines {} with
  | .error e => .error e
  | .ok d =>
    match finish d with
    | .error e => .error e
    | .ok box => .ok (box, periodicFlags d.periodic)

/-! ### `read_cp2k_box`: from the template file -/

inductive BoxResult
  /-- `read_box_data` answered -/
  | cell (box : Option (List Int)) (periodic : Bool × Bool × Bool)
  /-- no FORCE_EVAL->SUBSYS->CELL in the file: the 3×3 matrix `diag(100, 100, 100)` and periodic in all directions
      (a MATRIX, not the flat list the other branch returns) -/
  | fallback
deriving DecidableEq, Repr

inductive FileErr
  | read (e : Infretis.Cp2k.Err)
  | box (e : Err)
deriving DecidableEq, Repr

def cellKey : Str := "FORCE_EVAL->SUBSYS->CELL".toList

/-- `read_cp2k_box(inputfile)` on the file content -/
def readCp2kBox (text : Str) : Except FileErr BoxResult :=
  match Infretis.Cp2k.readText text with
  | .error e => .error (.read e)
  | .ok rs =>
    let st := rs.toSt
    match Infretis.Cp2k.dget cellKey st.ref with
    | none => .ok .fallback
    | some i =>
      match st.arena[i]? with
      | none => .ok .fallback                      -- unreachable: keys of node_ref name nodes of the arena
      | some n =>
        match readBoxData n.data with
        | .error e => .error (.box e)
        | .ok (box, p) => .ok (.cell box p)

/-! ### printing cell lines (the specification's writer: what a user / the examples put into the CELL section) -/

def intTok (i : Int) : Str := Infretis.Codec.intDigits i

/-- `KEY x y z` -/
def vecLine (k : Key) (v : List Int) : Str := k.text ++ v.flatMap (fun x => ' ' :: intTok x)

/-! ### line-protocol handler (ops `boxdata`, `cp2kbox`) -/
open Infretis.Proto

def showB (b : Bool) : String := if b then "1" else "0"

def showErr : Err → String
  | .value => "err:value" | .index => "err:index" | .outside => "outside"

def showBox (box : Option (List Int)) (p : Bool × Bool × Bool) : String :=
  (match box with
   | none => "none"
   | some l => showList toString l) ++ " P " ++ showB p.1 ++ showB p.2.1 ++ showB p.2.2

def parseLine? (t : String) : Option Str := (unhexStr t).map String.toList

def handle (toks : List String) : Option String :=
  match toks with
  | "boxdata" :: rest =>
    match takeList parseLine? rest with
    | some (ls, []) =>
      match readBoxData ls with
      | .error e => some (showErr e)
      | .ok (box, p) => some (showBox box p)
    | _ => some "bad-op"
  | ["cp2kbox", t] =>
    match parseLine? t with
    | some t =>
      match readCp2kBox t with
      | .error (.read e) => some ("read-" ++ e.show)
      | .error (.box e) => some (showErr e)
      | .ok .fallback => some "fallback"
      | .ok (.cell box p) => some (showBox box p)
    | none => some "bad-op"
  | _ => none

end Infretis.BoxData
