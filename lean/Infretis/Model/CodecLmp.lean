import Infretis.Model.Proto
/-
C19, part "lmp"/"trr": executable models of

 (A) the LAMMPS dump codec in infretis/classes/engines/lammps.py
       write_lammpstrj (32-76), read_lammpstrj (79-108), shift_boxbounds (266-282),
       LAMMPSEngine._extract_frame / _read_configuration / _reverse_velocities (579-597)
 (B) the TRR binary layout in infretis/classes/engines/gromacs.py
       read_trr_frame (949-976), read_trr_header (979-1025), read_struct_buff, is_double,
       skip_trr_data, read_trr_data, read_matrix, read_coord (1172-1321), swap_integer, swap_endian.

Numbers of a dump are carried as OPAQUE TOKENS (the text numpy's `astype(str)` produced);
`float()` / `str()` are outside the model.  Decoding of IEEE reals of a TRR file is outside the
model as well: a decoded real is the field's bytes normalised to big-endian order.
Only core Lean + Infretis.Model.Proto are imported (compiled into the native driver).
-/
namespace Infretis.Lmp

/-! ## (A) LAMMPS dump -/

/-- a real number as numpy printed it: optional leading '-' and the rest of the token.
    `vel *= -1.0` toggles the sign (0.0 ↦ -0.0, -0.0 ↦ 0.0). -/
structure Num where
  neg : Bool
  body : String
deriving Repr, DecidableEq

def Num.negate (x : Num) : Num := { x with neg := !x.neg }

def Num.render (x : Num) : String := (if x.neg then "-" else "") ++ x.body

/-- one whitespace separated token of a dump line -/
inductive Tok
  | int (i : Int)      -- integer literal (ids, types, counts): `astype(int).astype(str)`
  | num (x : Num)      -- real literal (opaque)
  | word (s : String)  -- anything else (header words; genfromtxt turns them into nan)
deriving Repr, DecidableEq

/-- a line of the file = its tokens (`genfromtxt` splits on whitespace) -/
abbrev Line := List Tok

/-- one row of (id_type | pos | vel) as handed to `write_lammpstrj`.
    Scope of the model: `id_type`, `pos`, `vel` have the same number of rows and `id_type`
    has exactly two columns (always so for arrays coming from `read_lammpstrj`). -/
structure Atom where
  id : Int
  typ : Int
  pos : List Num
  vel : List Num
deriving Repr, DecidableEq

structure Conf where
  atoms : List Atom
  box : Option (List (List Num))
deriving Repr, DecidableEq

/-- error kinds: ValueError, IndexError, and `scope` = the model declines (token kinds it
    cannot interpret: non-integer id/type, non-real coordinates, squeezed 1-D box). -/
inductive Err | value | index | scope
deriving Repr, DecidableEq

/-- the five fixed header lines; `n = pos.shape[0]` -/
def headLines (n : Nat) : List Line :=
  [[.word "ITEM:", .word "TIMESTEP"],
   [.int 0],
   [.word "ITEM:", .word "NUMBER", .word "OF", .word "ATOMS"],
   [.int n],
   [.word "ITEM:", .word "BOX", .word "BOUNDS", .word "pp", .word "pp", .word "pp"]]

def atomsHead : Line :=
  [.word "ITEM:", .word "ATOMS", .word "id", .word "type", .word "x", .word "y", .word "z",
   .word "vx", .word "vy", .word "vz"]

def atomLine (a : Atom) : Line :=
  .int a.id :: .int a.typ :: (a.pos.map Tok.num ++ a.vel.map Tok.num)

/-- `if box is not None: for box_vector in box: ...` — no box, no box lines -/
def boxLines : Option (List (List Num)) → List Line
  | none => []
  | some b => b.map (fun r => r.map Tok.num)

/-- `write_lammpstrj` (one call): the lines it writes -/
def writeFrame (c : Conf) : List Line :=
  headLines c.atoms.length ++ (boxLines c.box ++ (atomsHead :: c.atoms.map atomLine))

/-- `append=True` for every frame after the first: the file is the concatenation -/
def writeFrames (cs : List Conf) : List Line := (cs.map writeFrame).flatten

/-- the row loop of `np.genfromtxt` after the first values fixed the column count `c`:
    rows with another column count are invalid (→ ValueError at the end), the loop stops
    once `max_rows` valid rows are there. -/
def scanRows (c : Nat) : Nat → List Line → Except Err (List Line)
  | 0, _ => .ok []
  | _, [] => .ok []
  | k + 1, l :: t =>
    if l.length = c then
      match scanRows c k t with
      | .ok r => .ok (l :: r)
      | .error e => .error e
    else .error .value

/-- `np.genfromtxt(infile, skip_header=skip, max_rows=maxRows)` on whitespace separated text:
    `range(skip)` skips raw lines (nothing for skip ≤ 0, running off the end gives an empty
    array and a warning), empty lines are ignored, `max_rows < 1` is a ValueError. -/
def genfromtxt (lines : List Line) (skip : Int) (maxRows : Nat) : Except Err (List Line) :=
  if maxRows < 1 then .error .value
  else
    match (lines.drop skip.toNat).filter (fun l => !l.isEmpty) with
    | [] => .ok []
    | first :: rest => scanRows first.length maxRows (first :: rest)

def asNums : List Tok → Option (List Num)
  | [] => some []
  | .num x :: t =>
    match asNums t with
    | some r => some (x :: r)
    | none => none
  | _ :: _ => none

/-- columns 0:2, 2:5, 5:8 of one row -/
def rowAtom : Line → Option Atom
  | .int i :: .int t :: rest =>
    match asNums (rest.take 3), asNums ((rest.drop 3).take 3) with
    | some p, some v => some { id := i, typ := t, pos := p, vel := v }
    | _, _ => none
  | _ => none

def rowsAtoms : List Line → Option (List Atom)
  | [] => some []
  | l :: t =>
    match rowAtom l, rowsAtoms t with
    | some a, some r => some (a :: r)
    | _, _ => none

def rowsNums : List Line → Option (List (List Num))
  | [] => some []
  | l :: t =>
    match asNums l, rowsNums t with
    | some a, some r => some (a :: r)
    | _, _ => none

/-- `posvel[np.argsort(posvel[:, 0])]` as a stable insertion sort (numpy's default sort is
    not stable in general: the theorems are stated for distinct ids, where every sorting
    algorithm returns the same order — `lmp_sorted_perm_unique`). -/
def insertAtom (a : Atom) : List Atom → List Atom
  | [] => [a]
  | b :: t => if a.id ≤ b.id then a :: b :: t else b :: insertAtom a t

def sortAtoms : List Atom → List Atom
  | [] => []
  | a :: t => insertAtom a (sortAtoms t)

def ncols (rows : List Line) : Nat :=
  match rows with
  | [] => 0
  | l :: _ => l.length

/-- `read_lammpstrj(infile, frame, n_atoms)`.
    The box is read first, then the table; `posvel[:, 0]` needs a 2-D table: `np.squeeze`
    makes it 1-D (or 0-D) when there is a single row or a single column, and an empty input
    gives shape (0,) → IndexError.  -/
def readFrame (lines : List Line) (frame : Int) (nAtoms : Nat) : Except Err Conf :=
  let block : Int := (nAtoms : Int) + 9
  match genfromtxt lines (block * frame + 5) 3 with
  | .error e => .error e
  | .ok boxRows =>
    match genfromtxt lines (block * frame + 9) nAtoms with
    | .error e => .error e
    | .ok rows =>
      if rows.length < 2 ∨ ncols rows < 2 then .error .index
      else if boxRows.length < 2 ∨ ncols boxRows < 2 then .error .scope
      else
        match rowsAtoms rows, rowsNums boxRows with
        | some atoms, some box => .ok { atoms := sortAtoms atoms, box := some box }
        | _, _ => .error .scope

/-- `LAMMPSEngine._extract_frame`: the lines of `out_file` -/
def extractFrame (lines : List Line) (idx : Int) (nAtoms : Nat) : Except Err (List Line) :=
  match readFrame lines idx nAtoms with
  | .ok c => .ok (writeFrame c)
  | .error e => .error e

def negVel (c : Conf) : Conf :=
  { c with atoms := c.atoms.map (fun a => { a with vel := a.vel.map Num.negate }) }

/-- `LAMMPSEngine._reverse_velocities`: `vel *= -1.0`, then written out -/
def reverseVel (lines : List Line) (nAtoms : Nat) : Except Err (List Line) :=
  match readFrame lines 0 nAtoms with
  | .ok c => .ok (writeFrame (negVel c))
  | .error e => .error e

/-- `xyz -= box[:, 0]` row by row (shapes must agree: broadcasting of length-1 axes is not modelled) -/
def subRow : List Rat → List Rat → Option (List Rat)
  | [], [] => some []
  | x :: xs, l :: ls =>
    match subRow xs ls with
    | some r => some ((x - l) :: r)
    | none => none
  | _, _ => none

def subRows (lo : List Rat) : List (List Rat) → Option (List (List Rat))
  | [] => some []
  | r :: t =>
    match subRow r lo, subRows lo t with
    | some a, some b => some (a :: b)
    | _, _ => none

def col0 : List (List Rat) → Option (List Rat)
  | [] => some []
  | (a :: _) :: t =>
    match col0 t with
    | some r => some (a :: r)
    | none => none
  | [] :: _ => none

def hiMinusLo : List (List Rat) → Option (List Rat)
  | [] => some []
  | (a :: b :: _) :: t =>
    match hiMinusLo t with
    | some r => some ((b - a) :: r)
    | none => none
  | _ :: _ => none

/-- `shift_boxbounds(xyz, box)`: `(xyz - box[:,0], box[:,1] - box[:,0])`;
    `none` = a shape the arrays do not have in a dump (IndexError / broadcast ValueError). -/
def shiftBoxbounds (xyz : List (List Rat)) (box : List (List Rat)) :
    Option (List (List Rat) × List Rat) :=
  match col0 box, hiMinusLo box with
  | some lo, some ext =>
    match subRows lo xyz with
    | some s => some (s, ext)
    | none => none
  | _, _ => none

end Infretis.Lmp

namespace Infretis.Trr

/-! ## (B) TRR binary layout -/

abbrev Bytes := List UInt8

inductive Endian | big | little
deriving Repr, DecidableEq

/-- `swap_endian` on the two values the reader ever passes ('>' / '<') -/
def swapEndian : Endian → Endian
  | .big => .little
  | .little => .big

/-- EOFError, struct.error, ValueError, ZeroDivisionError, OSError -/
inductive Err | eof | struct | value | zerodiv | os
deriving Repr, DecidableEq

/-- bytes of one field brought into big-endian order (decoding the IEEE value itself —
    `struct.unpack` — is outside the model) -/
def normBytes (e : Endian) (bs : Bytes) : Bytes :=
  match e with
  | .big => bs
  | .little => bs.reverse

def be32 : Bytes → Nat
  | [a, b, c, d] => a.toNat * 16777216 + b.toNat * 65536 + c.toNat * 256 + d.toNat
  | _ => 0

def le32 : Bytes → Nat
  | [a, b, c, d] => d.toNat * 16777216 + c.toNat * 65536 + b.toNat * 256 + a.toNat
  | _ => 0

def u32 (e : Endian) (bs : Bytes) : Nat :=
  match e with
  | .big => be32 bs
  | .little => le32 bs

/-- two's complement reading of a 32-bit pattern (`struct` code `i`) -/
def toSigned (n : Nat) : Int := if n < 2147483648 then (n : Int) else (n : Int) - 4294967296

def i32 (e : Endian) (bs : Bytes) : Int := toSigned (u32 e bs)

/-- `swap_integer`: the four masks pick the four bytes of the low 32 bits (Python's `&` on a
    negative int works on its two's complement), `|` of disjoint bit fields is `+`. -/
def swapInteger (i : Int) : Nat :=
  let u := (i % 4294967296).toNat
  (u % 256) * 16777216 + (u / 256 % 256) * 65536 + (u / 65536 % 256) * 256 + u / 16777216 % 256

/-- `read_struct_buff`: `buff = fileh.read(n)`; empty → EOFError (also when `n = 0`),
    shorter than `n` → `struct.unpack` raises struct.error.  Returns the chunk and the rest. -/
def readN (bs : Bytes) (n : Nat) : Except Err (Bytes × Bytes) :=
  if (bs.take n).isEmpty then .error .eof
  else if (bs.take n).length < n then .error .struct
  else .ok (bs.take n, bs.drop n)

def chunks (w : Nat) : Nat → Bytes → List Bytes
  | 0, _ => []
  | k + 1, bs => bs.take w :: chunks w k (bs.drop w)

/-- the 13 integers of `_HEAD_ITEMS` -/
structure Sizes where
  irSize : Int
  eSize : Int
  boxSize : Int
  virSize : Int
  presSize : Int
  topSize : Int
  symSize : Int
  xSize : Int
  vSize : Int
  fSize : Int
  natoms : Int
  step : Int
  nre : Int
deriving Repr, DecidableEq

def Sizes.ofList : List Int → Option Sizes
  | [a, b, c, d, e, f, g, h, i, j, k, l, m] => some ⟨a, b, c, d, e, f, g, h, i, j, k, l, m⟩
  | _ => none

def Sizes.toList (s : Sizes) : List Int :=
  [s.irSize, s.eSize, s.boxSize, s.virSize, s.presSize, s.topSize, s.symSize, s.xSize, s.vSize,
   s.fSize, s.natoms, s.step, s.nre]

structure Header where
  sz : Sizes
  time : Bytes       -- normalised (big-endian order), 4 or 8 bytes
  lambda : Bytes
  endian : Endian
  double : Bool
deriving Repr, DecidableEq

def versionBytes : Bytes := "GMX_trn_file".toList.map (fun c => UInt8.ofNat c.toNat)

/-- `int(a / b)`: true division then truncation toward zero (exact for 32-bit operands) -/
def pyIntDiv (a b : Int) : Except Err Int :=
  if b = 0 then .error .zerodiv else .ok (Int.tdiv a b)

/-- `is_double` -/
def isDouble (s : Sizes) : Except Err Bool :=
  let size : Except Err Int :=
    if s.boxSize ≠ 0 then pyIntDiv s.boxSize 9
    else if s.xSize ≠ 0 then pyIntDiv s.xSize (s.natoms * 3)
    else if s.vSize ≠ 0 then pyIntDiv s.vSize (s.natoms * 3)
    else if s.fSize ≠ 0 then pyIntDiv s.fSize (s.natoms * 3)
    else .ok 0
  match size with
  | .error e => .error e
  | .ok z => if z = 4 then .ok false else if z = 8 then .ok true else .error .value

/-- `read_trr_header` on the bytes from the current position on; returns the header and the
    number of bytes read (the code's second return value). -/
def readHeader (bs : Bytes) : Except Err (Header × Nat) :=
  match readN bs 4 with
  | .error e => .error e
  | .ok (m, r1) =>
    -- magic read big-endian; otherwise the byte order is swapped (a swapped magic that is not
    -- 1993 either is only logged)
    let endian := if i32 .big m = 1993 then Endian.big else swapEndian Endian.big
    match readN r1 8 with
    | .error e => .error e
    | .ok (sl, r2) =>
      let slen0 := i32 endian (sl.take 4)
      if slen0 - 1 < 0 then .error .struct      -- f"{endian}{-k}s": bad char in struct format
      else
        match readN r2 (slen0 - 1).toNat with
        | .error e => .error e
        | .ok (raw, r3) =>
          if raw.takeWhile (fun b => b != 0) ≠ versionBytes then .error .value
          else
            match readN r3 52 with
            | .error e => .error e
            | .ok (hb, r4) =>
              match Sizes.ofList ((chunks 4 13 hb).map (i32 endian)) with
              | none => .error .struct
              | some s =>
                match isDouble s with
                | .error e => .error e
                | .ok dbl =>
                  let w := if dbl then 8 else 4
                  match readN r4 (2 * w) with
                  | .error e => .error e
                  | .ok (tl, _) =>
                    .ok ({ sz := s, time := normBytes endian (tl.take w),
                           lambda := normBytes endian (tl.drop w), endian := endian, double := dbl },
                         4 + 8 + (slen0 - 1).toNat + 52 + 2 * w)

structure Data where
  box : Option (List Bytes)
  vir : Option (List Bytes)
  pres : Option (List Bytes)
  x : Option (List Bytes)
  v : Option (List Bytes)
  f : Option (List Bytes)
deriving Repr, DecidableEq

/-- `struct` format `{endian}{count}f|d` read in one go: `count` fields of `w` bytes -/
def readReals (e : Endian) (w : Nat) (count : Int) (bs : Bytes) : Except Err (List Bytes × Bytes) :=
  if count < 0 then .error .struct
  else
    match readN bs (count.toNat * w) with
    | .error er => .error er
    | .ok (chunk, rest) => .ok ((chunks w count.toNat chunk).map (normBytes e), rest)

/-- one optional section: present iff its size field is non-zero; the number of values read is
    fixed by `count`, NOT by the size field -/
def readOpt (e : Endian) (w : Nat) (size : Int) (count : Int) (bs : Bytes) :
    Except Err (Option (List Bytes) × Bytes) :=
  if size ≠ 0 then
    match readReals e w count bs with
    | .error er => .error er
    | .ok (l, rest) => .ok (some l, rest)
  else .ok (none, bs)

/-- `read_trr_data`: box, vir, pres as 3×3 matrices, x, v, f as natoms×3 tables -/
def readData (h : Header) (bs : Bytes) : Except Err (Data × Bytes) :=
  let w := if h.double then 8 else 4
  let e := h.endian
  match readOpt e w h.sz.boxSize 9 bs with
  | .error er => .error er
  | .ok (box, b1) =>
  match readOpt e w h.sz.virSize 9 b1 with
  | .error er => .error er
  | .ok (vir, b2) =>
  match readOpt e w h.sz.presSize 9 b2 with
  | .error er => .error er
  | .ok (pres, b3) =>
  match readOpt e w h.sz.xSize (h.sz.natoms * 3) b3 with
  | .error er => .error er
  | .ok (x, b4) =>
  match readOpt e w h.sz.vSize (h.sz.natoms * 3) b4 with
  | .error er => .error er
  | .ok (v, b5) =>
  match readOpt e w h.sz.fSize (h.sz.natoms * 3) b5 with
  | .error er => .error er
  | .ok (f, b6) => .ok ({ box := box, vir := vir, pres := pres, x := x, v := v, f := f }, b6)

/-- header followed by data (what `read_trr_frame` does for the frame it returns) -/
def decodeFrame (bs : Bytes) : Except Err (Header × Data × Bytes) :=
  match readHeader bs with
  | .error e => .error e
  | .ok (h, n) =>
    match readData h (bs.drop n) with
    | .error e => .error e
    | .ok (d, rest) => .ok (h, d, rest)

/-- `skip_trr_data`: the seek offset is the SUM of the six size fields -/
def skipOffset (s : Sizes) : Int :=
  s.boxSize + s.virSize + s.presSize + s.xSize + s.vSize + s.fSize

/-- the `while True` loop of `read_trr_frame`; `pos` = file position, `idx` = frame counter.
    EOFError anywhere → (None, None); other exceptions propagate; a relative seek to a negative
    position is an OSError; seeking past the end is allowed (the next read is then empty). -/
def frameLoop (all : Bytes) (index : Int) : Nat → Nat → Int → Except Err (Option (Header × Data))
  | 0, _, _ => .ok none
  | fuel + 1, pos, idx =>
    match readHeader (all.drop pos) with
    | .error .eof => .ok none
    | .error e => .error e
    | .ok (h, n) =>
      if idx = index then
        match readData h (all.drop (pos + n)) with
        | .error .eof => .ok none
        | .error e => .error e
        | .ok (d, _) => .ok (some (h, d))
      else
        let newpos : Int := (pos : Int) + (n : Int) + skipOffset h.sz
        if newpos < 0 then .error .os
        else if idx + 1 > index then .ok none
        else frameLoop all index fuel newpos.toNat (idx + 1)

/-- `read_trr_frame(filename, index)`; at most `index + 1` headers are read -/
def readTrrFrame (all : Bytes) (index : Int) : Except Err (Option (Header × Data)) :=
  frameLoop all index (index.toNat + 1) 0 0

/-! ### the writer side of the layout (specification; cross-checked by the tie against an
    independent `struct.pack` writer) -/

/-- big-endian bytes of the low 32 bits -/
def be32Bytes (i : Int) : Bytes :=
  let u := (i % 4294967296).toNat
  [UInt8.ofNat (u / 16777216 % 256), UInt8.ofNat (u / 65536 % 256), UInt8.ofNat (u / 256 % 256),
   UInt8.ofNat (u % 256)]

/-- a field given in big-endian order as it lies in a file of byte order `e` -/
def fileOrder (e : Endian) (bs : Bytes) : Bytes := normBytes e bs

def enc32 (e : Endian) (i : Int) : Bytes := fileOrder e (be32Bytes i)

/-- a logical frame: what GROMACS means to store, independent of byte order; real numbers are
    byte fields in big-endian order of the precision's width -/
structure LFrame where
  irSize : Int
  eSize : Int
  topSize : Int
  symSize : Int
  step : Int
  nre : Int
  natoms : Nat
  time : Bytes
  lambda : Bytes
  box : Option (List Bytes)
  vir : Option (List Bytes)
  pres : Option (List Bytes)
  x : Option (List Bytes)
  v : Option (List Bytes)
  f : Option (List Bytes)
deriving Repr, DecidableEq

def secSize (w : Nat) (count : Nat) : Option (List Bytes) → Int
  | none => 0
  | some _ => ((count * w : Nat) : Int)

def LFrame.sizes (w : Nat) (f : LFrame) : Sizes :=
  { irSize := f.irSize, eSize := f.eSize,
    boxSize := secSize w 9 f.box, virSize := secSize w 9 f.vir, presSize := secSize w 9 f.pres,
    topSize := f.topSize, symSize := f.symSize,
    xSize := secSize w (f.natoms * 3) f.x, vSize := secSize w (f.natoms * 3) f.v,
    fSize := secSize w (f.natoms * 3) f.f,
    natoms := (f.natoms : Int), step := f.step, nre := f.nre }

def encSec (e : Endian) : Option (List Bytes) → Bytes
  | none => []
  | some l => (l.map (fileOrder e)).flatten

def encodeHeader (e : Endian) (w : Nat) (f : LFrame) : Bytes :=
  enc32 e 1993 ++ ((enc32 e 13 ++ enc32 e 12) ++ (versionBytes ++
    ((((f.sizes w).toList.map (enc32 e)).flatten) ++ (fileOrder e f.time ++ fileOrder e f.lambda))))

def encodeData (e : Endian) (f : LFrame) : Bytes :=
  encSec e f.box ++ (encSec e f.vir ++ (encSec e f.pres ++ (encSec e f.x ++ (encSec e f.v ++ encSec e f.f))))

/-- one TRR frame in byte order `e` and precision width `w` (4 or 8) -/
def encodeFrame (e : Endian) (w : Nat) (f : LFrame) : Bytes :=
  encodeHeader e w f ++ encodeData e f

end Infretis.Trr

/-! ## line-protocol handler (ops `lmp…` and `trr…`)

Token grammar (see Proto): `int`, `rat`, `list<T> := n T₁…Tₙ`, texts/bytes hex encoded ("-" = empty).
  conf     := natoms {id typ list<numtok> list<numtok>}  box        box := "none" | nrows {list<numtok>}
  numtok   := the literal text of a number (no blanks), e.g. -0.0, 1e-05
  lmpwrite conf                        → hex text of the frame
  lmpread n_atoms frame hextext        → "ok " conf | err:value | err:index | scope
  lmpextract n_atoms idx hextext       → "ok " hextext | err…
  lmprev n_atoms hextext               → "ok " hextext | err…
  lmpshift nrows {list<rat>} nbox {list<rat>} → "ok " nrows {list<rat>} list<rat> | none
  lmpsort list<int>                    → list<int>  (ids after the reader's sort)
  trrhead hexbytes                     → "ok " 13 ints timehex lambdahex B|L 0|1 consumed | err:<kind>
  trrdecode hexbytes                   → "ok " header(as above, without consumed) 6×section restlen | err:<kind>
  trrframe index hexbytes              → none | "ok " header 6×section | err:<kind>
  trrswap int                          → nat
  trrenc B|L w ir e top sym step nre natoms timehex lambdahex 6×section → hexbytes
  section  := "none" | list<hexbytes>   (fields in big-endian order)
-/
namespace Infretis.Lmp
open Infretis.Proto

def splitOnP (p : Char → Bool) : List Char → List (List Char)
  | [] => [[]]
  | c :: t =>
    match splitOnP p t with
    | [] => [[]]
    | cur :: rest => if p c then [] :: cur :: rest else (c :: cur) :: rest

def isDigit (c : Char) : Bool := decide ('0' ≤ c) && decide (c ≤ '9')

def parseNum (cs : List Char) : Num :=
  match cs with
  | '-' :: t => { neg := true, body := String.ofList t }
  | _ => { neg := false, body := String.ofList cs }

def parseTok (cs : List Char) : Tok :=
  let body := match cs with | '-' :: t => t | _ => cs
  match body with
  | [] => .word (String.ofList cs)
  | c :: _ =>
    if body.all isDigit then
      match (String.ofList cs).toInt? with
      | some i => .int i
      | none => .word (String.ofList cs)
    else if isDigit c || c = '.' then .num (parseNum cs)
    else .word (String.ofList cs)

def isBlank (c : Char) : Bool := c = ' ' || c = '\t' || c = '\r'

/-- the lines of a text as Python's file iteration gives them, each split on whitespace -/
def parseText (s : String) : List Line :=
  let ls := splitOnP (fun c => c = '\n') s.toList
  let ls := match ls.reverse with
    | [] :: r => r.reverse      -- text ends with a newline: no further line
    | _ => ls
  ls.map (fun l => ((splitOnP isBlank l).filter (fun t => !t.isEmpty)).map parseTok)

def renderTok : Tok → String
  | .int i => toString i
  | .num x => x.render
  | .word s => s

def renderLine (l : Line) : String := " ".intercalate (l.map renderTok)

def renderText (ls : List Line) : String := String.join (ls.map (fun l => renderLine l ++ "\n"))

def takeNums (toks : List String) : Option (List Num × List String) :=
  takeList (fun s => some (parseNum s.toList)) toks

def takeAtoms : Nat → List String → Option (List Atom × List String)
  | 0, rest => some ([], rest)
  | k + 1, i :: t :: rest =>
    match parseInt? i, parseInt? t, takeNums rest with
    | some i, some t, some (p, rest) =>
      match takeNums rest with
      | some (v, rest) =>
        match takeAtoms k rest with
        | some (as, rest) => some ({ id := i, typ := t, pos := p, vel := v } :: as, rest)
        | none => none
      | none => none
    | _, _, _ => none
  | _, _ => none

def takeRows : Nat → List String → Option (List (List Num) × List String)
  | 0, rest => some ([], rest)
  | k + 1, rest =>
    match takeNums rest with
    | some (r, rest) =>
      match takeRows k rest with
      | some (rs, rest) => some (r :: rs, rest)
      | none => none
    | none => none

def takeConf (toks : List String) : Option (Conf × List String) :=
  match toks with
  | n :: rest =>
    match parseNat? n with
    | some n =>
      match takeAtoms n rest with
      | some (as, "none" :: rest) => some ({ atoms := as, box := none }, rest)
      | some (as, m :: rest) =>
        match parseNat? m with
        | some m =>
          match takeRows m rest with
          | some (b, rest) => some ({ atoms := as, box := some b }, rest)
          | none => none
        | none => none
      | _ => none
    | none => none
  | [] => none

def showNums (l : List Num) : String := showList Num.render l

def showConf (c : Conf) : String :=
  let as := c.atoms.foldl (fun acc a =>
    acc ++ " " ++ toString a.id ++ " " ++ toString a.typ ++ " " ++ showNums a.pos ++ " " ++ showNums a.vel) ""
  let b := match c.box with
    | none => "none"
    | some b => toString b.length ++ b.foldl (fun acc r => acc ++ " " ++ showNums r) ""
  toString c.atoms.length ++ as ++ " " ++ b

def showErr : Err → String
  | .value => "err:value"
  | .index => "err:index"
  | .scope => "scope"

def takeRatRows : Nat → List String → Option (List (List Rat) × List String)
  | 0, rest => some ([], rest)
  | k + 1, rest =>
    match takeList parseRat? rest with
    | some (r, rest) =>
      match takeRatRows k rest with
      | some (rs, rest) => some (r :: rs, rest)
      | none => none
    | none => none

def showRatRows (rs : List (List Rat)) : String :=
  toString rs.length ++ rs.foldl (fun acc r => acc ++ " " ++ showList showRat r) ""

def handleLmp (toks : List String) : Option String :=
  match toks with
  | "lmpwrite" :: rest =>
    match takeConf rest with
    | some (c, []) => some (hexStr (renderText (writeFrame c)))
    | _ => some "bad-op"
  | ["lmpread", n, fr, hx] =>
    match parseNat? n, parseInt? fr, unhexStr hx with
    | some n, some fr, some txt =>
      match readFrame (parseText txt) fr n with
      | .ok c => some ("ok " ++ showConf c)
      | .error e => some (showErr e)
    | _, _, _ => some "bad-op"
  | ["lmpextract", n, fr, hx] =>
    match parseNat? n, parseInt? fr, unhexStr hx with
    | some n, some fr, some txt =>
      match extractFrame (parseText txt) fr n with
      | .ok ls => some ("ok " ++ hexStr (renderText ls))
      | .error e => some (showErr e)
    | _, _, _ => some "bad-op"
  | ["lmprev", n, hx] =>
    match parseNat? n, unhexStr hx with
    | some n, some txt =>
      match reverseVel (parseText txt) n with
      | .ok ls => some ("ok " ++ hexStr (renderText ls))
      | .error e => some (showErr e)
    | _, _ => some "bad-op"
  | "lmpshift" :: n :: rest =>
    match parseNat? n with
    | some n =>
      match takeRatRows n rest with
      | some (xyz, m :: rest) =>
        match parseNat? m with
        | some m =>
          match takeRatRows m rest with
          | some (box, []) =>
            match shiftBoxbounds xyz box with
            | some (s, ext) => some ("ok " ++ showRatRows s ++ " " ++ showList showRat ext)
            | none => some "none"
          | _ => some "bad-op"
        | none => some "bad-op"
      | _ => some "bad-op"
    | none => some "bad-op"
  | "lmpsort" :: rest =>
    match takeList parseInt? rest with
    | some (ids, []) =>
      some (showList toString ((sortAtoms (ids.map (fun i => { id := i, typ := 0, pos := [], vel := [] }))).map (·.id)))
    | _ => some "bad-op"
  | _ => none

end Infretis.Lmp

namespace Infretis.Trr
open Infretis.Proto

def showErr : Err → String
  | .eof => "err:eof"
  | .struct => "err:struct"
  | .value => "err:value"
  | .zerodiv => "err:zerodiv"
  | .os => "err:os"

def showEndian : Endian → String
  | .big => "B"
  | .little => "L"

def showHeader (h : Header) : String :=
  " ".intercalate (h.sz.toList.map toString) ++ " " ++ hexBytes h.time ++ " " ++ hexBytes h.lambda ++ " "
    ++ showEndian h.endian ++ " " ++ (if h.double then "1" else "0")

def showSec : Option (List Bytes) → String
  | none => "none"
  | some l => showList hexBytes l

def showData (d : Data) : String :=
  " ".intercalate [showSec d.box, showSec d.vir, showSec d.pres, showSec d.x, showSec d.v, showSec d.f]

def takeSec (toks : List String) : Option (Option (List Bytes) × List String) :=
  match toks with
  | "none" :: rest => some (none, rest)
  | _ =>
    match takeList unhex toks with
    | some (l, rest) => some (some l, rest)
    | none => none

def takeSecs : Nat → List String → Option (List (Option (List Bytes)) × List String)
  | 0, rest => some ([], rest)
  | k + 1, rest =>
    match takeSec rest with
    | some (s, rest) =>
      match takeSecs k rest with
      | some (ss, rest) => some (s :: ss, rest)
      | none => none
    | none => none

def handleTrr (toks : List String) : Option String :=
  match toks with
  | ["trrhead", hx] =>
    match unhex hx with
    | some bs =>
      match readHeader bs with
      | .ok (h, n) => some ("ok " ++ showHeader h ++ " " ++ toString n)
      | .error e => some (showErr e)
    | none => some "bad-op"
  | ["trrdecode", hx] =>
    match unhex hx with
    | some bs =>
      match decodeFrame bs with
      | .ok (h, d, rest) => some ("ok " ++ showHeader h ++ " " ++ showData d ++ " " ++ toString rest.length)
      | .error e => some (showErr e)
    | none => some "bad-op"
  | ["trrframe", idx, hx] =>
    match parseInt? idx, unhex hx with
    | some idx, some bs =>
      match readTrrFrame bs idx with
      | .ok none => some "none"
      | .ok (some (h, d)) => some ("ok " ++ showHeader h ++ " " ++ showData d)
      | .error e => some (showErr e)
    | _, _ => some "bad-op"
  | ["trrswap", i] =>
    match parseInt? i with
    | some i => some (toString (swapInteger i))
    | none => some "bad-op"
  | "trrenc" :: e :: w :: ir :: es :: top :: sym :: step :: nre :: nat :: tm :: lam :: rest =>
    let e? : Option Endian := if e = "B" then some .big else if e = "L" then some .little else none
    match e?, parseNat? w, (([ir, es, top, sym, step, nre].mapM parseInt?) : Option (List Int)), parseNat? nat,
          unhex tm, unhex lam, takeSecs 6 rest with
    | some e, some w, some [ir, es, top, sym, step, nre], some nat, some tm, some lam,
      some ([box, vir, pres, x, v, f], []) =>
      some (hexBytes (encodeFrame e w
        { irSize := ir, eSize := es, topSize := top, symSize := sym, step := step, nre := nre, natoms := nat,
          time := tm, lambda := lam, box := box, vir := vir, pres := pres, x := x, v := v, f := f }))
    | _, _, _, _, _, _, _ => some "bad-op"
  | _ => none

end Infretis.Trr

namespace Infretis.Lmp

/-- dispatch of both parts; `none` for ops that are not ours -/
def handle (toks : List String) : Option String :=
  match handleLmp toks with
  | some r => some r
  | none => Infretis.Trr.handleTrr toks

end Infretis.Lmp
