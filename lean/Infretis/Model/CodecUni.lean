/-
C19 (part "codec", audit of 2026-09-30): the text readers with Python's COMPLETE white-space set.

`Infretis/Model/Codec.lean` (shared with C14, not edited) models `str.strip()`, `str.split()`, `float()` and `int()`
with the ten ASCII white-space characters (`Codec.isWs`).  The real readers

  engineparts.py  read_txt_snapshots / read_xyz_file / get_box_from_header / convert_snapshot
  cp2k.py         CP2KEngine._extract_frame / _read_configuration / _reverse_velocities
  gromacs.py      read_gromos96_file / GromacsEngine._reverse_velocities

open their files with encoding utf-8 and use the `str` methods, whose white space is `str.isspace`: 29 code points
(`Infretis.Template.isSpace`), 19 of them not ASCII (U+0085, U+00A0, U+1680, U+2000–200A, U+2028, U+2029, U+202F,
U+205F, U+3000).  An atom name `A<U+00A0>B` is ONE token for `Codec.splitWs` and TWO for Python.

This file is the reader model for all texts:

* `norm` replaces each of the 19 non-ASCII white-space characters by a blank and keeps every other character.
  For a `str` s:  `s.split()` = ASCII-split of `norm s` (tokens hold no white space, so they are unchanged);
  `float(s)` / `int(s)` accept/reject and value = those of `norm s` (they strip white space at both ends and accept
  none inside).  Text-mode line iteration breaks at `\n`, `\r`, `\r\n` only — none of the 19 — so it commutes with `norm`.
* xyz: every string the reader keeps is a token (atom names) or is only white-space split afterwards (the header line),
  and the writer never copies the header: `readXyzFramesU t = Codec.readXyzFrames (norm t)`.  (The kept `header`
  string is therefore the real one with non-ASCII white space shown as blanks; the tie compares it that way.)
* g96: the reader KEEPS text (title lines, the 24-column labels), so the section collector is mirrored directly with
  the complete `strip`/`rstrip` (`g96CollectU`), and only the number fields (`float(line[i:i+15])`, the split BOX line)
  go through `norm`.

On a text without any of the 19 characters `norm` is the identity and the collectors coincide
(`Lemmas/CodecUni.lean`: `readXyzFramesU_plain`, `readG96U_plain`), which carries the round-trip theorems of
`Lemmas/CodecFixed.lean` over to these readers under the exact guard "atom names / labels / title lines contain no
Python white space beyond the ASCII blanks the old guards already speak about".
-/
import Infretis.Model.Codec
import Infretis.Model.Template
namespace Infretis.CodecUni
open Infretis.Codec

/-- Python's `str.isspace` (complete set) -/
def pySpace (c : Char) : Bool := Infretis.Template.isSpace c

/-- one of the 19 white-space characters that are not ASCII -/
def exotic (c : Char) : Bool := pySpace c && !isWs c

/-- show a non-ASCII white-space character as a blank -/
def norm (c : Char) : Char := if exotic c then ' ' else c

def normT (t : List Char) : List Char := t.map norm

/-! ### extended xyz -/

def readXyzFramesU (t : Text) : List Snap × Option Err := readXyzFrames (normT t)
def readConfigurationU (t : Text) : Except Err Conf := readConfiguration (normT t)
def extractFrameU (k : Nat) (t : Text) : Except Err (Option Text) := extractFrame k (normT t)
def reverseXyzU (t : Text) : Except Err Text := reverseXyz (normT t)

/-! ### .g96 -/

def lstripU (l : Line) : Line := l.dropWhile pySpace
def rstripU (l : Line) : Line := (l.reverse.dropWhile pySpace).reverse
/-- `str.strip()` -/
def stripU (l : Line) : Line := lstripU (rstripU l)

/-- first loop of `read_gromos96_file` (as `Codec.g96Collect`, with Python's complete `strip` / `rstrip`) -/
def g96CollectU : Option Sec → List Line → Except Err G96Raw
  | _, [] => .ok G96Raw.empty
  | sec, l :: rest =>
    if stripU l = kwEND then g96CollectU sec rest
    else
      match keyOf (stripU l) with
      | some k => g96CollectU (some k) rest
      | none =>
        match sec with
        | none => .error .key
        | some s =>
          match g96CollectU sec rest with
          | .ok r => .ok (r.push s (rstripU l))
          | .error e => .error e

/-- the part of `read_gromos96_file` after the section collector (copied from `Codec.readG96Lines`); `f` is applied to
    a row before its number fields are parsed (`id` = the ASCII model, `normT` = Python), the kept labels are the
    rows' own first 24 characters -/
def g96Finish (f : Line → Line) (raw : G96Raw) : Except Err G96Data :=
  match g96ParseRows 24 (raw.pos.map f), g96ParseRows 0 (raw.posred.map f) with
  | .error e, _ => .error e
  | .ok _, .error e => .error e
  | .ok p1, .ok p2 =>
    match g96ParseRows 24 (raw.vel.map f), g96ParseRows 0 (raw.velred.map f) with
    | .error e, _ => .error e
    | .ok _, .error e => .error e
    | .ok v1, .ok v2 =>
      let ptxt := (raw.pos ++ raw.posred).map (fun l => l.take 24)
      let vtxt := (raw.vel ++ raw.velred).map (fun l => l.take 24)
      let xyz := p1 ++ p2
      let vel := if vtxt = [] then xyz.map (fun _ => V3.zero) else v1 ++ v2
      let raw' := { raw with pos := ptxt, vel := vtxt }
      match raw.box with
      | [] => .ok ⟨raw', xyz, vel, none⟩
      | b :: _ =>
        match parseAll 9 (splitWs (f b)) with
        | none => .error .value
        | some bx => .ok ⟨raw', xyz, vel, some bx⟩

def readG96LinesU (ls : List Line) : Except Err G96Data :=
  match g96CollectU none ls with
  | .error e => .error e
  | .ok raw => g96Finish normT raw

/-- `read_gromos96_file` on a file content -/
def readG96U (t : Text) : Except Err G96Data := readG96LinesU (pyLines t)

/-- `GromacsEngine._reverse_velocities` -/
def reverseG96U (t : Text) : Except Err Text :=
  match readG96U t with
  | .error e => .error e
  | .ok d => writeG96 d.raw d.xyz (some (d.vel.map V3.negate)) none

/-! ### line protocol (ops `…U`; text tokens as in `Model/Template.lean`: Latin-1 hex, or `U` + six hex digits per
code point, so that every code point can be sent and answered) -/
open Infretis.Proto
open Infretis.Template (parseStr? showStr)

def showConfU : Except Err Conf → String
  | .error e => showErr e
  | .ok c => "ok BOX " ++ showOptDecs c.box ++ " N " ++ showList showStr c.names
      ++ " X " ++ showList showDec (flatV3 c.pos) ++ " W " ++ showList showDec (flatV3 c.vel)

def showSnapU (s : Snap) : String :=
  "H " ++ showStr s.header ++ " BOX " ++ showOptDecs s.box ++ " N " ++ showList showStr s.names
    ++ " " ++ showList showDec s.x ++ " " ++ showList showDec s.y ++ " " ++ showList showDec s.z
    ++ " " ++ showList showDec s.vx ++ " " ++ showList showDec s.vy ++ " " ++ showList showDec s.vz

def showG96U : Except Err G96Data → String
  | .error e => showErr e
  | .ok d => "ok T " ++ showList showStr d.raw.title ++ " P " ++ showList showStr d.raw.pos
      ++ " V " ++ showList showStr d.raw.vel ++ " B " ++ showList showStr d.raw.box
      ++ " X " ++ showList showDec (flatV3 d.xyz) ++ " W " ++ showList showDec (flatV3 d.vel)
      ++ " BOX " ++ showOptDecs d.box

def showTextU : Except Err Text → String
  | .ok t => "ok " ++ showStr t
  | .error e => showErr e

def handle (toks : List String) : Option String :=
  match toks with
  | ["xyzreadU", t] =>
    match parseStr? t with
    | some t =>
      let r := readXyzFramesU t
      some ("F " ++ toString r.1.length ++ r.1.foldl (fun acc s => acc ++ " " ++ showSnapU s) ""
            ++ " E " ++ (match r.2 with | none => "none" | some e => showErr e))
    | none => some "bad-op"
  | ["xyzconfU", t] =>
    match parseStr? t with
    | some t => some (showConfU (readConfigurationU t))
    | none => some "bad-op"
  | ["xyzextractU", k, t] =>
    match parseNat? k, parseStr? t with
    | some k, some t =>
      match extractFrameU k t with
      | .ok none => some "ok none"
      | .ok (some o) => some ("ok " ++ showStr o)
      | .error e => some (showErr e)
    | _, _ => some "bad-op"
  | ["xyzrevU", t] =>
    match parseStr? t with
    | some t => some (showTextU (reverseXyzU t))
    | none => some "bad-op"
  | ["g96readU", t] =>
    match parseStr? t with
    | some t => some (showG96U (readG96U t))
    | none => some "bad-op"
  | ["g96revU", t] =>
    match parseStr? t with
    | some t => some (showTextU (reverseG96U t))
    | none => some "bad-op"
  | _ => none

end Infretis.CodecUni
