/-
Model of the configuration handling in infretis/setup.py (C18):
  setup_config, the defaults block   (setup.py:161-182)   → `normalise`
  check_config                       (setup.py:189-265)   → `check`
  setup_config = defaults ; check                          → `setupConfig`
and of REPEX_state.initiate_ensembles (repex.py:1034-1081) → `initEnsembles`.

The model mirrors the code (as repaired by /repo commit 729bb50) branch by branch, in the
code's order, including Python truthiness (`if quantis and lambda_minus_one` skipped λ₋₁ = 0.0 until
/repo b3eda5b made it `lambda_minus_one is not False` — `checkTruthyLm1` keeps the old test;
`if not has_ens_engs` treats an empty list like an absent key; the cap tests use
`intf_cap is not False`, so a cap of 0.0 IS tested) and the one place where the code still
raises something else than TOMLConfigError on a well-formed file (KeyError on a missing
`input_path` inside the gromacs check).  Before the repair: the `n_ens < 2` test came third
(IndexError from `intf[0]` on an empty list), the cap tests were `if intf_cap and …`, there
was no wire-fencing-room loop and no test of the length / emptiness of ensemble_engines, and
the quantis default raised IndexError on an empty interface list.

a54d86e (interfaces must be numbers; an absent `shooting_moves` key reads as the empty list — in this model
the move list of such a file simply is `[]`) is modelled by the flag `Cfg.intfNumeric` and its test.
Later repairs of `check_config`: 971ccbc (`[current].size` must equal the number of interfaces) is
modelled (`sizeTest`, `Cfg.curSize`; `checkAsIs` keeps the code before it as a record); adf2044 (a
boolean `interface_cap`), d56000a (NaN in interfaces / cap / λ₋₁) and 2128e76 (a non-integer number of
workers) reject values this `Int`-typed model cannot hold — they are judged by the tie only (block T).

Interfaces, cap and λ₋₁ are only compared, so they are `Int` (the harness feeds
integer-valued floats, exact in Python).  Shooting moves are carried as wf-flags
(`true` = "wf"); only their number and — for the property — which ones are "wf" matter.
Engine tables are the top-level TOML tables that describe engines: `cls = 0` stands for
class "gromacs", `inputPath` for the (optional) key `input_path`, `other` for a code of
all remaining settings (two tables are equal as Python dicts, `input_path` popped, iff
`cls` and `other` agree).
No imports: this file is part of the compiled driver.
-/
namespace Infretis.Config

/-- exception kinds: TOMLConfigError, IndexError, KeyError -/
inductive Err | config | index | key
deriving Repr, DecidableEq

structure Engine where
  cls : Nat
  inputPath : Option Nat
  other : Nat
deriving Repr, DecidableEq

/-- `tis_set.lambda_minus_one`: key absent, `false`, or a number -/
inductive Lm1 | absent | off | val (x : Int)
deriving Repr, DecidableEq

def Lm1.isVal : Lm1 → Bool
  | .val _ => true
  | _ => false

/-- exactly the fields `check_config` and the defaults block of `setup_config` look at -/
structure Cfg where
  interfaces : List Int
  workers : Int
  moves : List Bool
  cap : Option Int
  lm1 : Lm1
  quantis : Option Bool
  ensEngines : Option (List (List String))
  engines : List (String × Engine)
  seed : Option Int
  acceptAll : Option Bool
  /-- `config["current"]["size"]`: the number of slots the restart state was written for; `none` = the
      dictionary has no `[current]` table (a raw input file before `setup_config` created one).  A `[current]`
      table without a `size` key is outside the model (the library always writes it). -/
  curSize : Option Nat := none
  /-- every interface is a TOML number (int or float, not a boolean, string or list).  When `false` the
      entries of `interfaces` only stand for their number and their order among themselves (strings sort and
      compare among themselves); the repaired `check_config` (/repo a54d86e) rejects such a list right
      after the `n_ens < 2` test, so nothing after that test ever looks at the values. -/
  intfNumeric : Bool := true
deriving Repr, DecidableEq

deriving instance DecidableEq for Except

/-! ### small Python built-ins -/

def insertSorted (a : Int) : List Int → List Int
  | [] => [a]
  | b :: t => if a ≤ b then a :: b :: t else b :: insertSorted a t

/-- `sorted(intf)` -/
def isort : List Int → List Int
  | [] => []
  | a :: t => insertSorted a (isort t)

/-- the distinct values, `set(intf)` (only its size is used) -/
def distinct : List Int → List Int
  | [] => []
  | a :: t => if a ∈ t then distinct t else a :: distinct t

/-- the `unique_engines` double loop: first occurrences, in order -/
def uniqueGo (acc : List String) : List String → List String
  | [] => acc
  | e :: t => if e ∈ acc then uniqueGo acc t else uniqueGo (acc ++ [e]) t

def uniqueEngines (ee : List (List String)) : List String := uniqueGo [] ee.flatten

/-! ### sequencing of tests -/

/-- run `a`, then `b` unless `a` raised -/
def seq (a b : Except Err Unit) : Except Err Unit :=
  match a with
  | .error e => .error e
  | .ok () => b

/-- `if cond: raise TOMLConfigError` -/
def rejectIf (cond : Bool) : Except Err Unit := if cond then .error .config else .ok ()

/-! ### check_config -/

/-- `lambda_minus_one is not False and lambda_minus_one >= intf[0]`
    (`.get("lambda_minus_one", False)`: an absent key is `False`) -/
def lm1Test : Lm1 → List Int → Except Err Unit
  | .val _, [] => .error .index
  | .val x, h :: _ => rejectIf (decide (x ≥ h))
  | _, _ => .ok ()

/-- Python truthiness of λ₋₁: `False` and `0.0` are falsy -/
def lm1Truthy : Lm1 → Bool
  | .val x => decide (x ≠ 0)
  | _ => false

/-- the two cap tests, `if intf_cap is not False and …`: only an absent cap is skipped -/
def capTest (cap : Option Int) (intf : List Int) : Except Err Unit :=
  match cap with
  | none => .ok ()
  | some x =>
    match intf.getLast?, intf.head? with
    | some last, some first => seq (rejectIf (decide (x > last))) (rejectIf (decide (x < first)))
    | _, _ => .error .index

/-- `for idx, move in enumerate(slice): if move == "wf" and intf_cap <= intf[idx]: raise`;
    `intf[idx]` on a too short list would be an IndexError (unreachable: the slice is shorter) -/
def roomLoop (x : Int) : List Int → List Bool → Except Err Unit
  | _, [] => .ok ()
  | [], _ :: _ => .error .index
  | l :: ls, m :: ms => if m && decide (x ≤ l) then .error .config else roomLoop x ls ms

/-- the wire-fencing-room test over `sh_moves[1:n_ens]` -/
def roomTest (cap : Option Int) (intf : List Int) (moves : List Bool) : Except Err Unit :=
  match cap with
  | none => .ok ()
  | some x => roomLoop x intf ((moves.drop 1).take (intf.length - 1))

/-- inner loop of the gromacs check for one gromacs engine `e1` with input path `p1` -/
def gmxInner (e1 : Engine) (p1 : Nat) : List Engine → Except Err Unit
  | [] => .ok ()
  | e2 :: t =>
    match e2.inputPath with
    | none => .error .key
    | some p2 =>
      if (e1.cls ≠ e2.cls ∨ e1.other ≠ e2.other) ∧ p1 = p2 then .error .config
      else gmxInner e1 p1 t

/-- outer loop of the gromacs check -/
def gmxOuter (all : List Engine) : List Engine → Except Err Unit
  | [] => .ok ()
  | e1 :: t =>
    if e1.cls = 0 then
      match e1.inputPath with
      | none => .error .key
      | some p1 => seq (gmxInner e1 p1 all) (gmxOuter all t)
    else gmxOuter all t

def lookupAll (tbl : List (String × Engine)) (names : List String) : List Engine :=
  names.filterMap (fun k => tbl.lookup k)

/-- first part of the engine checks: `config["simulation"]["ensemble_engines"]` must exist
    (KeyError otherwise — `setup_config` always fills it in), must have an entry per ensemble,
    no entry may be empty, and every unique name must be a table -/
def engineListTest (c : Cfg) : Except Err Unit :=
  match c.ensEngines with
  | none => .error .key
  | some ee =>
    seq (rejectIf (decide (ee.length < c.interfaces.length))) <|
    seq (rejectIf (ee.any (fun names => names.isEmpty))) <|
    rejectIf ((uniqueEngines ee).any (fun k => (c.engines.lookup k).isNone))

/-- the gromacs loop over the unique engines (all defined at this point) -/
def gromacsTest (c : Cfg) : Except Err Unit :=
  match c.ensEngines with
  | none => .error .key
  | some ee =>
    let uniq := uniqueEngines ee
    gmxOuter (lookupAll c.engines uniq) (lookupAll c.engines uniq)

/-- `current = config.get("current", {}); if "size" in current and current["size"] != n_ens: raise`
    (/repo commit 971ccbc): a restart state holds one slot per ensemble -/
def sizeTest (c : Cfg) : Except Err Unit :=
  match c.curSize with
  | none => .ok ()
  | some s => rejectIf (decide (s ≠ c.interfaces.length))

/-- everything `check_config` does before the gromacs loop, tests in the code's order
    (the `[current].size` test sits between the shooting-moves test and the cap tests) -/
def preCheck (c : Cfg) : Except Err Unit :=
  let n : Int := c.interfaces.length
  seq (rejectIf (decide (n < 2))) <|
  seq (rejectIf (!c.intfNumeric)) <|
  seq (lm1Test c.lm1 c.interfaces) <|
  seq (rejectIf (c.quantis = some true && c.lm1.isVal)) <|
  seq (rejectIf (decide (c.workers > n - 1))) <|
  seq (rejectIf (decide (isort c.interfaces ≠ c.interfaces))) <|
  seq (rejectIf (decide ((distinct c.interfaces).length ≠ c.interfaces.length))) <|
  seq (rejectIf (decide (c.interfaces.length > c.moves.length))) <|
  seq (sizeTest c) <|
  seq (capTest c.cap c.interfaces) <|
  seq (roomTest c.cap c.interfaces c.moves) <|
  engineListTest c

/-- `check_config` -/
def check (c : Cfg) : Except Err Unit := seq (preCheck c) (gromacsTest c)

/-- RECORD of the code before /repo commit b3eda5b: `if quantis and lambda_minus_one:` — the truthiness of λ₋₁,
    so quantis together with the legal value λ₋₁ = 0.0 passed (everything else as `preCheck`) -/
def preCheckTruthyLm1 (c : Cfg) : Except Err Unit :=
  let n : Int := c.interfaces.length
  seq (rejectIf (decide (n < 2))) <|
  seq (rejectIf (!c.intfNumeric)) <|
  seq (lm1Test c.lm1 c.interfaces) <|
  seq (rejectIf (c.quantis = some true && lm1Truthy c.lm1)) <|
  seq (rejectIf (decide (c.workers > n - 1))) <|
  seq (rejectIf (decide (isort c.interfaces ≠ c.interfaces))) <|
  seq (rejectIf (decide ((distinct c.interfaces).length ≠ c.interfaces.length))) <|
  seq (rejectIf (decide (c.interfaces.length > c.moves.length))) <|
  seq (sizeTest c) <|
  seq (capTest c.cap c.interfaces) <|
  seq (roomTest c.cap c.interfaces c.moves) <|
  engineListTest c

/-- `check_config` as it was before b3eda5b -/
def checkTruthyLm1 (c : Cfg) : Except Err Unit := seq (preCheckTruthyLm1 c) (gromacsTest c)

/-- RECORD of the code before /repo commit a54d86e: no test that the interfaces are numbers.  Faithful only
    where the old code's comparisons were defined: interfaces of ONE mutually comparable non-numeric type
    (strings), no `interface_cap` and no `lambda_minus_one` (a string compared with a float raised TypeError,
    which this `Int`-typed model does not hold) — the class of the recorded witness `interfaces = ["0", "1"]`. -/
def preCheckNoNumericTest (c : Cfg) : Except Err Unit :=
  let n : Int := c.interfaces.length
  seq (rejectIf (decide (n < 2))) <|
  seq (lm1Test c.lm1 c.interfaces) <|
  seq (rejectIf (c.quantis = some true && lm1Truthy c.lm1)) <|
  seq (rejectIf (decide (c.workers > n - 1))) <|
  seq (rejectIf (decide (isort c.interfaces ≠ c.interfaces))) <|
  seq (rejectIf (decide ((distinct c.interfaces).length ≠ c.interfaces.length))) <|
  seq (rejectIf (decide (c.interfaces.length > c.moves.length))) <|
  seq (sizeTest c) <|
  seq (capTest c.cap c.interfaces) <|
  seq (roomTest c.cap c.interfaces c.moves) <|
  engineListTest c

/-- `check_config` as it was before a54d86e (on the class of inputs named above) -/
def checkNoNumericTest (c : Cfg) : Except Err Unit := seq (preCheckNoNumericTest c) (gromacsTest c)

/-- RECORD of the code before /repo commit 971ccbc: the same tests without the `[current].size` test
    (a restart state written for another number of interfaces was accepted and `load_paths` then failed) -/
def preCheckAsIs (c : Cfg) : Except Err Unit :=
  let n : Int := c.interfaces.length
  seq (rejectIf (decide (n < 2))) <|
  seq (lm1Test c.lm1 c.interfaces) <|
  seq (rejectIf (c.quantis = some true && lm1Truthy c.lm1)) <|
  seq (rejectIf (decide (c.workers > n - 1))) <|
  seq (rejectIf (decide (isort c.interfaces ≠ c.interfaces))) <|
  seq (rejectIf (decide ((distinct c.interfaces).length ≠ c.interfaces.length))) <|
  seq (rejectIf (decide (c.interfaces.length > c.moves.length))) <|
  seq (capTest c.cap c.interfaces) <|
  seq (roomTest c.cap c.interfaces c.moves) <|
  engineListTest c

/-- `check_config` as it was before 971ccbc -/
def checkAsIs (c : Cfg) : Except Err Unit := seq (preCheckAsIs c) (gromacsTest c)

/-! ### the defaults block of setup_config -/

/-- `has_ens_engs = config["simulation"].get("ensemble_engines", False)` as a truth value -/
def hasEnsEngs (c : Cfg) : Bool :=
  match c.ensEngines with
  | some (_ :: _) => true
  | _ => false

def quantisOn (c : Cfg) : Bool := c.quantis = some true

/-- lines 161-182: ensemble_engines, seed, quantis, lambda_minus_one, accept_all.
    `ensemble_engines[0] = ["engine0"]` only for a non-empty interface list (so the default list
    is non-empty and nothing raises).
    Also the `[current]` table as far as `check_config` and `REPEX_state` read its size: `if "current" in
    config` keeps the table of a restart file, `else` (fresh start) creates it with
    `size = len(interfaces)` — both happen before the defaults and before `check_config`. -/
def normalise (c : Cfg) : Cfg :=
  let has := hasEnsEngs c
  let ee : List (List String) :=
    if has then (match c.ensEngines with | some ee => ee | none => [])
    else c.interfaces.map (fun _ => ["engine"])
  let ee' : List (List String) :=
    if quantisOn c && !has && !c.interfaces.isEmpty then
      (match ee with | _ :: t => ["engine0"] :: t | [] => [])
    else ee
  { c with
    ensEngines := some ee'
    seed := some (match c.seed with | some s => s | none => 0)
    quantis := some (quantisOn c)
    lm1 := (match c.lm1 with | .absent => .off | l => l)
    acceptAll := some (match c.acceptAll with | some a => a | none => false)
    curSize := some (match c.curSize with | some s => s | none => c.interfaces.length) }

/-- `setup_config` as it was before 971ccbc (defaults, then the old `check_config`) -/
def setupConfigAsIs (c : Cfg) : Except Err Cfg :=
  match checkAsIs (normalise c) with
  | .error e => .error e
  | .ok () => .ok (normalise c)

/-- `setup_config` after the file has been read: defaults, then `check_config` -/
def setupConfig (c : Cfg) : Except Err Cfg :=
  match check (normalise c) with
  | .error e => .error e
  | .ok () => .ok (normalise c)


/-! ### the two entry branches of setup_config -/

/-- what the restart branch looks at in the `[current]` table and around it: `cstep`,
    `restarted_from` (absent → −1), `simulation.steps`, and whether every active path has a
    `traj.txt` in the load directory (an external fact, hence a parameter) -/
structure Restart where
  cstep : Int
  restartedFrom : Option Int
  steps : Int
  pathsPresent : Bool
deriving Repr, DecidableEq

/-- `curr.get("cstep") == curr.get("restarted_from", -1) and curr.get("cstep") >= steps`:
    the previous restart made no step and there are no steps left -/
def Restart.finished (cur : Restart) : Bool :=
  decide (cur.cstep = (match cur.restartedFrom with | some x => x | none => -1)) &&
    decide (cur.cstep ≥ cur.steps)

/-- `setup_config` from the parsed file on: `r = some …` when the file has a `[current]` table
    (restart branch: may stop with `None`; `clean_data_file` only touches the data file),
    `none` for a fresh start (the `[current]` table and the data-file header are created).
    Both branches then run the same tail: defaults, `check_config`.  `ok none` = the function
    returned `None` (nothing starts).
    `c.curSize` is the `size` of the file's `[current]` table: `some _` exactly when `r = some _`
    (the driver builds both from the same file); the fresh branch's own table (`size = len(interfaces)`)
    is created inside `normalise`. -/
def setupFile (c : Cfg) (r : Option Restart) : Except Err (Option Cfg) :=
  let tail : Except Err (Option Cfg) :=
    match setupConfig c with
    | .error e => .error e
    | .ok c' => .ok (some c')
  match r with
  | some cur =>
    if cur.finished then .ok none
    else if !cur.pathsPresent then .ok none
    else tail
  | none => tail

/-! ### the property's predicate, executable form (proved equivalent to `Valid` in Props/C18) -/

/-- every wire-fencing ensemble `k ≥ 1` (interface `k-1`, move `k`) has room below the cap:
    `intf` = interfaces still to visit, `mv` = moves from index `k` on -/
def roomGo (x : Int) : List Int → List Bool → Bool
  | [], _ => true
  | [_], _ => true          -- the last interface belongs to no ensemble
  | _ :: _ :: _, [] => true
  | l :: l' :: t, m :: ms => (!m || decide (l < x)) && roomGo x (l' :: t) ms

def strictIncr : List Int → Bool
  | [] => true
  | [_] => true
  | a :: b :: t => decide (a < b) && strictIncr (b :: t)

def validB (c : Cfg) : Bool :=
  strictIncr c.interfaces
  && decide (2 ≤ c.interfaces.length)
  && decide (c.workers ≤ (c.interfaces.length : Int) - 1)
  && decide (c.interfaces.length ≤ c.moves.length)
  && (match c.cap, c.interfaces.head?, c.interfaces.getLast? with
      | some x, some f, some l => decide (f ≤ x) && decide (x ≤ l) && roomGo x c.interfaces c.moves.tail
      | some _, _, _ => false
      | none, _, _ => true)
  && (match c.ensEngines with
      | none => false
      | some ee => ee.all (fun names => names.all (fun e => (c.engines.lookup e).isSome)))
  && (match c.lm1, c.interfaces.head? with
      | .val x, some f => decide (x < f)
      | .val _, none => false
      | _, _ => true)
  && (match c.curSize with
      | some s => decide (s = c.interfaces.length)
      | none => true)
  && c.intfNumeric

/-! ### initiate_ensembles -/

/-- one ensemble dict: interfaces (left = none for -inf; rationals because of the midpoint),
    the move flag and the start condition ("L", "R" or both) -/
structure Ens where
  left : Option Rat
  middle : Rat
  right : Rat
  wf : Bool
  startL : Bool
  startR : Bool
deriving Repr, DecidableEq

/-- `ens_intfs`: [0-], [0+], then one per inner interface.  IndexError on an empty list. -/
def ensIntfs (intfs : List Int) (lm1 : Lm1) : Except Err (List (Option Rat × Rat × Rat)) :=
  match intfs.head?, intfs.getLast? with
  | some (f : Int), some (l : Int) =>
    let zm : Option Rat × Rat × Rat :=
      match lm1 with
      | .val x => (some (x : Rat), ((x : Rat) + (f : Rat)) / 2, (f : Rat))
      | _ => (none, (f : Rat), (f : Rat))
    let zp : Option Rat × Rat × Rat := (some (f : Rat), (f : Rat), (l : Rat))
    let inner := (intfs.drop 1).dropLast.map (fun (m : Int) => (some (f : Rat), (m : Rat), (l : Rat)))
    .ok (zm :: zp :: inner)
  | _, _ => .error .index

/-- the dict comprehension: `shooting_moves[i]` raises IndexError when the list is too short -/
def mkEns (hasLm1 : Bool) : Nat → List (Option Rat × Rat × Rat) → List Bool → Except Err (List Ens)
  | _, [], _ => .ok []
  | _, _ :: _, [] => .error .index
  | i, (a, b, r) :: t, m :: ms =>
    match mkEns hasLm1 (i + 1) t ms with
    | .error e => .error e
    | .ok es =>
      .ok ({ left := a, middle := b, right := r, wf := m,
             startL := (i != 0) || hasLm1, startR := (i == 0) } :: es)

/-- `initiate_ensembles` on a normalised configuration (`lambda_minus_one` key present;
    an absent key is a KeyError) -/
def initEnsembles (c : Cfg) : Except Err (List Ens) :=
  match c.lm1 with
  | .absent => .error .key
  | lm1 =>
    match ensIntfs c.interfaces lm1 with
    | .error e => .error e
    | .ok ei => mkEns lm1.isVal 0 ei c.moves

end Infretis.Config
