/-
Model of what `setup_internal` (setup.py:27-66) does with an accepted configuration (C18):

  REPEX_state.cap                         (repex.py:134-137)  → `stateCap`
  REPEX_state.load_paths                  (repex.py:1049-1099) → `loadPaths`
  REPEX_state.add_traj (the part load_paths uses: padding with the offset, the
      `assert valid[ens] != 0`, the row of the W matrix)         → `addTraj`, `padPlus`, `padMinus`
  setup_internal = REPEX_state ; initiate_ensembles ; load_paths ; md_items
                                                                 → `setupInternal`

`calc_cv_vector` is `Infretis.WF.cvVector` (C10's model), called exactly as `load_paths` calls it:
with the configuration's interfaces, `shooting_moves` (as wf-flags of `moves[1:]`) and
`cap = self.cap` — the value of the key `interface_cap`, `None` only when the key is absent
(a cap of 0.0 is a cap).

A path is its list of order values (doubled by the harness where half-integers occur, so `Int`).
`paths[0]` is the [0-] path, `paths[i+1]` the [i+] path.  `current.size` is the number of
interfaces (what `setup_config` writes for a fresh start and what a restart file of the library
carries), so the state has `n = size + 1` rows (`minus=True`: offset 1) and the last one is the
ghost ensemble's.
No imports outside the model: this file is part of the compiled driver.
-/
import Infretis.Model.Config
import Infretis.Model.WF
namespace Infretis.Config

/-- exception kinds of the initialisation: those of the configuration model, those of
    `calc_cv_vector` (AssertionError / IndexError / ValueError), `add_traj`'s assertion and an
    IndexError from `paths[i + 1]` -/
inductive InitErr | cfg (e : Err) | wf (e : Infretis.WF.Err) | assert | index
  /-- ValueError of `self.state[ens, :] = valid` when the weight vector is not as wide as the state -/
  | value
deriving Repr, DecidableEq

/-- `REPEX_state.cap`: `config["simulation"]["tis_set"].get("interface_cap", None)` -/
def stateCap (c : Cfg) : Option Int := c.cap

/-- `add_traj`, `ens >= 0 and self._offset != 0`: `valid = (0,) * offset + valid` (offset 1) -/
def padPlus (valid : List Nat) : List Nat := 0 :: valid

/-- `add_traj`, `ens < 0`: `valid = valid + [0] * (n - offset)` with `n - offset = size` -/
def padMinus (size : Nat) (valid : List Nat) : List Nat := valid ++ List.replicate size 0

/-- `add_traj` after the padding, `ens` already shifted by the offset:
    `assert valid[ens] != 0` (IndexError when the vector is too short), then the row -/
def addTraj (ens : Nat) (valid : List Nat) : Except InitErr (List Nat) :=
  match valid[ens]? with
  | none => .error .index
  | some 0 => .error .assert
  | some _ => .ok valid

/-- one turn of the loop `for i in range(size - 1)`: the arguments of `calc_cv_vector` in the
    code's order (`paths[i + 1]`: IndexError; `tis_set["lambda_minus_one"]`: KeyError when the key
    is absent; `cap=self.cap`), the weight vector, then `add_traj(ens=i, …)` -/
def loadPlusOne (c : Cfg) (i : Nat) (paths : List (List Int)) : Except InitErr (List Nat) :=
  match paths[i + 1]? with
  | none => .error .index
  | some ops =>
    match c.lm1 with
    | .absent => .error (.cfg .key)
    | _ =>
      match Infretis.WF.cvVector ops c.interfaces c.moves.tail (stateCap c) with
      | .error e => .error (.wf e)
      | .ok ws => addTraj (i + 1) (padPlus ws)

/-- the loop over the plus paths, `i = start, start+1, …` for `count` turns; rows in order -/
def loadPlus (c : Cfg) (paths : List (List Int)) : Nat → Nat → Except InitErr (List (List Nat))
  | _, 0 => .ok []
  | start, count + 1 =>
    match loadPlusOne c start paths with
    | .error e => .error e
    | .ok row =>
      match loadPlus c paths (start + 1) count with
      | .error e => .error e
      | .ok rows => .ok (row :: rows)

/-- `load_paths`: the plus paths first, then the [0-] path with the weight `(1.0,)`; result = the
    W matrix of the state (row 0 = [0-], row i+1 = [i+], last row = the ghost ensemble, zeros). -/
def loadPaths (c : Cfg) (paths : List (List Int)) : Except InitErr (List (List Nat)) :=
  let size := c.interfaces.length
  match loadPlus c paths 0 (size - 1) with
  | .error e => .error e
  | .ok rows =>
    match paths[0]? with
    | none => .error .index
    | some _ =>
      match addTraj 0 (padMinus size [1]) with
      | .error e => .error e
      | .ok r0 => .ok (r0 :: rows ++ [List.replicate (size + 1) 0])

/-! ### the same loop for a state of `size + 1` rows, `size = config["current"]["size"]`

`REPEX_state.__init__` sizes the state with `n = current.size + 1`, `load_paths` loops over `size - 1` plus
paths, and `add_traj` writes the padded weight vector into a row of width `n`: numpy raises ValueError
("could not broadcast input array") when the vector — one entry per interface plus the offset — has another
width (a vector of width 1 would be broadcast; the padded vectors here have at least 2 entries).  The
definitions above are the case `size = len(interfaces)`, where that test cannot fire
(`loadPathsW_eq_loadPaths` in Props/C18). -/

/-- `add_traj` on a state of width `n`: `assert valid[ens] != 0` (IndexError first), `self._trajs[ens] = traj`
    (IndexError when `ens ≥ n`), then `self.state[ens, :] = valid` (ValueError unless the widths agree) -/
def addTrajW (n : Nat) (ens : Nat) (valid : List Nat) : Except InitErr (List Nat) :=
  match valid[ens]? with
  | none => .error .index
  | some 0 => .error .assert
  | some _ =>
    if n ≤ ens then .error .index
    else if valid.length = n then .ok valid
    else .error .value

/-- one turn of the loop of `load_paths` for a state written for `size` interfaces -/
def loadPlusOneW (c : Cfg) (size : Nat) (i : Nat) (paths : List (List Int)) : Except InitErr (List Nat) :=
  match paths[i + 1]? with
  | none => .error .index
  | some ops =>
    match c.lm1 with
    | .absent => .error (.cfg .key)
    | _ =>
      match Infretis.WF.cvVector ops c.interfaces c.moves.tail (stateCap c) with
      | .error e => .error (.wf e)
      | .ok ws => addTrajW (size + 1) (i + 1) (padPlus ws)

def loadPlusW (c : Cfg) (size : Nat) (paths : List (List Int)) : Nat → Nat → Except InitErr (List (List Nat))
  | _, 0 => .ok []
  | start, count + 1 =>
    match loadPlusOneW c size start paths with
    | .error e => .error e
    | .ok row =>
      match loadPlusW c size paths (start + 1) count with
      | .error e => .error e
      | .ok rows => .ok (row :: rows)

/-- `load_paths` on a state written for `size` interfaces: `for i in range(size - 1)`, then the [0-] path;
    the rows of ensembles that got no path stay zero (only the ghost row when nothing raised) -/
def loadPathsW (c : Cfg) (size : Nat) (paths : List (List Int)) : Except InitErr (List (List Nat)) :=
  match loadPlusW c size paths 0 (size - 1) with
  | .error e => .error e
  | .ok rows =>
    match paths[0]? with
    | none => .error .index
    | some _ =>
      match addTrajW (size + 1) 0 (padMinus size [1]) with
      | .error e => .error e
      | .ok r0 => .ok (r0 :: rows ++ [List.replicate (size + 1) 0])

/-- what `setup_internal` hands on: the ensembles, the W matrix of the state, `md_items["cap"]`,
    `md_items["interfaces"]`, `md_items["mc_moves"]` -/
structure InitState where
  ensembles : List Ens
  matrix : List (List Nat)
  cap : Option Int
  interfaces : List Int
  moves : List Bool
deriving Repr, DecidableEq

/-- `setup_internal` for a state that has one slot per interface: `initiate_ensembles`, `load_paths`, the
    first `md_items` (engine creation, logger and pattern header are outside the model) -/
def setupInternalAligned (c : Cfg) (paths : List (List Int)) : Except InitErr InitState :=
  match initEnsembles c with
  | .error e => .error (.cfg e)
  | .ok es =>
    match loadPaths c paths with
    | .error e => .error e
    | .ok w => .ok { ensembles := es, matrix := w, cap := stateCap c,
                     interfaces := c.interfaces, moves := c.moves }

/-- `setup_internal`: `REPEX_state(config)` reads `config["current"]["size"]` (KeyError without a `[current]`
    table) and sizes the state with it, then `initiate_ensembles`, `load_paths` on that state, the first
    `md_items`.  (`setupInternalAligned` above is the case `size = len(interfaces)`.) -/
def setupInternal (c : Cfg) (paths : List (List Int)) : Except InitErr InitState :=
  match c.curSize with
  | none => .error (.cfg .key)
  | some size =>
    match initEnsembles c with
    | .error e => .error (.cfg e)
    | .ok es =>
      match loadPathsW c size paths with
      | .error e => .error e
      | .ok w => .ok { ensembles := es, matrix := w, cap := stateCap c,
                       interfaces := c.interfaces, moves := c.moves }

/-- `setup_config` followed by `setup_internal`, the whole start-up of `bin.py`/`scheduler` up to
    the first `md_items` -/
def startUp (c : Cfg) (paths : List (List Int)) : Except InitErr InitState :=
  match setupConfig c with
  | .error e => .error (.cfg e)
  | .ok c' => setupInternal c' paths

/-- the start-up as it was before /repo commit 971ccbc: the old `check_config`, the same `setup_internal` -/
def startUpAsIs (c : Cfg) (paths : List (List Int)) : Except InitErr InitState :=
  match setupConfigAsIs c with
  | .error e => .error (.cfg e)
  | .ok c' => setupInternal c' paths

end Infretis.Config

/-! ### setup_config from the two files on (setup.py:88-186)

The parts of `setup_config` around `setupFile` (Model/Config.lean): the input file may be missing, a
restart file next to it may replace it, and a fresh start creates the `[current]` table. -/
namespace Infretis.Config

/-- a parsed TOML file: its top-level tables as (name, code of the value) — only compared for equality,
    code `0` = the empty table `{}` (what `re_config.get(key, {})` gives for a missing key) —, the validated
    fields, `output.pattern`, and what the restart branch looks at when there is a `[current]` table -/
structure TomlFile where
  sections : List (String × Nat)
  cfg : Cfg
  pattern : Bool
  current : Option Restart
  /-- the file already has the key `output.pattern_file` (a restart file of a run with `output.pattern`
      carries it: `write_toml` dumps the whole configuration) -/
  hasPatternFile : Bool := false
deriving Repr, DecidableEq

/-- `for key in config.keys(): if config[key] != re_config.get(key, {}): equal = False` -/
def sectionsEqual (inp re : List (String × Nat)) : Bool :=
  inp.all (fun kv => (match re.lookup kv.1 with | some v => v | none => 0) == kv.2)

/-- `if inp != re_inp and os.path.isfile(re_inp): … config = re_config if equal else config` -/
def chooseFile (inp : TomlFile) (samePath : Bool) (re : Option TomlFile) : TomlFile :=
  if samePath then inp
  else match re with
    | none => inp
    | some r => if sectionsEqual inp.sections r.sections then r else inp

/-- the `[current]` table of the configuration `setup_config` returns -/
structure Current where
  trajNum : Nat
  cstep : Int
  active : List Nat
  size : Nat
  restartedFrom : Option Int
deriving Repr, DecidableEq

/-- what `setup_config` returns: the normalised configuration, its `[current]` table (`none` = taken from
    the restart file as it is, with `restarted_from = cstep`), whether the data-file header was (re)written
    and whether the returned configuration has the key `output.pattern_file` (set on a fresh start with
    `output.pattern`, otherwise whatever the file carried) -/
structure SetupOut where
  cfg : Cfg
  fresh : Option Current
  restartedFrom : Option Int
  wroteHeader : Bool
  patternFile : Bool
deriving Repr, DecidableEq

/-- `setup_config(inp, re_inp)`: `inp = none` ⇔ the input file does not exist (→ `None`);
    otherwise the file choice, then the restart branch (stop with `None`, or go on with
    `restarted_from = cstep`) or the fresh branch (`[current]` created for `len(interfaces)` ensembles, header
    written, pattern file set), then defaults and `check_config` -/
def setupConfigFiles (inp : Option TomlFile) (samePath : Bool) (re : Option TomlFile) :
    Except Err (Option SetupOut) :=
  match inp with
  | none => .ok none
  | some fi =>
    let f := chooseFile fi samePath re
    match setupFile f.cfg f.current with
    | .error e => .error e
    | .ok none => .ok none
    | .ok (some c') =>
      match f.current with
      | some cur => .ok (some { cfg := c', fresh := none, restartedFrom := some cur.cstep,
                                wroteHeader := false, patternFile := f.hasPatternFile })
      | none =>
        let size := f.cfg.interfaces.length
        .ok (some { cfg := c',
                    fresh := some { trajNum := size, cstep := 0, active := List.range size, size := size,
                                    restartedFrom := none },
                    restartedFrom := none, wroteHeader := true,
                    patternFile := f.pattern || f.hasPatternFile })

/-! ### create_engines: how many instances of every engine (factory.py:62-103) -/

/-- `engine_count[engine_i] = engine_count.get(engine_i, 0) + 1` on an insertion-ordered dict -/
def bump (e : String) : List (String × Nat) → List (String × Nat)
  | [] => [(e, 1)]
  | (k, n) :: t => if k = e then (k, n + 1) :: t else (k, n) :: bump e t

/-- the first double loop of `create_engines` -/
def engineCount (ee : List (List String)) : List (String × Nat) :=
  ee.flatten.foldl (fun acc e => bump e acc) []

/-- the second loop: `n_create = min(n_engine, workers)` instances per engine name; `check_engine`
    evaluates `settings[eng_key]` (KeyError for an undefined engine) once per instance, so only when
    `n_create ≥ 1`; its verdict is only logged -/
def occGo (c : Cfg) : List (String × Nat) → Except Err (List (String × Nat))
  | [] => .ok []
  | (e, n) :: t =>
    let k := (min (n : Int) c.workers).toNat
    if decide (1 ≤ k) && (c.engines.lookup e).isNone then .error .key
    else match occGo c t with
      | .error err => .error err
      | .ok r => .ok ((e, k) :: r)

/-- `create_engines(config)[1]`: the engine occupation lists (their lengths; every entry is -1) -/
def engineOcc (c : Cfg) : Except Err (List (String × Nat)) :=
  match c.ensEngines with
  | none => .error .key
  | some ee => occGo c (engineCount ee)


end Infretis.Config
