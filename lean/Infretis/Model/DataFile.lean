import Infretis.Model.Repex
/-
C04 — what the sampler WRITES about the fractional weights, and what a restart reads back.

Mirrors (as the code is, in its order):
  write_to_pathens (repex.py)   the `frac` / `weight` column lists of one data row incl. the `----` masking
                                (`fmtCols`), the row as a line of the data file (`fmtRow`)
  write_toml       (repex.py)   `[current.frac]`: `for key in sorted(traj_data.keys())` (`fracSection`, `persistD`)
  load_paths       (repex.py)   `config["current"]["frac"].get(str(pnum), zeros)`: `Repex.restore` on the image
  clean_data_file  (setup.py)   the keep/drop rule per line (`keepLine`, `cleanLines`) and whether the file is rewritten
  treat_output's weight-relevant disk effects in the code's order: rows appended (one `open(..., "a")`), then
  `restart.toml` replaced (temp file + `os.replace`): `treatDisk`; every stop in between: `stopDisk`
  the restart's view: `restartClean` (= clean_data_file on the disk) followed by `Repex.restore`
  the counting of "steps at which the column was idle" (`idleInc`, `addCnt`, `DSys.cnt`)

A line of the data file is kept abstract at the level the code looks at it:
  `line.startswith("#")`, `line.endswith("\n")`, `line.split()[0]` (as a path number when it is the `str()` of
  one), and for rows the column tokens (`----` or a number).  Not modelled: the `length` / `max OP` columns
  (they carry no weight), the decimal text of a number (`str()` of a long double — the tie compares numerically).
No imports outside Infretis.Model.*.
-/
namespace Infretis.Repex.Data

/-! ## 1. `write_to_pathens`: the columns of one row -/

/-- one fraction / weight column as written: `----` or the `str()` of a number -/
inductive Cell
  | dash
  | num (q : Rat)
deriving Repr, DecidableEq

/-- `"----" if f0 == 0.0 else str(x)` -/
def cellOf (f0 x : Rat) : Cell := if f0 = 0 then .dash else .num x

/-- the `frac` and `weight` lists `write_to_pathens` builds for one path; `size = state.n`,
    `frac = traj_data[pn]["frac"]`, `wts = traj_data[pn]["weights"]` (un-padded).
    `frac[0]` of an empty vector is an IndexError. -/
def fmtCols (size : Nat) (frac wts : List Rat) : Except Err (List Cell × List Cell) :=
  if wts.length = 1 then
    match frac[0]?, wts[0]? with
    | some f0, some w0 =>
      .ok (cellOf f0 f0 :: List.replicate (size - 2) .dash, cellOf f0 w0 :: List.replicate (size - 2) .dash)
    | _, _ => .error .index
  else
    -- `zip(weights[:-1], frac[1:-1])`
    let pairs := List.zip wts.dropLast (frac.drop 1).dropLast
    .ok (.dash :: pairs.map (fun wf => cellOf wf.2 wf.2), .dash :: pairs.map (fun wf => cellOf wf.2 wf.1))

/-- what a reader of the data file takes a column for (`----` counts as 0) -/
def readCell : Cell → Rat
  | .dash => 0
  | .num q => q

/-! ## 2. lines of the data file, `clean_data_file` -/

/-- a line of the data file, as far as the code looks at it -/
structure DLine where
  hash : Bool                 -- line.startswith("#")
  term : Bool                 -- line.endswith("\n")
  key : Option Nat            -- line.split()[0] when it is the str() of a path number
  frac : List Cell := []      -- the fraction columns of a row
  wts : List Cell := []       -- the weight columns of a row
deriving Repr, DecidableEq

/-- the three comment lines `write_header` writes -/
def headerLines : List DLine := List.replicate 3 { hash := true, term := true, key := none }

/-- the line `write_to_pathens` writes for the table entry `(pn, frac, weights)`:
    `"\t{pn:3.0f}\t{length}\t{max_op}\t" + "\t".join(frac) + "\t" + "\t".join(weight) + "\t\n"` -/
def fmtRow (size : Nat) (r : Nat × List Rat × List Rat) : Except Err DLine :=
  match fmtCols size r.2.1 r.2.2 with
  | .error e => .error e
  | .ok (fc, wc) => .ok { hash := false, term := true, key := some r.1, frac := fc, wts := wc }

def fmtRows (size : Nat) : List (Nat × List Rat × List Rat) → Except Err (List DLine)
  | [] => .ok []
  | r :: rest =>
    match fmtRow size r with
    | .error e => .error e
    | .ok l =>
      match fmtRows size rest with
      | .error e => .error e
      | .ok ls => .ok (l :: ls)

/-- the tokens after the three leading ones are split in the middle: fractions, then weights
    (the reader of the check: `k = len(cols) // 2`) -/
def splitCols (cols : List Cell) : List Cell × List Cell :=
  (cols.take (cols.length / 2), cols.drop (cols.length / 2))

/-- `clean_data_file`: `if not line.startswith("#"): if not line.endswith("\n") or (spl and spl[0] in active): continue` -/
def keepLine (active : List Nat) (l : DLine) : Bool :=
  if !l.hash then
    if !l.term || (match l.key with | some k => active.contains k | none => false) then false else true
  else true

def cleanLines (active : List Nat) (lines : List DLine) : List DLine := lines.filter (keepLine active)

/-- `if keep != lines:` the file is rewritten (temp file + `os.replace`) -/
def cleanRewrites (active : List Nat) (lines : List DLine) : Bool := cleanLines active lines != lines

/-- the rows a reader finds: complete non-comment lines with a path number -/
def dataRows (lines : List DLine) : List (Nat × List Cell × List Cell) :=
  lines.filterMap (fun l => if !l.hash && l.term then l.key.map (fun k => (k, l.frac, l.wts)) else none)

/-- column total of the fractions the data file shows -/
def lineTotal (lines : List DLine) (c : Nat) : Rat :=
  ((dataRows lines).map (fun r => ((r.2.1.map readCell).getD c 0))).sum

/-! ## 3. `write_toml`: the `[current.frac]` table; the restart file -/

def insertKey {α : Type} (kv : Nat × α) : List (Nat × α) → List (Nat × α)
  | [] => [kv]
  | x :: rest => if kv.1 ≤ x.1 then kv :: x :: rest else x :: insertKey kv rest

/-- `for key in sorted(self.traj_data.keys()): config["current"]["frac"][str(key)] = [str(i) for i in frac]` -/
def fracSection {α : Type} (frac : List (Nat × α)) : List (Nat × α) :=
  frac.foldr insertKey []

/-- `write_toml`: `Repex.persist` with the fraction table in the order the code writes it -/
def persistD (s : St) : Image := { persist s with frac := fracSection s.frac }

/-- `config["current"]["active"]` as `clean_data_file` uses it -/
def activeKeys (im : Image) : List Nat := im.active.filterMap id

/-- the live paths' weights in the restart file: `[current.frac]` of the paths in `[current.active]` -/
def liveTotal (im : Image) (c : Nat) : Rat :=
  ((activeKeys im).map (fun pn => ((im.frac.lookup pn).getD []).getD c 0)).sum

/-! ## 4. the disk: data file + restart file; effects of one `treat_output`; stops; restart -/

structure Disk where
  lines : List DLine          -- infretis_data.txt
  img : Option Image          -- restart.toml (`none`: not written yet)
deriving Repr, DecidableEq

/-- a fresh start: `write_header`, no restart file -/
def freshDisk : Disk := { lines := headerLines, img := none }

/-- rows + live weights the two files show for column `c` -/
def diskTotal (lines : List DLine) (im : Image) (c : Nat) : Rat := lineTotal lines c + liveTotal im c

/-- the rows `write_to_pathens` appended during a `treat_output` leading from `s0` to `s2` -/
def newRows (s0 s2 : St) : List (Nat × List Rat × List Rat) := s2.rows.drop s0.rows.length

/-- the two weight-relevant disk effects of `treat_output`, in the code's order:
    the new rows are appended, then `restart.toml` is replaced by the image of the new state -/
def treatDisk (d : Disk) (s0 s2 : St) : Except Err Disk :=
  match fmtRows s2.n (newRows s0 s2) with
  | .error e => .error e
  | .ok ls => .ok { lines := d.lines ++ ls, img := some (persistD s2) }

/-- `loop()` when the step target is reached (`if self.cstep >= self.tsteps:`): `write_toml` once more —
    the restart file of the finished run; otherwise `loop()` writes nothing -/
def finishDisk (d : Disk) (s : St) : Disk :=
  if s.cstep ≥ s.tsteps then { d with img := some (persistD s) } else d

/-- where a stop falls inside these effects -/
structure Stop where
  j : Nat                          -- number of whole new lines that reached the data file
  torn : Option (Option Nat) := none   -- an unterminated piece of the next line (with the first token it shows)
  renamed : Bool := false          -- the `os.replace` of restart.toml was done (then all lines are there)
deriving Repr, DecidableEq

def tornLine (k : Option Nat) : DLine := { hash := false, term := false, key := k }

/-- the disk a stop leaves; `ls` = the step's new lines, `im'` = the image of the new state -/
def stopDisk (d : Disk) (ls : List DLine) (im' : Image) (p : Stop) : Disk :=
  if p.renamed then { lines := d.lines ++ ls, img := some im' }
  else { lines := d.lines ++ ls.take p.j ++ (match p.torn with | some k => [tornLine k] | none => []),
         img := d.img }

/-- the restart's `setup_config`: `clean_data_file` with the active list of the restart file -/
def restartClean (d : Disk) : Option (List DLine × Image) :=
  d.img.map (fun im => (cleanLines (activeKeys im) d.lines, im))

/-! ## 5. counting the steps at which a column was idle -/

/-- 1 for every idle column, 0 for every busy one (ghost included) -/
def idleInc (locks : List Bool) : List Nat := locks.map (fun b => if b then 0 else 1)

def addCnt (a b : List Nat) : List Nat := List.zipWith (· + ·) a b

/-! ## 6. the scheduler with its disk -/

/-- the first half of a `.step` event: `loop()` and the `treat_output` of the completing job;
    returns the state `treat_output` starts from and the one it leaves -/
def treatPart (y : Sys) (k : Nat) (status : Status) (newW : List (List Rat)) : Except Err (St × St) :=
  let (s1, go) := loop y.s
  if ¬ go then .error .value else
  match y.jobs[k]? with
  | none => .error .index
  | some job =>
    match treatOutput s1 job status newW (sortFuel s1) with
    | .error er => .error er
    | .ok (s2, _, _) => .ok (s1, s2)

/-- sampler + jobs in flight + the two files + the per-column count of idle recordings -/
structure DSys where
  y : Sys
  d : Disk
  cnt : List Nat
deriving Repr, DecidableEq

/-- one scheduler event with its disk effects: only a completed step touches the files
    (`prep_md_items`, `initiate` write nothing); the locks `treat_output` leaves are the locks at its
    "record weights" (the job's slots released) -/
def dStep (z : DSys) (ev : Ev) : Except Err DSys :=
  match sysStep z.y ev with
  | .error er => .error er
  | .ok y' =>
    match ev with
    | .step k status newW _ =>
      match treatPart z.y k status newW with
      | .error er => .error er
      | .ok (s1, s2) =>
        match treatDisk z.d s1 s2 with
        | .error er => .error er
        | .ok d' => .ok { y := y', d := d', cnt := addCnt z.cnt (idleInc s2.locks) }
    | _ => .ok { z with y := y' }

def dRun (z : DSys) : List Ev → Except Err DSys
  | [] => .ok z
  | ev :: rest =>
    match dStep z ev with
    | .error er => .error er
    | .ok z' => dRun z' rest

/-- a fresh start on a fresh disk -/
def freshSys (y : Sys) : DSys := { y := y, d := freshDisk, cnt := List.replicate y.s.n 0 }

/-- the restart of a stopped run: `clean_data_file`, then `REPEX_state.__init__` + `load_paths` on the
    restart file; the counts go on from `cnt` -/
def restartSys (d : Disk) (cnt : List Nat) (n workers tsteps : Nat) (occ : List (List Int))
    (ensEng : List (List Nat)) (weightOf : Nat → List Rat) : Except Err DSys :=
  match restartClean d with
  | none => .error .key                     -- no restart.toml
  | some (lines, im) =>
    match restore im n workers tsteps occ ensEng weightOf with
    | .error er => .error er
    | .ok s => .ok { y := { s := s, jobs := [] }, d := { lines := lines, img := some im }, cnt := cnt }

end Infretis.Repex.Data
