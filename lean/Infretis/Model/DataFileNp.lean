import Infretis.Model.DataFile
/-
C04 — "record weights" as numpy performs it on a fraction table that may be MALFORMED (a restart file whose
`[current.frac]` vectors do not have `n` entries: a hand-edited file; a file written for another number of
interfaces is refused by `check_config` since 971ccbc, before `load_paths`).

`Repex.addVec` is `List.zipWith`: on vectors of different length it truncates silently, whereas
`traj_data[live]["frac"] += self._last_prob[:-1][idx, :]` raises `ValueError: operands could not be broadcast
together` — AFTER the paths earlier in `live_paths()` were credited, and before anything is written
(`write_to_pathens`, `write_toml` come later in `treat_output`).  The shared model file is left as it is; this file
adds the checked loop (`recordFracChecked`, `treatOutputChecked`), which the C04 driver runs, and
`Lemmas/RepexC04Np.lean` proves that it coincides with `recordFrac` / `treatOutput` whenever it does not raise, and
on every table whose vectors have `n` entries.

The right operand is a row of the `n × n` matrix `P` with `n ≥ 2`, so numpy's broadcast of a length-1 RIGHT
operand cannot occur; a left operand of any other length (0 and 1 included) is a ValueError.
No imports outside Infretis.Model.*.
-/
namespace Infretis.Repex.Data

/-- `traj_data[pn]["frac"] += row`: KeyError without entry, ValueError on a shape mismatch, else `updFrac` -/
def updFracChecked (frac : List (Nat × List Rat)) (pn : Nat) (row : List Rat) :
    Except Err (List (Nat × List Rat)) :=
  match frac.lookup pn with
  | none => .error .key
  | some v => if v.length = row.length then updFrac frac pn row else .error .value

/-- the "record weights" loop; returns the table as the loop leaves it (partial credit) and the error raised -/
def recGoChecked (lockedPs : List (Option Nat)) (P : Infretis.Perm.Mat) (frac : List (Nat × List Rat)) :
    List (Nat × Option Nat) → List (Nat × List Rat) × Option Err
  | [] => (frac, none)
  | (idx, live) :: rest =>
    if lockedPs.contains live then recGoChecked lockedPs P frac rest else
    match live with
    | none => (frac, some .key)
    | some pn =>
      match updFracChecked frac pn (P.getD idx []) with
      | .error er => (frac, some er)
      | .ok f' => recGoChecked lockedPs P f' rest

/-- `recordFrac` with numpy's shape check: the state the loop leaves, and the error if it raised -/
def recordFracChecked (s : St) : St × Option Err :=
  let r := recGoChecked (lockedPaths s) (prob s) s.frac ((List.range (livePaths s).length).zip (livePaths s))
  ({ s with frac := r.1 }, r.2)

/-- result of `treat_output` on a possibly malformed table: done, raised before "record weights" (the per-ensemble
    loop; state not reported), raised INSIDE "record weights" (with the state the sampler object is left in: the
    job's ensembles released, partial credit, nothing written, counters not yet updated), or raised later -/
inductive TreatRes
  | done (s : St) (pnNews : List Nat) (iters : Nat)
  | early (e : Err)
  | inRecord (e : Err) (s : St)
  | late (e : Err)

/-- `treat_output(md_items)` with the checked "record weights" loop; everything else as `Repex.treatOutput` -/
def treatOutputChecked (s : St) (job : Job) (status : Status) (newW : List (List Rat)) (fuel : Nat) : TreatRes :=
  let ws := if status = .acc then newW else job.picked.map (fun _ => [])
  if ws.length ≠ job.picked.length then .early .index else
  match treatOutput.perEns status s s.trajNum (job.picked.zip ws) with
  | .error er => .early er
  | .ok (s1, tn, pnNews) =>
    match recordFracChecked s1 with
    | (sP, some er) => .inRecord er sP
    | (s2, none) =>
      match (if status = .acc then writeRows s2 job.pnumOld else .ok s2) with
      | .error er => .late er
      | .ok s3 =>
        match sortTrajstate fuel s3 with
        | .error er => .late er
        | .ok (s4, iters) => .done { s4 with trajNum := tn, cworker := job.pin } pnNews iters

/-- the `Except` view of the result (what `Repex.treatOutput` returns) -/
def TreatRes.toExcept : TreatRes → Except Err (St × List Nat × Nat)
  | .done s p i => .ok (s, p, i)
  | .early e => .error e
  | .inRecord e _ => .error e
  | .late e => .error e

end Infretis.Repex.Data
