import Infretis.Model.RepexProto
import Infretis.Model.DataFile
import Infretis.Model.DataFileNp
/-
Line protocol of the C04 driver: the replica-exchange protocol (`Repex.handle`) plus the disk of
`Model/DataFile.lean`.  `treat` runs `treatOutputChecked` (Model/DataFileNp.lean: numpy's shape check in the "record weights" loop; equal to
`treatOutput` on every well-formed table, Lemmas/RepexC04Np.lean); when the loop raises, the driver's state becomes
the one the sampler object is left in (partial credit, nothing written).
Every `treat` that succeeds also performs `treatDisk` (rows appended, restart image
replaced) and adds `idleInc` of the locks it leaves to the per-column counts.

extra ops
  datafile                       the lines of the model's data file
  image                          the restart image on the model's disk
  idle                           the per-column counts of idle recordings
  crash <j> <torn> <renamed>     the disk a stop inside the LAST treat_output leaves, after the restart's
                                 clean_data_file: kept row keys, rewrite flag, image cstep / active, totals
                                 torn: `n` none, `-` a torn piece without token, `<k>` a torn piece showing token k
  restartat <j> <torn> <renamed> make that cleaned disk the current one (the next `init` of a restarted run keeps it)
  restoreload                    `restartSys` on the stop disk chosen by `restartat` (after init/occ/enseng):
                                 clean_data_file, then `restore` of the image into the driver's state
  setimgfrac <pn> <vec>          replace the `[current.frac]` entry of path <pn> in the restart image on the model's
                                 disk (and in the stop disk chosen by `restartat`): a hand-edited / malformed file
  fmt <size> <frac> <wts>        `fmtCols` alone
  clean <active> <k> l1 … lk     `cleanLines` alone; line tokens: `#` comment, `#u` unterminated comment,
                                 `r<k>` complete line with first token str(k), `u<k>` the same unterminated,
                                 `x` / `ux` complete / unterminated line whose first token is no path number
-/
namespace Infretis.Repex.Data
open Infretis.Proto Infretis.Repex

structure Last where
  d0 : Disk                       -- disk before the treat_output
  ls : List DLine                 -- its new lines
  im : Image                      -- image of the state it leaves
  wts : List (Nat × List Rat)     -- weight vectors of all paths alive before or after it
  cnt0 : List Nat                 -- counts before it
  cnt2 : List Nat                 -- counts after it

structure D4 where
  d : DState
  disk : Disk := freshDisk
  cnt : List Nat := []
  last : Option Last := none
  pending : Option (Disk × List Nat × List (Nat × List Rat)) := none   -- stop disk, counts, weights for `restoreload`

def showCell : Cell → String
  | .dash => "-"
  | .num q => showRat q

def showCells (l : List Cell) : String := ",".intercalate (l.map showCell)

def showLine (l : DLine) : String :=
  if l.hash then (if l.term then "#" else "#u") else
  let k := match l.key with | some k => toString k | none => "x"
  if l.term then s!"{k}:{showCells l.frac}:{showCells l.wts}" else s!"u{k}"

def showImage (im : Image) : String :=
  " | ".intercalate [
    "active=" ++ ",".intercalate (im.active.map showON),
    "locked=" ++ ";".intercalate (im.locked.map (fun (es, ps) => showNats es ++ ":" ++ showNats ps)),
    s!"cstep={im.cstep}", s!"trajnum={im.trajNum}",
    "frac=" ++ ";".intercalate (im.frac.map (fun (k, v) => s!"{k}:" ++ showRow v)) ]

def parseTorn (t : String) : Option (Option (Option Nat)) :=
  if t = "n" then some none else if t = "-" then some (some none) else (parseNat? t).map (fun k => some (some k))

def parseStop (j torn ren : String) : Option Stop :=
  match parseNat? j, parseTorn torn with
  | some j, some t => some { j := j, torn := t, renamed := ren = "1" }
  | _, _ => none

def parseLineTok (t : String) : Option DLine :=
  if t = "#" then some { hash := true, term := true, key := none }
  else if t = "#u" then some { hash := true, term := false, key := none }
  else if t = "x" then some { hash := false, term := true, key := none }
  else if t = "ux" then some { hash := false, term := false, key := none }
  else if t.startsWith "r" then (parseNat? (t.drop 1).toString).map (fun k => { hash := false, term := true, key := some k })
  else if t.startsWith "u" then (parseNat? (t.drop 1).toString).map (fun k => { hash := false, term := false, key := some k })
  else none

/-- the answer to `crash`: what the restart finds after `clean_data_file` -/
def crashAnswer (n : Nat) (l : Last) (p : Stop) : String :=
  let sd := stopDisk l.d0 l.ls l.im p
  match restartClean sd with
  | none => "noimage"
  | some (lines, im) =>
    let cnt := if p.renamed then l.cnt2 else l.cnt0
    " | ".intercalate [
      "keys=" ++ showNats ((dataRows lines).map (·.1)),
      "rewrite=" ++ (if cleanRewrites (activeKeys im) sd.lines then "1" else "0"),
      s!"cstep={im.cstep}",
      "active=" ++ ",".intercalate (im.active.map showON),
      "tot=" ++ showRow ((List.range (n - 1)).map (fun c => diskTotal lines im c)),
      "cnt=" ++ showNats cnt ]

def handle4 (x : D4) (toks : List String) : D4 × String :=
  match toks with
  | "init" :: rest =>
    let (d', ans) := handle x.d toks
    -- a restarted run (last token 1) goes on with the disk it finds
    if rest.getLast? = some "1" then ({ x with d := d', last := none }, ans)
    else ({ d := d', disk := freshDisk, cnt := List.replicate d'.s.n 0, last := none, pending := none }, ans)
  | "treat" :: pin :: st :: k :: rest =>
    let s0 := x.d.s
    match parseNat? pin, parseNat? k with
    | some pin, some k =>
      match takeLists parseRat? k rest, x.d.jobs.find? (·.pin == pin) with
      | some ws, some job =>
        match treatOutputChecked s0 job (if st = "ACC" then .acc else .rej) ws (s0.n * s0.n + 4) with
        | .early er => (x, showErr er)
        | .late er => (x, showErr er)
        | .inRecord er sP =>
          -- the exception leaves the sampler object with the job's ensembles released and partial credit
          ({ x with d := { x.d with s := sP, jobs := x.d.jobs.filter (·.pin != pin) } }, showErr er)
        | .done s2 pns iters =>
          let d' : DState := { x.d with s := s2, jobs := x.d.jobs.filter (·.pin != pin) }
          let ans := s!"new={showNats pns} sortiters={iters}"
          match fmtRows s2.n (newRows s0 s2), treatDisk x.disk s0 s2 with
          | .ok ls, .ok disk' =>
            let cnt' := addCnt x.cnt (idleInc s2.locks)
            ({ x with d := d', disk := disk', cnt := cnt',
                      last := some { d0 := x.disk, ls := ls, im := persistD s2, wts := s0.wts ++ s2.wts,
                                     cnt0 := x.cnt, cnt2 := cnt' } }, ans)
          | _, _ => ({ x with d := d' }, "err:index")
      | _, _ => (x, "bad-op")
    | _, _ => (x, "bad-op")
  | ["loop"] =>
    -- `loop()` writes the restart file when the step target is reached (state before = state after)
    let (d', ans) := handle x.d toks
    ({ x with d := d', disk := finishDisk x.disk x.d.s }, ans)
  | ["datafile"] => (x, " ".intercalate (x.disk.lines.map showLine))
  | ["image"] =>
    match x.disk.img with
    | none => (x, "noimage")
    | some im => (x, showImage im)
  | ["idle"] => (x, showNats x.cnt)
  | ["crash", j, torn, ren] =>
    match parseStop j torn ren, x.last with
    | some p, some l => (x, crashAnswer x.d.s.n l p)
    | _, _ => (x, "bad-op")
  | ["restartat", j, torn, ren] =>
    match parseStop j torn ren, x.last with
    | some p, some l =>
      let sd := stopDisk l.d0 l.ls l.im p
      match restartClean sd with
      | none => (x, "noimage")
      | some (lines, im) =>
        let cnt := if p.renamed then l.cnt2 else l.cnt0
        ({ x with disk := { lines := lines, img := some im }, cnt := cnt,
                  pending := some (sd, cnt, l.wts), last := none }, s!"ok cstep={im.cstep}")
    | _, _ => (x, "bad-op")
  | ["restoreload"] =>
    -- the restart of the stopped run: `restartSys` (clean_data_file + __init__ + load_paths) on the stop disk
    match x.pending with
    | none => (x, "bad-op")
    | some (sd, cnt, wts) =>
      let s := x.d.s
      match restartSys sd cnt s.n s.workers s.tsteps s.occ s.ensEng (fun pn => (wts.lookup pn).getD []) with
      | .error er => (x, showErr er)
      | .ok zr => ({ x with d := { x.d with s := zr.y.s, jobs := zr.y.jobs }, disk := zr.d, cnt := zr.cnt }, "ok")
  | "setimgfrac" :: pn :: rest =>
    match parseNat? pn, takeList parseRat? rest with
    | some pn, some (v, []) =>
      let upd (im : Image) : Image := { im with frac := (pn, v) :: im.frac.filter (·.1 != pn) }
      ({ x with disk := { x.disk with img := x.disk.img.map upd },
                pending := x.pending.map (fun (sd, cnt, wts) => ({ sd with img := sd.img.map upd }, cnt, wts)) }, "ok")
    | _, _ => (x, "bad-op")
  | "fmt" :: size :: rest =>
    match parseNat? size, takeList parseRat? rest with
    | some size, some (fr, r) =>
      match takeList parseRat? r with
      | some (ws, []) =>
        match fmtCols size fr ws with
        | .error er => (x, showErr er)
        | .ok (fc, wc) => (x, showCells fc ++ "|" ++ showCells wc)
      | _ => (x, "bad-op")
    | _, _ => (x, "bad-op")
  | "clean" :: rest =>
    match takeList parseNat? rest with
    | some (active, r) =>
      match takeList parseLineTok r with
      | some (lines, []) =>
        let kept := (List.range lines.length).filter (fun i =>
          match lines[i]? with | some l => keepLine active l | none => false)
        (x, "kept=" ++ showNats kept ++ " rewrite=" ++ (if cleanRewrites active lines then "1" else "0"))
      | _ => (x, "bad-op")
    | none => (x, "bad-op")
  | _ =>
    let (d', ans) := handle x.d toks
    ({ x with d := d' }, ans)

partial def mainLoop4 (h out : IO.FS.Stream) (x : D4) : IO Unit := do
  let line ← h.getLine
  if line.isEmpty then
    out.flush
    return ()
  let l := (line.dropEndWhile (fun c => c = '\n' || c = '\r')).toString
  let toks := (l.splitOn " ").filter (fun t => t ≠ "")
  let (x', ans) := handle4 x toks
  out.putStrLn ans
  mainLoop4 h out x'

def dataMain : IO Unit := do
  mainLoop4 (← IO.getStdin) (← IO.getStdout) { d := { s := emptySt } }

end Infretis.Repex.Data
