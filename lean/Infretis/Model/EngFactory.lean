import Infretis.Model.Repex
/-
Model of `create_engines` (infretis/classes/engines/factory.py:61-104) and of the table
`engine_occ` it hands to `REPEX_state` (`setup_internal`: `state.engine_occ = def_globals(config)`).
Serves C03.

    engine_count = {}; engines = {}; engine_occ = {}
    for engine in config["simulation"]["ensemble_engines"]:          -- `engineCount`
        for engine_i in engine:
            engine_count[engine_i] = engine_count.get(engine_i, 0) + 1     -- `bump`
    for engine, n_engine in engine_count.items():                    -- `createLoop` (dict = insertion order)
        engines[engine] = []; engine_occ[engine] = []
        n_create = min(n_engine, config["runner"]["workers"])
        for i in range(n_create):                                    -- `createN`
            check_engine(config, eng_key=engine)
            engine_occ[engine].append(-1)
            engines[engine].append(create_engine(config, eng_key=engine))
    return engines, engine_occ

Engine names are numbers (the tie numbers the names of a configuration).  An engine OBJECT is
identified by the ordinal of the `create_engine` call that built it (every call builds a new object;
that the real constructor does is what the tie checks with `id()`).  `check_engine` only logs.
No imports outside Infretis.Model.*.
-/
namespace Infretis.Repex.Factory

/-- `engine_count[engine_i] = engine_count.get(engine_i, 0) + 1` on an insertion-ordered dict -/
def bump (acc : List (Nat × Nat)) (k : Nat) : List (Nat × Nat) :=
  if acc.any (fun a => a.1 == k) then acc.map (fun a => if a.1 == k then (a.1, a.2 + 1) else a)
  else acc ++ [(k, 1)]

/-- the first double loop: engine names in first-occurrence order with their number of occurrences -/
def engineCount (ensEng : List (List Nat)) : List (Nat × Nat) :=
  ensEng.foldl (fun acc engine => engine.foldl bump acc) []

/-- the inner loop `for i in range(n_create)`: one `-1` and one new engine object per iteration;
    `next` = number of `create_engine` calls made so far -/
def createN : Nat → Nat → List Int × List Nat
  | 0, _ => ([], [])
  | m + 1, next =>
    let r := createN m (next + 1)
    (-1 :: r.1, next :: r.2)

/-- what `create_engines` returns, in dict order -/
structure Engines where
  names : List Nat            -- keys of both dicts
  objs : List (List Nat)      -- `engines[name]`: the engine objects
  occ : List (List Int)       -- `engine_occ[name]`
deriving Repr, DecidableEq

/-- the second loop over `engine_count.items()` -/
def createLoop (workers : Nat) : List (Nat × Nat) → Nat → Engines
  | [], _ => { names := [], objs := [], occ := [] }
  | (k, c) :: rest, next =>
    let n := min c workers
    let r := createN n next
    let tl := createLoop workers rest (next + n)
    { names := k :: tl.names, objs := r.2 :: tl.objs, occ := r.1 :: tl.occ }

/-- `create_engines(config)` -/
def createEngines (ensEng : List (List Nat)) (workers : Nat) : Engines :=
  createLoop workers (engineCount ensEng) 0

/-- `engine_occ[k]` (a name that is not a key has no instance: the code would raise KeyError,
    `assign_engines` of the model finds no free instance) -/
def occRow (E : Engines) (k : Nat) : List Int := ((E.names.zip E.occ).lookup k).getD []

/-- `engines[k]` -/
def objRow (E : Engines) (k : Nat) : List Nat := ((E.names.zip E.objs).lookup k).getD []

/-- `engine_occ` as the table indexed by engine type number that `St.occ` is (types `0 … m-1`) -/
def occTable (E : Engines) (m : Nat) : List (List Int) := (List.range m).map (occRow E)

/-- the engine object `ENGINES[k][i]` that `select_shoot` resolves for the instance `(k, i)` -/
def engineObj (E : Engines) (ki : Nat × Nat) : Option Nat := (objRow E ki.1)[ki.2]?

end Infretis.Repex.Factory
