import Infretis.Model.Repex
/-
Model of the engine set-up loop of `select_shoot()` (infretis/core/tis.py):

    for key, ens_num in zip(engines.keys(), picked.keys()):
        pens = picked[ens_num]
        for engine in engines[key]:          # engines[key] = [ENGINES[eng][idx] for eng, idx in pens["eng_idx"].items()]
            engine.set_mdrun(pens)
            if "rgen-eng" in pens: engine.rgen = pens["rgen-eng"]
            engine.clean_up()

An engine OBJECT of the worker process is identified by (engine type, instance index) — the key of
`ENGINES[eng][idx]`; `Picked.engIdx` lists the objects of a picked ensemble in the code's order.
`EngTbl` is the attribute `engine.rgen` of every engine object of the process (absent = the attribute
was never set).  Serves C07.  No imports outside Infretis.Model.*.
-/
namespace Infretis.Repex

abbrev EngObj := Nat × Nat

/-- `engine.rgen` per engine object (association list, newest binding first, one binding per object) -/
abbrev EngTbl := List (EngObj × Stream)

/-- `engine.rgen = x` -/
def setEngRgen (tbl : EngTbl) (e : EngObj) (x : Stream) : EngTbl := (e, x) :: tbl.filter (fun b => b.1 != e)

/-- `engine.rgen` (none: no such attribute) -/
def engRgen (tbl : EngTbl) (e : EngObj) : Option Stream := tbl.lookup e

/-- the inner loop: every engine object of one picked ensemble gets that ensemble's engine stream -/
def assignOne (tbl : EngTbl) (p : Picked) : EngTbl := p.engIdx.foldl (fun t e => setEngRgen t e p.rgenEng) tbl

/-- the set-up loop of `select_shoot` over the picked ensembles of a job, in order -/
def assignEngineStreams (tbl : EngTbl) (picked : List Picked) : EngTbl := picked.foldl assignOne tbl

end Infretis.Repex
