import Infretis.Model.EngineLoops
/-!
C12, audit pass: an exception that is NOT one of the engine's own leaves the polling loop of LAMMPS / CP2K.

As found, `lammps.py` and `cp2k.py` ran the whole polling loop between `subprocess.Popen(...)` and
`return_code = exe.returncode` without any `try` (GROMACS has `with GromacsRunner(...)`: `__exit__` → `stop()`).
The loop body calls code that can raise for reasons of its own, on a frame that depends on the trajectory:

* `self.calculate_order(...)` → `order_function.calculate(system)` (user supplied class: `math.acos` domain error,
  `ZeroDivisionError`, an assertion, …; the call BEFORE `Popen` on the start configuration succeeds),
* CP2K: `write_xyz_trajectory(traj_file, …)` (the engine writes the trajectory itself: `OSError` on a full disk / quota),
  (`msg_file.write(...)` is NOT such a place: `FileIO.write` swallows `OSError`).

All of them sit AFTER the `pop`s of the frame and BEFORE `add_to_path` for it.  `fault = some k` = such an exception is
raised while the frame with `step_nr = k` is processed (`none` = never).  (Exceptions delivered asynchronously —
`KeyboardInterrupt` in `sleep`, `TimeoutExpired` from `exe.wait(timeout=360)` — take the same way out; the tie
exercises the interrupt on the real engines, the model has the frame faults.)

`Guard.guarded` = THE CODE AS IT IS NOW (repaired in /repo by the `fix:` commit "LAMMPS and CP2K stop the program when an
exception leaves the polling loop"): the block from after `Popen(...)` up to (not including) `return_code = exe.returncode`
is wrapped in
```
try: …
except BaseException:
    if exe.poll() is None:
        os.killpg(os.getpgid(exe.pid), signal.SIGTERM)
        exe.wait(timeout=360)
    raise
```
(an `except`, not a `finally`: the normal paths keep their exact sequence of `poll()` calls).
`Guard.asIs` = the RECORD of the code as found: no handler, the exception propagates, nothing is signalled, the program
keeps running.  The tie runs both and accepts the real engines only if they side with ONE guard over all cases;
siding with `asIs` fails the property predicate (`C12:<engine>:program-left-running-after-exception`).
-/
namespace Infretis.EngineFault
open Infretis.Engine Infretis.EngineLoops

inductive Guard
  | asIs      -- record: as found, no handler
  | guarded   -- the code as it is now
deriving Repr, DecidableEq

/-- what left the loop: one of the engine's own errors (`Err`) or the foreign exception of the body -/
inductive Exc
  | own (e : Err)
  | body
deriving Repr, DecidableEq

inductive FBatch
  | done (s : XState)
  | stopped (s : XState)
  | err (e : Err) (s : XState)
  | body (s : XState)

/-- `EngineLoops.batch` with the fault: the frame is popped (LAMMPS: `trajectory.pop(0)`, `box_trajectory.pop(0)`;
    CP2K: `pos_traj.pop(0)`, `vel_traj.pop(0)`), then the body raises instead of reaching `add_to_path`. -/
def batchF (k : Kind) (c : Cfg) (sched : Sched) (fault : Option Nat) : Nat → XState → FBatch
  | 0, s => .done s
  | n + 1, s =>
    match k with
    | .lammps v =>
      match s.pos with
      | [] => .err .index s
      | f :: rest =>
        match popBox v s.boxes with
        | none => .err .index s
        | some (b, boxes') =>
          if fault = some s.stepNr then .body { s with pos := rest, boxes := boxes' }
          else
            match record c s.es s.stepNr f.cid b f.vel with
            | none => .err .index s
            | some (es', r) =>
              let (s', stop) := afterAdd sched { s with pos := rest, boxes := boxes' } es' r
              if stop then .stopped s' else batchF k c sched fault n s'
    | .cp2k box0 =>
      match s.pos, s.vels with
      | p :: prest, w :: vrest =>
        if fault = some s.stepNr then .body { s with pos := prest, vels := vrest }
        else
          match record c s.es s.stepNr p.cid box0 w.vel with
          | none => .err .index s
          | some (es', r) =>
            let (s', stop) := afterAdd sched { s with pos := prest, vels := vrest } es' r
            if stop then .stopped s' else batchF k c sched fault n s'
      | _, _ => .err .index s

/-- `EngineLoops.readerLoop` over `batchF` -/
def readerLoopF (k : Kind) (c : Cfg) (sched : Sched) (frames : List Frame) (fault : Option Nat) :
    Nat → XState → XState × Option Exc
  | 0, s => (s, some (.own .fuel))
  | fuel + 1, s =>
    let (s, alive) := poll sched s
    if alive || s.it ≤ 1 then
      match readNew k frames s with
      | none => (s, some (.own .index))
      | some s =>
        let n := batchCount k s
        let s := { s with multi := s.multi || decide (2 ≤ n) }
        match batchF k c sched fault n s with
        | .err e s => (s, some (.own e))
        | .body s => (s, some .body)
        | .done s => readerLoopF k c sched frames fault fuel (endIter sched s)
        | .stopped s => readerLoopF k c sched frames fault fuel (endIter sched s)
    else (s, none)

/-- what happens to the program when an exception leaves the block -/
def onExc (g : Guard) (sched : Sched) (s : XState) : XState :=
  match g with
  | .asIs => s
  | .guarded =>
    let (s2, alive) := poll sched s
    { s2 with killed := s2.killed || alive, dead := true }

structure FResult where
  res : Result      -- the state left behind; `res.raised` = the engine's OWN error, if any
  body : Bool       -- the foreign exception of the loop body left `_propagate_from`
deriving Repr, DecidableEq

/-- `EngineLoops.extRun` with fault and guard.  Out of fuel = the code is still looping: no handler has run. -/
def extRunF (g : Guard) (k : Kind) (c : Cfg) (sched : Sched) (code : Int) (frames : List Frame) (fuel : Nat)
    (fault : Option Nat) : FResult :=
  match waitFile sched fuel XState.init with
  | none => { res := XState.init.result (some .fuel), body := false }
  | some s =>
    let (s, alive) := poll sched s
    let (s, e) := if alive || code = 0 then readerLoopF k c sched frames fault fuel s else (s, none)
    match e with
    | some (.own .fuel) => { res := s.result (some .fuel), body := false }
    | some (.own e) => { res := (onExc g sched s).result (some e), body := false }
    | some .body => { res := (onExc g sched s).result none, body := true }
    | none =>
      let rc : Int := if s.killed then -15 else code
      if rc ≠ 0 && !s.terminated then { res := s.result (some .runtime), body := false }
      else { res := s.result none, body := false }

end Infretis.EngineFault
