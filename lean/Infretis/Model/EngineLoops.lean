import Infretis.Model.AddToPath
/-!
Models of the engines' `_propagate_from` loops (C12).

* `record`        – `calculate_order` + `snapshot_to_system` + `add_to_path` for one frame
* `inproc`        – the in-process loop of ASE (`ase_engine.py:167-203`) and TurtleMD
                    (`turtlemdengine.py:240-282`): `for i in range(n): if i % subcycles == 0: …`
* `extRun`        – the polling loop shared (textually duplicated) by LAMMPS
                    (`lammps.py:460-561`) and CP2K (`cp2k.py:868-974`)
* `gmxRun`        – the GROMACS loop (`gromacs.py:511-539`) over the frames yielded by
                    `get_gromacs_frames` (the runner itself is not modelled)

A frame the MD program writes is abstract: a coordinates id, a box id and one velocity
component; the order parameter is an arbitrary function `ord cid bid vel` of them.
The external program is a *schedule*: `sched t` is the state of the outside world (does the
trajectory file exist, how many complete frames does it hold, is the process alive) at the
`t`-th synchronisation point of the engine.  Every `sleep(self.sleep)` and every `exe.poll()`
of the code is one synchronisation point ("tick"), in the code's order; file reads and
`os.path.exists` see the world as of the latest tick.  Nothing is assumed about the schedule
(not even monotonicity) except what `subprocess.Popen` itself guarantees: once `poll()` has
returned a return code it keeps returning it.
-/
namespace Infretis.EngineLoops
open Infretis.Engine

inductive Variant
  | asIs       -- lammps.py:499  `box = box_trajectory.pop()`   (the LAST box of the poll)
  | repaired   --                `box = box_trajectory.pop(0)`
deriving Repr, DecidableEq

/-- what the MD program writes for one frame -/
structure Frame where
  cid : Nat      -- coordinates
  bid : Nat      -- box
  vel : Int      -- a velocity component as stored in the file
deriving Repr, DecidableEq

/-- one phase point of the returned path -/
structure Entry where
  idx : Nat      -- `config = (traj_file, idx)`
  cid : Nat      -- coordinates handed to the order function
  bid : Nat      -- box handed to the order function
  vel : Int      -- velocity handed to the order function (after `calculate_order`'s `vel_rev` sign)
  order : Int    -- stored `order[0]`
deriving Repr, DecidableEq

structure Cfg where
  ord : Nat → Nat → Int → Int
  left : Int
  right : Int
  maxlen : Nat
  rev : Bool       -- `reverse` (= `system.vel_rev` during `_propagate_from`)

/-- `calculate_order`: `system.vel = vel * -1.0 if system.vel_rev else vel` (enginebase.py:171) -/
def velSeen (rev : Bool) (v : Int) : Int := if rev then -v else v

def mkEntry (c : Cfg) (idx cid bid : Nat) (v : Int) : Entry :=
  { idx := idx, cid := cid, bid := bid, vel := velSeen c.rev v, order := c.ord cid bid (velSeen c.rev v) }

/-- order parameter from (xyz, vel, box), snapshot `(traj_file, idx)`, `add_to_path`.
    `none` = IndexError inside `add_to_path` (empty path with `maxlen = 0`). -/
def record (c : Cfg) (es : List Entry) (idx cid bid : Nat) (v : Int) : Option (List Entry × AddResult) :=
  let e := mkEntry c idx cid bid v
  match addToPath (es.map (·.order)) (some c.maxlen) e.order c.left c.right with
  | none => none
  | some (_, r) => some (if r.added then es ++ [e] else es, r)

inductive Err
  | index      -- IndexError
  | runtime    -- RuntimeError("Execution of external program … failed")
  | unbound    -- UnboundLocalError (ASE: `success`/`status` never assigned)
  | attr       -- AttributeError (GromacsRunner.close() without an opened TRR file: `self.fileh` never assigned)
  | fuel       -- the model ran out of fuel: the code would still be looping
deriving Repr, DecidableEq

/-- result of a `_propagate_from` call; `raised ≠ none` = the call raised -/
structure Result where
  es : List Entry
  success : Bool
  status : Option PStatus      -- `none` = the initial text "propagating with …"
  raised : Option Err
  killed : Bool                -- infretis sent SIGTERM to the program
  terminated : Bool            -- `*_was_terminated`: `add_to_path` said stop (set even if no signal was needed)
  dead : Bool                  -- the program is known to have terminated (return code collected)
  multi : Bool                 -- some poll delivered ≥ 2 frames at once
  ticks : Nat                  -- synchronisation points consumed
deriving Repr, DecidableEq

/-! ### in-process engines (ASE, TurtleMD) -/

/-- `for i in range(n): if i % subcycles == 0: <record frame; break on stop; step_nr += 1>; step`.
    `micro i` = the system after `i` integrator steps.  `fuel` counts the remaining iterations,
    `i` the loop variable. -/
def inprocGo (c : Cfg) (sub : Nat) (micro : Nat → Frame) :
    Nat → Nat → Nat → List Entry → Bool → Option PStatus → Result
  | 0, _, _, es, succ, st =>
    { es := es, success := succ, status := st, raised := none, killed := false, terminated := false, dead := true, multi := false, ticks := 0 }
  | fuel + 1, i, stepNr, es, succ, st =>
    if i % sub = 0 then
      let f := micro i
      match record c es stepNr f.cid f.bid f.vel with
      | none => { es := es, success := succ, status := st, raised := some .index, killed := false, terminated := false, dead := true,
                  multi := false, ticks := 0 }
      | some (es', r) =>
        if r.stop then
          { es := es', success := r.success, status := some r.status, raised := none, killed := false, terminated := false, dead := true,
            multi := false, ticks := 0 }
        else inprocGo c sub micro fuel (i + 1) (stepNr + 1) es' r.success (some r.status)
    else inprocGo c sub micro fuel (i + 1) stepNr es succ st

/-- ASE: `range(subcycles * maxlen)` iterations, no initial `success`/`status` (UnboundLocalError when the
    loop body never runs); TurtleMD: `run()` yields `subcycles * maxlen + 1` systems, `success = False`
    initially. -/
def inproc (c : Cfg) (sub : Nat) (micro : Nat → Frame) (ase : Bool) : Result :=
  let n := if ase then sub * c.maxlen else sub * c.maxlen + 1
  if ase && n == 0 then
    { es := [], success := false, status := none, raised := some .unbound, killed := false, terminated := false, dead := true,
      multi := false, ticks := 0 }
  else inprocGo c sub micro n 0 0 [] false none

/-! ### external programs polled through files (LAMMPS, CP2K) -/

/-- "The program" is the whole process group / session the engine created for this propagation
    (`preexec_fn=os.setsid`): a launcher (`srun`, `mpiexec`, wrapper script) together with the MD executable it
    started.  `alive` = some member is still running; `killed`/`dead` in the loop models speak about the group —
    the code signals it with `os.killpg(os.getpgid(pid), SIGTERM)`.  (The tie checks the whole group with a
    launcher-mode fake program.) -/
structure World where
  file : Bool      -- the trajectory file(s) exist
  vis : Nat        -- complete frames in the .lammpstrj / -pos-1.xyz file
  vis2 : Nat       -- complete frames in the -vel-1.xyz file (CP2K only)
  alive : Bool     -- the process is still running
deriving Repr, DecidableEq

abbrev Sched := Nat → World

inductive Kind
  | lammps (v : Variant)
  | cp2k (box0 : Nat)       -- the box read once from the initial configuration / the template
deriving Repr, DecidableEq

structure XState where
  t : Nat                 -- ticks consumed
  cur : World             -- world as of the latest tick
  dead : Bool             -- `exe.returncode is not None`
  killed : Bool
  it : Nat                -- `iterations_after_stop`
  stepNr : Nat
  rp : Nat                -- frames already returned by the first reader (its file position)
  rv : Nat                -- … by the velocity reader (CP2K)
  pos : List Frame        -- `trajectory` / `pos_traj` (pending); only `.cid` (and for LAMMPS `.vel`) is used
  vels : List Frame       -- `vel_traj` (pending, CP2K); only `.vel` is used
  boxes : List Nat        -- `box_trajectory` (pending, LAMMPS)
  es : List Entry
  success : Bool
  status : Option PStatus
  terminated : Bool       -- `lammps_was_terminated` / `cp2k_was_terminated`
  multi : Bool
deriving Repr, DecidableEq

def XState.init : XState :=
  { t := 0, cur := { file := false, vis := 0, vis2 := 0, alive := true }, dead := false, killed := false, it := 0,
    stepNr := 0, rp := 0, rv := 0, pos := [], vels := [], boxes := [], es := [], success := false, status := none,
    terminated := false, multi := false }

def XState.result (s : XState) (raised : Option Err) : Result :=
  { es := s.es, success := s.success, status := s.status, raised := raised, killed := s.killed, terminated := s.terminated, dead := s.dead,
    multi := s.multi, ticks := s.t }

/-- `sleep(self.sleep)`: the world moves on -/
def tick (sched : Sched) (s : XState) : XState := { s with cur := sched s.t, t := s.t + 1 }

/-- `exe.poll()`: a tick, then `true` iff the process is still running.  A collected return code sticks. -/
def poll (sched : Sched) (s : XState) : XState × Bool :=
  let s := tick sched s
  if s.dead then (s, false)
  else if s.cur.alive then (s, true)
  else ({ s with dead := true }, false)

/-- `while not os.path.exists(traj_file): sleep(); if exe.poll() is not None: break` -/
def waitFile (sched : Sched) : Nat → XState → Option XState
  | 0, _ => none
  | fuel + 1, s =>
    if s.cur.file then some s
    else
      let s := tick sched s
      let (s, alive) := poll sched s
      if alive then waitFile sched fuel s else some s

/-- `box_trajectory.pop()` / `.pop(0)` -/
def popBox (v : Variant) (boxes : List Nat) : Option (Nat × List Nat) :=
  match v with
  | .asIs => match boxes.getLast? with
    | none => none
    | some b => some (b, boxes.dropLast)
  | .repaired => match boxes with
    | [] => none
    | b :: bs => some (b, bs)

inductive BatchRes
  | done (s : XState)
  | stopped (s : XState)
  | err (e : Err) (s : XState)

/-- what the body does after `add_to_path`: on `stop` poll once more, SIGTERM + wait if still running,
    `iterations_after_stop = 2`, `*_was_terminated = True`, `break`; otherwise `step_nr += 1`. -/
def afterAdd (sched : Sched) (s : XState) (es' : List Entry) (r : AddResult) : XState × Bool :=
  let s1 := { s with es := es', success := r.success, status := some r.status }
  if r.stop then
    let (s2, alive) := poll sched s1
    ({ s2 with killed := s2.killed || alive, dead := true, it := 2, terminated := true }, true)
  else ({ s1 with stepNr := s1.stepNr + 1 }, false)

/-- `for frame in range(n):` with the `pop`s of the respective engine -/
def batch (k : Kind) (c : Cfg) (sched : Sched) : Nat → XState → BatchRes
  | 0, s => .done s
  | n + 1, s =>
    match k with
    | .lammps v =>
      match s.pos with
      | [] => .err .index s
      | f :: rest =>
        match popBox v s.boxes with
        | none => .err .index s
        | some (b, boxes') =>
          match record c s.es s.stepNr f.cid b f.vel with
          | none => .err .index s
          | some (es', r) =>
            let (s', stop) := afterAdd sched { s with pos := rest, boxes := boxes' } es' r
            if stop then .stopped s' else batch k c sched n s'
    | .cp2k box0 =>
      match s.pos, s.vels with
      | p :: prest, w :: vrest =>
        match record c s.es s.stepNr p.cid box0 w.vel with
        | none => .err .index s
        | some (es', r) =>
          let (s', stop) := afterAdd sched { s with pos := prest, vels := vrest } es' r
          if stop then .stopped s' else batch k c sched n s'
      | _, _ => .err .index s

/-- `read_and_process_content()` of the on-the-fly reader(s) at frame granularity, and `+=`.
    `none` = LAMMPS' `frames[0]` on the `[]` returned for a missing file (IndexError). -/
def readNew (k : Kind) (frames : List Frame) (s : XState) : Option XState :=
  match k with
  | .lammps _ =>
    if s.cur.file then
      let new := (frames.take s.cur.vis).drop s.rp
      some { s with pos := s.pos ++ new, boxes := s.boxes ++ new.map (·.bid), rp := s.rp + new.length }
    else none
  | .cp2k _ =>
    if s.cur.file then
      let newp := (frames.take s.cur.vis).drop s.rp
      let newv := (frames.take s.cur.vis2).drop s.rv
      some { s with pos := s.pos ++ newp, vels := s.vels ++ newv, rp := s.rp + newp.length, rv := s.rv + newv.length }
    else some s

def batchCount (k : Kind) (s : XState) : Nat :=
  match k with
  | .lammps _ => s.pos.length
  | .cp2k _ => min s.pos.length s.vels.length

/-- after the `for`: `sleep()`, then `if exe.poll() is not None and iterations_after_stop <= 1: += 1` -/
def endIter (sched : Sched) (s : XState) : XState :=
  let s := tick sched s
  let (s, alive) := poll sched s
  if !alive && s.it ≤ 1 then { s with it := s.it + 1 } else s

/-- `while exe.poll() is None or iterations_after_stop <= 1:`; second component = raised inside the loop -/
def readerLoop (k : Kind) (c : Cfg) (sched : Sched) (frames : List Frame) : Nat → XState → XState × Option Err
  | 0, s => (s, some .fuel)
  | fuel + 1, s =>
    let (s, alive) := poll sched s
    if alive || s.it ≤ 1 then
      match readNew k frames s with
      | none => (s, some .index)
      | some s =>
        let n := batchCount k s
        let s := { s with multi := s.multi || decide (2 ≤ n) }
        match batch k c sched n s with
        | .err e s => (s, some e)
        | .done s => readerLoop k c sched frames fuel (endIter sched s)
        | .stopped s => readerLoop k c sched frames fuel (endIter sched s)
    else (s, none)

/-- the whole `with open(...)` block of `_propagate_from` and the return-code check.
    `code` = the exit code of the program when it ends by itself. -/
def extRun (k : Kind) (c : Cfg) (sched : Sched) (code : Int) (frames : List Frame) (fuel : Nat) : Result :=
  match waitFile sched fuel XState.init with
  | none => XState.init.result (some .fuel)
  | some s =>
    -- `if exe.poll() is None or exe.returncode == 0:`
    let (s, alive) := poll sched s
    let (s, e) := if alive || code = 0 then readerLoop k c sched frames fuel s else (s, none)
    match e with
    | some e => s.result (some e)
    | none =>
      -- `return_code = exe.returncode; if return_code != 0 and not *_was_terminated: raise RuntimeError`
      let rc : Int := if s.killed then -15 else code
      if rc ≠ 0 && !s.terminated then s.result (some .runtime) else s.result none

/-! ### GROMACS -/

/-- gromacs.py:518-524: `system.vel = data["v"]; if reverse: system.vel *= -1`, then `calculate_order`
    negates once more because `system.vel_rev = reverse`. -/
def gmxVelSeen (rev : Bool) (v : Int) : Int := velSeen rev (if rev then -v else v)

/-- velocity handed to the order function by the GROMACS loop: as found (`asIs`, the two lines
    gromacs.py:520-521 `if … reverse: system.vel *= -1` present) or repaired (lines deleted, /repo f551f52) -/
def gmxVel (gv : Variant) (rev : Bool) (v : Int) : Int :=
  match gv with
  | .asIs => gmxVelSeen rev v
  | .repaired => velSeen rev v

def gmxRecord (gv : Variant) (c : Cfg) (es : List Entry) (idx : Nat) (f : Frame) : Option (List Entry × AddResult) :=
  let vs := gmxVel gv c.rev f.vel
  let e : Entry := { idx := idx, cid := f.cid, bid := f.bid, vel := vs, order := c.ord f.cid f.bid vs }
  match addToPath (es.map (·.order)) (some c.maxlen) e.order c.left c.right with
  | none => none
  | some (_, r) => some (if r.added then es ++ [e] else es, r)

/-- `for i, data in enumerate(gro.get_gromacs_frames()):` over the frames the runner yields -/
def gmxGo (gv : Variant) (c : Cfg) : List Frame → Nat → List Entry → Bool → Option PStatus → Result
  | [], _, es, succ, st =>
    { es := es, success := succ, status := st, raised := none, killed := false, terminated := false, dead := true, multi := false, ticks := 0 }
  | f :: rest, i, es, succ, st =>
    match gmxRecord gv c es i f with
    | none => { es := es, success := succ, status := st, raised := some .index, killed := false, terminated := false, dead := true,
                multi := false, ticks := 0 }
    | some (es', r) =>
      if r.stop then
        { es := es', success := r.success, status := some r.status, raised := none, killed := true, terminated := true, dead := true,
          multi := false, ticks := 0 }
      else gmxGo gv c rest (i + 1) es' r.success (some r.status)

def gmxRun (gv : Variant) (c : Cfg) (frames : List Frame) : Result := gmxGo gv c frames 0 [] false none


/-! ### GROMACS through `GromacsRunner` (gromacs.py:714-946), tick level

`start()` waits for the .trr and the .edr file (`sleep`, `check_poll`), `get_gromacs_frames` polls once per
round and yields at most one frame per round while mdrun is alive — and only once `need0` complete unread
frames are visible for the very first read (the reader wants `TRR_HEAD_SIZE = 1000` bytes before it tries the
first header; `need0 = ⌈1000 / frame size⌉`) — or all remaining frames once mdrun has ended with code 0.
`check_poll` raises RuntimeError for ANY non-zero return code.  Leaving the `with` block stops mdrun
(SIGTERM if no return code has been collected, then wait). -/

/-- one `while not os.path.isfile(fname): sleep(); poll = check_poll(); if poll is not None: break` -/
def gmxWait (sched : Sched) (code : Int) : Nat → XState → Option (XState × Option Err)
  | 0, _ => none
  | fuel + 1, s =>
    if s.cur.file then some (s, none)
    else
      let s := tick sched s
      let (s, alive) := poll sched s
      if alive then gmxWait sched code fuel s
      else if code ≠ 0 then some (s, some .runtime) else some (s, none)

/-- consumer side of one yielded frame: `add_to_path`, `break` on stop (then `__exit__` → `stop()`) -/
def gmxConsume (gv : Variant) (c : Cfg) (s : XState) (f : Frame) : Option (XState × Bool) :=
  match gmxRecord gv c s.es s.stepNr f with
  | none => none
  | some (es', r) =>
    let s1 := { s with es := es', success := r.success, status := some r.status, rp := s.rp + 1 }
    if r.stop then some ({ s1 with terminated := true }, true)
    else some ({ s1 with stepNr := s1.stepNr + 1 }, false)

/-- `read_remaining_trr`: every complete frame still unread, in order, until the consumer stops -/
def gmxDrain (gv : Variant) (c : Cfg) : List Frame → XState → XState × Option Err
  | [], s => (s, none)
  | f :: rest, s =>
    match gmxConsume gv c s f with
    | none => (s, some .index)
    | some (s', stop) => if stop then (s', none) else gmxDrain gv c rest s'

def gmxFrames (gv : Variant) (c : Cfg) (sched : Sched) (code : Int) (need0 : Nat) (frames : List Frame) :
    Nat → XState → XState × Option Err
  | 0, s => (s, some .fuel)
  | fuel + 1, s =>
    let (s, alive) := poll sched s
    if !alive then
      if code ≠ 0 then (s, some .runtime)
      else gmxDrain gv c ((frames.take s.cur.vis).drop s.rp) s
    else
      let avail := (min s.cur.vis frames.length) - s.rp
      let need := if s.rp = 0 then need0 else 1
      if need ≤ avail ∧ 0 < avail then
        match frames[s.rp]? with
        | none => (s, some .index)
        | some f =>
          match gmxConsume gv c s f with
          | none => (s, some .index)
          | some (s', stop) => if stop then (s', none) else gmxFrames gv c sched code need0 frames fuel s'
      else gmxFrames gv c sched code need0 frames fuel (tick sched s)

/-- `with GromacsRunner(...) as gro: for i, data in enumerate(gro.get_gromacs_frames()): …` including
    `__exit__` → `stop()` (also on exceptions raised inside the block; an exception in `start()` leaves no
    process behind because it is only raised for a collected non-zero return code). -/
def gmxExt (gv : Variant) (c : Cfg) (sched : Sched) (code : Int) (need0 : Nat) (frames : List Frame) (fuel : Nat) : Result :=
  match gmxWait sched code fuel XState.init with
  | none => XState.init.result (some .fuel)
  | some (s1, some e) => s1.result (some e)
  | some (s1, none) =>
    let p1 := s1.cur.file
    match gmxWait sched code fuel s1 with
    | none => s1.result (some .fuel)
    | some (s2, some e) => s2.result (some e)
    | some (s2, none) =>
      let p2 := s2.cur.file
      -- without both files `stop_read = True`: no frame is read, and `__exit__` → `stop()` → `close()` touches
      -- `self.fileh`, which `start()` never assigned → AttributeError (after mdrun has been stopped)
      let (s3, e) := if p1 && p2 then gmxFrames gv c sched code need0 frames fuel s2 else (s2, some .attr)
      -- `stop()`: SIGTERM iff no return code was collected (harmless if mdrun has just ended), then wait
      let s4 := { s3 with killed := !s3.dead && s3.cur.alive, dead := true }
      match e with
      | some .fuel => s3.result (some .fuel)
      | _ => s4.result e

end Infretis.EngineLoops
