import Infretis.Model.AddToPath
import Infretis.Model.EngineLoops
/-!
The part of the engines AROUND the `_propagate_from` loops (C12, extension pass):

* `execCommand`       – `EngineBase.execute_command` (enginebase.py:487-561): return-code decision, log files
* `dumpConfig`        – `EngineBase.dump_config` / `dump_frame` (enginebase.py:202-232): copy / extract decision
* `propagateSetup`    – `EngineBase.propagate` (enginebase.py:252-333): dump the start frame, reverse the velocities
                        iff `reverse != system.vel_rev`, point the system at `(initial_conf, 0)`, `vel_rev = reverse`
* `applyCall`/`runCalls` – what the three file operations (`_copyfile`, `_extract_frame`, `_reverse_velocities`) do to
                        abstract trajectory files (`Store`)
* `calcOrder`         – `EngineBase.calculate_order` (enginebase.py:139-178): argument route vs file route, `vel_rev` sign
* `snapshotToSystem`  – `EngineBase.snapshot_to_system` (enginebase.py:368-381)
* `propagateInproc`   – whole `propagate` of ASE / TurtleMD: wrapper + the in-process loop started from the frame
                        the wrapper left at `(initial_conf, 0)`; dynamics = iterated one-step map
* `propagateExt`      – whole `propagate` of LAMMPS / CP2K: wrapper + `extRun`; `cp2kTrajFile` = the `{name}.xyz`
                        file CP2K's loop writes itself (cp2k.py:935 `write_xyz_trajectory(traj_file, pos, vel, atoms, box)`)
* `propagateGmx`      – whole `propagate` of GROMACS: wrapper, `gmx grompp` through `execute_command`, the runner
                        (`gmxExt`), `gmx energy` through `execute_command`

File names are symbolic (`FName`): the real names carry `ens_name`, pid and the call counter and are unique per call.
-/
namespace Infretis.EnginePropagate
open Infretis.Engine Infretis.EngineLoops

/-! ### `execute_command` -/

structure ExecRes where
  raised : Bool          -- RuntimeError("Execution of external program … failed …")
  ret : Option Int       -- the value returned (`none` when raising)
  logsKept : Bool        -- stdout.txt / stderr.txt are still in `cwd` afterwards
deriving Repr, DecidableEq

/-- `exe.communicate()` waits for the program; `if return_code != 0: raise RuntimeError` (inside the `with`
    block: both log files stay); `if return_code is not None and return_code == 0:` remove both; return it.
    Negative codes (death by signal) are non-zero like any other. -/
def execCommand (rc : Int) : ExecRes :=
  if rc ≠ 0 then { raised := true, ret := none, logsKept := true }
  else { raised := false, ret := some rc, logsKept := false }

/-! ### `dump_config` and the `propagate` wrapper -/

inductive FName
  | user (n : Nat)      -- a file that exists before the call (earlier trajectory, load directory, genvel.*)
  | conf                -- exe_dir/{prefix}_conf.{ext}
  | rconf               -- exe_dir/r_{prefix}_conf.{ext}
  | traj                -- exe_dir/{prefix}_traj{F|B}.{ext}: the trajectory of this propagation
deriving Repr, DecidableEq

inductive Call
  | copy (src dst : FName)                    -- `_copyfile`
  | extract (src : FName) (idx : Nat) (dst : FName)   -- `_extract_frame`
  | reverse (src dst : FName)                 -- `_reverse_velocities`
deriving Repr, DecidableEq

/-- the `system` argument of `propagate`: `config = (file, idx)` (`idx = none` is Python `None`) and `vel_rev` -/
structure Point where
  file : FName
  idx : Option Nat
  velRev : Bool
deriving Repr, DecidableEq

/-- `dump_config(config, deffnm)`: `idx is None` → copy unless source and target are the same file;
    otherwise extract frame `idx`.  Returns the file operations performed (the target is always `out`). -/
def dumpConfig (file : FName) (idx : Option Nat) (out : FName) : List Call :=
  match idx with
  | none => if file ≠ out then [.copy file out] else []
  | some i => [.extract file i out]

structure Setup where
  calls : List Call
  initialConf : FName       -- the file `_propagate_from` starts from
  sys : Point               -- the system handed to `_propagate_from`: `(initial_conf, 0)`, `vel_rev = reverse`
  backward : Bool           -- trajectory label `…_trajB` (true) / `…_trajF`
deriving Repr, DecidableEq

/-- `propagate(path, ens_set, system, reverse)` up to the call of `_propagate_from` -/
def propagateSetup (reverse : Bool) (p : Point) : Setup :=
  let c1 := dumpConfig p.file p.idx .conf
  if reverse != p.velRev then
    { calls := c1 ++ [.reverse .conf .rconf], initialConf := .rconf, sys := ⟨.rconf, some 0, reverse⟩,
      backward := reverse }
  else
    { calls := c1, initialConf := .conf, sys := ⟨.conf, some 0, reverse⟩, backward := reverse }

/-! ### what the file operations do to (abstract) trajectory files -/

abbrev Store := FName → List Frame

def flipV (f : Frame) : Frame := { f with vel := -f.vel }

def Store.set (st : Store) (n : FName) (v : List Frame) : Store := fun m => if m = n then v else st m

/-- `none` = `_extract_frame` did not find frame `idx` (engine-specific outcome: CP2K/TurtleMD log an error and
    write nothing, GROMACS/LAMMPS/ASE raise).  `_reverse_velocities` of every engine reads frame 0 only. -/
def applyCall (st : Store) : Call → Option Store
  | .copy s d => some (st.set d (st s))
  | .extract s i d =>
    match (st s)[i]? with
    | some f => some (st.set d [f])
    | none => none
  | .reverse s d => some (st.set d (((st s).take 1).map flipV))

def runCalls : Store → List Call → Option Store
  | st, [] => some st
  | st, c :: cs =>
    match applyCall st c with
    | none => none
    | some st' => runCalls st' cs

/-- the frame `_propagate_from` finds at `(initial_conf, 0)` -/
def startFrame (reverse : Bool) (st : Store) (p : Point) : Option Frame :=
  match runCalls st (propagateSetup reverse p).calls with
  | none => none
  | some st' => (st' (propagateSetup reverse p).initialConf)[0]?

/-! ### `calculate_order` and `snapshot_to_system` -/

/-- `if any((xyz is None, vel is None, box is None)):` ALL three are (re-)read from `system.config[0]`,
    also the ones that were given -/
def calcOrderArgs (xyz : Option Nat) (vel : Option Int) (box : Option Nat) (file : Frame) : Nat × Int × Nat :=
  match xyz, vel, box with
  | some x, some v, some b => (x, v, b)
  | _, _, _ => (file.cid, file.vel, file.bid)

/-- `none` = ValueError("Order parameter is not defined!") (after the system has been updated) -/
def calcOrder (ord : Option (Nat → Nat → Int → Int)) (velRev : Bool) (xyz : Option Nat) (vel : Option Int)
    (box : Option Nat) (file : Frame) : Option Int :=
  let (x, v, b) := calcOrderArgs xyz vel box file
  match ord with
  | none => none
  | some o => some (o x b (velSeen velRev v))

/-- the fields of a `System` that `snapshot_to_system` touches; `some`/`none` = value / Python `None` -/
structure Sys where
  order : Option Int
  hasPos : Bool
  hasVel : Bool
  vpot : Option Int
  ekin : Option Int
  cfgFile : Nat
  cfgIdx : Option Nat
  velRev : Bool
deriving Repr, DecidableEq

/-- a snapshot dict: `some` = key present -/
structure Snapshot where
  order : Option Int
  hasPos : Bool
  hasVel : Bool
  vpot : Option Int
  ekin : Option Int
  config : Option (Nat × Option Nat)
  velRev : Option Bool
deriving Repr, DecidableEq

/-- `system.copy()`, then `order`, `pos`, `vel`, `vpot`, `ekin` := `snapshot.get(key, None)` (a missing key
    RESETS the field), `config` and `vel_rev` only if present -/
def snapshotToSystem (s : Sys) (sn : Snapshot) : Sys :=
  { order := sn.order, hasPos := sn.hasPos, hasVel := sn.hasVel, vpot := sn.vpot, ekin := sn.ekin,
    cfgFile := match sn.config with | some (f, _) => f | none => s.cfgFile,
    cfgIdx := match sn.config with | some (_, i) => i | none => s.cfgIdx,
    velRev := match sn.velRev with | some b => b | none => s.velRev }

/-! ### whole `propagate`, in-process engines -/

/-- the system after `n` integrator steps -/
def iter (step : Frame → Frame) (f : Frame) : Nat → Frame
  | 0 => f
  | n + 1 => step (iter step f n)

structure Out where
  setup : Setup
  started : Bool       -- an MD program was started / the in-process loop was entered
  res : Result
deriving Repr, DecidableEq

def notStarted (e : Err) : Result :=
  { es := [], success := false, status := none, raised := some e, killed := false, terminated := false, dead := false,
    multi := false, ticks := 0 }

/-- `propagate` of ASE (`ase = true`) / TurtleMD: the wrapper, then the loop from the frame found at
    `(initial_conf, 0)`, with `system.vel_rev = reverse` for `calculate_order` and for the snapshots.
    `none` = the wrapper's `_extract_frame` found no such frame / the start file is empty. -/
def propagateInproc (c : Cfg) (sub : Nat) (step : Frame → Frame) (ase : Bool) (reverse : Bool) (st : Store) (p : Point) :
    Option Out :=
  let su := propagateSetup reverse p
  match startFrame reverse st p with
  | none => none
  | some f0 => some { setup := su, started := true, res := inproc { c with rev := su.sys.velRev } sub (iter step f0) ase }

/-! ### whole `propagate`, LAMMPS / CP2K -/

/-- `frames` = what the program writes when started from the frame at `(initial_conf, 0)` -/
def propagateExt (k : Kind) (c : Cfg) (sched : Sched) (code : Int) (prog : Frame → List Frame) (fuel : Nat) (reverse : Bool)
    (st : Store) (p : Point) : Option Out :=
  let su := propagateSetup reverse p
  match startFrame reverse st p with
  | none => none
  | some f0 => some { setup := su, started := true, res := extRun k { c with rev := su.sys.velRev } sched code (prog f0) fuel }

/-- the velocity as stored in a file, recovered from what the order function saw -/
def unSee (rev : Bool) (v : Int) : Int := if rev then -v else v

/-- CP2K: the trajectory file the path refers to is written by the engine itself, one frame per processed
    (pos, vel) pair, ALWAYS with the box read before the run (cp2k.py:935); LAMMPS/GROMACS refer to the
    program's own file. -/
def cp2kTrajFile (rev : Bool) (es : List Entry) : List Frame :=
  es.map (fun e => { cid := e.cid, bid := e.bid, vel := unSee rev e.vel })

/-! ### whole `propagate`, GROMACS -/

/-- `_propagate_from` of GROMACS around the runner: `gmx grompp` (RuntimeError for a non-zero return code BEFORE
    mdrun is started), `with GromacsRunner(...)` (`gmxExt`: mdrun is stopped on every exit), then `gmx energy`
    (RuntimeError for a non-zero return code, after mdrun has been stopped; the frames stay in the `path` object). -/
def propagateGmx (gv : Variant) (c : Cfg) (sched : Sched) (code : Int) (need0 : Nat) (prog : Frame → List Frame)
    (fuel : Nat) (gromppRc energyRc : Int) (reverse : Bool) (st : Store) (p : Point) : Option Out :=
  let su := propagateSetup reverse p
  match startFrame reverse st p with
  | none => none
  | some f0 =>
    if (execCommand gromppRc).raised then some { setup := su, started := false, res := notStarted .runtime }
    else
      let r := gmxExt gv { c with rev := su.sys.velRev } sched code need0 (prog f0) fuel
      match r.raised with
      | some _ => some { setup := su, started := true, res := r }
      | none =>
        if (execCommand energyRc).raised then some { setup := su, started := true, res := { r with raised := some .runtime } }
        else some { setup := su, started := true, res := r }

end Infretis.EnginePropagate
