/-
File-system effect model of one completed step of the infretis main process (C08).

Mirrors, at the level of *which files exist / are complete*:
  REPEX_state.treat_output      (repex.py ~888-977)  store path(s), delete old, data row, restart file
  PathStorage.output            (formatter.py ~921-951)  make_dirs, order/energy/traj.txt, _move_path
  PathStorage._move_path        (formatter.py ~874-919)  per trajectory file: remove dest if it is a file, move
  the delete_old block          (repex.py ~925-953)     pn_olds queue, remove files, txt files, two rmdir
  write_to_pathens              (repex.py ~1084-1115)   open "a", one row per replaced path
  REPEX_state.write_toml        (repex.py ~729-747)     open("./restart.toml","wb") TRUNCATES, then dump
  setup_config (restart branch) (setup.py ~110-141)     missing file / cstep == restarted_from / traj.txt check
  load_paths_from_disk/load_path (path.py ~424-500)     asserts + parsing of traj.txt / order.txt / energy.txt

The model is written as the code is NOW (after the fix commits ba0d066, 05f8082, e7b75fb, 62f494c):
`write_toml` writes a temp file and renames it (`Variant.repaired`, the default); the data row
still is appended before the restart file is rewritten, but a restart's `setup_config` calls
`clean_data_file` (`cleanData` / `restoreDisk`, `Cfg.cleanOnRestart`); the delete_old_all block
removes every leftover entry of `accepted/` before the rmdir.  The historical behaviour
(`Variant.asIs`: truncation in place; `cleanOnRestart := false`) is kept as a switch: the tie reads
the variant off the real effect trace, and the counterexample theorems document the old findings.

A crash point is `(k, half)`: the first `k` effects have been performed completely and, if
`half`, the effect number `k` has been performed half-way (only meaningful for the `write`
effects: a prefix of the bytes has reached the file; for every other effect "half" = "not at all").

No imports: this file is compiled into the native driver.
-/
namespace Infretis.Fs

/-! ## disk -/

inductive FileState
  | absent
  | dir
  | empty                  -- exists, zero bytes (just created / truncated by open-for-write)
  | part (c : Nat)         -- a proper prefix of content `c`
  | complete (c : Nat)     -- content id `c`
deriving DecidableEq, Repr

/-- `os.path.isfile` -/
def FileState.isFile : FileState → Bool
  | .empty | .part _ | .complete _ => true
  | _ => false

/-- paths the main process touches, relative to the run directory -/
inductive Key
  | pdir (pn : Nat)            -- load/pn
  | acc (pn : Nat)             -- load/pn/accepted
  | order (pn : Nat)           -- load/pn/order.txt
  | energy (pn : Nat)          -- load/pn/energy.txt
  | traj (pn : Nat)            -- load/pn/traj.txt
  | tfile (pn name : Nat)      -- load/pn/accepted/<name>
  | wfile (name : Nat)         -- worker<i>/<name>
deriving DecidableEq, Repr

/-- the path number a key belongs to (none for worker files) -/
def Key.owner : Key → Option Nat
  | .pdir p | .acc p | .order p | .energy p | .traj p | .tfile p _ => some p
  | .wfile _ => none

/-- association list, newest binding first -/
abbrev Files := List (Key × FileState)

def Files.get : Files → Key → FileState
  | [], _ => .absent
  | (k', s) :: t, k => if k' = k then s else Files.get t k

def Files.set (f : Files) (k : Key) (s : FileState) : Files := (k, s) :: f

/-- an in-flight job as stored in `current.locked`: ensemble indices (with offset) and path numbers -/
structure Job where
  ens : List Nat
  paths : List Nat
deriving DecidableEq, Repr

/-- what `restart.toml` carries in `[current]` as far as restarting is concerned -/
structure Rec where
  cstep : Nat
  restartedFrom : Option Nat
  active : List Nat
  trajNum : Nat
  locked : List Job
  steps : Nat := 0            -- simulation.steps (the restart file repeats the settings)
deriving DecidableEq, Repr

inductive RFile
  | absent
  | empty
  | part
  | complete (r : Rec)
deriving DecidableEq, Repr

/-- infretis_data.txt: the path numbers of the well-formed rows, the number of garbled lines
    (a row appended right behind a torn row), and whether the file ends in a torn row -/
structure DataFile where
  rows : List Nat
  garbled : Nat
  torn : Bool
deriving DecidableEq, Repr

structure Disk where
  files : Files
  data : DataFile
  restart : RFile     -- ./restart.toml
  tmp : RFile         -- ./restart.toml.tmp (only used by `Variant.repaired`)
deriving Repr

/-! ## effects -/

inductive Effect
  | mkdir (k : Key)                 -- os.mkdir (fails harmlessly when it exists: make_dirs catches EEXIST)
  | openW (k : Key)                 -- open(..., "w"): create or truncate
  | write (k : Key) (c : Nat)       -- the bytes + close
  | remove (k : Key)
  | move (src dst : Key)            -- shutil.move = os.rename inside one file system
  | rmdir (k : Key)
  | dataOpen                        -- open(data_file, "a")
  | dataAppend (rows : List Nat) (halfDone : Nat) (halfTorn : Bool)
      -- rows written; half-way = `halfDone` whole rows, then (if `halfTorn`) a torn one
  | rOpen (tmp : Bool)              -- open("./restart.toml[.tmp]", "wb")
  | rWrite (tmp : Bool) (r : Rec)   -- tomli_w.dump + close
  | rRename                         -- os.replace(tmp, restart.toml)   (repaired variant only)
deriving DecidableEq, Repr

/-- append complete rows to the data file; behind a torn row the first one is garbled -/
def appendRows (df : DataFile) (rows : List Nat) : DataFile :=
  if df.torn then
    match rows with
    | [] => df
    | _ :: rest => { rows := df.rows ++ rest, garbled := df.garbled + 1, torn := false }
  else { df with rows := df.rows ++ rows }

def setR (d : Disk) (tmp : Bool) (s : RFile) : Disk :=
  if tmp then { d with tmp := s } else { d with restart := s }

def Effect.apply (e : Effect) (d : Disk) : Disk :=
  match e with
  | .mkdir k => if d.files.get k = .absent then { d with files := d.files.set k .dir } else d
  | .openW k => { d with files := d.files.set k .empty }
  | .write k c => { d with files := d.files.set k (.complete c) }
  | .remove k => { d with files := d.files.set k .absent }
  | .move s t => { d with files := (d.files.set t (d.files.get s)).set s .absent }
  | .rmdir k => { d with files := d.files.set k .absent }
  | .dataOpen => d
  | .dataAppend rows _ _ => { d with data := appendRows d.data rows }
  | .rOpen tmp => setR d tmp .empty
  | .rWrite tmp r => setR d tmp (.complete r)
  | .rRename => { d with restart := d.tmp, tmp := .absent }

/-- the effect performed half-way (a prefix of the bytes); identity for the atomic effects -/
def Effect.applyHalf (e : Effect) (d : Disk) : Disk :=
  match e with
  | .write k c => { d with files := d.files.set k (.part c) }
  | .dataAppend rows h t =>
    let df := appendRows d.data (rows.take h)
    { d with data := if t then { df with torn := true } else df }
  | .rWrite tmp _ => setR d tmp .part
  | _ => d

def run (es : List Effect) (d : Disk) : Disk := es.foldl (fun d e => e.apply d) d

/-- the disk left behind by a crash at point `(k, half)` of the effect list `es` -/
def crashAt (es : List Effect) (d : Disk) (k : Nat) (half : Bool) : Disk :=
  let d' := run (es.take k) d
  if half then
    match es[k]? with
    | some e => e.applyHalf d'
    | none => d'
  else d'

/-! ## one step of the main process -/

inductive Variant
  | asIs         -- historical write_toml (before ba0d066): open("./restart.toml","wb") truncates in place
  | repaired     -- the code now: write ./restart.toml.tmp, close it, then os.replace
  | renamedOpen  -- os.replace while the temp file is still open: its content is still in Python's
                 -- write buffer, it reaches the (renamed) file only at close/flush
deriving DecidableEq, Repr

structure Cfg where
  n : Nat                 -- REPEX_state.n  (= number of interfaces + 1)
  deleteOld : Bool        -- output.delete_old
  deleteAll : Bool        -- output.delete_old_all
  variant : Variant := .repaired
  /-- setup_config calls clean_data_file on a restart (the code since 05f8082); false = historical -/
  cleanOnRestart : Bool := true
deriving Repr

/-- a stored path: number, content id of its txt files, its trajectory files (name, content id) -/
structure PathInfo where
  pn : Nat
  cid : Nat
  files : List (Nat × Nat)
deriving DecidableEq, Repr

/-- entry of the `pn_olds` queue: path number and the names of its trajectory files (`adress`) -/
structure Old where
  pn : Nat
  names : List Nat
deriving DecidableEq, Repr

/-- in-memory state of the main process, as far as the file effects depend on it -/
structure Mem where
  cstep : Nat
  restartedFrom : Option Nat
  live : List PathInfo          -- slot order (= live_paths())
  trajNum : Nat
  olds : List Old               -- pn_olds, oldest first (dict insertion order)
  locked : List Job
  steps : Nat := 0              -- simulation.steps
deriving Repr

/-- one accepted ensemble of the job: the path it replaces and the new path's content -/
structure Acc where
  old : PathInfo
  cid : Nat
  files : List (Nat × Nat)     -- trajectory files in the worker directory (name, content id)
deriving Repr

/-- everything the outcome of a job (and the random choices of the step) decides -/
structure Choice where
  accs : List Acc               -- [] = rejected; 1 = shooting / wire fencing accept; 2 = zero swap accept
  newLive : List PathInfo       -- live paths after add_traj / sort_trajstate
  locked' : List Job            -- self.locked at the time of write_toml
  inc : Bool                    -- true: a step (`loop()` incremented cstep); false: final write_toml of `loop()`
  halfRows : Nat                -- number of whole rows in the half-written state of the data file
  halfTorn : Bool               -- whether that state ends in a torn row
deriving Repr

def writeFile (k : Key) (c : Nat) : List Effect := [.openW k, .write k c]

/-- make_dirs(load/pn/accepted): os.makedirs creates the parent only when missing, then
    attempts the leaf (EEXIST is swallowed) -/
def makeDirs (pn : Nat) (d : Disk) : List Effect :=
  (if d.files.get (.pdir pn) = .absent then [.mkdir (.pdir pn)] else []) ++ [.mkdir (.acc pn)]

/-- _move_path: for each source file, remove an existing destination file, then move -/
def moveFiles (pn : Nat) : List (Nat × Nat) → Disk → List Effect
  | [], _ => []
  | (n, _) :: rest, d =>
    let es := (if (d.files.get (.tfile pn n)).isFile then [Effect.remove (.tfile pn n)] else [])
              ++ [Effect.move (.wfile n) (.tfile pn n)]
    es ++ moveFiles pn rest (run es d)

/-- PathStorage.output -/
def outputPath (p : PathInfo) (d : Disk) : List Effect :=
  let e1 := makeDirs p.pn d ++ writeFile (.order p.pn) p.cid ++ writeFile (.energy p.pn) p.cid
            ++ writeFile (.traj p.pn) p.cid
  e1 ++ moveFiles p.pn p.files (run e1 d)

def txtKeys (pn : Nat) : List Key := [.order pn, .traj pn, .energy pn]

def dedup : List Nat → List Nat
  | [] => []
  | x :: t => if x ∈ t then dedup t else x :: dedup t

/-- `os.listdir(load/pn/accepted)`: the names of the entries that exist -/
def tfileNames (f : Files) (pn : Nat) : List Nat :=
  (dedup (f.filterMap (fun e => match e.1 with
      | .tfile p n => if p = pn then some n else none
      | _ => none))).filter (fun n => f.get (.tfile pn n) != .absent)

/-- delete_old_all, up to (not including) the two rmdir: the txt files that are files, then every
    entry still listed in `accepted/` (files left behind by a store that was interrupted and
    redone after a restart — since e7b75fb) -/
def delAllRemoves (o : Old) (d : Disk) : List Effect :=
  let e2 := ((txtKeys o.pn).filter (fun k => (d.files.get k).isFile)).map Effect.remove
  e2 ++ (tfileNames (run e2 d).files o.pn).map (fun n => Effect.remove (.tfile o.pn n))

/-- deleting one queued path: its trajectory files, and with delete_old_all the txt files, the
    leftovers and the two directories -/
def delEffs (cfg : Cfg) (o : Old) (d : Disk) : List Effect :=
  let e1 := o.names.map (fun n => Effect.remove (.tfile o.pn n))
  e1 ++
  (if cfg.deleteAll then
     delAllRemoves o (run e1 d) ++ [.rmdir (.acc o.pn), .rmdir (.pdir o.pn)]
   else [])

/-- the delete_old block of treat_output for the replaced path `old`; returns effects and new queue -/
def deleteOld (cfg : Cfg) (old : PathInfo) (olds : List Old) (d : Disk) : List Effect × List Old :=
  if cfg.deleteOld ∧ old.pn > cfg.n - 2 then
    let r : List Effect × List Old :=
      if olds.length > cfg.n - 2 then
        match olds with
        | o :: t => (delEffs cfg o d, t)
        | [] => ([], [])
      else ([], olds)
    let olds2 := if r.2.length ≤ cfg.n - 2 then r.2 ++ [{ pn := old.pn, names := old.files.map Prod.fst }] else r.2
    (r.1, olds2)
  else ([], olds)

/-- the `for ens_num in picked` loop of treat_output (accepted case): effects -/
def accLoop (cfg : Cfg) : List Acc → Nat → List Old → Disk → List Effect
  | [], _, _, _ => []
  | a :: rest, tn, olds, d =>
    let e1 := outputPath { pn := tn, cid := a.cid, files := a.files } d
    let d1 := run e1 d
    let r := deleteOld cfg a.old olds d1
    e1 ++ r.1 ++ accLoop cfg rest (tn + 1) r.2 (run r.1 d1)

/-- the same loop: the queue it leaves behind -/
def accOlds (cfg : Cfg) : List Acc → Nat → List Old → Disk → List Old
  | [], _, olds, _ => olds
  | a :: rest, tn, olds, d =>
    let e1 := outputPath { pn := tn, cid := a.cid, files := a.files } d
    let d1 := run e1 d
    let r := deleteOld cfg a.old olds d1
    accOlds cfg rest (tn + 1) r.2 (run r.1 d1)

/-- write_to_pathens (only when status == "ACC") -/
def dataEffs (c : Choice) : List Effect :=
  if c.accs.isEmpty then [] else [.dataOpen, .dataAppend (c.accs.map (fun a => a.old.pn)) c.halfRows c.halfTorn]

/-- write_toml -/
def restartEffs (v : Variant) (r : Rec) : List Effect :=
  match v with
  | .asIs => [.rOpen false, .rWrite false r]
  | .repaired => [.rOpen true, .rWrite true r, .rRename]
  | .renamedOpen => [.rOpen true, .rRename, .rWrite false r]

/-- the record `write_toml` dumps at the end of the step -/
def newRec (m : Mem) (c : Choice) : Rec :=
  { cstep := if c.inc then m.cstep + 1 else m.cstep
    restartedFrom := m.restartedFrom
    active := c.newLive.map (·.pn)
    trajNum := m.trajNum + c.accs.length
    locked := c.locked'
    steps := m.steps }

/-- all file-system effects of one step, in the code's order -/
def stepEffs (cfg : Cfg) (m : Mem) (c : Choice) (d : Disk) : List Effect :=
  accLoop cfg c.accs m.trajNum m.olds d ++ dataEffs c ++ restartEffs cfg.variant (newRec m c)

def stepMem (cfg : Cfg) (m : Mem) (c : Choice) (d : Disk) : Mem :=
  { cstep := (newRec m c).cstep
    restartedFrom := m.restartedFrom
    live := c.newLive
    trajNum := m.trajNum + c.accs.length
    olds := accOlds cfg c.accs m.trajNum m.olds d
    locked := c.locked'
    steps := m.steps }

/-- crash in the middle of the step -/
def crashStep (cfg : Cfg) (m : Mem) (c : Choice) (d : Disk) (k : Nat) (half : Bool) : Disk :=
  crashAt (stepEffs cfg m c d) d k half

/-! ## restart -/

/-- what a traj.txt with a given content id references (file names inside `accepted/`) -/
abbrev Manifest := Nat → Option (List Nat)

inductive Outcome
  | starts (r : Rec)       -- setup_config returns the restart record and setup_internal loads all paths
  | refuses                -- setup_config returns None (nothing runs)
  | startsFromZero         -- a fresh run from step 0 (entry infretis.toml)
  | raises                 -- an exception (KeyError / TOMLDecodeError / AssertionError / StopIteration)
deriving DecidableEq, Repr

/-- `load_path` for one active path, as far as existence/completeness of files decides it:
    assert isfile(traj.txt), assert isfile(order.txt), parse traj.txt, assert isfile for every
    referenced trajectory file, parse order.txt, parse energy.txt unless it is missing. -/
def loadPath (M : Manifest) (f : Files) (pn : Nat) : Option PathInfo :=
  if !(f.get (.traj pn)).isFile || !(f.get (.order pn)).isFile then none else
  match f.get (.traj pn) with
  | .complete c =>
    match M c with
    | none => none
    | some names =>
      if names.all (fun n => (f.get (.tfile pn n)).isFile) then
        match f.get (.order pn), f.get (.energy pn) with
        | .complete _, .complete _ | .complete _, .absent =>
          some { pn := pn, cid := c,
                 files := names.map (fun n => (n, match f.get (.tfile pn n) with
                                                   | .complete x | .part x => x | _ => 0)) }
        | _, _ => none
      else none
  | _ => none

inductive Entry
  | restartToml      -- infretisrun -i restart.toml   (how a run is continued)
  | infretisToml     -- infretisrun -i infretis.toml
deriving DecidableEq, Repr

/-- setup_config + setup_internal.  For the entry infretis.toml the settings tables of a complete
    restart.toml always differ from those of infretis.toml (setup_config itself adds
    output.data_file, simulation.ensemble_engines, …), so the restart file is ignored. -/
def restartOutcome (M : Manifest) (e : Entry) (d : Disk) : Outcome :=
  match e with
  | .restartToml =>
    match d.restart with
    | .absent => .refuses                          -- "file not found, exit"
    | .empty => .raises                            -- {} → KeyError('simulation')
    | .part => .raises                          -- TOMLDecodeError
    | .complete r =>
      if r.restartedFrom = some r.cstep ∧ r.steps ≤ r.cstep then .refuses   -- finished run (62f494c)
      else if r.active.any (fun a => !(d.files.get (.traj a)).isFile) then .refuses
      else if r.active.all (fun a => (loadPath M d.files a).isSome) then .starts r
      else .raises
  | .infretisToml =>
    match d.restart with
    | .part => .raises
    | _ => .startsFromZero

/-- the in-memory state after a successful restart (`pn_olds` and `locked` start empty; the
    in-flight jobs are in `locked0`, i.e. `r.locked`) -/
def restore (M : Manifest) (r : Rec) (f : Files) : Mem :=
  { cstep := r.cstep
    restartedFrom := some r.cstep
    live := r.active.filterMap (loadPath M f)
    trajNum := r.trajNum
    olds := []
    locked := []
    steps := r.steps }

/-- `clean_data_file` (setup.py, since 05f8082): on a restart the rows whose path number is still
    listed in `current.active` and a torn last line are dropped (temp file + os.replace: atomic) -/
def cleanData (df : DataFile) (active : List Nat) : DataFile :=
  { rows := df.rows.filter (fun p => !active.contains p), garbled := df.garbled, torn := false }

/-- the disk after the restart's `setup_config` -/
def restoreDisk (cfg : Cfg) (r : Rec) (d : Disk) : Disk :=
  if cfg.cleanOnRestart then { d with data := cleanData d.data r.active } else d

/-- the jobs `pick_lock` issues first after a restart: exactly `locked0`, in order -/
def reissued (r : Rec) (workers : Nat) : List Job := r.locked.take workers

/-! ## the property's predicates (decidable, also evaluated by the driver) -/

def pathOK (f : Files) (p : PathInfo) : Bool :=
  f.get (.order p.pn) == .complete p.cid && f.get (.traj p.pn) == .complete p.cid
    && f.get (.energy p.pn) == .complete p.cid
    && p.files.all (fun nc => f.get (.tfile p.pn nc.1) == .complete nc.2)

/-- rows of the data file: no torn or garbled line, no path twice, no live path -/
def rowsOK (df : DataFile) (active : List Nat) : Bool :=
  !df.torn && df.garbled == 0 && df.rows.Nodup && df.rows.all (fun p => !active.contains p)

/-- index of the `open` of the restart file inside the step's effect list -/
def restartIdx (cfg : Cfg) (m : Mem) (c : Choice) (d : Disk) : Nat :=
  (accLoop cfg c.accs m.trajNum m.olds d).length + (dataEffs c).length

/-- index of the `open` of the data file inside the step's effect list -/
def dataIdx (cfg : Cfg) (m : Mem) (c : Choice) (d : Disk) : Nat :=
  (accLoop cfg c.accs m.trajNum m.olds d).length

/-- crash points at which restart.toml is empty / half written: as-is variant strictly after
    the truncating open and before the completed write; renamed-while-open variant after the rename
    and before the flush at close; never for the repaired variant -/
def inTruncWindow (cfg : Cfg) (m : Mem) (c : Choice) (d : Disk) (k : Nat) : Bool :=
  match cfg.variant with
  | .asIs => k == restartIdx cfg m c d + 1
  | .renamedOpen => k == restartIdx cfg m c d + 2
  | .repaired => false

/-- crash points at which a row of the replaced path is (partly) in the data file while the
    restart file still is the old one -/
def inRowWindow (cfg : Cfg) (m : Mem) (c : Choice) (d : Disk) (k : Nat) (half : Bool) : Bool :=
  !c.accs.isEmpty &&
    ((k == dataIdx cfg m c d + 1 && half && (c.halfTorn || c.halfRows != 0)) ||
     (dataIdx cfg m c d + 2 ≤ k && k < (stepEffs cfg m c d).length))

end Infretis.Fs
