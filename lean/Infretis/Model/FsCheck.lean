/-
C08: Boolean (executable) versions of the HYPOTHESES of the C08 theorems — `Inv`, `WF`, `Cover`,
`Complete` (Lemmas/FsInv.lean, Lemmas/FsRows.lean) — so that the native driver can evaluate them on
every state / step outcome the tie reconstructs from the REAL run (driver op `hyp`).  Soundness
(`… = true → …`) is proved in Lemmas/FsCheck.lean.  Without this nothing connected the hypotheses
of the theorems to the states the library really goes through.

No imports besides Model.Fs*: compiled into the native driver.
-/
import Infretis.Model.FsRestart
namespace Infretis.Fs

def pnsB (l : List PathInfo) : List Nat := l.map (·.pn)

/-- `Inv M m d` -/
def invB (M : Manifest) (m : Mem) (d : Disk) : Bool :=
  (match d.restart with
   | .complete r => r.cstep == m.cstep && r.active == pnsB m.live && r.trajNum == m.trajNum
                      && r.restartedFrom != some r.cstep
   | _ => false)
  && m.live.all (fun p => pathOK d.files p && decide (p.pn < m.trajNum)
                            && M p.cid == some (p.files.map Prod.fst))
  && decide (pnsB m.live).Nodup
  && m.olds.all (fun o => decide (o.pn < m.trajNum) && !(pnsB m.live).contains o.pn)
  && rowsOK d.data (pnsB m.live)
  && d.data.rows.all (fun q => decide (q < m.trajNum))
  && (match m.restartedFrom with
      | some R => decide (R ≤ m.cstep)
      | none => true)

/-- `WF cfg M m c d` -/
def wfB (cfg : Cfg) (M : Manifest) (m : Mem) (c : Choice) (d : Disk) : Bool :=
  c.accs.all (fun a => m.live.contains a.old)
  && decide (c.accs.map (fun a => a.old.pn)).Nodup
  && decide (c.accs.flatMap (fun a => a.files.map Prod.fst)).Nodup
  && c.accs.all (fun a => a.files.all (fun nc => d.files.get (.wfile nc.1) == .complete nc.2))
  && decide (c.accs.length ≤ cfg.n - 1)
  && c.newLive.all (fun p =>
        (m.live.contains p && c.accs.all (fun a => a.old.pn != p.pn))
        || (List.range c.accs.length).any (fun i =>
              match c.accs[i]? with
              | some a => p == { pn := m.trajNum + i, cid := a.cid, files := a.files }
              | none => false))
  && decide (pnsB c.newLive).Nodup
  && c.accs.all (fun a => M a.cid == some (a.files.map Prod.fst))
  && (c.inc || (c.accs.isEmpty && m.restartedFrom != some m.cstep))

/-- `Cover m c` -/
def coverB (m : Mem) (c : Choice) : Bool :=
  m.live.all (fun p => (pnsB c.newLive).contains p.pn || c.accs.any (fun a => a.old.pn == p.pn))
  && (List.range c.accs.length).all (fun i => (pnsB c.newLive).contains (m.trajNum + i))

/-- `Complete m d` -/
def completeB (m : Mem) (d : Disk) : Bool :=
  (List.range m.trajNum).all (fun q => (pnsB m.live).contains q || d.data.rows.contains q)

end Infretis.Fs
