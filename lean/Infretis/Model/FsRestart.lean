/-
File-system effects of the RESTART procedure itself, and the composed life-cycle function of the
main process (C08).

`Model/Fs.lean` treats a restart as one atomic transition (`restore` / `restoreDisk`).  The real
restart has effects of its own, and the main process can die between (or half-way through) them:

  setup_config  (setup.py ~88-193, restart branch)
      isfile(restart.toml) / tomli.load / "current" in config        -> refuses | raises
      cstep == restarted_from and cstep >= steps                     -> refuses (finished run)
      every active path has load/<n>/traj.txt                        -> refuses otherwise
      clean_data_file(config)                                        -> EFFECTS (below)
  clean_data_file (setup.py ~309-337)
      keep = header lines + whole rows whose first token is not an active path number
      if keep != lines:  open(data_file + ".tmp", "w"); writelines(keep); close
                         os.replace(data_file + ".tmp", data_file)
  setup_internal (setup.py ~27-66): load_paths_from_disk reads only -> raises if a path does not load
  scheduler: `while state.initiate(): prep_md_items` -> make_dirs(worker<i>) per issued job
             (os.mkdir, EEXIST swallowed); the first write_toml comes with the first treated result
             (that is a step of `Fs.stepEffs` again).

So the effect list of a restart is  [open tmp, write tmp, replace]  (only if something is to be
dropped)  ++  [mkdir worker_0 … mkdir worker_{jobs-1}].  restart.toml is NOT rewritten by a restart:
`restarted_from` lives in memory until the first completed step.

`Event` / `runScript` compose everything the main process can do over ANY number of lives:
worker output, completed steps, a death at any point of a step, restart attempts that die at any
point of the restart procedure, restarts that get through.  The driver runs `runScript`.

No imports besides Model.Fs: compiled into the native driver.
-/
import Infretis.Model.Fs
namespace Infretis.Fs

/-! ## the data file's temp file and the effects of a restart -/

/-- ./infretis_data.txt.tmp -/
inductive DTmp
  | absent
  | empty
  | part                      -- a proper prefix of the lines to keep
  | complete (df : DataFile)  -- all lines to keep
deriving DecidableEq, Repr

/-- the run directory including the temp file of `clean_data_file` -/
structure RDisk where
  d : Disk
  dtmp : DTmp
deriving Repr

inductive REffect
  | dtOpen                    -- open(data_file + ".tmp", "w"): create or truncate
  | dtWrite (keep : DataFile) -- writelines(keep) + close
  | dtReplace                 -- os.replace(data_file + ".tmp", data_file)
  | mkdirWorker (i : Nat)     -- make_dirs("worker<i>") in prep_md_items (EEXIST swallowed)
deriving DecidableEq, Repr

/-- `os.replace` moves whatever the temp file holds; in every effect list generated below the temp
    file is complete at that moment (the other cases are listed for totality: nothing to move /
    an empty or cut data file) -/
def REffect.apply (e : REffect) (x : RDisk) : RDisk :=
  match e with
  | .dtOpen => { x with dtmp := .empty }
  | .dtWrite k => { x with dtmp := .complete k }
  | .dtReplace =>
    match x.dtmp with
    | .complete k => { d := { x.d with data := k }, dtmp := .absent }
    | .absent => x
    | .empty => { d := { x.d with data := { rows := [], garbled := 0, torn := false } }, dtmp := .absent }
    | .part => { d := { x.d with data := { rows := [], garbled := 0, torn := true } }, dtmp := .absent }
  | .mkdirWorker _ => x

/-- half-way: only the write has an intermediate state -/
def REffect.applyHalf (e : REffect) (x : RDisk) : RDisk :=
  match e with
  | .dtWrite _ => { x with dtmp := .part }
  | _ => x

def runR (es : List REffect) (x : RDisk) : RDisk := es.foldl (fun x e => e.apply x) x

/-- the disk left behind when the restarting process dies at point `(k, half)` of its effect list -/
def crashAtR (es : List REffect) (x : RDisk) (k : Nat) (half : Bool) : RDisk :=
  let x' := runR (es.take k) x
  if half then
    match es[k]? with
    | some e => e.applyHalf x'
    | none => x'
  else x'

/-- clean_data_file: nothing is written when nothing is to be dropped (`keep != lines`) -/
def cleanEffs (df : DataFile) (active : List Nat) : List REffect :=
  if cleanData df active = df then []
  else [.dtOpen, .dtWrite (cleanData df active), .dtReplace]

/-- `while state.initiate(): prep_md_items(...)`: one make_dirs per issued job -/
def workerDirs (jobs : Nat) : List REffect := (List.range jobs).map REffect.mkdirWorker

/-- setup_config (restart branch) + setup_internal + the initiation loop of `scheduler`, in the
    code's order: the outcome and the effects performed on the way.  `jobs` = number of jobs the
    initiation issues (min(workers, steps left), decided by `initiate()` — C06/C17's subject). -/
def restartRun (cfg : Cfg) (M : Manifest) (x : RDisk) (jobs : Nat) : Outcome × List REffect :=
  match x.d.restart with
  | .absent => (.refuses, [])                        -- "restart.toml file not found, exit"
  | .empty => (.raises, [])                          -- {} -> KeyError
  | .part => (.raises, [])                           -- TOMLDecodeError
  | .complete r =>
    if r.restartedFrom = some r.cstep ∧ r.steps ≤ r.cstep then (.refuses, [])
    else if r.active.any (fun a => !(x.d.files.get (.traj a)).isFile) then (.refuses, [])
    else
      let cl := if cfg.cleanOnRestart then cleanEffs x.d.data r.active else []
      if r.active.all (fun a => (loadPath M x.d.files a).isSome) then (.starts r, cl ++ workerDirs jobs)
      else (.raises, cl)                             -- load_paths_from_disk asserts after the cleaning

/-! ## the life cycle of the main process as one function -/

inductive Event
  | work (files : List (Nat × Nat))
      -- the worker (run_md) empties its directory and writes trajectory files (name, content id)
  | step (c : Choice)                               -- treat_output + write_toml run to the end
  | crash (c : Choice) (k : Nat) (half : Bool)      -- the process dies at point (k, half) of that step
  | restartCrash (jobs k : Nat) (half : Bool)       -- a restart attempt dies at point (k, half) of the restart
  | restart (jobs : Nat)                            -- a restart attempt runs through
deriving Repr

/-- `mem = none`: no main process is alive -/
structure PState where
  mem : Option Mem
  x : RDisk
deriving Repr

/-- the worker's directory is the worker's business: emptied, then the new files -/
def workFiles (f : Files) (files : List (Nat × Nat)) : Files :=
  files.foldl (fun f nc => f.set (.wfile nc.1) (.complete nc.2))
    (f.filter (fun e => match e.1 with | .wfile _ => false | _ => true))

/-- one event.  Events that do not apply (a step without a live process, a restart while one is
    alive) change nothing; a kill BETWEEN two steps is `.crash c 0 false`. -/
def runEvent (cfg : Cfg) (M : Manifest) (s : PState) (e : Event) : PState :=
  match s.mem, e with
  | some _, .work files => { s with x := { s.x with d := { s.x.d with files := workFiles s.x.d.files files } } }
  | some m, .step c =>
    { mem := some (stepMem cfg m c s.x.d), x := { s.x with d := run (stepEffs cfg m c s.x.d) s.x.d } }
  | some m, .crash c k half => { mem := none, x := { s.x with d := crashStep cfg m c s.x.d k half } }
  | none, .restartCrash jobs k half =>
    { mem := none, x := crashAtR (restartRun cfg M s.x jobs).2 s.x k half }
  | none, .restart jobs =>
    let rr := restartRun cfg M s.x jobs
    let x' := runR rr.2 s.x
    match rr.1 with
    | .starts r => { mem := some (restore M r x'.d.files), x := x' }
    | _ => { mem := none, x := x' }
  | _, _ => s

def runScript (cfg : Cfg) (M : Manifest) (s : PState) (es : List Event) : PState :=
  es.foldl (runEvent cfg M) s

/-- the outcome of a restart right now (what the property asks of a dead state) -/
def PState.restartNow (cfg : Cfg) (M : Manifest) (s : PState) (jobs : Nat) : Outcome :=
  (restartRun cfg M s.x jobs).1

/-- a leftover temp file of `clean_data_file` exists only while the data file still is to be cleaned
    (then the next restart truncates and replaces it) -/
def tmpOK (x : RDisk) (active : List Nat) : Bool :=
  x.dtmp == .absent || cleanData x.d.data active != x.d.data

end Infretis.Fs
