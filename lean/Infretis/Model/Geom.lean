/-
Model of the built-in order parameters of infretis/classes/orderparameter.py (C20):
  pbc_dist_coordinate                      (orderparameter.py:20-45)
  Distancevel / Position / Distance / Velocity .calculate   (110-264)
  Dihedral / Puckering .calculate          (327-496)

Numbers are core `Rat`.  The code applies `sqrt`, `arctan2`, `rad2deg`, `sin`, `cos`, a final
division by a square root … to rational *pre-images*; those transcendental tails stay OUTSIDE the
model.  What each model function returns is exactly the rational pre-image named in its doc
string, and the doc string says which tail the code applies to it (the tie applies the same tail
in floating point and compares).

Box handling is modelled EXACTLY as each class does it: `Distance`, `Dihedral`, `Puckering` pass
`np.array(system.box[:3])`, `Distancevel` passes the WHOLE `system.box` (the `Variant` switch:
`asIs` = whole box, `repaired` = `box[:3]`).  `pbc_dist_coordinate` iterates over the *box*
entries and indexes `distance[i]`, so a box with more than three entries raises IndexError,
and a box with fewer than three entries leaves the remaining components of `np.zeros` untouched.

Modelled domain: `system.pos`, `system.vel` are (N,3)/(M,3) float arrays, `system.box` is `None`
or a 1-D float array of any length; indices are Python ints (negative indices wrap, as numpy's do).
No imports: this file is compiled into the native driver.
-/
namespace Infretis.Geom

/-- error kinds. `index` = IndexError.  `nan` is not an exception: it says that the value the code
    returns is NaN because `pbc_dist_coordinate` met a zero box length (1/0 = inf, inf·0 = nan);
    every later float operation propagates it, so all returned numbers are NaN. -/
inductive Err | index | nan
deriving DecidableEq, Repr

/-- `asIs` mirrors the code as it is; `repaired` differs at exactly one spot:
    `Distancevel.calculate` slices the box (`box[:3]`) like the other classes do. -/
inductive Variant | asIs | repaired
deriving DecidableEq, Repr

structure V3 where
  x : Rat
  y : Rat
  z : Rat
deriving DecidableEq, Repr

namespace V3
def zero : V3 := ⟨0, 0, 0⟩
def add (a b : V3) : V3 := ⟨a.x + b.x, a.y + b.y, a.z + b.z⟩
def sub (a b : V3) : V3 := ⟨a.x - b.x, a.y - b.y, a.z - b.z⟩
def neg (a : V3) : V3 := ⟨-a.x, -a.y, -a.z⟩
def smul (c : Rat) (a : V3) : V3 := ⟨c * a.x, c * a.y, c * a.z⟩
/-- `np.dot` -/
def dot (a b : V3) : Rat := a.x * b.x + a.y * b.y + a.z * b.z
/-- `np.cross` -/
def cross (a b : V3) : V3 :=
  ⟨a.y * b.z - a.z * b.y, a.z * b.x - a.x * b.z, a.x * b.y - a.y * b.x⟩
/-- `np.dot(np.cross(a, b), c)` — the 3×3 determinant with rows a, b, c -/
def triple (a b c : V3) : Rat := dot (cross a b) c
end V3

/-- 3×3 matrix by rows (used only to state rotation invariance) -/
structure Mat3 where
  r1 : V3
  r2 : V3
  r3 : V3
deriving DecidableEq, Repr

namespace Mat3
def mulVec (R : Mat3) (v : V3) : V3 := ⟨V3.dot R.r1 v, V3.dot R.r2 v, V3.dot R.r3 v⟩
def det (R : Mat3) : Rat := V3.triple R.r1 R.r2 R.r3
/-- column `j` of `R` dotted with column `k`: the entries of `Rᵀ R` -/
def col1 (R : Mat3) : V3 := ⟨R.r1.x, R.r2.x, R.r3.x⟩
def col2 (R : Mat3) : V3 := ⟨R.r1.y, R.r2.y, R.r3.y⟩
def col3 (R : Mat3) : V3 := ⟨R.r1.z, R.r2.z, R.r3.z⟩
end Mat3

/-! ### `numpy.rint` and `pbc_dist_coordinate` -/

/-- `numpy.rint`: round to nearest, ties to the even integer. -/
def rint (x : Rat) : Int :=
  let f := x.floor
  let r := x - (f : Rat)
  if r < 1 / 2 then f else if 1 / 2 < r then f + 1 else if f % 2 = 0 then f else f + 1

/-- `np.abs` -/
def rabs (x : Rat) : Rat := if x < 0 then -x else x

/-- one component of `pbc_dist_coordinate` (for `length ≠ 0`):
    `if abs(d) > 0.5*length: d - rint(d * (1/length)) * length else: d` -/
def pbcWrap (d L : Rat) : Rat :=
  if rabs d > (1 / 2) * L then d - ((rint (d * (1 / L)) : Int) : Rat) * L else d

/-- the component comes out as NaN: length 0 gives ilength = inf, and for `d ≠ 0` the branch
    `abs(d) > 0` is taken: `d - rint(d*inf)*0 = d - inf*0 = nan`.  (`d = 0` takes the else branch.) -/
def compNan (d L : Rat) : Bool := decide (L = 0) && !decide (d = 0)

/-- a wrapped vector and the flag "some component is NaN" -/
structure Wrapped where
  v : V3
  nan : Bool
deriving DecidableEq, Repr

/-- `pbc_dist_coordinate(distance, box_lengths)` for a 3-vector `distance` and a 1-D box of any
    length.  The code's loop `for i, (length, ilength) in enumerate(zip(box, 1/box))` is unrolled:
    `pbcdist` starts as zeros, entry `i` of the box wraps component `i`, and a fourth box entry
    evaluates `distance[3]` → IndexError (before anything is returned). -/
def pbcDist (d : V3) : List Rat → Except Err Wrapped
  | [] => .ok ⟨⟨0, 0, 0⟩, false⟩
  | [a] => .ok ⟨⟨pbcWrap d.x a, 0, 0⟩, compNan d.x a⟩
  | [a, b] => .ok ⟨⟨pbcWrap d.x a, pbcWrap d.y b, 0⟩, compNan d.x a || compNan d.y b⟩
  | [a, b, c] =>
    .ok ⟨⟨pbcWrap d.x a, pbcWrap d.y b, pbcWrap d.z c⟩, compNan d.x a || compNan d.y b || compNan d.z c⟩
  | _ :: _ :: _ :: _ :: _ => .error .index

/-! ### the System and Python indexing -/

/-- the fields of `System` the order parameters read -/
structure Sys where
  pos : List V3
  vel : List V3
  box : Option (List Rat)
deriving DecidableEq, Repr

/-- Python/numpy index normalisation on an axis of size `n` -/
def pyIdx (n : Nat) (i : Int) : Option Nat :=
  if 0 ≤ i ∧ i < (n : Int) then some i.toNat
  else if -(n : Int) ≤ i ∧ i < 0 then some (i + (n : Int)).toNat
  else none

/-- `arr[i]` on an (N,3) array: row `i` or IndexError -/
def getAtom (l : List V3) (i : Int) : Except Err V3 :=
  match pyIdx l.length i with
  | none => .error .index
  | some j =>
    match l[j]? with
    | some v => .ok v
    | none => .error .index

/-- `v[k]` on a 3-vector -/
def getComp (v : V3) (k : Int) : Except Err Rat :=
  match pyIdx 3 k with
  | some 0 => .ok v.x
  | some 1 => .ok v.y
  | some 2 => .ok v.z
  | _ => .error .index

/-- `if self.periodic and system.box is not None: d = pbc_dist_coordinate(d, <box expr>)`;
    `slice3 = true` is `np.array(system.box[:3])`, `false` is the whole `system.box`. -/
def applyBox (periodic : Bool) (box : Option (List Rat)) (slice3 : Bool) (d : V3) : Except Err Wrapped :=
  if periodic then
    match box with
    | none => .ok ⟨d, false⟩
    | some b => pbcDist d (if slice3 then b.take 3 else b)
  else .ok ⟨d, false⟩

/-! ### the order parameters (rational pre-images) -/

/-- `Distance.calculate`: returns `delta·delta`; the code returns `[sqrt(·)]`. -/
def distanceSq (s : Sys) (i0 i1 : Int) (periodic : Bool) : Except Err Rat := do
  let p1 ← getAtom s.pos i1
  let p0 ← getAtom s.pos i0
  let w ← applyBox periodic s.box true (V3.sub p1 p0)
  if w.nan then throw .nan
  pure (V3.dot w.v w.v)

/-- which box `Distancevel.calculate` hands to `pbc_dist_coordinate` -/
def distancevelSlices : Variant → Bool
  | .asIs => false       -- `pbc_dist_coordinate(delta, system.box)`
  | .repaired => true    -- `box[:3]`

/-- `Distancevel.calculate`: returns `(delta·delta_v, delta·delta)`;
    the code returns `[num / sqrt(dsq)]` (nan/inf when `dsq = 0`). -/
def distancevelNum (var : Variant) (s : Sys) (i0 i1 : Int) (periodic : Bool) : Except Err (Rat × Rat) := do
  let p1 ← getAtom s.pos i1
  let p0 ← getAtom s.pos i0
  let w ← applyBox periodic s.box (distancevelSlices var) (V3.sub p1 p0)
  let v1 ← getAtom s.vel i1
  let v0 ← getAtom s.vel i0
  if w.nan then throw .nan
  pure (V3.dot w.v (V3.sub v1 v0), V3.dot w.v w.v)

/-- `Position.calculate`: `system.pos[index[0], index[1]]` (no tail; periodic is refused by `__init__`). -/
def position (s : Sys) (i dim : Int) : Except Err Rat := do
  let p ← getAtom s.pos i
  getComp p dim

/-- `Velocity.calculate`: `system.vel[index][dim]`, `dim ∈ {0,1,2}` fixed by `__init__`. -/
def velocity (s : Sys) (i : Int) (dim : Nat) : Except Err Rat := do
  let v ← getAtom s.vel i
  getComp v (dim : Int)

/-- the three rational numbers the dihedral angle is a function of -/
structure DihedralPre where
  /-- `(v1 × v2) · v3` -/
  trip : Rat
  /-- `|v2|² (v1·v3) − (v1·v2)(v2·v3)` -/
  den : Rat
  /-- `|v2|²` -/
  n2 : Rat
deriving DecidableEq, Repr

def dihedralOf (v1 v2 v3 : V3) : DihedralPre :=
  { trip := V3.triple v1 v2 v3
    den := V3.dot v2 v2 * V3.dot v1 v3 - V3.dot v1 v2 * V3.dot v2 v3
    n2 := V3.dot v2 v2 }

/-- `Dihedral.calculate`.  With `u = v2/|v2|` the code computes
    `numer = (v1×u)·v3 = trip/√n2`, `denom = v1·v3 − (v1·u)(u·v3) = den/n2` and returns
    `[arctan2(numer, denom)] = [arctan2(√n2 · trip, den)]` for `n2 > 0` (nan when `n2 = 0`). -/
def dihedral (s : Sys) (i0 i1 i2 i3 : Int) (periodic : Bool) : Except Err DihedralPre := do
  let p0 ← getAtom s.pos i0
  let p1 ← getAtom s.pos i1
  let p2 ← getAtom s.pos i2
  let p3 ← getAtom s.pos i3
  let w1 ← applyBox periodic s.box true (V3.sub p0 p1)
  let w2 ← applyBox periodic s.box true (V3.sub p1 p2)
  let w3 ← applyBox periodic s.box true (V3.sub p3 p2)
  if w1.nan || w2.nan || w3.nan then throw .nan
  pure (dihedralOf w1.v w2.v w3.v)

/-- six ring atoms -/
structure Ring6 where
  p0 : V3
  p1 : V3
  p2 : V3
  p3 : V3
  p4 : V3
  p5 : V3
deriving DecidableEq, Repr

/-- `center = np.mean(pos, axis=0); pos[i] -= center` -/
def centre (r : Ring6) : Ring6 :=
  let c := V3.smul (1 / 6) (V3.add (V3.add (V3.add (V3.add (V3.add r.p0 r.p1) r.p2) r.p3) r.p4) r.p5)
  ⟨V3.sub r.p0 c, V3.sub r.p1 c, V3.sub r.p2 c, V3.sub r.p3 c, V3.sub r.p4 c, V3.sub r.p5 c⟩

/-- `R1 = Σ pos[i] sin(2π(i−6)/6) = (√3/2)·ringA`, with `ringA = q1 + q2 − q4 − q5` -/
def ringA (q : Ring6) : V3 := V3.sub (V3.sub (V3.add q.p1 q.p2) q.p4) q.p5
/-- `R2 = Σ pos[i] cos(2π(i−6)/6) = q0 + (q1 − q2 − q4 + q5)/2 − q3` -/
def ringB (q : Ring6) : V3 :=
  V3.sub (V3.add q.p0 (V3.smul (1 / 2) (V3.add (V3.sub (V3.sub q.p1 q.p2) q.p4) q.p5))) q.p3

/-- puckering pre-image: the centred coordinates `q`, the un-normalised plane normal
    `N = ringA × ringB` (the code's `n` is `N/|N|`, the factor √3/2 > 0 cancels),
    the un-normalised plane projections `zs[i] = q[i]·N` and `nn = N·N`.
    The code's `z[i]` is `zs[i]/√nn`; `(θ, φ, Q)` are `sqrt`/`arctan2`/`rad2deg` of fixed linear
    combinations of the `z[i]` with coefficients `sqrt(1/3)·cos(4πi/6)` … (the tail). -/
structure PuckerPre where
  q : Ring6
  normal : V3
  zs : List Rat
  nn : Rat
deriving DecidableEq, Repr

def puckerOf (r : Ring6) : PuckerPre :=
  let q := centre r
  let n := V3.cross (ringA q) (ringB q)
  { q := q, normal := n,
    zs := [V3.dot q.p0 n, V3.dot q.p1 n, V3.dot q.p2 n, V3.dot q.p3 n, V3.dot q.p4 n, V3.dot q.p5 n],
    nn := V3.dot n n }

/-- `Puckering.calculate`.  `pos = system.pos[list(self.index)]` (a copy); if periodic:
    `pos[i] = pbc(pos[i] − pos[0], box[:3])` for i = 1..5, then `pos[0] *= 0`. -/
def puckering (s : Sys) (i0 i1 i2 i3 i4 i5 : Int) (periodic : Bool) : Except Err PuckerPre := do
  let p0 ← getAtom s.pos i0
  let p1 ← getAtom s.pos i1
  let p2 ← getAtom s.pos i2
  let p3 ← getAtom s.pos i3
  let p4 ← getAtom s.pos i4
  let p5 ← getAtom s.pos i5
  if periodic && s.box.isSome then
    let w1 ← applyBox periodic s.box true (V3.sub p1 p0)
    let w2 ← applyBox periodic s.box true (V3.sub p2 p0)
    let w3 ← applyBox periodic s.box true (V3.sub p3 p0)
    let w4 ← applyBox periodic s.box true (V3.sub p4 p0)
    let w5 ← applyBox periodic s.box true (V3.sub p5 p0)
    if w1.nan || w2.nan || w3.nan || w4.nan || w5.nan then throw .nan
    pure (puckerOf ⟨V3.smul 0 p0, w1.v, w2.v, w3.v, w4.v, w5.v⟩)
  else
    pure (puckerOf ⟨p0, p1, p2, p3, p4, p5⟩)

/-! ### one entry point: `calculate`, value and effect on the System -/

/-- an order-parameter object (class + constructor arguments) -/
inductive OP
  | distance (i0 i1 : Int) (periodic : Bool)
  | distancevel (i0 i1 : Int) (periodic : Bool)
  | position (i dim : Int)
  | velocity (i : Int) (dim : Nat)
  | dihedral (i0 i1 i2 i3 : Int) (periodic : Bool)
  | puckering (i0 i1 i2 i3 i4 i5 : Int) (periodic : Bool)
deriving DecidableEq, Repr

/-- `velocity_dependent` flag set by the constructors (`velocity=True`) -/
def OP.velocityDependent : OP → Bool
  | .distancevel .. => true
  | .velocity .. => true
  | _ => false

/-- the value part: the pre-images flattened to a list of rationals
    distance [dsq] · distancevel [num, dsq] · position [x] · velocity [v] ·
    dihedral [trip, den, n2] · puckering [zs0..zs5, nn] -/
def value (var : Variant) (op : OP) (s : Sys) : Except Err (List Rat) :=
  match op with
  | .distance i0 i1 p => (distanceSq s i0 i1 p).map (fun d => [d])
  | .distancevel i0 i1 p => (distancevelNum var s i0 i1 p).map (fun r => [r.1, r.2])
  | .position i d => (position s i d).map (fun x => [x])
  | .velocity i d => (velocity s i d).map (fun x => [x])
  | .dihedral i0 i1 i2 i3 p => (dihedral s i0 i1 i2 i3 p).map (fun r => [r.trip, r.den, r.n2])
  | .puckering i0 i1 i2 i3 i4 i5 p => (puckering s i0 i1 i2 i3 i4 i5 p).map (fun r => r.zs ++ [r.nn])

/-- where a numpy array that is the target of an in-place statement lives:
    `fresh` = a new array (result of a binary operation, of `np.zeros`, of *advanced* indexing
    `a[list]`), `posRow j` = a basic-indexing *view* of row `j` of `system.pos`. -/
inductive Target
  | fresh
  | posRow (j : Nat)
deriving DecidableEq, Repr

/-- an in-place numpy statement (`/=`, `*=`, `-=`, `a[i, :] = …`) applied to a target:
    writes through to the System when the target is a view of one of its arrays. -/
def inplace (s : Sys) (t : Target) (f : V3 → V3) : Sys :=
  match t with
  | .fresh => s
  | .posRow j => { s with pos := s.pos.modify j f }

/-- the in-place statements of each `calculate`, in the code's order, with their targets.
    Dihedral: `vector2 /= norm` — `vector2` is `pos[a] − pos[b]` or the `np.zeros` array returned by
    `pbc_dist_coordinate`: fresh.  Puckering: `pos[i,:] = …`, `pos[0,:] *= 0`, `pos[i,:] -= center`
    — `pos` is `system.pos[list(self.index)]`, advanced indexing: fresh.  The other four classes
    contain no in-place statement and no attribute assignment. -/
def effects (op : OP) (s : Sys) : Sys :=
  match op with
  | .dihedral .. => inplace s .fresh (V3.smul 1)
  | .puckering .. =>
    let s := inplace s .fresh id        -- pos[i, :] = pbc(...)   (i = 1..5)
    let s := inplace s .fresh (V3.smul 0)  -- pos[0, :] *= 0
    inplace s .fresh id                 -- pos[i, :] -= center  (i = 0..5)
  | _ => s

/-- `op.calculate(system)`: the returned pre-image (or error kind) and the System afterwards -/
def calculate (var : Variant) (op : OP) (s : Sys) : Except Err (List Rat) × Sys :=
  (value var op s, effects op s)

/-! ### transformations used by the symmetry statements (and by the driver's self-check ops) -/

/-- rigid translation of all atoms -/
def translate (t : V3) (s : Sys) : Sys := { s with pos := s.pos.map (fun p => V3.add p t) }

/-- image vector `(kx·Lx, ky·Ly, kz·Lz)` of an orthogonal box with lengths `L` -/
def imageVec (L : V3) (k : Int × Int × Int) : V3 :=
  ⟨(k.1 : Rat) * L.x, (k.2.1 : Rat) * L.y, (k.2.2 : Rat) * L.z⟩

/-- shift atom number `a` by the image vector `ks a` of the box, for every atom at once
    (shifting a single atom is `ks = fun a => if a = j then k else (0,0,0)`) -/
def shiftImages (L : V3) (ks : Nat → Int × Int × Int) (s : Sys) : Sys :=
  { s with pos := s.pos.mapIdx (fun a p => V3.add p (imageVec L (ks a))) }

/-- `v ↦ −v` for all atoms -/
def reverseVel (s : Sys) : Sys := { s with vel := s.vel.map V3.neg }

/-- rotate positions and velocities -/
def rotate (R : Mat3) (s : Sys) : Sys :=
  { s with pos := s.pos.map R.mulVec, vel := s.vel.map R.mulVec }

/-- `if box is not None: system.box = box` — otherwise the System keeps the box it had (`box0`) -/
def newBox (box0 box : Option (List Rat)) : Option (List Rat) :=
  match box with
  | some b => some b
  | none => box0

/-- `EngineBase.calculate_order(system, xyz, vel, box)` (enginebase.py:139-178) once the arrays are
    known — read from the configuration file or passed explicitly, the SAME statements follow on both
    routes: `system.pos = xyz; system.vel = vel * -1.0 if system.vel_rev else vel; system.box = box;
    return order_function.calculate(system)`.  Returns the value and the System as the call leaves it. -/
def calculateOrder (var : Variant) (op : OP) (velRev : Bool) (box0 : Option (List Rat))
    (xyz vel : List V3) (box : Option (List Rat)) : Except Err (List Rat) × Sys :=
  let s : Sys :=
    { pos := xyz
      vel := if velRev then vel.map V3.neg else vel
      box := newBox box0 box }
  calculate var op s

/-! ### `Path.reverse` and velocity-dependent orders (path.py:221-248) -/

/-- a path frame as far as the order parameter is concerned: the arrays stored with the frame
    and the `vel_rev` flag.  The physical velocity of the frame is `vel · (−1)^velRev`. -/
structure Frame where
  sys : Sys
  velRev : Bool
deriving DecidableEq, Repr

/-- the System the order parameter has to see for a frame: velocities times `(−1)^velRev`
    (what `EngineBase.calculate_order` hands over) -/
def Frame.physical (f : Frame) : Sys := if f.velRev then reverseVel f.sys else f.sys

/-- the order of a frame (as `calculate_order` computes it) -/
def frameOrder (var : Variant) (op : OP) (f : Frame) : Except Err (List Rat) := value var op f.physical

/-- switch for the recomputation in `Path.reverse`: `asIs` = the code (`order_function.calculate(frame)`
    reads the velocities stored with the frame and ignores the flag it has just toggled),
    `repaired` = evaluate on the physical velocities of the reversed frame. -/
inductive ReverseVariant | asIs | repaired
deriving DecidableEq, Repr

/-- one frame of `Path.reverse(order_function)` for a velocity-dependent `order_function` and
    `rev_v = True`: `new_point = phasepoint.copy(); new_point.vel_rev = not new_point.vel_rev;
    new_point.order = order_function.calculate(new_point)`.  Returns the new frame and its order. -/
def reverseRecompute (rv : ReverseVariant) (var : Variant) (op : OP) (f : Frame) :
    Frame × Except Err (List Rat) :=
  let f' : Frame := { f with velRev := !f.velRev }
  match rv with
  | .asIs => (f', value var op f'.sys)
  | .repaired => (f', value var op f'.physical)

end Infretis.Geom
