import Infretis.Model.Geom
/-
Model of the CONSTRUCTION of the built-in order parameters (C20, extension pass):
  _verify_pair                                   (orderparameter.py:312-325)
  Distance / Distancevel / Position / Velocity / Dihedral / Puckering .__init__
  OrderParameter.__init__                        (flag `velocity_dependent`)
  create_orderparameter                          (orderparameter.py:278-309), together with the part of
      core.generic_factory / initiate_instance / _pick_out_arg_kwargs it goes through (class lookup,
      required argument `index`, optional `periodic` / `dim` taken only when the key is present).

Mirrored as the code IS: which definitions are refused while the object is made (wrong count,
no `len`, `int()` failing for Dihedral/Puckering, unknown `dim`, periodic Position) and which are
accepted although no system can satisfy them (out-of-range, repeated, negative indices: these only
show at the first `calculate`, as IndexError or as a degenerate value).

Modelled domain: `index` is `None`, a bool, an int, a float (finite), a str, or a list/tuple of such
scalars; strings consist of ASCII letters, digits and a leading sign (no white space, no `_`:
Python's `int()` would accept those).  `periodic` is a bool, `dim` a str (ASCII).  The settings
section has a `class` key; keys other than class/index/periodic/dim are never looked at by the six
built-in classes (`_pick_out_arg_kwargs` reads only the names in the signature).
No imports outside core Lean and Model files: compiled into the native driver.
-/
namespace Infretis.Geom

/-- exception kinds raised while an order parameter is made -/
inductive CtorErr
  | typeError        -- TypeError
  | valueError       -- ValueError
  | notImplemented   -- NotImplementedError
deriving DecidableEq, Repr

/-- a Python scalar inside an index definition -/
inductive Scalar
  | none
  | bool (b : Bool)
  | int (z : Int)
  | float (q : Rat)
  | str (s : String)
deriving DecidableEq, Repr

/-- the value of the `index` argument: a scalar, or a list/tuple of scalars -/
inductive IdxVal
  | scalar (v : Scalar)
  | seq (l : List Scalar)
deriving DecidableEq, Repr

/-- iterating over the value (`len`, `for i in index`, `index[k]`): `None` when `len()` raises
    TypeError (None, bool, int, float); a str is the sequence of its one-character strings. -/
def IdxVal.items? : IdxVal → Option (List Scalar)
  | .scalar (.str s) => some (s.toList.map (fun c => Scalar.str (String.singleton c)))
  | .scalar _ => none
  | .seq l => some l

/-- value of a non-empty string of ASCII digits -/
def digitsVal? (cs : List Char) : Option Nat :=
  if cs.isEmpty then none
  else cs.foldl (fun acc c => acc.bind (fun n => if c.isDigit then some (10 * n + (c.toNat - 48)) else none)) (some 0)

/-- Python `int(s)` for a str of the modelled domain: optional sign, then digits; `none` = ValueError -/
def pyIntStr? (s : String) : Option Int :=
  match s.toList with
  | '-' :: t => (digitsVal? t).map (fun n => -(n : Int))
  | '+' :: t => (digitsVal? t).map (fun n => (n : Int))
  | t => (digitsVal? t).map (fun n => (n : Int))

/-- Python `int(x)`: None → TypeError, bool → 0/1, float → truncation toward zero, str → parse or ValueError -/
def pyInt : Scalar → Except CtorErr Int
  | .none => .error .typeError
  | .bool b => .ok (if b then 1 else 0)
  | .int z => .ok z
  | .float q => .ok (Int.tdiv q.num (q.den : Int))
  | .str s =>
    match pyIntStr? s with
    | some z => .ok z
    | none => .error .valueError

/-- an order-parameter OBJECT as the constructors leave it (`self.index`, `self.periodic`, `self.dim`).
    Distance / Distancevel / Position / Velocity keep the `index` argument unchanged;
    Dihedral / Puckering store `tuple(int(i) for i in index)`. -/
inductive Obj
  | base                                            -- `OrderParameter` itself (class "orderparameter")
  | distance (index : IdxVal) (periodic : Bool)
  | distancevel (index : IdxVal) (periodic : Bool)
  | position (index : IdxVal)                        -- `periodic` is necessarily False
  | velocity (index : IdxVal) (dim : Nat)
  | dihedral (index : List Int) (periodic : Bool)
  | puckering (index : List Int) (periodic : Bool)
deriving DecidableEq, Repr

/-- `self.velocity_dependent` as set through `super().__init__(…, velocity=…)` -/
def Obj.velocityDependent : Obj → Bool
  | .distancevel .. => true
  | .velocity .. => true
  | _ => false

/-- `_verify_pair(index)`: `len(index)` raising TypeError is re-raised as TypeError; a length other
    than 2 is a ValueError (raised inside the `try`, not caught by `except TypeError`). -/
def verifyPair (index : IdxVal) : Except CtorErr Unit :=
  match index.items? with
  | none => .error .typeError
  | some l => if l.length ≠ 2 then .error .valueError else .ok ()

/-- `Distance.__init__(index, periodic)` -/
def ctorDistance (index : IdxVal) (periodic : Bool) : Except CtorErr Obj := do
  verifyPair index
  pure (.distance index periodic)

/-- `Distancevel.__init__(index, periodic)` -/
def ctorDistancevel (index : IdxVal) (periodic : Bool) : Except CtorErr Obj := do
  verifyPair index
  pure (.distancevel index periodic)

/-- `Position.__init__(index, periodic)`: the pair check comes first, then
    `if self.periodic: raise NotImplementedError`. -/
def ctorPosition (index : IdxVal) (periodic : Bool) : Except CtorErr Obj := do
  verifyPair index
  if periodic then throw .notImplemented
  pure (.position index)

/-- `{"x": 0, "y": 1, "z": 2}.get(dim.lower(), None)` -/
def dimOf (dim : String) : Option Nat :=
  let d := dim.map Char.toLower
  if d = "x" then some 0 else if d = "y" then some 1 else if d = "z" then some 2 else none

/-- `Velocity.__init__(index, dim)`: the index is NOT looked at; an unknown dimension is a ValueError. -/
def ctorVelocity (index : IdxVal) (dim : String) : Except CtorErr Obj :=
  match dimOf dim with
  | none => .error .valueError
  | some d => .ok (.velocity index d)

/-- the common head of `Dihedral.__init__` (n = 4) and `Puckering.__init__` (n = 6):
    `len(index) != n` → ValueError (TypeError when there is no `len`), then
    `tuple(int(i) for i in index)` — the first failing `int()` decides the exception. -/
def ctorInts (n : Nat) (index : IdxVal) : Except CtorErr (List Int) :=
  match index.items? with
  | none => .error .typeError
  | some l => if l.length ≠ n then .error .valueError else l.mapM pyInt

def ctorDihedral (index : IdxVal) (periodic : Bool) : Except CtorErr Obj := do
  let ids ← ctorInts 4 index
  pure (.dihedral ids periodic)

def ctorPuckering (index : IdxVal) (periodic : Bool) : Except CtorErr Obj := do
  let ids ← ctorInts 6 index
  pure (.puckering ids periodic)

/-- the `[orderparameter]` section as far as the built-in classes read it (`none` = key absent) -/
structure Settings where
  cls : String
  index : Option IdxVal
  periodic : Option Bool
  dim : Option String
deriving DecidableEq, Repr

/-- what `create_orderparameter` returns -/
inductive Created
  | external            -- class not in `order_map`: handed to `create_external` (outside the model)
  | obj (o : Obj)
deriving DecidableEq, Repr

/-- the keys of `order_map` -/
def orderMapKeys : List String :=
  ["orderparameter", "position", "velocity", "distance", "dihedral", "distancevel", "puckering"]

/-- `create_orderparameter(settings)`: `settings["orderparameter"]["class"].lower()` is looked up in
    `order_map`; unknown → `create_external`.  Known → `generic_factory` → `initiate_instance`:
    the required positional argument `index` must be a key of the section (else ValueError, raised by
    `_pick_out_arg_kwargs` before any constructor runs); `periodic` / `dim` are passed only if
    present, otherwise the constructor's own default applies (True for Distance, Distancevel and
    Position — so a Position without an explicit `periodic = false` is refused —, False for Dihedral
    and Puckering, "x" for Velocity).  The base class takes no required argument. -/
def createOrderParameter (st : Settings) : Except CtorErr Created :=
  let k := st.cls.map Char.toLower
  if ¬ orderMapKeys.contains k then .ok .external
  else if k = "orderparameter" then .ok (.obj .base)
  else
    match st.index with
    | none => .error .valueError
    | some idx =>
      if k = "position" then (ctorPosition idx (st.periodic.getD true)).map .obj
      else if k = "velocity" then (ctorVelocity idx (st.dim.getD "x")).map .obj
      else if k = "distance" then (ctorDistance idx (st.periodic.getD true)).map .obj
      else if k = "dihedral" then (ctorDihedral idx (st.periodic.getD false)).map .obj
      else if k = "distancevel" then (ctorDistancevel idx (st.periodic.getD true)).map .obj
      else (ctorPuckering idx (st.periodic.getD false)).map .obj

/-- the object as an `OP` of `Model/Geom.lean` (the domain of `calculate`): defined when every index
    entry the class hands to numpy is a Python int.  Dihedral / Puckering objects always qualify
    (their entries went through `int()`); the other classes only if the definition used ints. -/
def Obj.toOP : Obj → Option OP
  | .distance (.seq [.int a, .int b]) p => some (.distance a b p)
  | .distancevel (.seq [.int a, .int b]) p => some (.distancevel a b p)
  | .position (.seq [.int a, .int b]) => some (.position a b)
  | .velocity (.scalar (.int a)) d => some (.velocity a d)
  | .dihedral [a, b, c, d] p => some (.dihedral a b c d p)
  | .puckering [a, b, c, d, e, f] p => some (.puckering a b c d e f p)
  | _ => none

/-- number of values `calculate` returns (length of the returned list): 3 for Puckering
    (`[theta, phi, Q]`), 1 for the other five -/
def OP.outLen : OP → Nat
  | .puckering .. => 3
  | _ => 1

/-- length of the rational pre-image list `value` returns (see `value`) -/
def OP.preLen : OP → Nat
  | .distance .. => 1
  | .distancevel .. => 2
  | .position .. => 1
  | .velocity .. => 1
  | .dihedral .. => 3
  | .puckering .. => 7

end Infretis.Geom
