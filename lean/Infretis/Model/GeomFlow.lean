import Infretis.Model.GeomCtor
/-
C20, extension pass — the end-to-end operations around `calculate`:
  * which `Variant` the code is TODAY (after fix 8870063 `Distancevel` slices `box[:3]`),
  * the second half of `Puckering.calculate` (the three sums h1, h2, q3 and Σ z², orderparameter.py:483-496)
    as rational pre-images,
  * the whole of `EngineBase.calculate_order` (enginebase.py:139-178) including the decision whether the
    configuration file is read and which of the arrays reach the System,
  * the whole of `Path.reverse(order_function, rev_v)` (path.py:221-248) including `Path.append`'s
    `maxlen` rule for the new path.
No imports outside core Lean and Model files.
-/
namespace Infretis.Geom

/-- the code as it is today: `Distancevel.calculate` passes `np.array(system.box[:3])` like the other
    classes (fix 8870063).  `Variant.asIs` is the code BEFORE that fix and is kept only because the
    counterexample theorems speak about it; the tie checks on every run that the real class behaves
    like `Variant.current` on inputs where the two variants differ. -/
def Variant.current : Variant := .repaired

/-! ### Puckering, second half: the Cremer–Pople sums -/

/-- rational pre-images of the sums of `Puckering.calculate`, lines 483-496.  With `z[i] = zs[i]/√nn`
    and `cos(4πi/6) = 1, −½, −½, 1, −½, −½`, `sin(4πi/6) = 0, √3/2, −√3/2, 0, √3/2, −√3/2`:
      `h1 = √(1/3)·H1/√nn`,  `h2 = −½·H2/√nn`,  `q3 = √(1/6)·Q3/√nn`,  `Σ z² = ZZ/nn`
    (the code then returns `[deg(arctan2(√(h1²+h2²), q3)), deg(arctan2(h2, h1)) mod 360, √(Σ z²)]`). -/
structure PuckerSums where
  /-- `zs0 − ½zs1 − ½zs2 + zs3 − ½zs4 − ½zs5` -/
  H1 : Rat
  /-- `zs1 − zs2 + zs4 − zs5` -/
  H2 : Rat
  /-- `zs0 − zs1 + zs2 − zs3 + zs4 − zs5` -/
  Q3 : Rat
  /-- `Σ zs[i]²` -/
  ZZ : Rat
  nn : Rat
deriving DecidableEq, Repr

/-- the sums from the flattened puckering pre-image `[zs0 … zs5, nn]` (any other list: `none`) -/
def puckerSums : List Rat → Option PuckerSums
  | [z0, z1, z2, z3, z4, z5, nn] =>
    some { H1 := z0 - (1 / 2) * z1 - (1 / 2) * z2 + z3 - (1 / 2) * z4 - (1 / 2) * z5
           H2 := z1 - z2 + z4 - z5
           Q3 := z0 - z1 + z2 - z3 + z4 - z5
           ZZ := z0 * z0 + z1 * z1 + z2 * z2 + z3 * z3 + z4 * z4 + z5 * z5
           nn := nn }
  | _ => none

/-- `Puckering.calculate` up to (excluding) sqrt / arctan2 / rad2deg: `[H1, H2, Q3, ZZ, nn]` -/
def puckeringFull (var : Variant) (s : Sys) (i0 i1 i2 i3 i4 i5 : Int) (periodic : Bool) :
    Except Err (List Rat) :=
  (value var (.puckering i0 i1 i2 i3 i4 i5 periodic) s).map (fun l =>
    match puckerSums l with
    | some r => [r.H1, r.H2, r.Q3, r.ZZ, r.nn]
    | none => [])

/-! ### `EngineBase.calculate_order`, whole -/

/-- what `_read_configuration(system.config[0])` returns (`out[0]`, `out[1]`, `out[2]`);
    readers return `None` for a missing block (e.g. a g96 file without BOX) -/
structure Config where
  xyz : Option (List V3)
  vel : Option (List V3)
  box : Option (List Rat)
deriving DecidableEq, Repr

/-- the System fields `calculate_order` reads or assigns -/
structure SysF where
  pos : List V3
  vel : List V3
  box : Option (List Rat)
  velRev : Bool
deriving DecidableEq, Repr

def SysF.toSys (s : SysF) : Sys := ⟨s.pos, s.vel, s.box⟩

/-- errors of `calculate_order`: those of `calculate`, or `ValueError("Order parameter is not defined!")` -/
inductive COErr
  | op (e : Err)
  | noOrderFunction
deriving DecidableEq, Repr

/-- result of one `calculate_order` call -/
structure COResult where
  /-- returned pre-image or error -/
  val : Except COErr (List Rat)
  /-- the System after the call (assignments happen BEFORE the `order_function is None` test) -/
  sys : SysF
  /-- "draw request": was `_read_configuration` called? -/
  read : Bool
deriving Repr

/-- `EngineBase.calculate_order(system, xyz, vel, box)` statement by statement:
    ```
    if any((xyz is None, vel is None, box is None)):      # ONE missing argument → all three are replaced
        out = self._read_configuration(system.config[0]); xyz, vel, box = out[0], out[1], out[2]
    if xyz is not None: system.pos = xyz
    if vel is not None: system.vel = vel * -1.0 if system.vel_rev else vel
    if box is not None: system.box = box
    if self.order_function is None: raise ValueError
    return self.order_function.calculate(system)
    ``` -/
def calculateOrderFull (var : Variant) (orderFn : Option OP) (s : SysF)
    (xyz vel : Option (List V3)) (box : Option (List Rat)) (file : Config) : COResult :=
  let read := xyz.isNone || vel.isNone || box.isNone
  let xyz' := if read then file.xyz else xyz
  let vel' := if read then file.vel else vel
  let box' := if read then file.box else box
  let s1 : SysF := match xyz' with
    | some x => { s with pos := x }
    | none => s
  let s2 : SysF := match vel' with
    | some v => { s1 with vel := if s1.velRev then v.map V3.neg else v }
    | none => s1
  let s3 : SysF := match box' with
    | some b => { s2 with box := some b }
    | none => s2
  match orderFn with
  | none => ⟨.error .noOrderFunction, s3, read⟩
  | some op =>
    let r := calculate var op s3.toSys
    ⟨match r.1 with
      | .ok l => .ok l
      | .error e => .error (.op e),
     { s3 with pos := r.2.pos, vel := r.2.vel, box := r.2.box }, read⟩

/-! ### `Path.reverse`, whole -/

/-- the `order` attribute of a path frame as far as the model can say:
    `stored v` — the list that was stored with the frame (floats made elsewhere; opaque numbers),
    `recomputed pre` — `order_function.calculate(frame)` with rational pre-image `pre`,
    `recomputedNan` — the same call returned NaNs (zero box length met by `pbc_dist_coordinate`). -/
inductive OrderVal
  | stored (v : List Rat)
  | recomputed (pre : List Rat)
  | recomputedNan
deriving DecidableEq, Repr

/-- a path frame (`System` in `Path.phasepoints`) -/
structure PFrame where
  sys : Sys
  velRev : Bool
  order : OrderVal
deriving DecidableEq, Repr

/-- `Path.append` on the new path: `if self.maxlen is None or self.length < self.maxlen: append` —
    frames beyond `maxlen` are dropped silently -/
def appendAll (maxlen : Option Nat) (fs : List PFrame) : List PFrame :=
  match maxlen with
  | none => fs
  | some m => fs.take m

/-- the System `order_function.calculate(phasepoint)` sees inside `Path.reverse` -/
def recomputeSys (rv : ReverseVariant) (f : PFrame) : Sys :=
  match rv with
  | .asIs => f.sys
  | .repaired => Frame.physical ⟨f.sys, f.velRev⟩

/-- `order_function.calculate(phasepoint)` inside `Path.reverse`: the frame's own arrays, whatever its
    `vel_rev` flag says (that is the code as it is; `ReverseVariant.repaired` evaluates on the physical
    velocities).  IndexError propagates out of `Path.reverse`. -/
def recomputeFrame (rv : ReverseVariant) (var : Variant) (op : OP) (f : PFrame) : Except Err PFrame :=
  match value var op (recomputeSys rv f) with
  | .ok l => .ok { f with order := .recomputed l }
  | .error .nan => .ok { f with order := .recomputedNan }
  | .error .index => .error .index

/-- `Path.reverse(order_function, rev_v)`:
    ```
    new_path = self.empty_path(maxlen=self.maxlen)
    for phasepoint in reversed(self.phasepoints):
        new_point = phasepoint.copy()
        if rev_v: new_point.vel_rev = not new_point.vel_rev
        new_path.append(new_point)
    if order_function is None: return new_path
    if order_function.velocity_dependent and rev_v:
        for phasepoint in new_path.phasepoints: phasepoint.order = order_function.calculate(phasepoint)
    return new_path
    ```
    `velDep` is the object's `velocity_dependent` attribute (for the built-in classes
    `op.velocityDependent`; kept as an argument because it is an attribute the code reads). -/
def pathReverse (rv : ReverseVariant) (var : Variant) (orderFn : Option (OP × Bool)) (revV : Bool)
    (maxlen : Option Nat) (frames : List PFrame) : Except Err (List PFrame) :=
  let new := appendAll maxlen
    (frames.reverse.map (fun f => if revV then { f with velRev := !f.velRev } else f))
  match orderFn with
  | none => .ok new
  | some (op, velDep) =>
    if velDep && revV then new.mapM (recomputeFrame rv var op) else .ok new

end Infretis.Geom
