import Infretis.Model.GeomFlow
/-
C20, follow-up pass — the System states the LIBRARY really makes, which `Model/Geom.lean` and
`Model/GeomFlow.lean` do not cover (their `Sys` always carries (N,3) arrays and a 1-D box):

  * frames made by an engine: `EngineBase.snapshot_to_system` (enginebase.py:369-381) sets
    `system_copy.pos = snapshot.get("pos", None)`, `system_copy.vel = snapshot.get("vel", None)`, and NO engine
    puts "pos"/"vel" into its snapshot dict: every frame an engine appends to a path has `pos = vel = None`;
  * frames loaded from disk: `load_path` (path.py:429-466) makes a bare `System()`: `pos = vel = np.zeros(0)`,
    `box = np.zeros((3, 3))`;
  * a 2-D box: the default `np.zeros((3, 3))` of `System()`, and the 3×3 matrix `read_cp2k_box` returns for a CP2K
    input without a CELL section (cp2k.py:515-517 → 840 → 854).  `pbc_dist_coordinate` then evaluates
    `if np.abs(distance[0]) > 0.5 * <row of three numbers>` → ValueError ("truth value of an array … is ambiguous").
  * the base class `OrderParameter(description=…, velocity=…)` reached through `class = "orderparameter"`:
    `initiate_instance` passes the keys `description` / `velocity` when the settings have them.

All definitions mirror the code AS IT IS, in the code's order of statements (which exception wins).
No imports outside core Lean and Model files: compiled into the native driver.
-/
namespace Infretis.Geom

/-- exception kinds of `calculate` on the states above; `nan` as in `Err` (a value, not an exception) -/
inductive ErrX
  | index        -- IndexError
  | nan
  | typeError    -- TypeError: 'NoneType' object is not subscriptable
  | valueError   -- ValueError: truth value of an array with more than one element is ambiguous
deriving DecidableEq, Repr

def Err.toX : Err → ErrX
  | .index => .index
  | .nan => .nan

def liftX {α : Type} : Except Err α → Except ErrX α
  | .ok a => .ok a
  | .error e => .error e.toX

/-- `system.box`: `None`, a 1-D array (any length) or a 3×3 matrix -/
inductive BoxVal
  | none
  | flat (l : List Rat)
  | mat (m : Mat3)
deriving DecidableEq, Repr

/-- the `periodic` constructor argument (Position / Velocity have none) -/
def OP.periodicFlag : OP → Bool
  | .distance _ _ p => p
  | .distancevel _ _ p => p
  | .dihedral _ _ _ _ p => p
  | .puckering _ _ _ _ _ _ p => p
  | _ => false

/-- the same order parameter with `periodic = False` -/
def OP.nonPeriodic : OP → OP
  | .distance a b _ => .distance a b false
  | .distancevel a b _ => .distancevel a b false
  | .dihedral a b c d _ => .dihedral a b c d false
  | .puckering a b c d e f _ => .puckering a b c d e f false
  | op => op

/-- the position accesses every periodic class makes BEFORE it looks at the box
    (`delta = pos[i1] - pos[i0]`, the three bond vectors, `system.pos[list(index)]`): IndexError or nothing -/
def posAccess (op : OP) (pos : List V3) : Except Err Unit :=
  match op with
  | .distance i0 i1 _ => do let _ ← getAtom pos i1; let _ ← getAtom pos i0; pure ()
  | .distancevel i0 i1 _ => do let _ ← getAtom pos i1; let _ ← getAtom pos i0; pure ()
  | .dihedral i0 i1 i2 i3 _ => do
    let _ ← getAtom pos i0; let _ ← getAtom pos i1; let _ ← getAtom pos i2; let _ ← getAtom pos i3; pure ()
  | .puckering i0 i1 i2 i3 i4 i5 _ => do
    let _ ← getAtom pos i0; let _ ← getAtom pos i1; let _ ← getAtom pos i2; let _ ← getAtom pos i3
    let _ ← getAtom pos i4; let _ ← getAtom pos i5; pure ()
  | _ => pure ()

/-- `op.calculate(system)` for (N,3)/(M,3) arrays and any of the three box forms.
    3×3 box and `periodic`: the position accesses come first (IndexError), then
    `pbc_dist_coordinate(delta, np.array(system.box[:3]))` raises ValueError at its first loop iteration
    (before `Distancevel` touches the velocities); a non-periodic class, Position and Velocity never look at the box. -/
def valueB (var : Variant) (op : OP) (pos vel : List V3) (box : BoxVal) : Except ErrX (List Rat) :=
  match box with
  | .none => liftX (value var op ⟨pos, vel, none⟩)
  | .flat l => liftX (value var op ⟨pos, vel, some l⟩)
  | .mat _ =>
    if op.periodicFlag then
      match posAccess op pos with
      | .error e => .error e.toX
      | .ok () => .error .valueError
    else liftX (value var op ⟨pos, vel, none⟩)

/-- a path frame as the library holds it: `arrays = none` is `pos = vel = None` (every engine-made frame),
    `some (pos, vel)` carries arrays — `some ([], [])` is the `np.zeros(0)` pair of a frame loaded from disk -/
structure LFrame where
  arrays : Option (List V3 × List V3)
  box : BoxVal
  velRev : Bool
  order : OrderVal
deriving DecidableEq, Repr

/-- `EngineBase.snapshot_to_system(system, {"order": o, "config": …, "vel_rev": r})`: a copy of the engine's
    working System (its box stays) with `pos = vel = None` -/
def snapshotToSystem (box : BoxVal) (order : List Rat) (velRev : Bool) : LFrame :=
  { arrays := none, box := box, velRev := velRev, order := .stored order }

/-- a frame as `load_path` makes it: bare `System()` + order, config, vel_rev -/
def loadedFrame (order : List Rat) (velRev : Bool) : LFrame :=
  { arrays := some ([], []), box := .mat ⟨⟨0, 0, 0⟩, ⟨0, 0, 0⟩, ⟨0, 0, 0⟩⟩, velRev := velRev, order := .stored order }

/-- `order_function.calculate(frame)`: every built-in class starts by subscripting `system.pos` or `system.vel`
    (`system.pos[i]`, `system.pos[i, d]`, `system.vel[i]`, `system.pos[list(index)]`): `None` → TypeError -/
def calcFrame (var : Variant) (op : OP) (f : LFrame) : Except ErrX (List Rat) :=
  match f.arrays with
  | none => .error .typeError
  | some (p, v) => valueB var op p v f.box

/-- `phasepoint.order = order_function.calculate(phasepoint)` inside `Path.reverse` (the frame's own arrays, the
    flag is ignored — the code as it is); an exception propagates out of `Path.reverse` -/
def recomputeLFrame (var : Variant) (op : OP) (f : LFrame) : Except ErrX LFrame :=
  match calcFrame var op f with
  | .ok l => .ok { f with order := .recomputed l }
  | .error .nan => .ok { f with order := .recomputedNan }
  | .error e => .error e

def appendAllL (maxlen : Option Nat) (fs : List LFrame) : List LFrame :=
  match maxlen with
  | none => fs
  | some m => fs.take m

/-- `Path.reverse(order_function, rev_v)` (path.py:221-248) on library frames; same statements as
    `pathReverse` (GeomFlow), the recomputation loop stops at the first frame whose `calculate` raises -/
def pathReverseL (var : Variant) (orderFn : Option (OP × Bool)) (revV : Bool) (maxlen : Option Nat)
    (frames : List LFrame) : Except ErrX (List LFrame) :=
  let new := appendAllL maxlen
    (frames.reverse.map (fun f => if revV then { f with velRev := !f.velRev } else f))
  match orderFn with
  | none => .ok new
  | some (op, velDep) => if velDep && revV then new.mapM (recomputeLFrame var op) else .ok new

/-- embedding of the hand-built frames of `GeomFlow` (arrays + 1-D box or None) -/
def PFrame.toL (f : PFrame) : LFrame :=
  { arrays := some (f.sys.pos, f.sys.vel)
    box := match f.sys.box with | none => .none | some l => .flat l
    velRev := f.velRev, order := f.order }

/-! ### `create_orderparameter` with the keys the base class reads -/

/-- what `create_orderparameter` returns when the settings may carry `velocity` (and `description`, which only
    feeds the description text): the base class stores `velocity_dependent = velocity` -/
inductive CreatedX
  | external
  | base (velocityDependent : Bool)
  | obj (o : Obj)
deriving DecidableEq, Repr

/-- `create_orderparameter(settings)` with an optional boolean key `velocity`:
    `_pick_out_arg_kwargs` passes a key only when its name is in the signature of the class's `__init__` —
    `OrderParameter.__init__(description, velocity)` takes it (default False), the six built-in subclasses do not
    have the parameter and never see the key. -/
def createOrderParameterX (st : Settings) (velocity : Option Bool) : Except CtorErr CreatedX :=
  match createOrderParameter st with
  | .error e => .error e
  | .ok .external => .ok .external
  | .ok (.obj .base) => .ok (.base (velocity.getD false))
  | .ok (.obj o) => .ok (.obj o)

end Infretis.Geom
