import Infretis.Model.EngSetup
import Infretis.Model.Moves
import Infretis.Model.Vel
/-
C07, the in-process half: every random number a JOB draws, in call order, with the stream it is drawn on.

Composition of the models of
  run_md → select_shoot                    (tis.py:70-107, 254-327; set-up loop = `Repex.assignEngineStreams`)
  → shoot / wire_fencing                   (tis.py:330-675;  `Moves.shoot`, `Moves.wireFencing`, package C09)
  → retis_swap_zero / quantis_swap_zero    (tis.py:798-1324; `ZeroSwap.retisSwapZero`, `ZeroSwap.quantisSwapZero`, C11)
  → engine.modify_velocities               (enginebase.py:633-666 draw_maxwellian_velocities, ase_engine.py:224-235,
                                            gromacs.py:554-600 / 676-700; request of `Vel.modifyVelocities`, C16)
  → engine.propagate → _propagate_from     (lammps.py:434-437, turtlemdengine.py:211-219, ase_engine.py:150-153:
                                            the seed handed to the MD program / integrator, the thermostat noise)
on the picked entries (`Repex.Picked`: ens, move stream `rgen`, engine stream `rgenEng`, engine objects) that the
scheduler model hands out.

A move is run by the move models on scripted outcomes (the inputs of `Moves.shoot` …); this file adds
  * WHICH generator object each request of those models goes to: `ens_set["rgen"]` of which picked entry,
    `engine.rgen` of which engine object (`engines[key][0]` as `select_shoot` builds the dict),
  * the engine calls between the move's own draws (`modify_velocities`, `propagate`, `dump_phasepoint`), and
  * per engine class which draws such a call makes on `engine.rgen` (or on numpy's global state / inside the
    external program when the class does that).
`Ev` = what the move does (draw on an entry's move stream / call on an engine slot), `TDraw` = one random number
request resolved to its source.  No imports outside Infretis.Model.* (compiled into drv_c07).
-/
namespace Infretis.JobDraws
open Infretis.Repex

/-! ### engine classes, as far as random numbers go -/

/-- `gromacs infretisGenvel`: `GromacsEngine.infretis_genvel` (False = gmx's own `gen_vel`, `gen_seed = -1`);
    `ase langevin`: `self.Integrator is Langevin` -/
inductive EngKind
  | gromacs (infretisGenvel : Bool)
  | cp2k
  | lammps
  | turtlemd
  | ase (langevin : Bool)
deriving Repr, DecidableEq

/-- the engine class in C16's velocity model -/
def EngKind.velEngine : EngKind → Vel.Engine
  | .gromacs _ => .gromacs
  | .cp2k => .cp2k
  | .lammps => .lammps
  | .turtlemd => .turtlemd
  | .ase _ => .ase

/-- where a random number comes from -/
inductive Src
  | stream (s : Stream)     -- a numpy Generator whose SeedSequence has identity `s`
  | numpyGlobal             -- numpy's global state (`np.random.*`, ASE's default `rng`)
  | external                -- drawn inside the external MD program (gmx `gen_vel` with `gen_seed = -1`):
                            --   outside the property by its own words
deriving Repr, DecidableEq

inductive What
  | integers (lo hi : Int)  -- `rgen.integers(lo, hi)`: the shooting-point index
  | random                  -- `rgen.random()`: length bound ξ, WF segment pick, swap acceptance
  | normal                  -- `rgen.normal(loc=0, scale=sigma_v, size=(npart, dim))`: velocity draw
  | standardNormal          -- ASE `MaxwellBoltzmannDistribution(rng=…)` → `rng.standard_normal(size=(npart, 3))`
  | seed (hi : Int)         -- `seed = rgen.integers(0, hi)` handed to the MD program / the integrator
  | noise                   -- the `standard_normal` calls of ONE ASE Langevin run (two per MD step; number not modelled)
  | genvel                  -- gmx grompp + mdrun zero-step velocity generation
deriving Repr, DecidableEq

structure TDraw where
  src : Src
  what : What
deriving Repr, DecidableEq

inductive EngCall
  | modvel                       -- engine.modify_velocities(shpt_copy, tis_set)
  | propagate (reverse : Bool)   -- engine.propagate(path, ens_set, system, reverse) → _propagate_from
  | dump                         -- engine.dump_phasepoint(…)
deriving Repr, DecidableEq

/-- what a move does, in call order.  `draw ens w`: request `w` on `picked[ens]["ens"]["rgen"]`.
    `eng slot c`: call `c` on `engines[slot][0]` (`slot` = key of the dict `select_shoot` builds: 0 for a
    one-ensemble job whatever its ensemble number, the ensemble number −1 / 0 for a zero swap). -/
inductive Ev
  | draw (ens : Int) (w : What)
  | eng (slot : Int) (c : EngCall)
deriving Repr, DecidableEq

inductive Err
  | arity          -- len(picked) ∉ {1, 2}: never produced by prep_md_items (not modelled further)
  | key            -- KeyError: picked[-1] / picked[0] / ENGINES[name]
  | index          -- IndexError: `engines[key][0]` on an empty engine list / ENGINES[name][idx]
  | noRgen         -- ValueError "Did not find random generator!!" / "Missing random generator!"
  | move (e : Moves.Err)
  | swap (e : ZeroSwap.Err)
  | script         -- the scripted move does not fit the job (one-ensemble move for a two-ensemble job, …): harness error
deriving Repr, DecidableEq

/-! ### per engine class: the draws of one engine call, given `engine.rgen` (`none` = no such attribute) -/

/-- the request `Vel.modifyVelocities` (C16's model of the five `modify_velocities`) issues for this class:
    its stream tag and generator method do not depend on the numbers (`velRequest_spec`, Lemmas/JobDraws.lean) -/
def velRequest (k : EngKind) : Vel.Stream × String :=
  let s : Vel.Setup := { engine := k.velEngine, temperature := 1, boltzmann := 1, massIn := [], tmplBox := [] }
  let r := (Vel.modifyVelocities Vel.codeVariant Vel.codeVariant s
              { pos := [], vel := [], box := none, ids := [] } none none [] []).request
  (r.stream, r.method)

def methodWhat (m : String) : What := if m = "standard_normal" then .standardNormal else .normal

/-- `modify_velocities`:
    GROMACS without `infretis_genvel`: `_prepare_shooting_point` lets gmx draw (outside);
    GROMACS with it, CP2K, LAMMPS, TurtleMD: `draw_maxwellian_velocities` — `if hasattr(self, "rgen"):
      vel = self.rgen.normal(…) else: raise ValueError`;
    ASE: `MaxwellBoltzmannDistribution(atoms, …, rng=getattr(self, "rgen", None))` — ase falls back to numpy's
      global state when `rng` is None. -/
def modvelDraws (k : EngKind) (r : Option Stream) : Except Err (List TDraw) :=
  match k with
  | .gromacs false => .ok [⟨.external, .genvel⟩]
  | .ase _ =>
    match r with
    | some s => .ok [⟨.stream s, methodWhat (velRequest k).2⟩]
    | none => .ok [⟨.numpyGlobal, methodWhat (velRequest k).2⟩]
  | _ =>
    match r with
    | some s => .ok [⟨.stream s, methodWhat (velRequest k).2⟩]
    | none => .error .noRgen

/-- `_propagate_from`:
    LAMMPS `seed = self.rgen.integers(0, 1e7)` → `infretis_seed` of run.inp (else ValueError);
    TurtleMD `seed = self.rgen.integers(0, 1e9)` → `self.integrator(…, seed=seed)` (else ValueError), for every
      integrator class;
    ASE `if self.Integrator is Langevin and hasattr(self, "rgen"): integrator_settings["rng"] = self.rgen`
      (else ase's Langevin draws from numpy's global state); VelocityVerlet draws nothing;
    GROMACS, CP2K: external program, no in-process draw, no seed handed over. -/
def propagateDraws (k : EngKind) (r : Option Stream) : Except Err (List TDraw) :=
  match k with
  | .lammps =>
    match r with
    | some s => .ok [⟨.stream s, .seed 10000000⟩]
    | none => .error .noRgen
  | .turtlemd =>
    match r with
    | some s => .ok [⟨.stream s, .seed 1000000000⟩]
    | none => .error .noRgen
  | .ase true =>
    match r with
    | some s => .ok [⟨.stream s, .noise⟩]
    | none => .ok [⟨.numpyGlobal, .noise⟩]
  | _ => .ok []

/-- the integrator classes of turtlemd a `[engine] integrator.class` can name -/
inductive TmdIntegrator
  | verlet | velocityVerlet | langevinOverdamped | langevinInertia
deriving Repr, DecidableEq

/-- does the constructor take the keyword `seed`?  (`Verlet(timestep)`, `VelocityVerlet(timestep)`,
    `LangevinOverdamped(timestep, gamma, rgen, beta)`, `LangevinInertia(timestep, gamma, beta, rgen=None, seed=0)`) -/
def TmdIntegrator.acceptsSeed : TmdIntegrator → Bool
  | .langevinInertia => true
  | _ => false

/-- what `TurtleMDEngine._propagate_from` does up to the construction of the integrator -/
inductive TmdOutcome
  | ran (tr : List TDraw)          -- the integrator is built with `seed=` the value drawn: the MD runs
  | typeError (tr : List TDraw)    -- `self.integrator(timestep=…, **settings, seed=seed)` raises TypeError AFTER the draw
  | noRgen                          -- ValueError "Missing random generator!"
deriving Repr, DecidableEq

/-- `seed = self.rgen.integers(0, 1e9)` comes first for EVERY integrator class (`propagateDraws .turtlemd`); only
    then the constructor call decides whether the job goes on.  `JobDraws.runJob` with `.turtlemd` is the trace of an
    integrator class that accepts `seed=`. -/
def tmdPropagate (i : TmdIntegrator) (r : Option Stream) : TmdOutcome :=
  match r with
  | none => .noRgen
  | some s => if i.acceptsSeed then .ran [⟨.stream s, .seed 1000000000⟩] else .typeError [⟨.stream s, .seed 1000000000⟩]

def engDraws (k : EngKind) (c : EngCall) (r : Option Stream) : Except Err (List TDraw) :=
  match c with
  | .modvel => modvelDraws k r
  | .propagate _ => propagateDraws k r
  | .dump => .ok []

/-! ### the moves, traced -/

def ofMovesDraw : Moves.Draw → What
  | .integers lo hi => .integers lo hi
  | .random => .random

/-- `shoot` (tis.py:330-473) in call order: `get_shooting_point` (integers), `modify_velocities`,
    [`check_kick`], the ξ of the length bound if drawn, the backward `propagate` if reached, the forward one if
    reached — all read off the output of `Moves.shoot` (`usedB`/`usedF` count the frames the engine handed over:
    positive iff the call was made). -/
def shootEvs (ens slot : Int) (o : Moves.ShootOut) : List Ev :=
  match o.draws with
  | [] => []
  | d1 :: rest =>
    [Ev.draw ens (ofMovesDraw d1), Ev.eng slot .modvel] ++ rest.map (fun d => Ev.draw ens (ofMovesDraw d))
      ++ (if o.usedB > 0 then [Ev.eng slot (.propagate true)] else [])
      ++ (if o.usedF > 0 then [Ev.eng slot (.propagate false)] else [])

/-- the jump loop of `wire_fencing` with the events of every sub-shoot (same recursion as `Moves.wfJumps`;
    `wfJumpsT_fst`: it computes the same segment, and its draw events are `Moves.wfJumps`'s draws) -/
def wfJumpsT (v : Moves.Variant) (i : Moves.WfIn) (ens slot : Int) :
    Nat → List Moves.WfJump → List Int → Int → Nat → List Ev → Except Moves.Err (List Int × Int × Nat × List Ev)
  | 0, _, seg, to, succ, evs => .ok (seg, to, succ, evs)
  | _ + 1, [], _, _, _, _ => .error .badDraw
  | n + 1, j :: js, seg, to, succ, evs =>
    match Moves.shoot v (Moves.subShootIn i seg to j) with
    | .error e => .error e
    | .ok o =>
      if o.accept = true then wfJumpsT v i ens slot n js o.trial o.timeOrigin (succ + 1) (evs ++ shootEvs ens slot o)
      else wfJumpsT v i ens slot n js seg to succ (evs ++ shootEvs ens slot o)

/-- the engine calls of `extender` (tis.py:615-675): `shoot_backwards` → `engine.propagate(reverse=True)` iff the
    first frame of the segment is inside `[l, r)`, then `engine.propagate` forward iff the last frame of the
    (extended) path is inside -/
def extenderEvs (v : Moves.Variant) (i : Moves.WfIn) (slot : Int) (seg : List Int) : List Ev :=
  match seg.head? with
  | none => []
  | some first =>
    let inside : Bool := decide (i.l ≤ first ∧ first < i.r)
    let t1 : List Int :=
      if inside then
        match Moves.feedV v i.l i.r (some i.maxlength) [] (first :: i.extBack) 0 with
        | none => seg
        | some (pb, _, _) => Moves.paste pb seg i.maxlength
      else seg
    (if inside then [Ev.eng slot (.propagate true)] else []) ++
      (match t1.getLast? with
       | none => []
       | some last => if i.l ≤ last ∧ last < i.r then [Ev.eng slot (.propagate false)] else [])

/-- the segment `wirefence_weight_and_pick(…, return_seg=True)` hands to the jump loop (as in `Moves.wireFencing`) -/
def wfSeg0 (i : Moves.WfIn) : List Int :=
  match WF.pick i.m (Moves.capOf i) i.old i.xiSeg with
  | some (a, b, _) => (i.old.drop a).take (b + 1 - a)
  | none => []

/-- `wire_fencing` (tis.py:476-569) in call order: the ξ of the segment pick (only when the path has frames to
    shoot from), per jump the events of the sub-shoot, then — only with a successful jump — the extender;
    `subt_acceptance` and the final checks draw nothing -/
def wfEvs (v : Moves.Variant) (i : Moves.WfIn) (ens slot : Int) : Except Moves.Err (List Ev) :=
  if WF.weight i.m (Moves.capOf i) i.old = 0 then .ok []
  else
    match wfJumpsT v i ens slot i.nJumps i.jumps (wfSeg0 i) i.oldTimeOrigin 0 [Ev.draw ens .random] with
    | .error e => .error e
    | .ok (seg, _, succ, evs) =>
      if succ = 0 then .ok evs else .ok (evs ++ extenderEvs v i slot seg)

/-- a request of the zero-swap models: engine 0 = `engines[-1][0]`, engine 1 = `engines[0][0]` -/
def reqEv : ZeroSwap.Req → Ev
  | .propagate e rev _ _ _ _ _ _ => .eng (if e = 0 then -1 else 0) (.propagate rev)
  | .dump e _ _ _ => .eng (if e = 0 then -1 else 0) .dump

/-- the `rgen.random()` calls of the swaps go to `ens_set0["rgen"]` = the move stream of the `[0-]` entry -/
def swapDraws (n : Nat) : List Ev := List.replicate n (Ev.draw (-1) .random)

/-- `retis_swap_zero`: all engine requests, then the ξ of `high_acc_swap` (if wire fencing is used) -/
def retisEvs (r : ZeroSwap.Result) : List Ev := r.reqs.map reqEv ++ swapDraws r.draws

/-- `quantis_swap_zero`: the two one-step propagations, the ξ of the energy rule, the two completions -/
def quantisEvs (r : ZeroSwap.Result) : List Ev :=
  (r.reqs.take 2).map reqEv ++ swapDraws r.draws ++ (r.reqs.drop 2).map reqEv

/-! ### select_shoot: which object a request goes to -/

/-- `picked[ens]` -/
def pickedOf (picked : List Picked) (ens : Int) : Option Picked := picked.find? (fun p => p.ens == ens)

/-- the picked entry whose engine list is `engines[slot]` -/
def slotEntry (picked : List Picked) (single : Bool) (slot : Int) : Option Picked :=
  if single then (if slot = 0 then picked.head? else none) else pickedOf picked slot

/-- one event resolved: the generator object the code reaches, by the attribute/dict accesses it makes -/
def resolveEv (kinds : List EngKind) (tbl : EngTbl) (picked : List Picked) (single : Bool) :
    Ev → Except Err (List TDraw)
  | .draw ens w =>
    match pickedOf picked ens with
    | none => .error .key
    | some p => .ok [⟨.stream p.rgen, w⟩]
  | .eng slot c =>
    match slotEntry picked single slot with
    | none => .error .key
    | some p =>
      match p.engIdx.head? with
      | none => .error .index
      | some obj =>
        match kinds[obj.1]? with
        | none => .error .key
        | some k => engDraws k c (engRgen tbl obj)

def resolveAll (kinds : List EngKind) (tbl : EngTbl) (picked : List Picked) (single : Bool) :
    List Ev → Except Err (List TDraw)
  | [] => .ok []
  | ev :: rest =>
    match resolveEv kinds tbl picked single ev with
    | .error e => .error e
    | .ok ds =>
      match resolveAll kinds tbl picked single rest with
      | .error e => .error e
      | .ok r => .ok (ds ++ r)

/-- the scripted outcomes of the move of a job (everything the move models take as input) -/
inductive MoveIn
  | sh (i : Moves.ShootIn)
  | wf (i : Moves.WfIn)
  | retis (e0 e1 : ZeroSwap.Ens) (old0 old1 : List ZeroSwap.Frame) (bw fw : ZeroSwap.Script) (xi : Rat)
  | quantis (e0 e1 : ZeroSwap.Ens) (old0 old1 : List ZeroSwap.Frame) (scA scB scC scD : ZeroSwap.Script)
      (acceptAll : Bool) (beta0 beta1 xi p : Rat)

def moveStatusStr : Moves.Status → String
  | .ACC => "ACC" | .KOB => "KOB" | .BTL => "BTL" | .BTX => "BTX" | .BWI => "BWI"
  | .FTL => "FTL" | .FTX => "FTX" | .ZL => "0-L" | .NCR => "NCR" | .NSG => "NSG"

structure JobOut where
  tbl : EngTbl            -- `engine.rgen` of every engine object of the worker process after the job
  accept : Bool
  status : String         -- status of the move
  evs : List Ev
  trace : List TDraw      -- every random number of the job, in call order
deriving Repr, DecidableEq

/-- the move of `select_shoot` → (accept, status, events): `sh_moves[mc_move]` for one picked ensemble,
    `quantis_swap_zero` / `retis_swap_zero` for two (which must be `picked[-1]` and `picked[0]`) -/
def moveEvs (v : Moves.Variant) (picked : List Picked) (mv : MoveIn) : Except Err (Bool × String × List Ev) :=
  match picked, mv with
  | [p], .sh i =>
    match Moves.shoot v i with
    | .error e => .error (.move e)
    | .ok o => .ok (o.accept, moveStatusStr o.status, shootEvs p.ens 0 o)
  | [p], .wf i =>
    match Moves.wireFencing v i with
    | .error e => .error (.move e)
    | .ok o =>
      match wfEvs v i p.ens 0 with
      | .error e => .error (.move e)
      | .ok evs => .ok (o.accept, moveStatusStr o.status, evs)
  | [_], _ => .error .script
  | [_, _], .retis e0 e1 old0 old1 bw fw xi =>
    if (pickedOf picked (-1)).isNone || (pickedOf picked 0).isNone then .error .key
    else
      match ZeroSwap.retisSwapZero e0 e1 old0 old1 bw fw xi with
      | .error e => .error (.swap e)
      | .ok r => .ok (r.accept, r.status.str, retisEvs r)
  | [_, _], .quantis e0 e1 old0 old1 scA scB scC scD acceptAll beta0 beta1 xi p =>
    if (pickedOf picked (-1)).isNone || (pickedOf picked 0).isNone then .error .key
    else
      match ZeroSwap.quantisSwapZero e0 e1 old0 old1 scA scB scC scD acceptAll beta0 beta1 xi p with
      | .error e => .error (.swap e)
      | .ok r => .ok (r.accept, r.status.str, quantisEvs r)
  | [_, _], _ => .error .script
  | _, _ => .error .arity

/-- **one job in a worker process** (`run_md` → `select_shoot`): the set-up loop hands every engine object of
    every picked ensemble that ensemble's `rgen-eng` (`assignEngineStreams`), then the move runs and every
    request it and the engines make is resolved against the picked entries and the engine table AS THE SET-UP
    LEFT IT.  `tbl` = `engine.rgen` of the process's engine objects before the job (stale generators of earlier
    jobs, or nothing); `kinds` = class of engine type `k` (`ENGINES[name]`). -/
def runJob (v : Moves.Variant) (kinds : List EngKind) (tbl : EngTbl) (picked : List Picked) (mv : MoveIn) :
    Except Err JobOut :=
  let tbl' := assignEngineStreams tbl picked
  match moveEvs v picked mv with
  | .error e => .error e
  | .ok (acc, st, evs) =>
    match resolveAll kinds tbl' picked (picked.length == 1) evs with
    | .error e => .error e
    | .ok tr => .ok { tbl := tbl', accept := acc, status := st, evs := evs, trace := tr }

/-- **successive jobs of one worker process**: the engine objects live on, each job finds in them what the
    previous job left (`tis.ENGINES` is a module-level dict of the worker) -/
def runSeq (v : Moves.Variant) (kinds : List EngKind) : EngTbl → List (List Picked × MoveIn) → Except Err (List JobOut)
  | _, [] => .ok []
  | tbl, (picked, mv) :: rest =>
    match runJob v kinds tbl picked mv with
    | .error e => .error e
    | .ok o =>
      match runSeq v kinds o.tbl rest with
      | .error e => .error e
      | .ok os => .ok (o :: os)

/-! ### derivation inputs of the seeds handed to MD programs / integrators -/

/-- how many requests of `tr` go to source `x` -/
def countSrc (x : Src) (tr : List TDraw) : Nat := (tr.filter (fun d => d.src == x)).length

/-- every request with its position on its own source: the value numpy returns is a function of
    (identity of the stream, requests made on it before) -/
def positions : List TDraw → List TDraw → List (TDraw × Nat)
  | _, [] => []
  | seen, d :: rest => (d, countSrc d.src seen) :: positions (seen ++ [d]) rest

/-- the seeds a job hands to stochastic integrators / MD programs: (stream, position on it, range) -/
def seedInputs (tr : List TDraw) : List (Src × Nat × Int) :=
  (positions [] tr).filterMap (fun (d, k) => match d.what with | .seed hi => some (d.src, k, hi) | _ => none)

end Infretis.JobDraws
