/-
C01 — the exactly solvable reference model and the crossing-probability estimator.

(1) The lattice walk behind the plug-in engine `harness/lattice/lattice_plugin.py`:
    a symmetric ±1 walk on the integers; interfaces on half-integers λ_k = k + 1/2.
    A path of ensemble [k+] starts on site 0 (the only site a frame "left of λ₀" reachable
    from the right can be on), its second frame is site 1, and it ends the first time it is
    on site 0 again or above the last interface.  "It reached λ_k" means: it has been on site
    k+1.  The first time this happens the walk *is* on site k+1 (nearest-neighbour steps), so,
    by the strong Markov property,
        P(reach λ_{k+1} before returning below λ₀ | reached λ_k)
          = P(walk started on site k+1 is on site k+2 before it is on site 0)
          = `hit k`
    — gambler's ruin on the segment 0..k+2 started one site below the top.
    `reachBy N t x` is the law of the walk itself (Kolmogorov backward recursion, finitely
    many steps): the probability that the walk started on site x is on site N before site 0
    within t steps.  `ruin N x = x / N` is the closed form of its limit; the theorems
    (Props/C01) are about the boundary-value recurrence that characterises that limit.

(2) The estimator the check applies to the rows of `infretis_data.txt` — the infretis analysis
    convention (and /root/verif-probes/est.py, harness/lattice/sim.py `estimate_exact`):
        P̂(λ_k | λ_{k-1}) = Σ_rows frac_k/w_k · [max ≥ λ_k]  /  Σ_rows frac_k/w_k
    for data column k ≥ 1 (ensemble [(k-1)+]), only rows with frac_k > 0 and w_k > 0 counting.

(3) The shooting kernel's length factor, in the two variants of C09: as the property states it and
    as the code is since the repair f955162 (accept iff ξ ≤ n_old/n_new), and as the snapshot's
    code was (accept iff ξ ≤ n_old/(n_new+1), because `add_to_path` failed a trial whose last
    admissible frame crossed).

No imports: this file is part of the compiled driver.
-/
namespace Infretis.Lattice

/-! ### (1) the walk -/

/-- interface k sits at k + 1/2 -/
def lam (k : Nat) : Rat := ((2 * k + 1 : Nat) : Rat) / 2

/-- Law of the walk: probability that the symmetric walk started on site `x` is on site `N`
    before it is on site `0`, within `t` steps. -/
def reachBy (N : Nat) : Nat → Nat → Rat
  | 0, x => if N ≤ x then 1 else 0
  | t + 1, x =>
    if x = 0 then 0
    else if N ≤ x then 1
    else (reachBy N t (x - 1) + reachBy N t (x + 1)) / 2

/-- the same law for all sites 0..N at once (what the driver evaluates; `reachBy` itself
    branches twice per step).  `reachRow_get` (Lemmas) proves the two agree. -/
def reachRow (N : Nat) : Nat → List Rat
  | 0 => (List.range (N + 1)).map (fun x => if N ≤ x then 1 else 0)
  | t + 1 =>
    let v := reachRow N t
    (List.range (N + 1)).map (fun x =>
      if x = 0 then 0
      else if N ≤ x then 1
      else (v.getD (x - 1) 0 + v.getD (x + 1) 0) / 2)

/-- gambler's-ruin closed form on the segment 0..N -/
def ruin (N x : Nat) : Rat := (x : Rat) / (N : Rat)

/-- the reference value for interface k: start on site k+1, segment 0..k+2 -/
def hit (k : Nat) : Rat := ruin (k + 2) (k + 1)

/-- `u` solves the gambler's-ruin boundary-value problem on 0..N:
    0 at the bottom, 1 at the top, mean value of the neighbours in between. -/
def Harmonic (N : Nat) (u : Nat → Rat) : Prop :=
  u 0 = 0 ∧ u N = 1 ∧ ∀ x, 0 < x → x < N → u x = (u (x - 1) + u (x + 1)) / 2

/-! ### (2) the estimator -/

/-- one row of `infretis_data.txt` (path number dropped): length, max order parameter,
    the fraction columns and the weight columns (`----` is sent as 0) -/
structure Row where
  len : Nat
  maxOp : Rat
  frac : List Rat
  w : List Rat
deriving Repr

/-- contribution frac_k / w_k of a row to column k; rows without the column, or with
    frac_k ≤ 0 or w_k ≤ 0, contribute nothing (est.py: `if fr[k] > 0 and w[k] > 0`) -/
def term (k : Nat) (r : Row) : Rat :=
  match r.frac[k]?, r.w[k]? with
  | some f, some w => if 0 < f ∧ 0 < w then f / w else 0
  | _, _ => 0

/-- did the path cross λ_k?  (`mx >= intf[k]`) -/
def crossed (k : Nat) (r : Row) : Bool := decide (lam k ≤ r.maxOp)

/-- Σ over rows of a rational-valued function (left to right, like the Python loop) -/
def sumOver (f : Row → Rat) : List Row → Rat
  | [] => 0
  | r :: t => f r + sumOver f t

def den (k : Nat) (rows : List Row) : Rat := sumOver (term k) rows

def num (k : Nat) (rows : List Row) : Rat :=
  sumOver (fun r => if crossed k r then term k r else 0) rows

/-- the conditional crossing estimate of column k; `none` when no row carries weight
    (est.py returns nan) -/
def estimate (k : Nat) (rows : List Row) : Option Rat :=
  if den k rows = 0 then none else some (num k rows / den k rows)

/-- the rescalings under which the estimator is invariant: every row's column-k weight
    multiplied by the same `c`, every row's column-k fraction by the same `d` -/
def scaleAt (k : Nat) (c : Rat) : List Rat → List Rat
  | [] => []
  | x :: t => match k with
    | 0 => (c * x) :: t
    | k + 1 => x :: scaleAt k c t

def Row.scaleCol (k : Nat) (c d : Rat) (r : Row) : Row :=
  { r with w := scaleAt k c r.w, frac := scaleAt k d r.frac }

/-! ### (2b) the reweighted mean path length (second estimator of the check) -/

/-- Σ_rows frac_k/w_k · length -/
def lenNum (k : Nat) (rows : List Row) : Rat := sumOver (fun r => term k r * (r.len : Rat)) rows

/-- the reweighted mean number of frames of column k, Σ a·len / Σ a with a = frac_k/w_k
    (`harness/lattice/sim.py` `length_stats` / `mean_length_exact`); `none` when no row carries weight -/
def meanLenEst (k : Nat) (rows : List Row) : Option Rat :=
  if den k rows = 0 then none else some (lenNum k rows / den k rows)

/-! ### (3) shooting on lattice paths: the length factor -/

inductive Variant where
  | stated   -- accept iff ξ ≤ n_old / n_new                  (property C09 as worded; the code since f955162)
  | asIs     -- accept iff ξ ≤ n_old / (n_new + 1)            (the snapshot: add_to_path at length == maxlen)
deriving Repr, DecidableEq

def minR (a b : Rat) : Rat := if a ≤ b then a else b

/-- acceptance probability over the uniform draw ξ; `nOld`, `nNew` = number of interior
    frames (length − 2) of the old and of the new path -/
def accProb (v : Variant) (nOld nNew : Nat) : Rat :=
  match v with
  | .stated => minR 1 ((nOld : Rat) / (nNew : Rat))
  | .asIs => minR 1 ((nOld : Rat) / ((nNew + 1 : Nat) : Rat))

/-- q^e -/
def powR (q : Rat) : Nat → Rat
  | 0 => 1
  | e + 1 => q * powR q e

/-- unnormalised path-ensemble weight of a lattice path with `n` interior frames: one factor
    `q` (= 1/2 for the symmetric walk) per step, n + 1 steps -/
def pathW (q : Rat) (n : Nat) : Rat := powR q (n + 1)

/-- shooting kernel old → new for a pair of lattice paths with `nOld`, `nNew` interior frames
    that share `c` (old index, new index) pairs of interior frames on the same site:
    uniform interior index (1/nOld each), the new path generated step by step (`pathW`),
    accepted with `accProb`. -/
def kernel (v : Variant) (q : Rat) (c nOld nNew : Nat) : Rat :=
  (c : Rat) / (nOld : Rat) * pathW q nNew * accProb v nOld nNew

end Infretis.Lattice
