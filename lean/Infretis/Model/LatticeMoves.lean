/-
C01 — the shooting move (tis.py `shoot`, 330-473) run on the lattice plug-in engine
(`harness/lattice/lattice_plugin.py`), as one executable function of its random draws.

Sites are integers; the interfaces sit on half-integers, so for a site `x`
   x < λ₀       ⇔ x ≤ 0            ("L": left of the first interface)
   x > λ_last   ⇔ top ≤ x          (top = number of interfaces)
   x ≥ λ_i      ⇔ mid ≤ x          (mid = i + 1 for the ensemble [i+])
Draws are arguments: `idx` (rgen.integers(1, L-1)), `xi` (rgen.random() of the length rule) and the two
coin lists of the engine stream (`true` = the plug-in's `rgen.random() < 0.5`, one step up), backward
and forward in time.  The functions return how many coins they consumed.

Two definitions of the same move:
 * `latShoot`      the move written out for the lattice (what the theorems of Props/C01 are about);
 * `latShootRef`   the generic model `Infretis.Moves.shoot` (C09's model, variant `repaired` = the code since
                   f955162) fed with the lattice engine's streams on doubled coordinates.
The driver evaluates both on every case of the tie and the tie compares both with the real
`infretis.core.tis.shoot` driving the real plug-in engine.

Not in the model: the reflecting wall of the plug-in (site -6; a [i+] shooting point is a site ≥ 1 and
every segment stops on site 0, so the wall is never reached), file handling, energies.
No imports outside Infretis.Model: this file is part of the compiled driver.
-/
import Infretis.Model.Moves
import Infretis.Model.Lattice

namespace Infretis.LatticeMoves

/-- ensemble [i+] on the lattice -/
structure Ens where
  mid : Int          -- i + 1
  top : Int          -- number of interfaces
  maxlength : Nat    -- tis_set["maxlength"]
deriving Repr, DecidableEq

/-- one step of the plug-in: `x += 1 if rgen.random() < 0.5 else -1` -/
def stepTo (x : Int) (c : Bool) : Int := if c then x + 1 else x - 1

/-- The plug-in's `_propagate_from` loop with the stop rule of `add_to_path` (as the code is since f955162):
    `for i in range(path.maxlen)`: add the frame; stop with success if it is left of λ₀ or right of the
    last interface; stop without success if the path is full; otherwise draw one coin.
    Returns (frames, success, coins consumed); `none` = the scripted coins ran out (never with a generator). -/
def prop (top : Int) : Nat → Int → List Bool → Option (List Int × Bool × Nat)
  | 0, _, _ => some ([], false, 0)
  | cap + 1, x, coins =>
    if x ≤ 0 ∨ top ≤ x then some ([x], true, 0)
    else if cap = 0 then some ([x], false, 0)
    else match coins with
      | [] => none
      | c :: t =>
        match prop top cap (stepTo x c) t with
        | none => none
        | some (fr, ok, k) => some (x :: fr, ok, k + 1)

inductive Status | ACC | KOB | BTL | BTX | BWI | FTL | FTX | NCR
deriving Repr, DecidableEq

inductive Err
  | value      -- ValueError: integers(1, L-1) with L ≤ 2
  | badDraw    -- scripted outcome outside the requested range / coins ran out (never from numpy)
  | zerodiv    -- ξ = 0.0
deriving Repr, DecidableEq

structure Out where
  accept : Bool
  status : Status
  trial : List Int
  genNb : Nat        -- generated[3]: frames before the shooting point in the trial path
  maxlen : Nat       -- the length limit the move worked with
  usedB : Nat        -- coins consumed backward
  usedF : Nat
deriving Repr, DecidableEq

/-- `maxlen` of shoot: `maxlength` for a loaded path, else `min(int((L-2)/ξ) + 2, maxlength)` -/
def maxlenOf (e : Ens) (oldLen : Nat) (ld : Bool) (xi : Rat) : Nat :=
  if ld then e.maxlength
  else min ((((((oldLen : Int) - 2 : Int) : Rat) / xi).floor).toNat + 2) e.maxlength

/-- `check_interfaces(...)[-1][1]`: min < λ_i ≤ max -/
def crossMid (e : Ens) (p : List Int) : Bool := p.any (fun x => decide (x < e.mid)) && p.any (fun x => decide (e.mid ≤ x))

/-- `shoot` for a plus ensemble (start_cond ("L",)) on the lattice. -/
def latShoot (e : Ens) (old : List Int) (ld : Bool) (idx : Nat) (xi : Rat) (cb cf : List Bool) : Except Err Out :=
  if ¬ (2 < old.length) then .error .value
  else if ¬ (1 ≤ idx ∧ idx + 1 < old.length) then .error .badDraw
  else
  match old[idx]? with
  | none => .error .badDraw
  | some x =>
  -- check_kick: left ≤ order < right
  if ¬ (0 < x ∧ x < e.top) then
    .ok { accept := false, status := .KOB, trial := if 0 < e.maxlength then [x] else [], genNb := 0, maxlen := 0, usedB := 0, usedF := 0 }
  else
  if ld = false ∧ xi < 0 then .error .badDraw
  else if ld = false ∧ xi = 0 then .error .zerodiv
  else
  let M := maxlenOf e old.length ld xi
  match prop e.top (M - 1) x cb with
  | none => .error .badDraw
  | some (pb, okB, kb) =>
  if okB = false then
    .ok { accept := false, status := if pb.length + 1 ≥ e.maxlength then .BTX else .BTL, trial := pb.take e.maxlength,
          genNb := 0, maxlen := M, usedB := kb, usedF := 0 }
  else
  match pb.getLast? with
  | none => .error .badDraw
  | some last =>
  if ¬ (last ≤ 0) then
    .ok { accept := false, status := .BWI, trial := pb.take e.maxlength, genNb := 0, maxlen := M, usedB := kb, usedF := 0 }
  else
  match prop e.top (M - pb.length + 1) x cf with
  | none => .error .badDraw
  | some (pf, okF, kf) =>
  let trial := (pb.reverse ++ pf.tail).take e.maxlength
  if okF = false then
    .ok { accept := false, status := if trial.length = e.maxlength then .FTX else .FTL, trial := trial,
          genNb := pb.length - 1, maxlen := M, usedB := kb, usedF := kf }
  else if crossMid e trial = false then
    .ok { accept := false, status := .NCR, trial := trial, genNb := pb.length - 1, maxlen := M, usedB := kb, usedF := kf }
  else
    .ok { accept := true, status := .ACC, trial := trial, genNb := pb.length - 1, maxlen := M, usedB := kb, usedF := kf }

/-! ### the same move through the generic model of C09 -/

/-- the lattice engine's stream after the start frame -/
def walk : Int → List Bool → List Int
  | _, [] => []
  | x, c :: t => stepTo x c :: walk (stepTo x c) t

/-- `Moves.shoot .repaired` on doubled coordinates (site x ↦ 2x, λ_k ↦ 2k+1) -/
def latShootRef (e : Ens) (old : List Int) (ld : Bool) (idx : Nat) (xi : Rat) (cb cf : List Bool) :
    Except Moves.Err Moves.ShootOut :=
  let x := old.getD idx 0
  Moves.shoot .repaired
    { old := old.map (2 * ·), oldTimeOrigin := 0, genLd := ld, l := 1, m := 2 * e.mid - 1, r := 2 * e.top - 1,
      maxlength := e.maxlength, allowMax := false, sc := { hasL := true, hasR := false }, scEns := some { hasL := true, hasR := false },
      idx := idx, xi := xi, kick := 2 * x, back := (walk x cb).map (2 * ·), forw := (walk x cf).map (2 * ·) }

/-! ### paths of the ensemble, their coins, the match count -/

/-- `seg` continues a walk from `x` (nearest-neighbour steps), stays strictly inside (0, top) except for
    its last frame, which is outside: the frames a propagation from `x` produces after `x`. -/
def Seg (top : Int) : Int → List Int → Prop
  | _, [] => False
  | x, [y] => (y = x + 1 ∨ y = x - 1) ∧ (y ≤ 0 ∨ top ≤ y)
  | x, y :: z :: t => (y = x + 1 ∨ y = x - 1) ∧ (0 < y ∧ y < top) ∧ Seg top y (z :: t)

/-- the coins that generate `seg` from `x` -/
def coinsOf : Int → List Int → List Bool
  | _, [] => []
  | x, y :: t => decide (y = x + 1) :: coinsOf y t

/-- number of pairs (s, s') of interior indices with `o[s] = n[s']` -/
def countEq (x : Int) : List Int → Nat
  | [] => 0
  | y :: t => (if y = x then 1 else 0) + countEq x t

def matchCount : List Int → List Int → Nat
  | [], _ => 0
  | x :: t, n => countEq x n + matchCount t n

/-- interior frames of a path (first and last dropped) -/
def interior (p : List Int) : List Int := p.tail.dropLast

/-- the shooting kernel between two concrete lattice paths, as a rational number:
    Σ over (s, s') with o[s] = n[s'] of  1/(L_o−2) · 2^{−(L_n−1)} · min(1, (L_o−2)/(L_n−2))  -/
def kernelPaths (o n : List Int) : Rat :=
  Lattice.kernel .stated (1 / 2) (matchCount (interior o) (interior n)) (o.length - 2) (n.length - 2)

/-- unnormalised weight of a lattice path under the walk's law: 2^{−(L−1)} -/
def pathWeight (p : List Int) : Rat := Lattice.pathW (1 / 2) (p.length - 2)

/-! ### the ∞-swap step over an explicit finite list of assignments -/

/-- total of a list of rationals (left to right) -/
def rsum : List Rat → Rat
  | [] => 0
  | x :: t => x + rsum t

/-- An assignment σ is a list: ensemble i ↦ path index σ[i].  Weighted assignments `(σ, w)`; the marginal
    "ensemble i holds path j" of the distribution ∝ w. -/
def marginalNum (as : List (List Nat × Rat)) (i j : Nat) : Rat :=
  rsum (as.map (fun a => if a.1[i]? = some j then a.2 else 0))

def total (as : List (List Nat × Rat)) : Rat := rsum (as.map (·.2))

/-- value of `g` at the path that assignment σ gives to ensemble i (0 if σ has no ensemble i) -/
def atEns (σ : List Nat) (i : Nat) (g : Nat → Rat) : Rat :=
  match σ[i]? with
  | some j => g j
  | none => 0

/-! ### all assignments of n paths to n ensembles, with the weights Π_i W[i, σ(i)] -/

def insertAt (k x : Nat) (l : List Nat) : List Nat := l.take k ++ x :: l.drop k

/-- all permutations of 0..n-1 as lists (position i ↦ σ(i)): insert n-1 … at every position -/
def perms : Nat → List (List Nat)
  | 0 => [[]]
  | n + 1 => (perms n).flatMap (fun p => (List.range (n + 1)).map (fun k => insertAt k n p))

/-- Π_i W[i][σ(i)] (an index outside the row contributes the factor 0) -/
def prodW : List (List Rat) → List Nat → Rat
  | [], _ => 1
  | _ :: _, [] => 1
  | row :: rows, j :: t => row.getD j 0 * prodW rows t

/-- the permutation distribution of the ∞-swap step, unnormalised -/
def assignments (W : List (List Rat)) : List (List Nat × Rat) :=
  (perms W.length).map (fun σ => (σ, prodW W σ))

/-- the matrix of marginals P[i][j] = Σ_{σ(i)=j} Π W / Σ_σ Π W; `none` when the permanent is 0 -/
def margMatrix (W : List (List Rat)) : Option (List (List Rat)) :=
  let as := assignments W
  if total as = 0 then none
  else some ((List.range W.length).map (fun i => (List.range W.length).map (fun j => marginalNum as i j / total as)))

/-! ### path lengths on the lattice: exact references with their boundary-value problems -/

/-- expected number of steps until the walk started on `x` leaves (0, N) -/
def exitTime (N x : Nat) : Rat := (x : Rat) * ((N : Rat) - (x : Rat))

/-- E[ steps · 1{site N is reached before site 0} ] for the walk started on `x` -/
def hitTime (N x : Nat) : Rat := (x : Rat) * ((N : Rat) * (N : Rat) - (x : Rat) * (x : Rat)) / (3 * (N : Rat))

/-- Law of the walk itself (finite horizon, like `Lattice.reachBy`): E[min(τ, t)], the expected number of steps,
    capped at `t`, until the symmetric walk started on site `x` leaves (0, N). -/
def stepsBy (N : Nat) : Nat → Nat → Rat
  | 0, _ => 0
  | t + 1, x => if x = 0 then 0 else if N ≤ x then 0 else 1 + (stepsBy N t (x - 1) + stepsBy N t (x + 1)) / 2

/-- Law of the walk itself: E[τ · 1{site N before site 0, τ ≤ t}] for the walk started on `x` (one step from an
    inside site spends one step on every continuation that still ends on N within the horizon: `reachBy N (t+1) x`). -/
def hitStepsBy (N : Nat) : Nat → Nat → Rat
  | 0, _ => 0
  | t + 1, x => if x = 0 then 0 else if N ≤ x then 0
      else (hitStepsBy N t (x - 1) + hitStepsBy N t (x + 1)) / 2 + Lattice.reachBy N (t + 1) x

/-- first-step equations of the exit time: 0 on both ends, 1 + mean of the neighbours inside -/
def ExitTimeEq (N : Nat) (t : Nat → Rat) : Prop :=
  t 0 = 0 ∧ t N = 0 ∧ ∀ x, 0 < x → x < N → t x = 1 + (t (x - 1) + t (x + 1)) / 2

/-- first-step equations of E[steps · 1{N first}]: 0 on both ends,
    P(N first | x) + mean of the neighbours inside (one step is spent on the event with probability `ruin N x`) -/
def HitTimeEq (N : Nat) (m : Nat → Rat) : Prop :=
  m 0 = 0 ∧ m N = 0 ∧ ∀ x, 0 < x → x < N → m x = Lattice.ruin N x + (m (x - 1) + m (x + 1)) / 2

/-- mean number of frames of a path of the ensemble of data column k (ensemble [(k-1)+]) with n interfaces:
    frame on site 0, frame on site 1, the steps from site 1 to site k given that k is reached before 0
    (`hitTime k 1 / ruin k 1`), the steps from site k until site 0 or site n (`exitTime n k`) -/
def meanLen (n k : Nat) : Rat := 2 + hitTime k 1 / Lattice.ruin k 1 + exitTime n k

end Infretis.LatticeMoves
