/-
Model of the shooting move (C09) of infretis/core/tis.py, on order values:
  shoot                   (tis.py:330-473)
  prepare_shooting_point  (tis.py:727-759)   Path.get_shooting_point (path.py:149-156)
  check_kick              (tis.py:762-795)
  shoot_backwards         (tis.py:678-724)
  paste_paths             (path.py:352-421), Path.__iadd__ (path.py:186-202)
  Path.check_interfaces   (path.py:75-89)
  run_md                  (tis.py:70-107)    only the replacement of the live path
and, last section, of wire_fencing / extender / subt_acceptance (tis.py:476-675).

The MD engine is abstract: a pair of order-value streams (what the MD program produces after
the shooting point, backward and forward in time) consumed through `add_to_path`
(`Infretis.Engine.addToPath`, shared file).  The first frame every engine adds is the state
it was started from, i.e. the shooting point with its kicked order value (engine contract,
assumed: order parameter not velocity-direction dependent).

`Variant`: `repaired` mirrors the code as it is since /repo f955162; `asIs` is the code before that
commit (kept as the record of the finding). They differ in ONE place, the third block of
`add_to_path` (`repaired`: `length == maxlen` does not override a crossing detected on that frame).

Random draws are arguments (`idx`, `xi`); the model returns the draw requests it made.
No imports outside Infretis.Model: this file is part of the compiled driver.
-/
import Infretis.Model.AddToPath
import Infretis.Model.WF
import Infretis.Model.ZeroSwap

namespace Infretis.Moves
open Infretis.Engine

inductive Variant | asIs | repaired
deriving Repr, DecidableEq

/-- `add_to_path` with the variant switch at the `length == maxlen` override.
    For `repaired` it is the shared `Engine.addToPath` (proved in Lemmas/Moves.lean). -/
def addToPathV (v : Variant) (ops : List Int) (maxlen : Option Nat) (x : Int) (left right : Int) :
    Option (List Int × AddResult) :=
  let (ops', add) := pathAppend ops maxlen x
  match ops'.getLast? with
  | none => none
  | some last =>
    let r0 : AddResult := { status := .running, success := false, stop := false, added := add }
    let r1 : AddResult := if add then r0 else { r0 with status := .maxLenNoAdd, success := false, stop := true }
    let r2 : AddResult :=
      if last < left then { r1 with status := .crossedLeft, success := true, stop := true }
      else if last > right then { r1 with status := .crossedRight, success := true, stop := true }
      else r1
    let override : Bool := match v with
      | .asIs => true
      | .repaired => !r2.success
    let r3 : AddResult :=
      if maxlen = some ops'.length ∧ override = true then { r2 with status := .maxLen, success := false, stop := true }
      else r2
    some (ops', r3)

/-- the engine loop: play the stream through `add_to_path` until it says stop.
    Returns frames, success flag, number of values consumed. Stream exhausted ⇒ no success. -/
def feedV (v : Variant) (left right : Int) (maxlen : Option Nat) :
    List Int → List Int → Nat → Option (List Int × Bool × Nat)
  | ops, [], k => some (ops, false, k)
  | ops, x :: t, k =>
    match addToPathV v ops maxlen x left right with
    | none => none
    | some (ops', r) => if r.stop then some (ops', r.success, k + 1) else feedV v left right maxlen ops' t (k + 1)

/-! ### small Path helpers -/

/-- append the frames of `other` one by one, stop at the first refused append
    (`Path.__iadd__`, and each of the two loops of `paste_paths`); flag = nothing refused -/
def appendAll (maxlen : Option Nat) : List Int → List Int → List Int × Bool
  | self, [] => (self, true)
  | self, x :: t =>
    match pathAppend self maxlen x with
    | (s', true) => appendAll maxlen s' t
    | (s', false) => (s', false)

/-- `paste_paths(path_back, path_forw, overlap=True, maxlen)` on order values -/
def paste (back forw : List Int) (maxlen : Nat) : List Int :=
  match appendAll (some maxlen) [] back.reverse with
  | (p, false) => p                                   -- "Truncated while pasting backwards"
  | (p, true) => (appendAll (some maxlen) p forw.tail).1

def minOf : List Int → Option Int
  | [] => none
  | a :: t => some (t.foldl (fun m x => if x < m then x else m) a)

structure StartCond where
  hasL : Bool
  hasR : Bool
deriving Repr, DecidableEq

def sideIn (s : WF.Side) (sc : StartCond) : Bool :=
  match s with
  | .L => sc.hasL
  | .R => sc.hasR
  | .U => false            -- `None not in set(start_cond)`

def min3 (a b c : Int) : Int := min a (min b c)
def max3 (a b c : Int) : Int := max a (max b c)

/-- `Path.check_interfaces([l, m, r])` → (start, end, cross[1]); an empty path gives
    (None, None, "*", [False, False, False]).  Note `left, right = min(interfaces), max(interfaces)`. -/
def checkInterfaces (ops : List Int) (l m r : Int) : WF.Side × WF.Side × Bool :=
  match ops.head?, ops.getLast?, minOf ops, WF.maxOf ops with
  | some first, some last, some mn, some mx =>
    (WF.startPoint (min3 l m r) (max3 l m r) first, WF.endPoint (min3 l m r) (max3 l m r) last,
     decide (mn < m) && decide (m ≤ mx))
  | _, _, _, _ => (.U, .U, false)

inductive Status
  | ACC | KOB | BTL | BTX | BWI | FTL | FTX | ZL /- "0-L" -/ | NCR | NSG
deriving Repr, DecidableEq

inductive Err
  | value      -- ValueError: `integers(1, L-1)` with low ≥ high
  | badDraw    -- scripted outcome outside the range of the requested distribution (never from numpy)
  | zerodiv    -- ZeroDivisionError: ξ = 0.0
  | index      -- IndexError: `phasepoints[-1]` on an empty path (maxlen ≤ 1)
  | assert     -- AssertionError: `left <= right` in get_end_point / WF start assert
deriving Repr, DecidableEq

inductive Draw
  | integers (lo hi : Int)     -- rgen.integers(lo, hi), hi exclusive
  | random                     -- rgen.random()
deriving Repr, DecidableEq

structure ShootIn where
  old : List Int               -- order values of the old path
  oldTimeOrigin : Int
  genLd : Bool                 -- `path.get_move() == "ld"`
  l : Int
  m : Int
  r : Int
  maxlength : Nat              -- tis_set["maxlength"]
  allowMax : Bool              -- tis_set.get("allowmaxlength", False)
  sc : StartCond               -- the `start_cond` argument
  scEns : Option StartCond     -- `ens_set.get("start_cond", start_cond)` : none = key absent
  idx : Nat                    -- outcome of the `integers` draw
  xi : Rat                     -- outcome of the `random` draw (only looked at when drawn)
  kick : Int                   -- order value of the copied shooting point after modify_velocities
  back : List Int              -- engine stream, backward in time, after the shooting point
  forw : List Int              -- engine stream, forward in time, after the shooting point
deriving Repr

structure ShootOut where
  accept : Bool
  status : Status
  trial : List Int             -- order values of the returned path
  genSp : Int                  -- generated = ("sh", genSp, genIdx, genNb)
  genIdx : Nat
  genNb : Nat
  timeOrigin : Int             -- trial_path.time_origin
  draws : List Draw            -- requests in order
  usedB : Nat                  -- frames the engine handed to add_to_path, backward (incl. the shooting point)
  usedF : Nat
deriving Repr, DecidableEq

/-- the `maxlen` computation of shoot (tis.py:380-388) and its draw request.
    `int(x)` for `x ≥ 0` is the floor of the exact rational. -/
def drawMaxlen (i : ShootIn) : Except Err (Nat × List Draw) :=
  if i.genLd || i.allowMax then .ok (i.maxlength, [])
  else if i.xi < 0 then .error .badDraw
  else if i.xi = 0 then .error .zerodiv
  else .ok (min (((((i.old.length : Int) - 2 : Int) : Rat) / i.xi).floor.toNat + 2) i.maxlength, [.random])

/-- `ens_set.get("start_cond", start_cond)` -/
def effSc (i : ShootIn) : StartCond :=
  match i.scEns with
  | some s => s
  | none => i.sc

/-- everything after the two propagations succeeded: the path-property rejections -/
def finalChecks (i : ShootIn) (trial : List Int) : Bool × Status :=
  let ci := checkInterfaces trial i.l i.m i.r
  if i.sc.hasL = false ∧ (ci.1 = .L ∨ ci.2.1 = .L) then (false, .ZL)
  else
    if (effSc i).hasL = true ∧ (effSc i).hasR = true then (true, .ACC)
    else if ci.2.2 = false then (false, .NCR)
    else (true, .ACC)

def shoot (v : Variant) (i : ShootIn) : Except Err ShootOut :=
  let L : Int := i.old.length
  let d1 : Draw := .integers 1 (L - 1)
  -- get_shooting_point: rgen.integers(1, L-1) raises ValueError when low ≥ high
  if ¬ (1 < L - 1) then .error .value
  else if ¬ (1 ≤ i.idx ∧ (i.idx : Int) < L - 1) then .error .badDraw
  else
  let ko := i.kick
  let to0 : Int := i.oldTimeOrigin + i.idx
  -- check_kick
  if ¬ (i.l ≤ ko ∧ ko < i.r) then
    .ok { accept := false, status := .KOB, trial := (pathAppend [] (some i.maxlength) ko).1,
          genSp := ko, genIdx := i.idx, genNb := 0, timeOrigin := to0, draws := [d1], usedB := 0, usedF := 0 }
  else
  match drawMaxlen i with
  | .error e => .error e
  | .ok (maxlen, d2) =>
  let draws := d1 :: d2
  -- shoot_backwards: path_back = empty_path(maxlen - 1)
  match feedV v i.l i.r (some (maxlen - 1)) [] (ko :: i.back) 0 with
  | none => .error .index
  | some (pb, okB, usedB) =>
  if okB = false then
    -- BTL/BTX: trial_path += path_back (copies, in backward order)
    .ok { accept := false, status := if pb.length + 1 ≥ i.maxlength then .BTX else .BTL,
          trial := (appendAll (some i.maxlength) [] pb).1,
          genSp := ko, genIdx := i.idx, genNb := 0, timeOrigin := to0, draws := draws, usedB := usedB, usedF := 0 }
  else
  -- get_end_point(left, right) asserts left ≤ right
  if i.r < i.l then .error .assert
  else
  match pb.getLast? with
  | none => .error .index
  | some e =>
  if sideIn (WF.endPoint i.l i.r e) i.sc = false then
    .ok { accept := false, status := .BWI, trial := (appendAll (some i.maxlength) [] pb).1,
          genSp := ko, genIdx := i.idx, genNb := 0, timeOrigin := to0, draws := draws, usedB := usedB, usedF := 0 }
  else
  -- forward: path_forw = empty_path(maxlen - path_back.length + 1)
  match feedV v i.l i.r (some (maxlen - pb.length + 1)) [] (ko :: i.forw) 0 with
  | none => .error .index
  | some (pf, okF, usedF) =>
  let trial := paste pb pf i.maxlength
  let to1 : Int := to0 - pb.length + 1
  if okF = false then
    .ok { accept := false, status := if trial.length = i.maxlength then .FTX else .FTL, trial := trial,
          genSp := ko, genIdx := i.idx, genNb := pb.length - 1, timeOrigin := to1, draws := draws,
          usedB := usedB, usedF := usedF }
  else
    let fc := finalChecks i trial
    .ok { accept := fc.1, status := fc.2, trial := trial,
          genSp := ko, genIdx := i.idx, genNb := pb.length - 1, timeOrigin := to1, draws := draws,
          usedB := usedB, usedF := usedF }

/-! ### run_md (tis.py:70-107): the live path is replaced only on "ACC" -/

structure MdOut where
  status : Status
  live : List Int              -- order values of `picked[ens]["traj"]` after run_md
  replaced : Bool              -- `picked[ens]["traj"] is trial`
  trialLen : Nat               -- md_items["trial_len"]
deriving Repr, DecidableEq

/-- `run_md` for a one-ensemble shooting job: `select_shoot` calls `shoot` with
    `start_cond = ens_set["start_cond"]`; afterwards `if status == "ACC": picked[ens]["traj"] = trial`
    (the test is on the status string, not on the accept flag). The old path object is not
    passed to anything else. -/
def runMd (v : Variant) (i : ShootIn) : Except Err MdOut :=
  match shoot v i with
  | .error e => .error e
  | .ok o =>
    if o.status = .ACC then .ok { status := o.status, live := o.trial, replaced := true, trialLen := o.trial.length }
    else .ok { status := o.status, live := i.old, replaced := false, trialLen := o.trial.length }

/-! ### wire_fencing (tis.py:476-569), extender (615-675), subt_acceptance (572-612)

Inputs beyond the ensemble settings: the ξ of the segment pick, per jump the outcome of the
`integers` draw, the kicked order value and the two engine streams, and the two engine streams of
the extender.  `mc_move` is "wf" (the only way `select_shoot` reaches this function). -/

structure WfJump where
  idx : Nat
  kick : Int
  back : List Int
  forw : List Int
deriving Repr

structure WfIn where
  old : List Int
  oldTimeOrigin : Int
  l : Int
  m : Int
  r : Int
  cap : Option Int             -- tis_set.get("interface_cap", interfaces[2]) : none = key absent
  maxlength : Nat
  nJumps : Nat                 -- tis_set.get("n_jumps", 2)
  sc : StartCond               -- the `start_cond` argument
  scEns : StartCond            -- ens_set["start_cond"] (goes into sub_ens)
  xiSeg : Rat                  -- outcome of the `random` draw of the segment pick
  jumps : List WfJump
  extBack : List Int
  extForw : List Int
deriving Repr

structure WfOut where
  accept : Bool
  status : Status
  path : List Int              -- order values of the returned path
  returnedOld : Bool           -- the returned object IS the old path (NSG)
  oldRewritten : Bool          -- old.status / old.generated were overwritten (succ_seg = 0): frames intact
  genSucc : Nat                -- generated = ("wf", 9000, genSucc, genLen)
  genLen : Nat
  timeOrigin : Int
  draws : List Draw
deriving Repr, DecidableEq

def capOf (i : WfIn) : Int :=
  match i.cap with
  | some c => c
  | none => i.r

/-- `set(start_cond) == set(start)` where `start` is 'L', 'R' or '?' -/
def scIs (sc : StartCond) (s : WF.Side) : Bool :=
  match s with
  | .L => sc.hasL && !sc.hasR
  | .R => !sc.hasL && sc.hasR
  | .U => false

/-- the sub-ensemble shoot of one jump: interfaces `[m, m, cap]`, `allowmaxlength = True` (set on the
    shared tis_set dict before the loop), `start_cond = ("L", "R")`, `sub_ens["start_cond"]` from the
    ensemble; the segment's `generated` is "ct" or an "sh" tuple, never "ld" -/
def subShootIn (i : WfIn) (seg : List Int) (segTO : Int) (j : WfJump) : ShootIn :=
  { old := seg, oldTimeOrigin := segTO, genLd := false, l := i.m, m := i.m, r := capOf i,
    maxlength := i.maxlength, allowMax := true, sc := { hasL := true, hasR := true },
    scEns := some i.scEns, idx := j.idx, xi := 0, kick := j.kick, back := j.back, forw := j.forw }

/-- the `for i in range(n_jumps)` loop: state = current segment (ops, time_origin), succ_seg, draws -/
def wfJumps (v : Variant) (i : WfIn) : Nat → List WfJump → List Int → Int → Nat → List Draw →
    Except Err (List Int × Int × Nat × List Draw)
  | 0, _, seg, to, succ, d => .ok (seg, to, succ, d)
  | _ + 1, [], _, _, _, _ => .error .badDraw
  | n + 1, j :: js, seg, to, succ, d =>
    match shoot v (subShootIn i seg to j) with
    | .error e => .error e
    | .ok o =>
      if o.accept = true then wfJumps v i n js o.trial o.timeOrigin (succ + 1) (d ++ o.draws)
      else wfJumps v i n js seg to succ (d ++ o.draws)

/-- `extender(source_seg, engine, ens_set, start_cond)` → (success, status, ops, time_origin).
    The return value of `shoot_backwards` is ignored by the code; its `left <= right` assertion cannot
    fire here because `l ≤ first < r`. The forward part replaces the last frame by the whole forward
    segment without any length limit; only the final `length >= maxlength` test rejects. -/
def extender (v : Variant) (i : WfIn) (seg : List Int) (segTO : Int) :
    Except Err (Bool × Status × List Int × Int) :=
  match seg.head? with
  | none => .error .index
  | some first =>
    let r1 : Except Err (List Int × Int) :=
      if i.l ≤ first ∧ first < i.r then
        match feedV v i.l i.r (some i.maxlength) [] (first :: i.extBack) 0 with
        | none => .error .index
        | some (pb, _, _) => .ok (paste pb seg i.maxlength, segTO - pb.length + 1)
      else .ok (seg, segTO)
    match r1 with
    | .error e => .error e
    | .ok (t1, to1) =>
      match t1.getLast? with
      | none => .error .index
      | some last =>
        let r2 : Except Err (List Int) :=
          if i.l ≤ last ∧ last < i.r then
            match feedV v i.l i.r (some i.maxlength) [] (last :: i.extForw) 0 with
            | none => .error .index
            | some (pf, _, _) => .ok (t1.dropLast ++ pf)
          else .ok t1
        match r2 with
        | .error e => .error e
        | .ok t2 =>
          if t2.length ≥ i.maxlength then .ok (false, .FTX, t2, to1) else .ok (true, .ACC, t2, to1)

/-- `subt_acceptance` for `mc_move == "wf"`: the start point is judged against `(l, cap)`;
    `compute_weight` / `get_start_point` assert `l ≤ cap`. A reversed path is a new object
    (time_origin 0). The `weight` attribute it sets is never read anywhere and is not modelled. -/
def subtAcceptance (i : WfIn) (t : List Int) (to : Int) : Except Err (Bool × Status × List Int × Int) :=
  if capOf i < i.l then .error .assert
  else
    match t.head?, t.getLast? with
    | some first, some last =>
      if scIs i.sc (WF.startPoint i.l (capOf i) first) = true then .ok (true, .ACC, t, to)
      else if scIs i.sc (WF.startPoint i.l (capOf i) last) = true then .ok (true, .ACC, t.reverse, 0)
      else .ok (false, .BWI, t.reverse, 0)
    | _, _ => .error .index

def wireFencing (v : Variant) (i : WfIn) : Except Err WfOut :=
  let c := capOf i
  -- wirefence_weight_and_pick(old, m, cap, return_seg=True): draws only when n_frames ≠ 0
  if WF.weight i.m c i.old = 0 then
    .ok { accept := false, status := .NSG, path := i.old, returnedOld := true, oldRewritten := false,
          genSucc := 0, genLen := 0, timeOrigin := i.oldTimeOrigin, draws := [] }
  else
  let seg0 : List Int := match WF.pick i.m c i.old i.xiSeg with
    | some (a, b, _) => (i.old.drop a).take (b + 1 - a)
    | none => []                       -- ξ > 1 only: an empty segment
  match wfJumps v i i.nJumps i.jumps seg0 i.oldTimeOrigin 0 [.random] with
  | .error e => .error e
  | .ok (seg, segTO, succ, draws) =>
  if succ = 0 then
    -- `trial_path` is still the OLD path object: its status and generated are overwritten
    .ok { accept := false, status := .NSG, path := i.old, returnedOld := true, oldRewritten := true,
          genSucc := 0, genLen := i.old.length, timeOrigin := i.oldTimeOrigin, draws := draws }
  else
  match extender v i seg segTO with
  | .error e => .error e
  | .ok (ok1, st1, t1, to1) =>
  match (if ok1 = true then subtAcceptance i t1 to1 else .ok (ok1, st1, t1, to1)) with
  | .error e => .error e
  | .ok (ok2, st2, t2, to2) =>
  if ok2 = false then
    .ok { accept := false, status := st2, path := t2, returnedOld := false, oldRewritten := false,
          genSucc := succ, genLen := t2.length, timeOrigin := to2, draws := draws }
  else
  -- assert set(start_cond) == set(trial_path.get_start_point(left, right))  (which asserts left ≤ right)
  if i.r < i.l then .error .assert
  else
  match t2.head? with
  | none => .error .index
  | some first =>
    if scIs i.sc (WF.startPoint i.l i.r first) = false then .error .assert
    else
      .ok { accept := true, status := .ACC, path := t2, returnedOld := false, oldRewritten := false,
            genSucc := succ, genLen := t2.length, timeOrigin := to2, draws := draws }

/-! ### run_md for the two-ensemble moves (zero swaps; move models in `Infretis.ZeroSwap`, package C11)

`run_md` (tis.py:84-104): `_, trials, status = select_shoot(picked)`; then for each
`(trial, ens_num)`: `if status == "ACC": trial.weights = …; picked[ens_num]["traj"] = trial`.
The test is on the MOVE status, the same for both ensembles; the trials' own `.status` attributes
(`Result.st0`, `Result.st1`) are not consulted — `quantis_swap_zero` returns its new [0-] path with
`.status = "ACC"` when only the second leg (the new [0+] path) fails. -/

structure Md2Out where
  status : ZeroSwap.Status
  live0 : List ZeroSwap.Frame          -- frames of picked[-1]["traj"] after run_md
  live1 : List ZeroSwap.Frame          -- frames of picked[0]["traj"]
  replaced0 : Bool                     -- picked[-1]["traj"] is the trial object
  replaced1 : Bool
deriving Repr, DecidableEq

def runMdCommit2 (r : ZeroSwap.Result) (old0 old1 : List ZeroSwap.Frame) : Md2Out :=
  { status := r.status,
    live0 := if r.status = .ACC then r.path0 else old0,
    live1 := if r.status = .ACC then r.path1 else old1,
    replaced0 := decide (r.status = .ACC),
    replaced1 := decide (r.status = .ACC) }

/-- `run_md` with `picked = {-1, 0}` and `tis_set["quantis"]` true -/
def runMdQuantis (e0 e1 : ZeroSwap.Ens) (old0 old1 : List ZeroSwap.Frame) (scA scB scC scD : ZeroSwap.Script)
    (acceptAll : Bool) (beta0 beta1 : Rat) (xi p : Rat) : Except ZeroSwap.Err Md2Out :=
  match ZeroSwap.quantisSwapZero e0 e1 old0 old1 scA scB scC scD acceptAll beta0 beta1 xi p with
  | .error e => .error e
  | .ok r => .ok (runMdCommit2 r old0 old1)

/-- `run_md` with `picked = {-1, 0}` and plain RETIS swap -/
def runMdRetisSwap (e0 e1 : ZeroSwap.Ens) (old0 old1 : List ZeroSwap.Frame) (bw fw : ZeroSwap.Script) (xi : Rat) :
    Except ZeroSwap.Err Md2Out :=
  match ZeroSwap.retisSwapZero e0 e1 old0 old1 bw fw xi with
  | .error e => .error e
  | .ok r => .ok (runMdCommit2 r old0 old1)

end Infretis.Moves
