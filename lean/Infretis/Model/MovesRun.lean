/-
C09 extension (own file of the package; imports the move models, is imported by the C09 driver only):

  1. the STATUS TABLE of `shoot` (tis.py:330-473): `shootOutcome` mirrors only the control flow of the move
     (which stage ended it and the few numbers the status depends on), `statusOf` is the table
     outcome → status string.  `Lemmas/MovesTable.lean` proves `shoot`'s status is `statusOf` of that outcome.
  2. the same for `wire_fencing` (tis.py:476-569): `wfOutcome`, `wfStatusOf`.
  3. `select_shoot` (tis.py:254-327): the dispatcher (`route`), and
  4. `run_md` (tis.py:70-107) for a one-ensemble job, composed end to end: route → move (with
     `start_cond = ens_set["start_cond"]`) → `trial_len` / `trial_op` bookkeeping → on status "ACC" the weights
     (`calc_cv_vector`, model `WF.cvVector` / `WF.cvMinus`) and the replacement of the live path.

No imports outside Infretis.Model: part of the compiled driver.
-/
import Infretis.Model.Moves

namespace Infretis.Moves
open Infretis.Engine

/-! ### 1. status table of `shoot` -/

/-- how a shooting move ended, with exactly the data its status string depends on -/
inductive Outcome
  | kob                                   -- check_kick refused the kicked point
  | backFail (backLen : Nat)              -- backward propagate reported no success; `path_back.length`
  | wrongEnd                              -- backward path ended on a side not in `start_cond`
  | forwFail (trialLen : Nat)             -- forward propagate reported no success; length of the pasted path
  | final (zeroL scBoth crossed : Bool)   -- both succeeded: the three path-property tests
deriving Repr, DecidableEq

/-- THE TABLE: outcome → status (`maxlength` = tis_set["maxlength"]) -/
def statusOf (maxlength : Nat) : Outcome → Status
  | .kob => .KOB
  | .backFail n => if n + 1 ≥ maxlength then .BTX else .BTL
  | .wrongEnd => .BWI
  | .forwFail n => if n = maxlength then .FTX else .FTL
  | .final zeroL scBoth crossed =>
    if zeroL then .ZL else if scBoth then .ACC else if crossed then .ACC else .NCR

/-- the three tests after two successful propagations (tis.py:451-469):
    `"L" not in set(start_cond) and "L" in check_interfaces[:2]`; `set(("R","L")) == set(ens start_cond)`;
    `check_interfaces[-1][1]` -/
def finalFlags (i : ShootIn) (trial : List Int) : Outcome :=
  let ci := checkInterfaces trial i.l i.m i.r
  .final (decide (i.sc.hasL = false ∧ (ci.1 = .L ∨ ci.2.1 = .L)))
         ((effSc i).hasL && (effSc i).hasR)
         ci.2.2

/-- control flow of `shoot` only (same guards, same order, same error kinds as `Moves.shoot`) -/
def shootOutcome (v : Variant) (i : ShootIn) : Except Err Outcome :=
  let L : Int := i.old.length
  if ¬ (1 < L - 1) then .error .value
  else if ¬ (1 ≤ i.idx ∧ (i.idx : Int) < L - 1) then .error .badDraw
  else
  if ¬ (i.l ≤ i.kick ∧ i.kick < i.r) then .ok .kob
  else
  match drawMaxlen i with
  | .error e => .error e
  | .ok (maxlen, _) =>
  match feedV v i.l i.r (some (maxlen - 1)) [] (i.kick :: i.back) 0 with
  | none => .error .index
  | some (pb, okB, _) =>
  if okB = false then .ok (.backFail pb.length)
  else
  if i.r < i.l then .error .assert
  else
  match pb.getLast? with
  | none => .error .index
  | some e =>
  if sideIn (WF.endPoint i.l i.r e) i.sc = false then .ok .wrongEnd
  else
  match feedV v i.l i.r (some (maxlen - pb.length + 1)) [] (i.kick :: i.forw) 0 with
  | none => .error .index
  | some (pf, okF, _) =>
  if okF = false then .ok (.forwFail (paste pb pf i.maxlength).length)
  else .ok (finalFlags i (paste pb pf i.maxlength))

/-! ### 2. status table of `wire_fencing` -/

inductive WfOutcome
  | noFrames                      -- `n_frames == 0`: "NSG" before any draw
  | noSegment                     -- `succ_seg == 0` after the jumps: "NSG", old path object returned
  | extTooLong (len : Nat)        -- extender: `trial_path.length >= maxlength`: "FTX"
  | wrongStart                    -- subt_acceptance: neither end on the start side: "BWI"
  | accepted (succ len : Nat)     -- "ACC"
deriving Repr, DecidableEq

def wfStatusOf : WfOutcome → Status
  | .noFrames => .NSG
  | .noSegment => .NSG
  | .extTooLong _ => .FTX
  | .wrongStart => .BWI
  | .accepted _ _ => .ACC

/-- the segment the jumps start from (`wirefence_weight_and_pick(..., return_seg=True)`) -/
def wfSeg0 (i : WfIn) : List Int :=
  match WF.pick i.m (capOf i) i.old i.xiSeg with
  | some (a, b, _) => (i.old.drop a).take (b + 1 - a)
  | none => []

/-- control flow of `wire_fencing` only (same guards, same order, same error kinds as `Moves.wireFencing`) -/
def wfOutcome (v : Variant) (i : WfIn) : Except Err WfOutcome :=
  if WF.weight i.m (capOf i) i.old = 0 then .ok .noFrames
  else
  match wfJumps v i i.nJumps i.jumps (wfSeg0 i) i.oldTimeOrigin 0 [.random] with
  | .error e => .error e
  | .ok (seg, segTO, succ, _) =>
  if succ = 0 then .ok .noSegment
  else
  match extender v i seg segTO with
  | .error e => .error e
  | .ok (ok1, _, t1, to1) =>
  if ok1 = false then .ok (.extTooLong t1.length)
  else
  match subtAcceptance i t1 to1 with
  | .error e => .error e
  | .ok (ok2, _, t2, _) =>
  if ok2 = false then .ok .wrongStart
  else
  if i.r < i.l then .error .assert
  else
  match t2.head? with
  | none => .error .index
  | some first =>
    if scIs i.sc (WF.startPoint i.l i.r first) = false then .error .assert
    else .ok (.accepted succ t2.length)

/-! ### 3. `select_shoot`: the dispatcher -/

/-- `ens_set["mc_move"]` as the table `sh_moves = {"wf": wire_fencing, "sh": shoot}` sees it -/
inductive MoveKey | sh | wf | other
deriving Repr, DecidableEq

inductive Route
  | shoot | wireFencing | quantisSwap | retisSwap
  | keyError          -- `sh_moves[move]` with an unknown move, or `picked[-1]` absent when `len(picked) != 1`
deriving Repr, DecidableEq

/-- `select_shoot(picked)`: one entry → the move named by `mc_move`; otherwise the zero swap chosen by
    `picked[-1]["ens"]["tis_set"]["quantis"]` (`hasMinus` = the key -1 is present). -/
def route (nPicked : Nat) (hasMinus : Bool) (move : MoveKey) (quantis : Bool) : Route :=
  if nPicked = 1 then
    match move with
    | .sh => .shoot
    | .wf => .wireFencing
    | .other => .keyError
  else if hasMinus = false then .keyError
  else if quantis then .quantisSwap else .retisSwap

/-! ### 4. `run_md` for a one-ensemble job, composed -/

inductive MdErr
  | move (e : Err)        -- raised inside the move
  | key                   -- KeyError: unknown mc_move / no "start_cond" in ens_set
  | value                 -- ValueError: argmin/argmax of an empty trial path
  | index                 -- IndexError inside calc_cv_vector
  | assert                -- AssertionError inside compute_weight
deriving Repr, DecidableEq

/-- what `run_md` reads besides `picked`: md_items["interfaces"], the wf-flags of md_items["mc_moves"][1:],
    md_items["cap"], the ensemble number (negative = minus ensemble), tis_set["lambda_minus_one"] (none = False) -/
structure MdCfg where
  interfaces : List Int
  movesTail : List Bool
  cap : Option Int
  ensNum : Int
  lm1 : Option Int
deriving Repr

/-- the job: the picked ensemble's move with its inputs (`other` = an mc_move that is neither "sh" nor "wf") -/
inductive OneIn
  | sh (i : ShootIn)
  | wf (i : WfIn)
  | other (old : List Int)

def OneIn.old : OneIn → List Int
  | .sh i => i.old
  | .wf i => i.old
  | .other o => o

structure MdOneOut where
  status : Status
  live : List Int              -- order values of `picked[ens]["traj"]` after run_md
  replaced : Bool              -- `picked[ens]["traj"] is trial`
  trialLen : Nat               -- md_items["trial_len"][0]
  trialMin : Int               -- md_items["trial_op"][0]
  trialMax : Int
  weights : Option (List Nat)  -- `trial.weights` as assigned by run_md (none = not assigned)
deriving Repr, DecidableEq

def wfErr : WF.Err → MdErr
  | .assert => .assert
  | .index => .index
  | .value => .value

/-- `calc_cv_vector(trial, interfaces, mc_moves, lambda_minus_one, cap, minus = ens_num < 0)` -/
def mdWeights (cfg : MdCfg) (trial : List Int) : Except MdErr (List Nat) :=
  if cfg.ensNum < 0 then
    match cfg.lm1 with
    | some b => (WF.cvMinus trial b).mapError wfErr
    | none =>
      match WF.maxOf trial, cfg.interfaces.head? with
      | none, _ => .error .value
      | some _, none => .error .index
      | some _, some i0 => (WF.cvMinus trial i0).mapError wfErr
  else (WF.cvVector trial cfg.interfaces cfg.movesTail cfg.cap).mapError wfErr

/-- the move as `select_shoot` calls it: `start_cond = ens_set["start_cond"]` is handed over as the argument.
    Returns (status, trial frames, trial IS the old path object). -/
def runMove (v : Variant) : OneIn → Except MdErr (Status × List Int × Bool)
  | .sh i =>
    match i.scEns with
    | none => .error .key
    | some sce =>
      match shoot v { i with sc := sce } with
      | .error e => .error (.move e)
      | .ok o => .ok (o.status, o.trial, false)
  | .wf i =>
    match wireFencing v { i with sc := i.scEns } with
    | .error e => .error (.move e)
    | .ok o => .ok (o.status, o.path, o.returnedOld)
  | .other _ => .error .key

def runMdOne (v : Variant) (cfg : MdCfg) (x : OneIn) : Except MdErr MdOneOut :=
  match runMove v x with
  | .error e => .error e
  | .ok (status, trial, isOld) =>
    -- md_items["moves"].append(md_items["mc_moves"][ens_num + 1]): IndexError when out of range (Python indices wrap)
    if cfg.ensNum + 1 ≥ ((cfg.movesTail.length : Int) + 1) ∨ cfg.ensNum + 1 < -((cfg.movesTail.length : Int) + 1) then
      .error .index
    else
    -- md_items["trial_op"].append((trial.ordermin[0], trial.ordermax[0])): ValueError on an empty trial
    match minOf trial, WF.maxOf trial with
    | some mn, some mx =>
      if status = .ACC then
        match mdWeights cfg trial with
        | .error e => .error e
        | .ok w => .ok { status := status, live := trial, replaced := !isOld, trialLen := trial.length,
                         trialMin := mn, trialMax := mx, weights := some w }
      else .ok { status := status, live := x.old, replaced := false, trialLen := trial.length,
                 trialMin := mn, trialMax := mx, weights := none }
    | _, _ => .error .value

end Infretis.Moves
