/-
C09, "ordered in time": the FRAMES of the paths the moves build (own file of the package; imports the move models,
is imported by the C09 driver).

`Moves.shoot` / `Moves.wireFencing` work on order values only.  The order values cannot see whether a path that
`subt_acceptance` turned around (`Path.reverse`, path.py:221-248) is still a trajectory: that depends on the `vel_rev`
flag of every frame.  Here every frame carries, besides its order value, the stored phase point it refers to and its flag:

  * a stored phase point is `(traj, t, v)`: trajectory label (changes only at a velocity kick), time label, and the sign
    of the stored velocity — ONE MD STEP on a stored point moves `t` by `v` (reversible dynamics: flipping `v` and stepping
    walks back along the same trajectory);
  * `rev` is `System.vel_rev`: "flip the stored velocity to get the velocity in the direction of the path".

ENGINE CONTRACT (assumed; it is what `EngineBase.propagate` (enginebase.py:311-324) + a reversible MD program do, and what
the scripted engine of the tie implements): started from a frame `s` with `reverse = d`, the stored velocity is flipped
first iff `s.rev ≠ d`, then frame `k` of the new trajectory file is the `k`-th MD step, every frame flagged `rev = d`.

What is mirrored here (list surgery on frames, in the code's order): `paste_paths` (path.py:352-426), the two
propagations of `shoot` (tis.py:393-428), the `n_jumps` loop of `wire_fencing` (`new_segment = trial_seg.copy()`),
`extender` (tis.py:615-675: `paste_paths(back_segment, source_seg)`, `phasepoints[:-1] + forth_segment.phasepoints`),
`subt_acceptance` (tis.py:605-606: `trial_path.reverse(...)`), `Path.reverse` / `reverse_velocities` (toggle).
The CONTROL FLOW (which branch, which lengths) is taken from the order-value models, so the two cannot drift apart.

No imports outside Infretis.Model: part of the compiled driver.
-/
import Infretis.Model.Moves

namespace Infretis.Moves
open Infretis.Engine

structure TFrame where
  op : Int
  traj : Nat
  t : Int
  v : Int
  rev : Bool
deriving Repr, DecidableEq

/-- velocity of the frame in the direction of the path (`vel * -1 if vel_rev else vel`, enginebase.py:171) -/
def TFrame.u (f : TFrame) : Int := if f.rev then -f.v else f.v

/-- frames `k = 0, 1, …` of one trajectory file: stored velocity `v0`, flag `d`, order values `ops` -/
def engineGo (tr : Nat) (v0 : Int) (d : Bool) : Int → List Int → List TFrame
  | _, [] => []
  | t, x :: xs => { op := x, traj := tr, t := t, v := v0, rev := d } :: engineGo tr v0 d (t + v0) xs

/-- `propagate(path, ens_set, system = s, reverse = d)`: `ops` are the order values the loop put into `path`
    (the first one is the start state's) -/
def engineT (s : TFrame) (d : Bool) (ops : List Int) : List TFrame :=
  engineGo s.traj (if s.rev = d then s.v else -s.v) d s.t ops

/-- `Path.reverse_velocities`: `system.vel_rev = not system.vel_rev` -/
def flipRev (f : TFrame) : TFrame := { f with rev := !f.rev }

/-- `Path.reverse(order_function, rev_v = True)` for an order parameter that does not depend on the velocities -/
def reverseT (fs : List TFrame) : List TFrame := fs.reverse.map flipRev

/-- `paste_paths(path_back, path_forw, overlap = True, maxlen)`: the frame objects themselves, backward part reversed,
    first forward frame skipped, appends refused from `maxlen` on (`Lemmas.paste_take` is the same fact for `paste`) -/
def pasteT (back forw : List TFrame) (maxlen : Nat) : List TFrame := (back.reverse ++ forw.tail).take maxlen

/-- the kicked shooting point of a move: fresh trajectory `tr`, stored velocity +1, time 0; `krev` is the `vel_rev`
    flag the copied shooting point carries after `modify_velocities` -/
def kickFrame (kick : Int) (tr : Nat) (krev : Bool) : TFrame := { op := kick, traj := tr, t := 0, v := 1, rev := krev }

/-- frames of the trial path of `shoot` once the backward propagation succeeded and ended on an allowed side (so that the
    forward propagation runs and the two are pasted); `none` on every earlier return and on every exception -/
def shootT (v : Variant) (i : ShootIn) (K : TFrame) : Option (List TFrame) :=
  let L : Int := i.old.length
  if ¬ (1 < L - 1) then none
  else if ¬ (1 ≤ i.idx ∧ (i.idx : Int) < L - 1) then none
  else if ¬ (i.l ≤ i.kick ∧ i.kick < i.r) then none
  else
  match drawMaxlen i with
  | .error _ => none
  | .ok (maxlen, _) =>
  match feedV v i.l i.r (some (maxlen - 1)) [] (i.kick :: i.back) 0 with
  | none => none
  | some (pb, okB, _) =>
  if okB = false then none
  else if i.r < i.l then none
  else
  match pb.getLast? with
  | none => none
  | some e =>
  if sideIn (WF.endPoint i.l i.r e) i.sc = false then none
  else
  match feedV v i.l i.r (some (maxlen - pb.length + 1)) [] (i.kick :: i.forw) 0 with
  | none => none
  | some (pf, _, _) => some (pasteT (engineT K true pb) (engineT K false pf) i.maxlength)

/-- the `for i in range(n_jumps)` loop of `wire_fencing` on frames: `c` counts the jumps made so far (jump `c` kicks onto
    the fresh trajectory `c + 1`), `krevs` are the flags of the kicked points.  Control flow = `wfJumps`. -/
def wfJumpsT (v : Variant) (i : WfIn) : Nat → List WfJump → List Bool → List Int → Int → List TFrame → Nat → Nat →
    Option (List TFrame × Nat)
  | 0, _, _, _, _, segT, succ, _ => some (segT, succ)
  | _ + 1, [], _, _, _, _, _, _ => none
  | n + 1, j :: js, krevs, seg, to, segT, succ, c =>
    match shoot v (subShootIn i seg to j) with
    | .error _ => none
    | .ok o =>
      if o.accept = true then
        match shootT v (subShootIn i seg to j) (kickFrame j.kick (c + 1) (krevs.headD false)) with
        | none => none
        | some fs => wfJumpsT v i n js krevs.tail o.trial o.timeOrigin fs (succ + 1) (c + 1)
      else wfJumpsT v i n js krevs.tail seg to segT succ (c + 1)

/-- `extender` on frames (control flow and lengths = `Moves.extender`): backward from a copy of the first frame, pasted
    in front; forward from a copy of the last frame, which is replaced by the whole forward segment -/
def extenderT (v : Variant) (i : WfIn) (seg : List Int) (segT : List TFrame) : Option (List TFrame) :=
  match seg.head?, segT.head? with
  | some first, some f0 =>
    let r1 : Option (List Int × List TFrame) :=
      if i.l ≤ first ∧ first < i.r then
        match feedV v i.l i.r (some i.maxlength) [] (first :: i.extBack) 0 with
        | none => none
        | some (pb, _, _) => some (paste pb seg i.maxlength, pasteT (engineT f0 true pb) segT i.maxlength)
      else some (seg, segT)
    match r1 with
    | none => none
    | some (t1, t1T) =>
      match t1.getLast?, t1T.getLast? with
      | some last, some fl =>
        if i.l ≤ last ∧ last < i.r then
          match feedV v i.l i.r (some i.maxlength) [] (last :: i.extForw) 0 with
          | none => none
          | some (pf, _, _) => some (t1T.dropLast ++ engineT fl false pf)
        else some t1T
      | _, _ => none
  | _, _ => none

/-- `subt_acceptance` on frames: kept, or turned around by `Path.reverse` (branch chosen as in `Moves.subtAcceptance`) -/
def subtT (i : WfIn) (t : List Int) (tT : List TFrame) : Option (List TFrame) :=
  if capOf i < i.l then none
  else
    match t.head?, t.getLast? with
    | some first, some last =>
      if scIs i.sc (WF.startPoint i.l (capOf i) first) = true then some tT
      else if scIs i.sc (WF.startPoint i.l (capOf i) last) = true then some (reverseT tT)
      else none
    | _, _ => none

/-- frames of the path an ACCEPTED `wire_fencing` move returns (`none` whenever the move is not accepted or raises).
    `seg0T`: frames of the segment picked from the old path (they never survive into an accepted path). -/
def wireFencingT (v : Variant) (i : WfIn) (krevs : List Bool) (seg0T : List TFrame) : Option (List TFrame) :=
  if WF.weight i.m (capOf i) i.old = 0 then none
  else
  let seg0 : List Int := match WF.pick i.m (capOf i) i.old i.xiSeg with
    | some (a, b, _) => (i.old.drop a).take (b + 1 - a)
    | none => []
  match wfJumps v i i.nJumps i.jumps seg0 i.oldTimeOrigin 0 [.random],
        wfJumpsT v i i.nJumps i.jumps krevs seg0 i.oldTimeOrigin seg0T 0 0 with
  | .ok (seg, segTO, _, _), some (segT, succT) =>
    if succT = 0 then none
    else
    match extender v i seg segTO, extenderT v i seg segT with
    | .ok (true, _, t1, to1), some t1T =>
      match subtAcceptance i t1 to1, subtT i t1 t1T with
      | .ok (true, _, _, _), some t2T =>
        if i.r < i.l then none
        else
        match t2T.head? with
        | none => none
        | some f =>
          if scIs i.sc (WF.startPoint i.l i.r f.op) = false then none else some t2T
      | _, _ => none
    | _, _ => none
  | _, _ => none

/-- one MD step in the direction of the path leads from `a` to `b` -/
def stepB (a b : TFrame) : Bool := b.traj == a.traj && b.u == a.u && b.t == a.t + a.u

/-- executable form of "ordered in time" (the predicate the tie evaluates on the frames of the REAL path) -/
def timeOrderedB : List TFrame → Bool
  | a :: b :: r => stepB a b && timeOrderedB (b :: r)
  | _ => true

/-- what the mutated `reverse_velocities` (`vel_rev = True` instead of the toggle) would build: used only for the
    counterexample that shows `TimeOrdered` tells the two apart -/
def reverseSetTrue (fs : List TFrame) : List TFrame := fs.reverse.map (fun f => { f with rev := true })

end Infretis.Moves
