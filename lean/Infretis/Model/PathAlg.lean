/-
Model of the path algebra in infretis/classes/path.py and infretis/classes/system.py (C15):

  System.copy                              (system.py:34-37)   shallow `copy.copy`
  Path.append / __iadd__ / copy / reverse  (path.py:158-248)
  paste_paths                              (path.py:352-421)
  ordermin / ordermax / check_interfaces / get_start_point / get_end_point (path.py:57-147)

Objects live in a heap: `Heap.sys` is the list of System records ever allocated, a reference is
an index into it, and a path holds a list of references (`phasepoints`).  What is copied and
what is shared is therefore part of the model:

  * `System.copy`        allocates a fresh reference with the same field values.  The copy is
                         SHALLOW: the `order` list object is shared (`orderObj` is the identity
                         of that list object; in-place `order[0] = x` is visible through every
                         System holding the same list object), and so are the numpy arrays `pos`,
                         `vel`, `box` and the `temperature` dict (`posObj` … `tempObj`; in-place
                         `pos[0] = x` = `Heap.setArrItem`, re-assignment `pos = …` = `Heap.setArr`
                         gives the System a fresh container).
  * `Path.append`        stores the given reference (no copy).
  * `Path.__iadd__`      copies each frame of `other` (and stops at the first failed append,
                         after having made one unused copy).
  * `Path.copy`          copies each frame (keeps iterating after a failed append).
  * `Path.reverse`       copies each frame in reversed order, flips `vel_rev` of the copy when
                         `rev_v`, and, when an order function is given that is velocity dependent
                         and `rev_v`, re-assigns `order` of every frame of the new path.
  * `paste_paths`        re-uses the references of both segments (no copy at all).
                         Its limit computation is the repaired one (fix 960b399); `Variant.asIs`
                         is the code before it (`max(None, int)` → TypeError), see `pasteMaxlenV`.

Extension pass: `Path.__eq__` / `__ne__` (`Path.eq`, frames compared by identity), `get_shooting_point`
(`shootRequest`, `shootingPoint`: the draw is an argument), `update_energies` (`updateEnergies`),
`empty_path` with omitted keywords (`Path.emptyPath`), `adress`, `reverse_velocities`, the warnings of
`paste_paths` / `__iadd__` (`pasteWarnings`, `iaddWarnings`: which loop gave up), and the class /
attribute-name set of a path object (`PMeta`, kept by the machine).

Order parameters, energies and the opaque numeric fields are `Int` (the harness feeds
integer-valued floats).  No imports: this file is compiled into the native driver.
-/
namespace Infretis.PathAlg

-- a reference is an index into `Heap.sys` (plain `Nat`)

/-- the field values of a `System` (everything `copy.copy` duplicates by value or by pointer) -/
structure Vals where
  config : Int × Int        -- (file name token, index)
  order : List Int          -- the content of the `order` list
  velRev : Bool
  ekin : Option Int
  vpot : Option Int
  pos : Int                 -- opaque tokens for the array-valued fields
  vel : Int
  box : Int
  temp : Int
deriving Repr, DecidableEq, Inhabited

/-- a System object: its field values and the identities of the mutable container objects it holds:
    the `order` list, the numpy arrays `pos` / `vel` / `box` and the `temperature` dict.  `copy.copy`
    duplicates the System record only, so a copy holds the SAME five container objects. -/
structure Sys where
  v : Vals
  orderObj : Nat
  posObj : Nat := 0
  velObj : Nat := 0
  boxObj : Nat := 0
  tempObj : Nat := 0
deriving Repr, DecidableEq, Inhabited

/-- the array-valued (mutable container) fields besides `order` -/
inductive Arr | pos | vel | box | temp
deriving Repr, DecidableEq

def Sys.arrObj (s : Sys) : Arr → Nat
  | .pos => s.posObj | .vel => s.velObj | .box => s.boxObj | .temp => s.tempObj

def Sys.withArrObj (s : Sys) (a : Arr) (o : Nat) : Sys :=
  match a with
  | .pos => { s with posObj := o } | .vel => { s with velObj := o }
  | .box => { s with boxObj := o } | .temp => { s with tempObj := o }

def Vals.arr (v : Vals) : Arr → Int
  | .pos => v.pos | .vel => v.vel | .box => v.box | .temp => v.temp

def Vals.setArr (v : Vals) (a : Arr) (x : Int) : Vals :=
  match a with
  | .pos => { v with pos := x } | .vel => { v with vel := x }
  | .box => { v with box := x } | .temp => { v with temp := x }

structure Heap where
  sys : List Sys
  nOrd : Nat                -- next fresh identity for a container object (`order` list, array, dict)
deriving Repr, DecidableEq

def Heap.empty : Heap := { sys := [], nOrd := 0 }

/-- dereference (None = dangling, never happens for references obtained from the heap) -/
def Heap.look (h : Heap) (r : Nat) : Option Sys := h.sys[r]?

/-- `System.copy()` = `copy.copy(self)`: new object, same field values, same `order` list object -/
def Heap.copySys (h : Heap) (r : Nat) : Heap × Nat :=
  match h.look r with
  | some s => ({ h with sys := h.sys ++ [s] }, h.sys.length)
  | none => ({ h with sys := h.sys ++ [default] }, h.sys.length)

/-- overwrite the object at `r` -/
def Heap.put (h : Heap) (r : Nat) (s : Sys) : Heap := { h with sys := h.sys.set r s }

/-- apply `f` to the field values of the object at `r` (re-assignment of a field that is not `order`) -/
def Heap.modV (h : Heap) (r : Nat) (f : Vals → Vals) : Heap :=
  match h.look r with
  | some s => h.put r { s with v := f s.v }
  | none => h

/-- `system.order = <new list>`: the System now holds a fresh list object -/
def Heap.setOrder (h : Heap) (r : Nat) (o : List Int) : Heap :=
  match h.look r with
  | some s => { sys := h.sys.set r { s with v := { s.v with order := o }, orderObj := h.nOrd }, nOrd := h.nOrd + 1 }
  | none => h

/-- in-place `system.order[0] = x`: visible through every System holding the same list object.
    (`none` = IndexError on an empty list) -/
def Heap.setItem0 (h : Heap) (r : Nat) (x : Int) : Option Heap :=
  match h.look r with
  | some s =>
    match s.v.order with
    | [] => none
    | _ :: t =>
      some { h with sys := h.sys.map (fun s' =>
        if s'.orderObj = s.orderObj then { s' with v := { s'.v with order := x :: t } } else s') }
  | none => none

/-- `system.pos = <new array>` (resp. `vel`, `box`, `temperature`): the System now holds a fresh
    container object -/
def Heap.setArr (h : Heap) (r : Nat) (a : Arr) (x : Int) : Heap :=
  match h.look r with
  | some s => { sys := h.sys.set r ({ s with v := s.v.setArr a x }.withArrObj a h.nOrd), nOrd := h.nOrd + 1 }
  | none => h

/-- in-place `system.pos[0] = x` (resp. `vel[0]`, `box[0]`, `temperature["t"]`): visible through every
    System holding the same container object (`none`: dangling reference) -/
def Heap.setArrItem (h : Heap) (r : Nat) (a : Arr) (x : Int) : Option Heap :=
  match h.look r with
  | some s =>
    some { h with sys := h.sys.map (fun s' =>
      if s'.arrObj a = s.arrObj a then { s' with v := s'.v.setArr a x } else s') }
  | none => none

/-- a new System object with the given values and its own five container objects -/
def Heap.alloc (h : Heap) (v : Vals) : Heap × Nat :=
  ({ sys := h.sys ++ [{ v := v, orderObj := h.nOrd, posObj := h.nOrd + 1, velObj := h.nOrd + 2,
                        boxObj := h.nOrd + 3, tempObj := h.nOrd + 4 }],
     nOrd := h.nOrd + 5 }, h.sys.length)

def flipV (v : Vals) : Vals := { v with velRev := !v.velRev }
def flipS (s : Sys) : Sys := { s with v := flipV s.v }

/-! ### Path -/

structure Path where
  maxlen : Option Int       -- `None` = unlimited
  status : Int              -- token of the status string (0 = "")
  generated : Option Int
  pathNumber : Option Int
  weights : Option Int
  weight : Int
  frames : List Nat         -- `phasepoints`
  timeOrigin : Int
deriving Repr, DecidableEq

/-- `Path(maxlen, time_origin)` -/
def Path.empty (maxlen : Option Int) (timeOrigin : Int) : Path :=
  { maxlen := maxlen, status := 0, generated := none, pathNumber := none, weights := none,
    weight := 0, frames := [], timeOrigin := timeOrigin }

/-- `self.maxlen is None or self.length < self.maxlen` -/
def Path.canAppend (p : Path) : Bool :=
  match p.maxlen with
  | none => true
  | some m => decide ((p.frames.length : Int) < m)

/-- `Path.append(phasepoint)`: stores the given reference; returns whether it was stored -/
def Path.append (p : Path) (r : Nat) : Path × Bool :=
  if p.canAppend then ({ p with frames := p.frames ++ [r] }, true) else (p, false)

/-- the three "copy every frame" loops of path.py:
      `Path.copy`      f = id,          stopOnFail = false
      `__iadd__`       f = id,          stopOnFail = true  (`return self` at the first failed append)
      `Path.reverse`   f = flip/ id,    stopOnFail = false (called on the reversed frame list)
    each iteration: `new = phasepoint.copy()`; (reverse: `new.vel_rev = not new.vel_rev`);
    `np.append(new)`.  The copy is made before `append` checks the limit. -/
def copyEach (f : Sys → Sys) (stopOnFail : Bool) : Heap → Path → List Nat → Heap × Path
  | h, np, [] => (h, np)
  | h, np, r :: rs =>
    let (h1, r1) := h.copySys r
    let h2 := match h1.look r1 with
      | some s => h1.put r1 (f s)
      | none => h1
    let (np1, ok) := np.append r1
    if stopOnFail && !ok then (h2, np1) else copyEach f stopOnFail h2 np1 rs

/-- `Path.copy()`. Note: `weight` is not copied (stays 0.0). -/
def Path.copy (h : Heap) (p : Path) : Heap × Path :=
  let (h', np) := copyEach id false h (Path.empty p.maxlen 0) p.frames
  (h', { np with status := p.status, timeOrigin := p.timeOrigin, generated := p.generated,
                 maxlen := p.maxlen, pathNumber := p.pathNumber, weights := p.weights })

/-- `self += other` (self and other are different path objects) -/
def Path.iadd (h : Heap) (self other : Path) : Heap × Path :=
  copyEach id true h self other.frames

/-- an order function: `velocity_dependent` and `calculate(system)` (reads the field values) -/
structure OrderFn where
  velDep : Bool
  calcF : Vals → List Int

/-- `for phasepoint in new_path.phasepoints: phasepoint.order = order_function.calculate(phasepoint)` -/
def recompute (calcF : Vals → List Int) : Heap → List Nat → Heap
  | h, [] => h
  | h, r :: rs =>
    match h.look r with
    | some s => recompute calcF (h.setOrder r (calcF s.v)) rs
    | none => recompute calcF h rs

/-- `Path.reverse(order_function, rev_v)` -/
def Path.reverse (h : Heap) (p : Path) (ofn : Option OrderFn) (revV : Bool) : Heap × Path :=
  let np0 := { Path.empty p.maxlen 0 with weights := p.weights }
  let (h1, np) := copyEach (if revV then flipS else id) false h np0 p.frames.reverse
  match ofn with
  | none => (h1, np)
  | some f => if f.velDep && revV then (recompute f.calcF h1 np.frames, np) else (h1, np)

inductive Err | assert | index | value | type
deriving Repr, DecidableEq

/-- the `for … : app = new_path.append(pp); if not app: return new_path` loops of `paste_paths` -/
def appendAll : Path → List Nat → Path × Bool
  | np, [] => (np, true)
  | np, r :: rs =>
    let (np1, ok) := np.append r
    if ok then appendAll np1 rs else (np1, false)

/-- the two versions of the limit computation of `paste_paths`: `asIs` = before fix 960b399
    (`max(None, int)` raises TypeError in Python 3), `repaired` = the current code ("in case one is None,
    the other will be picked") -/
inductive Variant | asIs | repaired
deriving Repr, DecidableEq

/-- the `maxlen` of the pasted path; the variants differ exactly where one of the two limits is `None`
    and no explicit `maxlen` is given. -/
def pasteMaxlenV (var : Variant) (bm fm : Option Int) (maxlen : Option Int) : Except Err (Option Int) :=
  match maxlen with
  | some m => .ok (some m)
  | none =>
    if bm = fm then .ok bm
    else match bm, fm with
      | some a, some b => .ok (some (if b > a then b else a))   -- Python max(a, b)
      | none, fm' =>                                             -- `if path_back.maxlen is None: maxlen = path_forw.maxlen`
        (match var with | .asIs => .error .type | .repaired => .ok fm')
      | bm', none =>                                             -- `elif path_forw.maxlen is None: maxlen = path_back.maxlen`
        (match var with | .asIs => .error .type | .repaired => .ok bm')

/-- the limit computation of the current code -/
def pasteMaxlen (bm fm : Option Int) (maxlen : Option Int) : Except Err (Option Int) :=
  pasteMaxlenV .repaired bm fm maxlen

/-- `paste_paths(path_back, path_forw, overlap, maxlen)`: no System is copied. -/
def paste (back forw : Path) (overlap : Bool) (maxlen : Option Int) : Except Err Path :=
  match pasteMaxlen back.maxlen forw.maxlen maxlen with
  | .error e => .error e
  | .ok ml =>
    let np0 := Path.empty ml (back.timeOrigin - (back.frames.length : Int) + 1)
    let (np1, ok) := appendAll np0 back.frames.reverse
    if !ok then .ok np1
    else
      -- `first and overlap` skips the first forward point
      let fw := if overlap then forw.frames.drop 1 else forw.frames
      .ok (appendAll np1 fw).1

/-- `paste_paths` with the limit computation of the given variant (`pasteV .repaired = paste`) -/
def pasteV (var : Variant) (back forw : Path) (overlap : Bool) (maxlen : Option Int) : Except Err Path :=
  match pasteMaxlenV var back.maxlen forw.maxlen maxlen with
  | .error e => .error e
  | .ok ml =>
    let np0 := Path.empty ml (back.timeOrigin - (back.frames.length : Int) + 1)
    let (np1, ok) := appendAll np0 back.frames.reverse
    if !ok then .ok np1
    else
      let fw := if overlap then forw.frames.drop 1 else forw.frames
      .ok (appendAll np1 fw).1

/-! ### Classification on the sequence of `order[0]` values -/

/-- `np.argmin`: strict `<` keeps the FIRST minimal index; state = (best value, its index) -/
def argminGo (best : Int) (bi : Nat) (i : Nat) : List Int → Int × Nat
  | [] => (best, bi)
  | x :: t => if x < best then argminGo x i (i + 1) t else argminGo best bi (i + 1) t

def argmaxGo (best : Int) (bi : Nat) (i : Nat) : List Int → Int × Nat
  | [] => (best, bi)
  | x :: t => if x > best then argmaxGo x i (i + 1) t else argmaxGo best bi (i + 1) t

/-- `Path.ordermin` = (value, index); ValueError from `np.argmin([])` -/
def ordermin : List Int → Except Err (Int × Nat)
  | [] => .error .value
  | a :: t => .ok (argminGo a 0 1 t)

def ordermax : List Int → Except Err (Int × Nat)
  | [] => .error .value
  | a :: t => .ok (argmaxGo a 0 1 t)

inductive Side | L | R | U   -- U: '?' for a start point, None for an end point
deriving Repr, DecidableEq

def sideOf (left right x : Int) : Side :=
  if x ≤ left then .L else if x ≥ right then .R else .U

/-- `get_start_point(left, right=None)`: assert first, then `phasepoints[0]` -/
def startPoint (ops : List Int) (left : Int) (right : Option Int) : Except Err Side :=
  let r := match right with | none => left | some r => r
  if left ≤ r then
    match ops.head? with
    | none => .error .index
    | some x => .ok (sideOf left r x)
  else .error .assert

def endPoint (ops : List Int) (left : Int) (right : Option Int) : Except Err Side :=
  let r := match right with | none => left | some r => r
  if left ≤ r then
    match ops.getLast? with
    | none => .error .index
    | some x => .ok (sideOf left r x)
  else .error .assert

/-- Python `min(list)` / `max(list)` -/
def minList : List Int → Option Int
  | [] => none
  | a :: t => some (t.foldl (fun m x => if x < m then x else m) a)

def maxList : List Int → Option Int
  | [] => none
  | a :: t => some (t.foldl (fun m x => if x > m then x else m) a)

/-- result of `check_interfaces`: (start, end, middle == "M", cross); start/end `none` = Python None
    returned for the empty path -/
structure Check where
  start : Option Side
  end_ : Option Side
  middle : Bool
  cross : List Bool
deriving Repr, DecidableEq

def checkInterfaces (ops : List Int) (intf : List Int) : Except Err Check :=
  if ops.length < 1 then .ok ⟨none, none, false, intf.map (fun _ => false)⟩
  else
    match ordermax ops, ordermin ops with
    | .ok (omax, _), .ok (omin, _) =>
      let cross := intf.map (fun x => decide (omin < x) && decide (x ≤ omax))
      match minList intf, maxList intf with
      | some left, some right =>
        match endPoint ops left (some right) with
        | .error e => .error e
        | .ok e =>
          match startPoint ops left (some right) with
          | .error e => .error e
          | .ok s =>
            match cross[1]? with
            | none => .error .index
            | some c => .ok ⟨some s, some e, c, cross⟩
      | _, _ => .error .value        -- `min([])`
    | .error e, _ => .error e
    | _, .error e => .error e

/-- the sequence `[pp.order[0] for pp in phasepoints]` of a path in a heap
    (`none`: dangling reference or empty `order` list → IndexError in Python) -/
def orderSeq (h : Heap) (p : Path) : Option (List Int) :=
  p.frames.mapM (fun r => match h.look r with
    | some s => s.v.order.head?
    | none => none)

/-- `Path.success(target)` = `ordermax[0] > target` (ValueError on the empty path) -/
def success (ops : List Int) (target : Int) : Except Err Bool :=
  match ordermax ops with
  | .ok (v, _) => .ok (decide (v > target))
  | .error e => .error e

/-- everything the classification methods of a path report -/
structure Cls where
  omin : Except Err (Int × Nat)
  omax : Except Err (Int × Nat)
  chk : Except Err Check
  suc : Except Err Bool
  sp : Option (Except Err Side)      -- `none`: not asked (no interface given)
  ep : Option (Except Err Side)

/-- the classification as a PURE function of an order sequence: `ordermin`, `ordermax`,
    `check_interfaces(intf)`, `success(target)`, `get_start_point(intf[0], intf[-1])`,
    `get_end_point(intf[0], intf[-1])` -/
def classifySeq (ops : List Int) (intf : List Int) (target : Int) : Cls :=
  { omin := ordermin ops, omax := ordermax ops, chk := checkInterfaces ops intf, suc := success ops target,
    sp := match intf.head?, intf.getLast? with
      | some l, some r => some (startPoint ops l (some r))
      | _, _ => none,
    ep := match intf.head?, intf.getLast? with
      | some l, some r => some (endPoint ops l (some r))
      | _, _ => none }

/-- `order[0]` of one frame as a 0/1-element sequence (empty: the frame has an empty `order` list) -/
def frameSeq (h : Heap) (r : Option Nat) : List Int :=
  match r with
  | none => []
  | some r =>
    match h.look r with
    | some s => (match s.v.order.head? with | some x => [x] | none => [])
    | none => []

/-- the classification of a path object in a heap.  The code has NO state besides the frames: every
    method re-reads `[pp.order[0] for pp in self.phasepoints]` (resp. the first / last frame), so the
    answer is `classifySeq` of the order values the frames hold NOW.  Only when some frame has an
    empty `order` list do the methods differ (the list comprehension raises IndexError, start/end
    look at one frame only). -/
def Path.classify (h : Heap) (p : Path) (intf : List Int) (target : Int) : Cls :=
  match orderSeq h p with
  | some ops => classifySeq ops intf target
  | none =>
    { omin := .error .index, omax := .error .index, chk := .error .index, suc := .error .index,
      sp := match intf.head?, intf.getLast? with
        | some l, some r => some (startPoint (frameSeq h p.frames.head?) l (some r))
        | _, _ => none,
      ep := match intf.head?, intf.getLast? with
        | some l, some r => some (endPoint (frameSeq h p.frames.getLast?) l (some r))
        | _, _ => none }

/-! canonical text of a classification (shared with the harness) -/

def showErr : Err → String
  | .assert => "err:assert" | .index => "err:index" | .value => "err:value" | .type => "err:type"

def showSideStart : Option Side → String
  | none => "None" | some .L => "L" | some .R => "R" | some .U => "?"

def showSideEnd : Option Side → String
  | none => "None" | some .L => "L" | some .R => "R" | some .U => "None"

def showVI : Except Err (Int × Nat) → String
  | .ok (v, i) => toString v ++ "," ++ toString i
  | .error e => showErr e

def showCheck : Except Err Check → String
  | .ok c =>
    let cr := if c.cross.isEmpty then "-" else String.ofList (c.cross.map (fun b => if b then '1' else '0'))
    showSideStart c.start ++ "," ++ showSideEnd c.end_ ++ "," ++ (if c.middle then "M" else "*") ++ "," ++ cr
  | .error e => showErr e

def showCls (c : Cls) : String :=
  "min=" ++ showVI c.omin ++ ";max=" ++ showVI c.omax ++ ";chk=" ++ showCheck c.chk ++ ";suc=" ++
  (match c.suc with | .ok b => (if b then "True" else "False") | .error e => showErr e) ++ ";sp=" ++
  (match c.sp with | none => "-" | some (.ok s) => showSideStart (some s) | some (.error e) => showErr e) ++ ";ep=" ++
  (match c.ep with | none => "-" | some (.ok s) => showSideEnd (some s) | some (.error e) => showErr e)

/-! ### Extension: `__eq__`, `get_shooting_point`, `update_energies`, `empty_path`, `adress`, warnings -/

/-- `Path.length` -/
def Path.length (p : Path) : Nat := p.frames.length

/-- `Path.reverse_velocities(system)`: `system.vel_rev = not system.vel_rev` (re-assignment of a plain
    attribute of that one object) -/
def Heap.reverseVelocities (h : Heap) (r : Nat) : Heap := h.modV r flipV

/-- `DEFAULT_MAXLEN` -/
def defaultMaxlen : Int := 100000

/-- `self.empty_path(maxlen=DEFAULT_MAXLEN, **kwargs)`: outer `none` = the keyword was not passed.
    NOTHING of `self` is looked at except its class (kept by the machine): an omitted `maxlen` is the
    module default 100000, NOT `self.maxlen`; an omitted `time_origin` is 0. -/
def Path.emptyPath (_self : Path) (maxlen : Option (Option Int)) (timeOrigin : Option Int) : Path :=
  Path.empty (match maxlen with | none => some defaultMaxlen | some m => m)
             (match timeOrigin with | none => 0 | some t => t)

/-- `zip(self.phasepoints, other.phasepoints)` with `if not i == j: return False`: `System` defines no
    `__eq__`, so `i == j` is object identity -/
def framesIdentical : List Nat → List Nat → Bool
  | a :: as, b :: bs => if a = b then framesIdentical as bs else false
  | _, _ => true

def showViEq (a b : Except Err (Int × Nat)) : Bool :=
  match a, b with
  | .ok x, .ok y => x.1 == y.1 && x.2 == y.2
  | _, _ => false

/-- `Path.__eq__(self, other)` for `other` a path object.  `sameClass` = `self.__class__ == other.__class__`,
    `sameKeys` = `set(self.__dict__) == set(other.__dict__)` (facts about the Python objects, tracked by the
    machine).  Branch by branch, in the code's order:
      class, attribute names, number of frames, frame-by-frame identity, and ONLY for a non-empty path
      `maxlen`, `time_origin`, `status`, `generated`, `length`, `ordermax`, `ordermin`, `path_number`.
    `weights` and `weight` are never compared.  `hasattr(self, "ordermax")` evaluates the property: a frame
    with an empty `order` list raises IndexError (hasattr only swallows AttributeError). -/
def Path.eq (sameClass sameKeys : Bool) (h : Heap) (p q : Path) : Except Err Bool :=
  if !sameClass then .ok false
  else if !sameKeys then .ok false
  else if p.frames.length != q.frames.length then .ok false
  else if !framesIdentical p.frames q.frames then .ok false
  else if p.frames.isEmpty then .ok true
  else if p.maxlen != q.maxlen then .ok false
  else if p.timeOrigin != q.timeOrigin then .ok false
  else if p.status != q.status then .ok false
  else if p.generated != q.generated then .ok false
  else if p.frames.length != q.frames.length then .ok false      -- key "length"
  else
    match orderSeq h p with
    | none => .error .index                                       -- hasattr(self, "ordermax")
    | some sp =>
      match orderSeq h q with
      | none => .error .index                                     -- hasattr(other, "ordermax")
      | some sq =>
        if !showViEq (ordermax sp) (ordermax sq) then .ok false
        else if !showViEq (ordermin sp) (ordermin sq) then .ok false
        else if p.pathNumber != q.pathNumber then .ok false
        else .ok true

/-- `Path.__ne__`: `not self == other` -/
def Path.ne (sameClass sameKeys : Bool) (h : Heap) (p q : Path) : Except Err Bool :=
  match Path.eq sameClass sameKeys h p q with
  | .ok b => .ok (!b)
  | .error e => .error e

/-- the draw `get_shooting_point` asks for: `rgen.integers(1, self.length - 1)`, uniform on `[lo, hi)` -/
structure DrawReq where
  lo : Int
  hi : Int
deriving Repr, DecidableEq

def shootRequest (p : Path) : DrawReq := { lo := 1, hi := (p.frames.length : Int) - 1 }

/-- Python list indexing with an `int` (negative indices count from the end) -/
def pyIndex {α : Type} (xs : List α) (i : Int) : Option α :=
  if 0 ≤ i then xs[i.toNat]?
  else if -i ≤ (xs.length : Int) then xs[xs.length - (-i).toNat]? else none

/-- `get_shooting_point` after the draw answered `idx`: `order = self.phasepoints[idx].order[0]` (only
    logged, but evaluated: IndexError for an empty `order` list), then `return self.phasepoints[idx], idx`:
    the frame OBJECT of the path (no copy) and its index -/
def shootingPoint (h : Heap) (p : Path) (idx : Int) : Except Err (Nat × Int) :=
  match pyIndex p.frames idx with
  | none => .error .index
  | some r =>
    match h.look r with
    | some s =>
      match s.v.order.head? with
      | some _ => .ok (r, idx)
      | none => .error .index
    | none => .error .index

/-- the loop of `update_energies(ekin, vpot)`: frame `i` gets `vpot[i]` / `ekin[i]`, `None` when the list
    is too short (IndexError caught).  Plain attribute re-assignment on the frame objects, in frame order
    (a System that occurs twice in the path keeps what its LAST occurrence assigned). -/
def updGo (ekin vpot : List Int) : Nat → Heap → List Nat → Heap
  | _, h, [] => h
  | i, h, r :: rs => updGo ekin vpot (i + 1) (h.modV r (fun v => { v with vpot := vpot[i]?, ekin := ekin[i]? })) rs

def updateEnergies (h : Heap) (p : Path) (ekin vpot : List Int) : Heap := updGo ekin vpot 0 h p.frames

/-- how often `update_energies` warns "Ran out of potential / kinetic energies" -/
def updWarnings (p : Path) (ekin vpot : List Int) : Nat × Nat :=
  (p.frames.length - vpot.length, p.frames.length - ekin.length)

/-- `Path.adress`: the set of `config[0]` of the frames (here: without repetition, first occurrences) -/
def Path.adress (h : Heap) (p : Path) : List Int :=
  (p.frames.filterMap (fun r => (h.look r).map (fun s => s.v.config.1))).eraseDups

def showOptInt (x : Option Int) : String := match x with | none => "None" | some v => toString v

/-- the warnings `paste_paths` logs, in order: "Unequal length: Using m" (`uneq:m`), "Truncated while
    pasting backwards at: n" (`tb:n`), "Truncated path at: n" (`tf:n`) — i.e. which loop gave up -/
def pasteWarnings (back forw : Path) (overlap : Bool) (maxlen : Option Int) : List String :=
  match pasteMaxlen back.maxlen forw.maxlen maxlen with
  | .error _ => []
  | .ok ml =>
    let w0 := if maxlen.isNone && back.maxlen != forw.maxlen then ["uneq:" ++ showOptInt ml] else []
    let np0 := Path.empty ml (back.timeOrigin - (back.frames.length : Int) + 1)
    let (np1, ok) := appendAll np0 back.frames.reverse
    if !ok then w0 ++ ["tb:" ++ toString np1.frames.length]
    else
      let fw := if overlap then forw.frames.drop 1 else forw.frames
      let (np2, ok2) := appendAll np1 fw
      if !ok2 then w0 ++ ["tf:" ++ toString np2.frames.length] else w0

/-- the warning of `__iadd__` ("Truncated path at n while adding paths"): the append/stop logic does not
    depend on what is appended, so it is that of `appendAll` -/
def iaddWarnings (self other : Path) : List String :=
  let (np, ok) := appendAll self other.frames
  if ok then [] else ["ti:" ++ toString np.frames.length]

def joinTok (head : String) (ws : List String) : String :=
  ws.foldl (fun acc w => acc ++ "," ++ w) head

/-! ### The op-program machine replayed by the tie -/

inductive Field
  | config (a b : Int) | order (o : List Int) | velRev (b : Bool) | ekin (x : Option Int)
  | vpot (x : Option Int) | pos (x : Int) | vel (x : Int) | box (x : Int) | temp (x : Int)
deriving Repr

inductive PField
  | maxlen (m : Option Int) | status (x : Int) | generated (x : Option Int) | pathNumber (x : Option Int)
  | weights (x : Option Int) | weight (x : Int) | timeOrigin (x : Int)
deriving Repr

inductive Op
  | new (maxlen : Option Int) (timeOrigin : Int)           -- paths.append(Path(maxlen, time_origin))
  | sys (i : Nat) (v : Vals)                               -- paths[i].append(<new System with values v>)
  | app (i j k : Nat)                                      -- paths[i].append(paths[j].phasepoints[k])
  | iadd (i j : Nat)                                       -- paths[i] += paths[j]   (i ≠ j)
  | copy (i : Nat)                                         -- paths.append(paths[i].copy())
  | rev (i : Nat) (ofn : Option OrderFn) (revV : Bool)     -- paths.append(paths[i].reverse(ofn, rev_v))
  | paste (i j : Nat) (overlap : Bool) (maxlen : Option Int)
  | set (i k : Nat) (f : Field)                            -- setattr(paths[i].phasepoints[k], field, value)
  | setItem (i k : Nat) (x : Int)                          -- paths[i].phasepoints[k].order[0] = x
  | pset (i : Nat) (f : PField)                            -- setattr(paths[i], field, value)
  | classify (i : Nat) (intf : List Int) (target : Int)    -- log every classification method of paths[i]
  | repl (i k j l : Nat)                                   -- paths[i].phasepoints[k] = paths[j].phasepoints[l]
  | ext (i j : Nat)                                        -- p.phasepoints = p.phasepoints[:-1] + q.phasepoints
  | del (i k : Nat)                                        -- del paths[i].phasepoints[k]
  | cpa (i j k : Nat)                                      -- paths[i].append(paths[j].phasepoints[k].copy())
  | emptyOf (i : Nat) (maxlen : Option Int) (timeOrigin : Int)  -- paths.append(paths[i].empty_path(maxlen=, time_origin=))
  | newSub (maxlen : Option Int) (timeOrigin : Int) (c : Nat)   -- paths.append(<subclass c of Path>(maxlen, time_origin))
  | pattr (i k : Nat)                                      -- setattr(paths[i], "x<k>", 1): one more attribute name
  | eq (i j : Nat)                                         -- log paths[i] == paths[j]
  | ne (i j : Nat)                                         -- log paths[i] != paths[j]
  | shoot (i : Nat) (u : Nat)                              -- paths[i].get_shooting_point(<stub generator answering lo + u mod (hi−lo)>)
  | upd (i : Nat) (ekin vpot : List Int)                   -- paths[i].update_energies(ekin, vpot)
  | emptyDef (i : Nat) (maxlen : Option (Option Int)) (timeOrigin : Option Int)  -- empty_path with omitted keywords
  | setArrItem (i k : Nat) (a : Arr) (x : Int)             -- paths[i].phasepoints[k].pos[0] = x   (in place)
  | adr (i : Nat)                                          -- log sorted(paths[i].adress)
  | revVel (i k : Nat)                                     -- paths[i].reverse_velocities(paths[i].phasepoints[k])

/-- what the machine knows about a Python path object beyond the `Path` record: its class (0 = `Path`,
    c ≥ 1 = a subclass) and the attribute names it has besides the standard ones -/
structure PMeta where
  cls : Nat := 0
  extra : List Nat := []
deriving Repr, DecidableEq, Inhabited

structure Machine where
  heap : Heap
  paths : List Path
  log : List String          -- one token per op: what the op returned
  pmeta : List PMeta := []    -- parallel to `paths`
deriving Repr

def Machine.init : Machine := { heap := Heap.empty, paths := [], log := [] }

def Machine.metaOf (m : Machine) (i : Nat) : PMeta := m.pmeta[i]?.getD default

/-- the new path object made by `self.empty_path(...)` = `self.__class__(...)`: same class, standard attributes -/
def Machine.childMeta (m : Machine) (i : Nat) : PMeta := { cls := (m.metaOf i).cls, extra := [] }

def sameSet (a b : List Nat) : Bool := a.all (fun x => b.contains x) && b.all (fun x => a.contains x)

def showExceptBool : Except Err Bool → String
  | .ok true => "True" | .ok false => "False" | .error e => showErr e

/-- insertion sort (canonical order for the printed `adress` set) -/
def insSorted (x : Int) : List Int → List Int
  | [] => [x]
  | y :: t => if x ≤ y then x :: y :: t else y :: insSorted x t

def sortInts (xs : List Int) : List Int := xs.foldr insSorted []

def assignField (h : Heap) (r : Nat) : Field → Heap
  | .config a b => h.modV r (fun v => { v with config := (a, b) })
  | .order o => h.setOrder r o
  | .velRev b => h.modV r (fun v => { v with velRev := b })
  | .ekin x => h.modV r (fun v => { v with ekin := x })
  | .vpot x => h.modV r (fun v => { v with vpot := x })
  | .pos x => h.setArr r .pos x
  | .vel x => h.setArr r .vel x
  | .box x => h.setArr r .box x
  | .temp x => h.setArr r .temp x

def assignPField (p : Path) : PField → Path
  | .maxlen m => { p with maxlen := m }
  | .status x => { p with status := x }
  | .generated x => { p with generated := x }
  | .pathNumber x => { p with pathNumber := x }
  | .weights x => { p with weights := x }
  | .weight x => { p with weight := x }
  | .timeOrigin x => { p with timeOrigin := x }

def Machine.say (m : Machine) (s : String) : Machine := { m with log := m.log ++ [s] }

/-- one op; ill-formed ops (index out of range, `iadd i i`) answer "skip" and change nothing -/
def Machine.step (m : Machine) : Op → Machine
  | .new ml t => { m with paths := m.paths ++ [Path.empty ml t], pmeta := m.pmeta ++ [default] }.say "new"
  | .sys i v =>
    match m.paths[i]? with
    | none => m.say "skip"
    | some p =>
      -- the System is created before `append` looks at the limit
      let (h1, r) := m.heap.alloc v
      let (p1, ok) := p.append r
      { m with heap := h1, paths := m.paths.set i p1 }.say (if ok then "True" else "False")
  | .app i j k =>
    match m.paths[i]?, m.paths[j]? with
    | some p, some q =>
      match q.frames[k]? with
      | none => m.say "skip"
      | some r =>
        let (p1, ok) := p.append r
        { m with paths := m.paths.set i p1 }.say (if ok then "True" else "False")
    | _, _ => m.say "skip"
  | .iadd i j =>
    if i = j then m.say "skip" else
    match m.paths[i]?, m.paths[j]? with
    | some p, some q =>
      let (h1, p1) := Path.iadd m.heap p q
      { m with heap := h1, paths := m.paths.set i p1 }.say (joinTok "iadd" (iaddWarnings p q))
    | _, _ => m.say "skip"
  | .copy i =>
    match m.paths[i]? with
    | none => m.say "skip"
    | some p =>
      let (h1, p1) := Path.copy m.heap p
      { m with heap := h1, paths := m.paths ++ [p1], pmeta := m.pmeta ++ [m.childMeta i] }.say "copy"
  | .rev i ofn rv =>
    match m.paths[i]? with
    | none => m.say "skip"
    | some p =>
      let (h1, p1) := Path.reverse m.heap p ofn rv
      { m with heap := h1, paths := m.paths ++ [p1], pmeta := m.pmeta ++ [m.childMeta i] }.say "rev"
  | .paste i j ov ml =>
    match m.paths[i]?, m.paths[j]? with
    | some p, some q =>
      match paste p q ov ml with
      | .ok np => { m with paths := m.paths ++ [np], pmeta := m.pmeta ++ [m.childMeta i] }.say
                    (joinTok "paste" (pasteWarnings p q ov ml))
      | .error .type => m.say "err:type"
      | .error _ => m.say "err:other"
    | _, _ => m.say "skip"
  | .set i k f =>
    match m.paths[i]? with
    | none => m.say "skip"
    | some p =>
      match p.frames[k]? with
      | none => m.say "skip"
      | some r => { m with heap := assignField m.heap r f }.say "set"
  | .setItem i k x =>
    match m.paths[i]? with
    | none => m.say "skip"
    | some p =>
      match p.frames[k]? with
      | none => m.say "skip"
      | some r =>
        match m.heap.setItem0 r x with
        | some h1 => { m with heap := h1 }.say "setitem"
        | none => m.say "err:index"
  | .pset i f =>
    match m.paths[i]? with
    | none => m.say "skip"
    | some p => { m with paths := m.paths.set i (assignPField p f) }.say "pset"
  | .classify i intf target =>
    match m.paths[i]? with
    | none => m.say "skip"
    | some p => m.say (showCls (Path.classify m.heap p intf target))
  | .repl i k j l =>
    match m.paths[i]?, m.paths[j]? with
    | some p, some q =>
      match q.frames[l]? with
      | none => m.say "skip"
      | some r =>
        if k < p.frames.length then
          { m with paths := m.paths.set i { p with frames := p.frames.set k r } }.say "repl"
        else m.say "skip"
    | _, _ => m.say "skip"
  | .ext i j =>
    -- the `tis.extender` idiom: the list object is replaced, no limit check, references shared
    match m.paths[i]?, m.paths[j]? with
    | some p, some q =>
      { m with paths := m.paths.set i { p with frames := p.frames.dropLast ++ q.frames } }.say "ext"
    | _, _ => m.say "skip"
  | .cpa i j k =>
    -- the shooting-point idiom of tis.py: `System.copy()` of one frame, then append
    match m.paths[i]?, m.paths[j]? with
    | some p, some q =>
      match q.frames[k]? with
      | none => m.say "skip"
      | some r =>
        let (h1, r1) := m.heap.copySys r
        let (p1, ok) := p.append r1
        { m with heap := h1, paths := m.paths.set i p1 }.say (if ok then "True" else "False")
    | _, _ => m.say "skip"
  | .emptyOf i ml t =>
    match m.paths[i]? with
    | none => m.say "skip"
    | some _ => { m with paths := m.paths ++ [Path.empty ml t], pmeta := m.pmeta ++ [m.childMeta i] }.say "empty"
  | .newSub ml t c =>
    { m with paths := m.paths ++ [Path.empty ml t], pmeta := m.pmeta ++ [({ cls := c, extra := [] } : PMeta)] }.say "new"
  | .pattr i k =>
    match m.paths[i]? with
    | none => m.say "skip"
    | some _ =>
      let me := m.metaOf i
      { m with pmeta := m.pmeta.set i { me with extra := k :: me.extra } }.say "pattr"
  | .eq i j =>
    match m.paths[i]?, m.paths[j]? with
    | some p, some q =>
      m.say (showExceptBool (Path.eq ((m.metaOf i).cls == (m.metaOf j).cls)
              (sameSet (m.metaOf i).extra (m.metaOf j).extra) m.heap p q))
    | _, _ => m.say "skip"
  | .ne i j =>
    match m.paths[i]?, m.paths[j]? with
    | some p, some q =>
      m.say (showExceptBool (Path.ne ((m.metaOf i).cls == (m.metaOf j).cls)
              (sameSet (m.metaOf i).extra (m.metaOf j).extra) m.heap p q))
    | _, _ => m.say "skip"
  | .shoot i u =>
    match m.paths[i]? with
    | none => m.say "skip"
    | some p =>
      let rq := shootRequest p
      let head := "shoot:" ++ toString rq.lo ++ ":" ++ toString rq.hi
      -- numpy: `integers(low, high)` raises ValueError when `low >= high`
      if rq.hi ≤ rq.lo then m.say (head ++ ":err:value")
      else
        let idx := rq.lo + ((u : Int) % (rq.hi - rq.lo))
        match shootingPoint m.heap p idx with
        | .ok (r, k) => m.say (head ++ ":" ++ toString k ++ ":" ++ toString (p.frames.idxOf r))
        | .error e => m.say (head ++ ":" ++ showErr e)
  | .upd i ekin vpot =>
    match m.paths[i]? with
    | none => m.say "skip"
    | some p =>
      let w := updWarnings p ekin vpot
      { m with heap := updateEnergies m.heap p ekin vpot }.say ("upd:" ++ toString w.1 ++ ":" ++ toString w.2)
  | .emptyDef i ml t =>
    match m.paths[i]? with
    | none => m.say "skip"
    | some p => { m with paths := m.paths ++ [p.emptyPath ml t], pmeta := m.pmeta ++ [m.childMeta i] }.say "empty"
  | .setArrItem i k a x =>
    match m.paths[i]? with
    | none => m.say "skip"
    | some p =>
      match p.frames[k]? with
      | none => m.say "skip"
      | some r =>
        match m.heap.setArrItem r a x with
        | some h1 => { m with heap := h1 }.say "seta"
        | none => m.say "skip"
  | .adr i =>
    match m.paths[i]? with
    | none => m.say "skip"
    | some p => m.say (joinTok "adr" ((sortInts (p.adress m.heap)).map toString))
  | .revVel i k =>
    match m.paths[i]? with
    | none => m.say "skip"
    | some p =>
      match p.frames[k]? with
      | none => m.say "skip"
      | some r => { m with heap := m.heap.reverseVelocities r }.say "revvel"
  | .del i k =>
    match m.paths[i]? with
    | none => m.say "skip"
    | some p =>
      if k < p.frames.length then
        { m with paths := m.paths.set i { p with frames := p.frames.eraseIdx k } }.say "del"
      else m.say "skip"

def Machine.run (m : Machine) (ops : List Op) : Machine := ops.foldl Machine.step m

end Infretis.PathAlg
