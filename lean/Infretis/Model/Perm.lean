/-
Model of the permanent / swap-probability code of `infretis/classes/repex.py`:
`inf_retis`, `find_blocks`, `quick_prob`, `permanent_prob`, `fast_glynn_perm`
and the *specification* the property C02 names (`permC`, `minor`, `pSpec`, `probMatrix`).

No imports (core Lean only; compiled into the native driver `drv_c02`).
Numbers: core `Rat`.  The code computes in `longdouble`; the tie compares at 1e-9.

Stable names used by other packages (do not rename):
  `Infretis.Perm.permC`, `minor`, `pSpec`, `probMatrix`.

Assumption (stated in the evidence): `np.argsort` tie order.  The model sorts stably
(`List.mergeSort`).  numpy's default sort is *not* stable in general (on AVX-512 machines not
even for short arrays).  For every matrix of the reachable family rows with equal sort key
have the same zero pattern, so the result does not depend on the tie order; the generators
of the tie cover ties.
-/
namespace Infretis.Perm

abbrev Row := List Rat
abbrev Mat := List Row

/-! ## Specification: permanent by Laplace expansion, minors, permanent ratios -/

/-- `sumPick f l = Σ_i f l[i] (l.eraseIdx i)` -/
def sumPick {α : Type} (f : α → List α → Rat) : List α → Rat
  | [] => 0
  | x :: xs => f x xs + sumPick (fun y ys => f y (x :: ys)) xs

/-- permanent of the first `m` columns of the `m` rows `rows`, by Laplace expansion along the
    last column (index `m-1`). -/
def permN : Nat → Mat → Rat
  | 0, _ => 1
  | m + 1, rows => sumPick (fun r rest => r.getD m 0 * permN m rest) rows

/-- the permanent of a square matrix given as a list of rows -/
def permC (W : Mat) : Rat := permN W.length W

def entry (W : Mat) (i j : Nat) : Rat := (W.getD i []).getD j 0

/-- `W` without row `i` and column `j` -/
def minor (W : Mat) (i j : Nat) : Mat := (W.eraseIdx i).map (fun r => r.eraseIdx j)

/-- The property's formula verbatim: `W_ij * perm(W without row i and column j) / perm(W)` -/
def pSpec (W : Mat) (i j : Nat) : Rat := entry W i j * permC (minor W i j) / permC W

/-- keep the entries at unlocked positions (`arr[~bool_locks]`) -/
def keep {α : Type} : List Bool → List α → List α
  | l :: ls, x :: xs => if l then keep ls xs else x :: keep ls xs
  | _, _ => []

/-- the idle block: rows and columns of the unlocked slots -/
def idle (W : Mat) (locks : List Bool) : Mat := (keep locks W).map (keep locks)

/-- `np.insert(xs, insert_list, z)`: put `z` back at the locked positions -/
def reinsert {α : Type} (z : α) : List Bool → List α → List α
  | [], xs => xs
  | true :: ls, xs => z :: reinsert z ls xs
  | false :: ls, x :: xs => x :: reinsert z ls xs
  | false :: ls, [] => reinsert z ls []

/-- zeros on busy rows and columns, `P` on the idle block -/
def embed (locks : List Bool) (P : Mat) : Mat :=
  reinsert (List.replicate locks.length 0) locks (P.map (reinsert 0 locks))

/-- matrix of the spec on a square matrix -/
def specMat (M : Mat) : Mat :=
  (List.range M.length).map (fun a => (List.range M.length).map (fun b => pSpec M a b))

/-- The specification embedded: `pSpec` on the idle block, zero on busy rows and columns. -/
def probMatrix (W : List (List Rat)) (locks : List Bool) : List (List Rat) :=
  embed locks (specMat (idle W locks))

/-! ## `quick_prob` -/

def colOf (arr : Mat) (j : Nat) : List Rat := arr.map (fun r => r.getD j 0)

def ncols (arr : Mat) : Nat := (arr.headD []).length

/-- `np.where(arr != 0, 1, 0)` -/
def indicator (x : Rat) : Rat := if x = 0 then 0 else 1

/-- one pass of the loop body of `quick_prob` for a 0/1 column `col` and the remaining
    probabilities `t`: returns (`ens`, new `total_traj_prob`) -/
def quickCol (col t : List Rat) : List Rat × List Rat :=
  let ens := List.zipWith (fun c x => c * x) col t
  let s := ens.sum
  let ens := if s = 0 then ens else ens.map (fun e => e / s)
  -- `total_traj_prob -= ens`, negatives forced to 0
  let t' := List.zipWith (fun a e => if a - e < 0 then 0 else a - e) t ens
  (ens, t')

/-- columns `c-1, c-2, …, 0` of the output, in that order -/
def quickCols (arr : Mat) : Nat → List Rat → List (List Rat)
  | 0, _ => []
  | c + 1, t =>
    let r := quickCol ((colOf arr c).map indicator) t
    r.1 :: quickCols arr c r.2

def quickProb (arr : Mat) : Mat :=
  let cols := (quickCols arr (ncols arr) (List.replicate arr.length 1)).reverse
  (List.range arr.length).map (fun r => cols.map (fun c => c.getD r 0))

/-! ## `fast_glynn_perm` -/

inductive Err where
  | value | type | assert | key | nan
  deriving DecidableEq, Repr

def prodL : List Rat → Rat
  | [] => 1
  | x :: xs => x * prodL xs

/-- `np.sum(M, axis=0)` -/
def colSums (M : Mat) : List Rat := (List.range (ncols M)).map (fun j => (colOf M j).sum)

/-- `2 * cmp(old, new)` -/
def cmpDir (old new : Nat) : Int := if old = new then 0 else if old > new then 2 else -2

/-- `binary_power_dict[diff]` (`none` = KeyError) -/
def pow2Index (n diff : Nat) : Option Nat := (List.range n).find? (fun i => 2 ^ i == diff)

structure GState where
  total : Rat
  rowComb : List Rat
  old : Nat
  sign : Rat

def glynnStep (M : Mat) (n bin : Nat) (s : GState) : Except Err GState :=
  let total := s.total + s.sign * prodL s.rowComb
  let newG := bin ^^^ (bin / 2)
  let diff := s.old ^^^ newG
  match pow2Index n diff with
  | none => .error .key
  | some idx =>
    let dir := cmpDir s.old newG
    let rc := if dir = 0 then s.rowComb
              else List.zipWith (fun a b => a + b * (dir : Rat)) s.rowComb (M.getD idx [])
    .ok { total := total, rowComb := rc, old := newG, sign := -s.sign }

/-- `fuel` iterations starting with `bin_index = bin` -/
def glynnLoop (M : Mat) (n : Nat) : Nat → Nat → GState → Except Err GState
  | 0, _, s => .ok s
  | k + 1, bin, s =>
    match glynnStep M n bin s with
    | .error e => .error e
    | .ok s' => glynnLoop M n k (bin + 1) s'

def glynn (M : Mat) : Except Err Rat :=
  let n := M.length
  -- n = 0: `num_loops = 2 ** -1 = 0.5`, `range(1, 1.5)` raises TypeError
  if n = 0 then .error .type else
  let numLoops := 2 ^ (n - 1)
  match glynnLoop M n numLoops 1 { total := 0, rowComb := colSums M, old := 0, sign := 1 } with
  | .error e => .error e
  | .ok s => .ok (s.total / (numLoops : Rat))

/-! ## `permanent_prob` -/

def maxL : List Rat → Rat
  | [] => 0
  | [x] => x
  | x :: xs => let m := maxL xs; if m < x then x else m

/-- rows divided by their maximum; `none` if a maximum is 0 (numpy: 0/0 = nan) -/
def scaleRows (arr : Mat) : Option Mat :=
  arr.mapM (fun r => let mx := maxL r; if mx = 0 then none else some (r.map (fun x => x / mx)))

/-- the un-normalised `out` of `permanent_prob` on the rescaled matrix, with the permanent
    function as a parameter (`fast_glynn_perm` in the code) -/
def permProbRaw (perm : Mat → Except Err Rat) (S : Mat) : Except Err Mat :=
  (List.range S.length).mapM (fun i =>
    (List.range S.length).mapM (fun j =>
      if entry S i j = 0 then .ok 0
      else match perm (minor S i j) with
        | .error e => .error e
        | .ok f => .ok (f * entry S i j)))

def permanentProbWith (perm : Mat → Except Err Rat) (arr : Mat) : Except Err Mat :=
  match scaleRows arr with
  | none =>
    -- a NaN row; for a 1×1 block `nan == 0` is false and `fast_glynn_perm` is then called on
    -- the empty minor, which raises TypeError; larger blocks just propagate NaN
    if arr.length = 1 then .error .type else .error .nan
  | some S =>
    match permProbRaw perm S with
    | .error e => .error e
    | .ok out =>
      let mx := maxL (out.map List.sum)
      if mx = 0 then .error .nan else .ok (out.map (fun r => r.map (fun x => x / mx)))

def permanentProb (arr : Mat) : Except Err Mat := permanentProbWith glynn arr

/-! ## `find_blocks` -/

inductive Blocks where
  | single                                   -- the bare tuple `(0, 1, 1)` returned for `len(arr) == 1`
  | list (bs : List (Nat × Nat × Int))
  deriving Repr

def nonZeroCounts (arr : Mat) (offset : Nat) : List Nat :=
  arr.zipIdx.map (fun ri =>
    ((List.range ri.1.length).filter (fun c =>
      let v : Rat := if c < offset then (if ri.2 < offset then entry arr c ri.2 else 1) else ri.1.getD c 0
      v ≠ 0)).length)

def blocksGo (offset : Nat) : List Nat → Nat → Nat → List (Nat × Nat × Int)
  | [], _, _ => []
  | e :: es, i, start =>
    if e = i + 1 then (start, e, if start < offset then -1 else 1) :: blocksGo offset es (i + 1) e
    else blocksGo offset es (i + 1) start

def findBlocks (arr : Mat) (offset : Nat) : Blocks :=
  if arr.length = 1 then .single
  else .list (blocksGo offset (nonZeroCounts arr offset) 0 0)

/-! ## `inf_retis` -/

inductive Res where
  | ok (P : Mat)
  | monteCarlo (dims : List Nat)      -- blocks > 12 that are not row-constant go to `random_prob`
  | error (e : Err)
  deriving Repr

/-- `np.argmax(r > 0)`: first positive index, 0 if none -/
def firstPos (r : Row) : Nat := (r.findIdx? (fun x => 0 < x)).getD 0

/-- stable argsort (see the assumption in the header) -/
def argsort (keys : List Int) : List Nat :=
  ((keys.zipIdx).mergeSort (fun a b => decide (a.1 ≤ b.1))).map (fun p => p.2)

/-- every entry equals the reference entry of its row or is zero -/
def rowConstAt (ref : Nat) (rows : Mat) : Bool :=
  rows.all (fun r => let v := r.getD ref 0; r.all (fun x => x == v || x == 0))

def subBlock (A : Mat) (start stop : Nat) (dir : Int) : Mat :=
  ((A.drop start).take (stop - start)).map (fun r =>
    let seg := (r.drop start).take (stop - start)
    if dir = -1 then seg.reverse else seg)

def padRow (m start : Nat) (dir : Int) (vals : Row) : Row :=
  List.replicate start 0 ++ (if dir = -1 then vals.reverse else vals)
    ++ List.replicate (m - start - vals.length) 0

inductive Branch where
  | single | quick | glynn | random
  deriving DecidableEq, Repr

def branchOf (sub : Mat) : Branch :=
  if sub.length = 1 then .single
  else if rowConstAt 0 sub then .quick
  else if sub.length ≤ 12 then .glynn
  else .random

/-- accumulated result of the block loop -/
structure BlockAcc where
  rows : Mat            -- rows of `out` written so far (blocks are contiguous from row 0)
  mc : List Nat         -- sizes of the blocks sent to `random_prob`
  nan : Bool            -- a NaN was produced (0/0 in `permanent_prob`)
  err : Option Err

def blockLoop (sorted : Mat) (m : Nat) : List (Nat × Nat × Int) → BlockAcc → BlockAcc
  | [], acc => acc
  | (start, stop, dir) :: bs, acc =>
    let sub := subBlock sorted start stop dir
    let k := sub.length
    let put (vals : Mat) : Mat := acc.rows ++ vals.map (padRow m start dir)
    match branchOf sub with
    | .single => blockLoop sorted m bs { acc with rows := put [[1]] }
    | .quick => blockLoop sorted m bs { acc with rows := put (quickProb sub) }
    | .glynn =>
      match permanentProb sub with
      | .ok v => blockLoop sorted m bs { acc with rows := put v }
      | .error .nan => blockLoop sorted m bs { acc with rows := put (List.replicate k (List.replicate k 0)), nan := true }
      | .error e => { acc with err := some e }
    | .random =>
      blockLoop sorted m bs { acc with rows := put (List.replicate k (List.replicate k 0)), mc := acc.mc ++ [k] }

structure Sorted where
  offset : Nat
  m : Nat
  sortIdx : List Nat
  sorted : Mat
  equal : Bool

/-- the preparation phase of `inf_retis`: drop locked, the two argsorts, the equal-weight test -/
def prepare (off : Nat) (W : Mat) (locks : List Bool) : Sorted :=
  let offset := off - ((locks.take off).filter (fun b => b)).length
  let nl := idle W locks
  let m := nl.length
  let minusIdx := argsort ((nl.take offset).map (fun r => (firstPos r : Int)))
  let posIdx := (argsort ((nl.drop offset).map (fun r => -(firstPos r.reverse : Int)))).map (fun i => i + offset)
  let sortIdx := minusIdx ++ posIdx
  let sorted := sortIdx.map (fun i => nl.getD i [])
  let equalMinus := rowConstAt (offset - 1) (sorted.take offset)
  let equalPos := if m ≤ offset then true else rowConstAt offset (sorted.drop offset)
  { offset := offset, m := m, sortIdx := sortIdx, sorted := sorted, equal := equalMinus && equalPos }

/-- `out` in sorted row order, before un-sorting -/
def sortedOut (s : Sorted) : BlockAcc :=
  if s.equal then
    let minusOut := (quickProb ((s.sorted.take s.offset).map List.reverse)).map List.reverse
    let plusOut := if s.offset < s.m then quickProb (s.sorted.drop s.offset) else []
    { rows := minusOut ++ plusOut, mc := [], nan := false, err := none }
  else
    match findBlocks s.sorted s.offset with
    | .single => { rows := [], mc := [], nan := false, err := some .type }  -- unpacking an int
    | .list bs =>
      let acc := blockLoop s.sorted s.m bs { rows := [], mc := [], nan := false, err := none }
      { acc with rows := acc.rows ++ List.replicate (s.m - acc.rows.length) (List.replicate s.m 0) }

def allOnes (xs : List Rat) : Bool := xs.all (fun x => x == 1)

def infRetis (W : Mat) (locks : List Bool) (off : Nat := 1) : Res :=
  let s := prepare off W locks
  -- everything locked: `np.argmax` of an empty sequence raises ValueError
  if s.m = 0 then .error .value else
  let acc := sortedOut s
  match acc.err with
  | some e => .error e
  | none =>
    -- out[sort_idx] = out.copy()
    let out := (List.range s.m).map (fun i => acc.rows.getD (s.sortIdx.idxOf i) [])
    if acc.nan then .error .assert
    else if acc.mc ≠ [] then .monteCarlo acc.mc
    else if !(allOnes (out.map List.sum) && allOnes ((List.range s.m).map (fun j => (colOf out j).sum))) then
      .error .assert
    else .ok (embed locks out)

/-- the branches taken (for the histogram of the tie): `equal` or the per-block branches -/
def branches (W : Mat) (locks : List Bool) (off : Nat := 1) : List String :=
  let s := prepare off W locks
  if s.m = 0 then ["empty"]
  else if s.equal then ["equal"]
  else match findBlocks s.sorted s.offset with
    | .single => ["single-tuple"]
    | .list bs => bs.map (fun b =>
        match branchOf (subBlock s.sorted b.1 b.2.1 b.2.2) with
        | .single => "single" | .quick => "quick" | .glynn => "glynn" | .random => "random")

end Infretis.Perm
