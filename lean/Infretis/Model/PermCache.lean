/-
Model of the `prob` property of `REPEX_state` and its cache `_last_prob` (infretis/classes/repex.py):
a small state machine over the operations that touch `state`, `_locks` or `_last_prob`.

  prob (getter)        if `_last_prob is None`: `_last_prob = inf_retis(abs(state), _locks).copy()`; return it
                       (an exception inside `inf_retis` propagates and leaves `_last_prob` None)
  lock / unlock        `_last_prob = None` first, then the assertion, then the flag
  swap                 rows of `state` and `_trajs` exchanged — `_last_prob` is NOT touched
  add_traj             assertion, `_last_prob = None`, row written, `unlock`, then `self.prob`
  sort_trajstate       loop of bare `swap`s, then `_last_prob = None`, then `self.prob`
  pick / pick_traj_ens read `self.prob`, `swap(traj, ens)`, `lock(ens)`
  pick_lock (re-issue) per recorded (ens, path): `swap(traj_idx, ens)`, `lock(ens)` — WITHOUT reading `prob` first
                       (a restart re-issues the jobs that were in flight; the cache may be non-empty then: the
                       `add_traj`s of `load_paths` have filled it)
  treat_output         `if self._last_prob is None: self.prob`, then reads `_last_prob`   (= the getter)
  print_state          the same, but resets `_last_prob = None` at the end if it was None on entry

The sampler state itself (`state`, `_locks`, `_trajs`, `toinitiate`) and the operations on it are the ones of
`Infretis.Repex` (lock, unlock, swap, addTraj, sortTrajstate); this file adds the cache on top.
A cached value is a `Perm.Res` that is never `.error`; for a block sent to `random_prob` the model caches the
marker `.monteCarlo dims` (the code caches the sampled matrix).

Imports: Infretis.Model.* only (compiled into `drv_c02`).
-/
import Infretis.Model.Perm
import Infretis.Model.Repex
namespace Infretis.PermCache
open Infretis.Perm

deriving instance DecidableEq for Infretis.Perm.Res
deriving instance DecidableEq for Infretis.Perm.Blocks

/-- `abs(x)` -/
def absR (x : Rat) : Rat := if x < 0 then -x else x

/-- `abs(self.state)` -/
def absMat (W : Mat) : Mat := W.map (fun r => r.map absR)

inductive CErr where
  | st (e : Repex.Err)      -- raised by the state operation (assertion, index, value, stall)
  | perm (e : Perm.Err)     -- raised inside `inf_retis`
  deriving Repr, DecidableEq

/-- what the getter computes when the cache is empty: `inf_retis(abs(state), _locks)` -/
def compute (s : Repex.St) : Res := infRetis (absMat s.W) s.locks Repex.off

/-- sampler state + `_last_prob` -/
structure C where
  s : Repex.St
  cache : Option Res
  deriving Repr

/-- one use of the probability matrix: the value handed out and the sampler state at that moment -/
structure Use where
  val : Res
  at_ : Repex.St
  deriving Repr

/-- the `prob` getter -/
def readProb (c : C) : Except CErr (C × Use) :=
  match c.cache with
  | some r => .ok (c, { val := r, at_ := c.s })
  | none =>
    match compute c.s with
    | .error e => .error (.perm e)
    | r => .ok ({ c with cache := some r }, { val := r, at_ := c.s })

def lock (c : C) (e : Nat) : Except CErr C :=
  match Repex.lock c.s e with
  | .ok s' => .ok { s := s', cache := none }
  | .error er => .error (.st er)

def unlock (c : C) (e : Nat) : Except CErr C :=
  match Repex.unlock c.s e with
  | .ok s' => .ok { s := s', cache := none }
  | .error er => .error (.st er)

/-- bare `swap(traj, ens)`: the cache survives -/
def rawSwap (c : C) (t e : Nat) : C := { c with s := Repex.swap c.s t e }

/-- the cache-relevant part of `pick` / `pick_traj_ens`: read `prob`, `swap(traj, ens)`, `lock(ens)` -/
def swapLock (c : C) (t e : Nat) : Except CErr (C × List Use) :=
  match readProb c with
  | .error er => .error er
  | .ok (c1, u) =>
    match lock (rawSwap c1 t e) e with
    | .error er => .error er
    | .ok c2 => .ok (c2, [u])

/-- one (ens, path) pair of the re-issue branch of `pick_lock`: `swap(traj_idx, ens)`, `lock(ens)`; `prob` is not
    read, the possibly non-empty cache is crossed by the bare swap and emptied by the lock -/
def reissue (c : C) (t e : Nat) : Except CErr C := lock (rawSwap c t e) e

/-- `add_traj(ens, traj, valid)` -/
def addTraj (c : C) (ens : Int) (pn : Nat) (valid : List Rat) : Except CErr (C × List Use) :=
  match Repex.addTraj c.s ens pn valid with
  | .error er => .error (.st er)
  | .ok s' =>
    match readProb { s := s', cache := none } with
    | .error er => .error er
    | .ok (c', u) => .ok (c', [u])

/-- `sort_trajstate()` -/
def sortTrajstate (fuel : Nat) (c : C) : Except CErr (C × List Use) :=
  match Repex.sortTrajstate fuel c.s with
  | .error er => .error (.st er)
  | .ok (s', _) =>
    match readProb { s := s', cache := none } with
    | .error er => .error er
    | .ok (c', u) => .ok (c', [u])

/-- the cache-relevant part of `print_state()` -/
def printState (c : C) : Except CErr (C × List Use) :=
  match c.cache with
  | some r => .ok (c, [{ val := r, at_ := c.s }])
  | none =>
    match readProb c with
    | .error er => .error er
    | .ok (c', u) => .ok ({ c' with cache := none }, [u])

inductive Op where
  | read                                            -- the getter (pick's first line, treat_output's record step)
  | lock (e : Nat)
  | unlock (e : Nat)
  | swapLock (t e : Nat)                            -- pick / pick_traj_ens
  | addTraj (ens : Int) (pn : Nat) (valid : List Rat)
  | sort                                            -- sort_trajstate
  | printState
  | rawSwap (t e : Nat)                             -- a bare swap(): not a step the sampler ever takes on its own
  | reissue (t e : Nat)                             -- pick_lock re-issuing a recorded job: swap, lock (no read)
  deriving Repr, DecidableEq

def isPublic : Op → Bool
  | .rawSwap _ _ => false
  | _ => true

def step (c : C) : Op → Except CErr (C × List Use)
  | .read =>
    match readProb c with
    | .error er => .error er
    | .ok (c', u) => .ok (c', [u])
  | .lock e =>
    match lock c e with
    | .error er => .error er
    | .ok c' => .ok (c', [])
  | .unlock e =>
    match unlock c e with
    | .error er => .error er
    | .ok c' => .ok (c', [])
  | .swapLock t e => swapLock c t e
  | .addTraj ens pn valid => addTraj c ens pn valid
  | .sort => sortTrajstate (Repex.sortFuel c.s) c
  | .printState => printState c
  | .rawSwap t e => .ok (rawSwap c t e, [])
  | .reissue t e =>
    match reissue c t e with
    | .error er => .error er
    | .ok c' => .ok (c', [])

/-- run a list of operations; stops at the first exception (as the program does) -/
def run (c : C) : List Op → Except CErr (C × List Use)
  | [] => .ok (c, [])
  | op :: ops =>
    match step c op with
    | .error er => .error er
    | .ok (c1, us1) =>
      match run c1 ops with
      | .error er => .error er
      | .ok (c2, us2) => .ok (c2, us1 ++ us2)

/-- trace for the tie: after every operation the uses and whether `_last_prob` is None, up to the first
    exception -/
def trace (c : C) : List Op → List (Except CErr (C × List Use))
  | [] => []
  | op :: ops =>
    match step c op with
    | .error er => [.error er]
    | .ok (c1, us1) => .ok (c1, us1) :: trace c1 ops

/-- a sampler state with the given matrix, lock flags, path numbers and `toinitiate`, cache empty
    (everything else as `REPEX_state.__init__` leaves it) -/
def mkC (n : Nat) (toinit : Int) (W : Mat) (locks : List Bool) (trajs : List (Option Nat)) : C :=
  { s := { Repex.blank n 1 0 0 0 0 [] [] false [] with
           W := W, locks := locks, trajs := trajs, toinitiate := toinit },
    cache := none }

end Infretis.PermCache
