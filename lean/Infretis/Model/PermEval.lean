/-
`inf_retis` split at its two `np.argsort` calls: the keys handed to them, the preparation given their results,
and the rest of the routine.  `Infretis.Perm.prepare` / `infRetis` are these pieces composed (by `rfl`:
Lemmas/PermEval.lean); the driver prints the keys next to the model's sort permutation so that the tie can compare
the two argsorts of the code with the model's, and concrete evaluations inside proofs need only the two `argsort`
values (`List.mergeSort` is not kernel-reducible).

No imports outside core Lean and Infretis.Model.Perm.
-/
import Infretis.Model.Perm
namespace Infretis.Perm

def offsetOf (off : Nat) (locks : List Bool) : Nat := off - ((locks.take off).filter (fun b => b)).length

/-- keys of the first `argsort` (minus rows) -/
def keysMinus (off : Nat) (W : Mat) (locks : List Bool) : List Int :=
  ((idle W locks).take (offsetOf off locks)).map (fun r => (firstPos r : Int))

/-- keys of the second `argsort` (plus rows) -/
def keysPlus (off : Nat) (W : Mat) (locks : List Bool) : List Int :=
  ((idle W locks).drop (offsetOf off locks)).map (fun r => -(firstPos r.reverse : Int))

/-- `prepare` with the results of the two `argsort` calls given -/
def prepareGiven (off : Nat) (W : Mat) (locks : List Bool) (minusIdx plusIdx : List Nat) : Sorted :=
  let offset := offsetOf off locks
  let nl := idle W locks
  let m := nl.length
  let posIdx := plusIdx.map (fun i => i + offset)
  let sortIdx := minusIdx ++ posIdx
  let sorted := sortIdx.map (fun i => nl.getD i [])
  let equalMinus := rowConstAt (offset - 1) (sorted.take offset)
  let equalPos := if m ≤ offset then true else rowConstAt offset (sorted.drop offset)
  { offset := offset, m := m, sortIdx := sortIdx, sorted := sorted, equal := equalMinus && equalPos }

/-- everything `inf_retis` does after the preparation -/
def finishOf (locks : List Bool) (s : Sorted) : Res :=
  if s.m = 0 then .error .value else
  let acc := sortedOut s
  match acc.err with
  | some e => .error e
  | none =>
    let out := (List.range s.m).map (fun i => acc.rows.getD (s.sortIdx.idxOf i) [])
    if acc.nan then .error .assert
    else if acc.mc ≠ [] then .monteCarlo acc.mc
    else if !(allOnes (out.map List.sum) && allOnes ((List.range s.m).map (fun j => (colOf out j).sum))) then
      .error .assert
    else .ok (embed locks out)

end Infretis.Perm
