/-
`inf_retis` split at its two `np.argsort` calls: the keys handed to them, the preparation given their results,
and the rest of the routine.  `Infretis.Perm.prepare` / `infRetis` are these pieces composed (by `rfl`:
Lemmas/PermEval.lean); the driver prints the keys next to the model's sort permutation so that the tie can compare
the two argsorts of the code with the model's, and concrete evaluations inside proofs need only the two `argsort`
values (`List.mergeSort` is not kernel-reducible).

No imports outside core Lean and Infretis.Model.Perm.
-/
import Infretis.Model.Perm
namespace Infretis.Perm

def offsetOf (off : Nat) (locks : List Bool) : Nat := off - ((locks.take off).filter (fun b => b)).length

/-- keys of the first `argsort` (minus rows) -/
def keysMinus (off : Nat) (W : Mat) (locks : List Bool) : List Int :=
  ((idle W locks).take (offsetOf off locks)).map (fun r => (firstPos r : Int))

/-- keys of the second `argsort` (plus rows) -/
def keysPlus (off : Nat) (W : Mat) (locks : List Bool) : List Int :=
  ((idle W locks).drop (offsetOf off locks)).map (fun r => -(firstPos r.reverse : Int))

/-- `prepare` with the results of the two `argsort` calls given -/
def prepareGiven (off : Nat) (W : Mat) (locks : List Bool) (minusIdx plusIdx : List Nat) : Sorted :=
  let offset := offsetOf off locks
  let nl := idle W locks
  let m := nl.length
  let posIdx := plusIdx.map (fun i => i + offset)
  let sortIdx := minusIdx ++ posIdx
  let sorted := sortIdx.map (fun i => nl.getD i [])
  let equalMinus := rowConstAt (offset - 1) (sorted.take offset)
  let equalPos := if m ≤ offset then true else rowConstAt offset (sorted.drop offset)
  { offset := offset, m := m, sortIdx := sortIdx, sorted := sorted, equal := equalMinus && equalPos }

/-- everything `inf_retis` does after the preparation -/
def finishOf (locks : List Bool) (s : Sorted) : Res :=
  if s.m = 0 then .error .value else
  let acc := sortedOut s
  match acc.err with
  | some e => .error e
  | none =>
    let out := (List.range s.m).map (fun i => acc.rows.getD (s.sortIdx.idxOf i) [])
    if acc.nan then .error .assert
    else if acc.mc ≠ [] then .monteCarlo acc.mc
    else if !(allOnes (out.map List.sum) && allOnes ((List.range s.m).map (fun j => (colOf out j).sum))) then
      .error .assert
    else .ok (embed locks out)

/-! ### audit pass: `inf_retis` with the results of the two `np.argsort` calls as inputs

numpy's default argsort is not stable, so on ties the code's `sort_idx` is not the model's (`argsort` =
`List.mergeSort`).  `infRetisGiven` is `inf_retis` with the two argsort results handed in; `sortsB` is the only
thing assumed about them (Lemmas/PermAnyOrder.lean: `Sorts`). -/

/-- `xs` is non-decreasing -/
def nondecr : List Int → Bool
  | [] => true
  | [_] => true
  | a :: b :: rest => decide (a ≤ b) && nondecr (b :: rest)

/-- `idx` is a possible result of `np.argsort(keys)`: a permutation of the positions that reads the keys in
    non-decreasing order -/
def sortsB (keys : List Int) (idx : List Nat) : Bool :=
  idx.isPerm (List.range keys.length) && nondecr (idx.map (fun i => keys.getD i 0))

/-- `inf_retis` given the results `a`, `b` of its two argsort calls -/
def infRetisGiven (W : Mat) (locks : List Bool) (off : Nat) (a b : List Nat) : Res :=
  finishOf locks (prepareGiven off W locks a b)

/-- `Infretis.Perm.branches` for a given preparation -/
def branchesOfSorted (s : Sorted) : List String :=
  if s.m = 0 then ["empty"]
  else if s.equal then ["equal"]
  else match findBlocks s.sorted s.offset with
    | .single => ["single-tuple"]
    | .list bs => bs.map (fun b =>
        match branchOf (subBlock s.sorted b.1 b.2.1 b.2.2) with
        | .single => "single" | .quick => "quick" | .glynn => "glynn" | .random => "random")

end Infretis.Perm
