/-
Model of `REPEX_state.random_prob(arr, n)` (infretis/classes/repex.py): the Monte-Carlo estimate of the
P matrix that `inf_retis` uses for non-row-constant blocks with more than 12 rows.

The routine is outside C02's exactness claim by design; what is modelled is its decision logic with every
random draw as an explicit argument ("draw requests"):

  per iteration   `direction = rgen.choice([1, -1])`
                  `start = rgen.choice([0, 1])` TWICE when `len(arr)` is odd (the second outcome is the one used;
                  never drawn when `len(arr)` is even: `start` stays 0)
                  `r_nums = rgen.random(len(arr) // 2)`
  proposal        columns `idx = 2 j + start` and `idx + direction` (index −1 wraps to the last column, as numpy
                  does) exchange their paths iff `r_nums[j] < probs[j]`
  accumulation    `out = eye; out += current_state` per iteration; result `out / (n + 1)`

`current_state` is a 0/1 matrix with exactly one 1 per column; the code keeps the row index of that 1 in
`temp[0]` and swaps both in the same way.  The model keeps `temp[0]` (`perm`: the path sitting in each column) and
derives `current_state[r, c] = 1 ↔ perm[c] = r`; `out[r, c]` is then the number of visited states with
`perm[c] = r`.

`np.nan_to_num` on the quotients: `0/0 → 0`, `x/0 → ±1.797…e308` (`huge`).

No imports outside core Lean and Infretis.Model.Perm (compiled into `drv_c02`).
-/
import Infretis.Model.Perm
namespace Infretis.PermRandom
open Infretis.Perm

/-- outcome of the draws of one iteration -/
structure Draw where
  left : Bool          -- `rgen.choice(p_m) == -1`
  s1 : Nat             -- first `rgen.choice(zero_one)`  (requested only for odd sizes; overwritten)
  s2 : Nat             -- second `rgen.choice(zero_one)` (requested only for odd sizes; the one used)
  rs : List Rat        -- `rgen.random(choices)`
  deriving Repr, DecidableEq

/-- the largest finite float64, what `np.nan_to_num` puts for `inf`: (2 − 2⁻⁵²)·2¹⁰²³ -/
def huge : Rat := ((2 ^ 53 - 1 : Nat) : Rat) * ((2 ^ 971 : Nat) : Rat)

/-- `np.nan_to_num(x / y)` -/
def quot (x y : Rat) : Rat :=
  if y = 0 then (if x = 0 then 0 else if 0 < x then huge else -huge) else x / y

/-- `prob_right[r, c] = nan_to_num(np.roll(arr, -1, axis=1) / arr)[r, c]` -/
def probRight (arr : Mat) (k r c : Nat) : Rat := quot (entry arr r ((c + 1) % k)) (entry arr r c)

/-- `prob_left[r, c] = nan_to_num(np.roll(arr, 1, axis=1) / arr)[r, c]` -/
def probLeft (arr : Mat) (k r c : Nat) : Rat := quot (entry arr r ((c + k - 1) % k)) (entry arr r c)

/-- the column that column `idx` is paired with: `idx + direction`, −1 wrapping to `k − 1` -/
def partner (k : Nat) (left : Bool) (idx : Nat) : Nat := if left then (idx + k - 1) % k else idx + 1

/-- `probs[j]` for `idx = 2 j + start`:
    left:  `temp_left[idx] * np.roll(temp_right, 1)[idx]`, right: `temp_right[idx] * temp_left[idx + 1]`,
    where `temp_x[c] = prob_x[perm[c], c]` -/
def pairProb (arr : Mat) (k : Nat) (left : Bool) (perm : List Nat) (idx : Nat) : Rat :=
  let p := partner k left idx
  if left then probLeft arr k (perm.getD idx 0) idx * probRight arr k (perm.getD p 0) p
  else probRight arr k (perm.getD idx 0) idx * probLeft arr k (perm.getD p 0) p

/-- exchange the entries at positions `i` and `j` (nothing if one of them is out of range) -/
def swapAt (l : List Nat) (i j : Nat) : List Nat :=
  match l[i]?, l[j]? with
  | some a, some b => (l.set i b).set j a
  | _, _ => l

/-- `start` of this iteration -/
def startOf (k : Nat) (d : Draw) : Nat := if (k / 2) * 2 = k then 0 else d.s2

/-- the `for j in np.where(success)[0]` loop: apply the accepted exchanges in order -/
def applySwaps (k : Nat) (left : Bool) : List (Nat × Bool) → List Nat → List Nat
  | [], perm => perm
  | (idx, ok) :: rest, perm =>
    applySwaps k left rest (if ok then swapAt perm idx (partner k left idx) else perm)

/-- one iteration of the sampling loop: the new `temp[0]` -/
def mcIter (arr : Mat) (k : Nat) (perm : List Nat) (d : Draw) : List Nat :=
  let start := startOf k d
  let idxs := (List.range (k / 2)).map (fun j => 2 * j + start)
  let probs := idxs.map (pairProb arr k d.left perm)
  let success := List.zipWith (fun r p => decide (r < p)) d.rs probs
  applySwaps k d.left (idxs.zip success) perm

/-- the states visited: the initial identity and the state after every iteration -/
def visited (arr : Mat) (k : Nat) : List Draw → List Nat → List (List Nat)
  | [], perm => [perm]
  | d :: ds, perm => perm :: visited arr k ds (mcIter arr k perm d)

/-- `out[r, c]` before the division: number of visited states with path `r` in column `c` -/
def visits (vs : List (List Nat)) (k r c : Nat) : Nat := (vs.filter (fun p => p.getD c k == r)).length

/-- `random_prob(arr, n)` with `n = draws.length` -/
def randomProb (arr : Mat) (draws : List Draw) : Mat :=
  let k := arr.length
  let vs := visited arr k draws (List.range k)
  (List.range k).map (fun r => (List.range k).map (fun c =>
    ((visits vs k r c : Nat) : Rat) / ((draws.length + 1 : Nat) : Rat)))

/-- the draw requests of one iteration, in the order the code makes them:
    `c2` = `rgen.choice` over two values, `rnd m` = `rgen.random(m)` -/
inductive Req where
  | c2
  | rnd (m : Nat)
  deriving Repr, DecidableEq

def requests (k : Nat) : List Req :=
  if (k / 2) * 2 = k then [.c2, .rnd (k / 2)] else [.c2, .c2, .c2, .rnd (k / 2)]

/-- the final `temp[0]` (for the tie: compared with the code's after the last iteration) -/
def finalPerm (arr : Mat) (draws : List Draw) : List Nat :=
  (visited arr arr.length draws (List.range arr.length)).getLastD []

end Infretis.PermRandom
