/-
Line protocol shared by every driver (DESIGN §4.1).

One request per input line, tokens separated by single spaces; one answer line per
request.  No imports outside core: the drivers are compiled to native executables.

Token grammar used by the harness:
  int        := ['-'] digits
  rat        := int | int '/' digits
  list<T>    := n T₁ … Tₙ            (length-prefixed)
  str        := hex of the UTF-8 bytes, or "-" for the empty string
-/
namespace Infretis.Proto

def parseInt? (s : String) : Option Int := s.toInt?

def parseNat? (s : String) : Option Nat := s.toNat?

def parseRat? (s : String) : Option Rat :=
  match s.splitOn "/" with
  | [a] => (parseInt? a).map (fun (i : Int) => (i : Rat))
  | [a, b] =>
    match parseInt? a, parseNat? b with
    | some i, some d => if d = 0 then none else some ((i : Rat) / (d : Rat))
    | _, _ => none
  | _ => none

def showRat (q : Rat) : String :=
  if q.den = 1 then toString q.num else toString q.num ++ "/" ++ toString q.den

/-- Take a length-prefixed list of tokens parsed by `p`. Returns the list and the rest. -/
def takeList {α : Type} (p : String → Option α) : List String → Option (List α × List String)
  | [] => none
  | n :: rest =>
    match parseNat? n with
    | none => none
    | some k =>
      if rest.length < k then none
      else
        let xs := rest.take k
        match xs.mapM p with
        | none => none
        | some ys => some (ys, rest.drop k)

def showList {α : Type} (f : α → String) (xs : List α) : String :=
  toString xs.length ++ (xs.foldl (fun acc x => acc ++ " " ++ f x) "")

def hexDigit (c : Char) : Option Nat :=
  if '0' ≤ c ∧ c ≤ '9' then some (c.toNat - '0'.toNat)
  else if 'a' ≤ c ∧ c ≤ 'f' then some (c.toNat - 'a'.toNat + 10)
  else none

/-- decode a hex string into bytes -/
def unhexBytes : List Char → Option (List UInt8)
  | [] => some []
  | [_] => none
  | a :: b :: t =>
    match hexDigit a, hexDigit b, unhexBytes t with
    | some x, some y, some r => some (UInt8.ofNat (16 * x + y) :: r)
    | _, _, _ => none

def unhex (s : String) : Option (List UInt8) :=
  if s = "-" then some [] else unhexBytes s.toList

def hexOfNibble (n : Nat) : Char :=
  if n < 10 then Char.ofNat ('0'.toNat + n) else Char.ofNat ('a'.toNat + n - 10)

def hexBytes (bs : List UInt8) : String :=
  if bs.isEmpty then "-" else
  String.ofList (bs.foldr (fun b acc => hexOfNibble (b.toNat / 16) :: hexOfNibble (b.toNat % 16) :: acc) [])

/-- ASCII text carried as hex -/
def unhexStr (s : String) : Option String :=
  (unhex s).map (fun bs => String.ofList (bs.map (fun b => Char.ofNat b.toNat)))

def hexStr (s : String) : String :=
  hexBytes (s.toList.map (fun c => UInt8.ofNat c.toNat))

/-- the main loop: read lines until EOF, answer each with `handle` -/
partial def loop (h : IO.FS.Stream) (out : IO.FS.Stream) (handle : List String → String) : IO Unit := do
  let line ← h.getLine
  if line.isEmpty then
    out.flush
    return ()
  let l := (line.dropEndWhile (fun c => c = '\n' || c = '\r')).toString
  let toks := (l.splitOn " ").filter (fun t => t ≠ "")
  out.putStrLn (handle toks)
  loop h out handle

def mainWith (handle : List String → String) : IO Unit := do
  loop (← IO.getStdin) (← IO.getStdout) handle

end Infretis.Proto
