/-
Model of the on-the-fly trajectory readers (property C13).

Mirrors, branch by branch and in the code's order,
  infretis/classes/engines/engineparts.py
    ReadAndProcessOnTheFly.read_and_process_content   (seek(current_position); processing_function)
    xyz_reader            (CP2K  *.xyz)
    lammpstrj_reader      (LAMMPS dump custom `id type x y z vx vy vz id`)

File content is the *byte* sequence of the file; each byte is carried as a `Char` with code < 256 (the
driver builds the content from hex bytes this way), so positions and `tell()` are byte offsets — which
is what the text-mode `tell()` cookie of a UTF-8 file is whenever the decoder has nothing pending, i.e.
behind every complete line.  The only structural byte is '\n' (0x0A); blanks are the ASCII blanks.
UTF-8 lead and continuation bytes are ≥ 0x80, hence never '\n' and never a blank
(`Lemmas.nonascii_not_structural`): multi-byte characters in the free-text places (comment line, atom
names, header texts) are ordinary bytes of the model, whole or cut in the middle (the code opens the
file with errors="surrogateescape", so a partly written character decodes to a non-blank surrogate).
'\r': since /repo d5ef98e the file is opened with newline="\n" — no newline translation: '\r' is an ordinary blank
(`isBlank`) and only '\n' ends a line (`readline`/`lines`), also in CRLF files.  Not modelled: non-ASCII
*Unicode* whitespace (U+0085, U+00A0, U+2000…, U+3000 — `str.split()` would split there), locales whose
encoding is not UTF-8, `int()`/`float()` literals outside
`[+-]digits` / `[+-](d+[.d*]|.d+)([eE][+-]d+)` (no "inf", "nan", "1_0").
Numbers are never evaluated: frames are returned as the *tokens* that would be handed to `float`.

No imports: this file is compiled into the native driver.
-/
namespace Infretis.Readers

inductive Err where
  | value | zerodiv | index
  deriving DecidableEq, Repr

/-- `repaired` = the code as it is NOW; `asIs` = the code as it was found, kept as a record of two repaired
    defects.  `xyz_reader` (fix 807db24): `repaired` has one extra guard at the top of the loop, a line that does
    not (yet) end in a newline is not processed (`if not line.endswith("\n"): return trajectory`).
    `lammpstrj_reader` (fix dfb19e7): the late-line-end skip at the start of a poll, `asIs`: `line == "\n"`,
    `repaired`: `line.endswith("\n") and not line.strip()`. -/
inductive Variant where
  | asIs | repaired
  deriving DecidableEq, Repr

abbrev Line := List Char
abbrev Tok := List Char

/-! ### Python text-file semantics as used by the readers -/

/-- `f.readline()` on the unread remainder of the file: everything up to and including the first
    newline, or everything that is left (no newline) at end of file; `""` at EOF. Returns the line
    and the new remainder. -/
def readline : List Char → Line × List Char
  | [] => ([], [])
  | c :: cs => if c = '\n' then ([c], cs) else ((c :: (readline cs).1), (readline cs).2)

/-- `iter(f.readline, "")`: the successive results of `readline` until it returns `""`
    (`Lemmas.lines_eq_readline` shows that this is what the definition computes). -/
def lines : List Char → List Line
  | [] => []
  | c :: cs =>
    if c = '\n' then [c] :: lines cs
    else match lines cs with
      | [] => [[c]]
      | l :: ls => (c :: l) :: ls

/-- `line[-1] == "\n"` / `line.endswith("\n")` -/
def endsNl (l : Line) : Bool := l.getLast? == some '\n'

/-- ASCII whitespace of `str.split()` -/
def isBlank (c : Char) : Bool :=
  c == ' ' || c == '\n' || c == '\t' || c == '\r' || c == '\x0b' || c == '\x0c'
    || c == '\x1c' || c == '\x1d' || c == '\x1e' || c == '\x1f'

def splitAux : List Char → Tok → List Tok
  | [], acc => if acc.isEmpty then [] else [acc]
  | c :: cs, acc =>
    if isBlank c then (if acc.isEmpty then splitAux cs [] else acc :: splitAux cs [])
    else splitAux cs (acc ++ [c])

/-- `line.split()` -/
def split (s : List Char) : List Tok := splitAux s []

def isDigit (c : Char) : Bool := '0' ≤ c && c ≤ '9'

def digitsVal : List Char → Nat → Nat
  | [], a => a
  | c :: cs, a => digitsVal cs (10 * a + (c.toNat - '0'.toNat))

def parseNat (t : Tok) : Option Nat :=
  if t.isEmpty then none else if t.all isDigit then some (digitsVal t 0) else none

/-- `int(tok)`; `none` = ValueError -/
def parseInt (t : Tok) : Option Int :=
  match t with
  | '-' :: ds => (parseNat ds).map (fun n => -(n : Int))
  | '+' :: ds => (parseNat ds).map (fun n => (n : Int))
  | ds => (parseNat ds).map (fun n => (n : Int))

def spanDigits : List Char → Nat × List Char
  | [] => (0, [])
  | c :: cs => if isDigit c then ((spanDigits cs).1 + 1, (spanDigits cs).2) else (0, c :: cs)

def dropSign : List Char → List Char
  | '+' :: r => r
  | '-' :: r => r
  | r => r

/-- does `float(tok)` succeed?  (`false` = ValueError) -/
def floatOk (t : Tok) : Bool :=
  let s := dropSign t
  let d1 := spanDigits s
  let d2 : Nat × List Char := match d1.2 with
    | '.' :: r => spanDigits r
    | r => (0, r)
  if d1.1 + d2.1 = 0 then false
  else match d2.2 with
    | [] => true
    | e :: r =>
      if e == 'e' || e == 'E' then
        let d3 := spanDigits (dropSign r)
        decide (d3.1 > 0) && d3.2.isEmpty
      else false

/-- Python `a % b` for `a ≥ 0`, `b ≠ 0` (floored: the sign follows the divisor) -/
def pyMod (a : Nat) (b : Int) : Int := Int.fmod (a : Int) b

/-- one loop iteration either continues with a new state, returns from the function, or raises -/
inductive Res (σ ρ : Type) where
  | cont (s : σ)
  | ret (r : ρ)
  | err (e : Err)

/-! ### `xyz_reader` -/

/-- a frame as returned: one row of three `float` arguments per atom -/
abbrev XFrame := List (List Tok)

structure XSt where
  i : Nat                 -- enumerate index
  natoms : Int            -- N_atoms
  block : Int             -- block_size
  cur : List (List Tok)   -- frame_coordinates
  traj : List XFrame      -- trajectory
  pos : Nat               -- reader_class.current_position
  tell : Nat              -- file_object.tell() before the next readline

def xInit (pos : Nat) : XSt :=
  { i := 0, natoms := 0, block := 0, cur := [], traj := [], pos := pos, tell := pos }

/-- `if i == 0 and spl: N_atoms = int(spl[0]); block_size = N_atoms + 2` -/
def xHeader (st : XSt) (spl : List Tok) : Option (Int × Int) :=
  if st.i = 0 then
    match spl with
    | [] => some (st.natoms, st.block)
    | t :: _ =>
      match parseInt t with
      | none => none
      | some n => some (n, n + 2)
  else some (st.natoms, st.block)

/-- `if i % block_size == N_atoms + 1 and i > 0: append, move current_position` -/
def xEnd (st : XSt) (natoms block r : Int) (cur : List (List Tok)) (tell' : Nat) : XSt :=
  if r = natoms + 1 ∧ st.i > 0 then
    { i := st.i + 1, natoms := natoms, block := block, cur := [], traj := st.traj ++ [cur],
      pos := tell', tell := tell' }
  else
    { i := st.i + 1, natoms := natoms, block := block, cur := cur, traj := st.traj,
      pos := st.pos, tell := tell' }

def xyzStep (v : Variant) (st : XSt) (line : Line) : Res XSt (List XFrame × Nat) :=
  let tell' := st.tell + line.length
  -- the one place where `repaired` differs from the code as it is
  if v = .repaired ∧ endsNl line = false then .ret (st.traj, st.pos) else
  let spl := split line
  match xHeader st spl with
  | none => .err .value
  | some (natoms, block) =>
    if block = 0 then .err .zerodiv          -- `i % block_size` with block_size == 0
    else
      let r := pyMod st.i block
      if r > 1 then
        if spl.length ≠ 4 then .ret (st.traj, st.pos)
        else
          let row := spl.drop 1
          if row.all floatOk then .cont (xEnd st natoms block r (st.cur ++ [row]) tell')
          else .err .value
      else .cont (xEnd st natoms block r st.cur tell')

def xyzRun (v : Variant) : List Line → XSt → Res XSt (List XFrame × Nat)
  | [], st => .cont st
  | l :: ls, st =>
    match xyzStep v st l with
    | .cont st' => xyzRun v ls st'
    | .ret r => .ret r
    | .err e => .err e

/-- result of the `for` loop: normal exhaustion returns `trajectory` -/
def finish {σ ρ : Type} (f : σ → ρ) : Res σ ρ → Except Err ρ
  | .cont st => .ok (f st)
  | .ret r => .ok r
  | .err e => .error e

/-- one `read_and_process_content()` with `xyz_reader`: `(frames, new current_position)` -/
def xyzReader (v : Variant) (content : List Char) (pos : Nat) : Except Err (List XFrame × Nat) :=
  finish (fun st => (st.traj, st.pos)) (xyzRun v (lines (content.drop pos)) (xInit pos))

/-! ### `lammpstrj_reader` -/

/-- a frame as returned: `coordinate_snapshot` (N rows of 6) and `box_snapshot` (3 rows of 3) -/
abbrev LFrame := List (List Tok) × List (List Tok)

def zeroTok : Tok := ['0']

def zeros (rows cols : Nat) : List (List Tok) := List.replicate rows (List.replicate cols zeroTok)

structure LSt where
  i : Nat
  natoms : Nat
  block : Nat
  coords : List (List Tok)
  box : List (List Tok)
  traj : List LFrame
  pos : Nat
  tell : Nat

def lInit (pos : Nat) : LSt :=
  { i := 0, natoms := 0, block := 4, coords := [], box := [], traj := [], pos := pos, tell := pos }

/-- numpy row index `a[idx]` for an axis of length `n` (negative indices wrap); `none` = IndexError -/
def pyIndex (n : Nat) (idx : Int) : Option Nat :=
  if 0 ≤ idx ∧ idx < n then some idx.toNat
  else if idx < 0 ∧ -(n : Int) ≤ idx then some ((n : Int) + idx).toNat
  else none

/-- `if i % block_size == block_size - 1 and i > 0: append, move current_position, fresh arrays` -/
def lEnd (st : LSt) (tell' : Nat) : LSt :=
  if st.i % st.block = st.block - 1 ∧ st.i > 0 then
    { st with i := st.i + 1, traj := st.traj ++ [(st.coords, st.box)], pos := tell', tell := tell',
              coords := zeros st.natoms 6, box := zeros 3 3 }
  else { st with i := st.i + 1, tell := tell' }

/-- body of the loop after the `i == 3` block (state already carries N_atoms/block_size) -/
def lBody (st : LSt) (line : Line) (spl : List Tok) (tell' : Nat) : Res LSt (List LFrame × Nat) :=
  let lineNr := st.i % st.block
  if 5 ≤ lineNr ∧ lineNr ≤ 7 then
    let n := spl.length
    if (n ≠ 2 ∧ n ≠ 3) ∨ endsNl line = false then .ret (st.traj, st.pos)
    else if spl.all floatOk then
      .cont (lEnd { st with box := st.box.set (lineNr - 5) (spl ++ List.replicate (3 - n) zeroTok) } tell')
    else .err .value
  else if 9 ≤ lineNr then
    if spl.length ≠ 9 ∨ spl.head? ≠ spl.getLast? then .ret (st.traj, st.pos)
    else
      match parseInt (spl.headD []) with
      | none => .err .value
      | some id =>
        match pyIndex st.natoms (id - 1) with
        | none => .err .index
        | some k =>
          let vals := (spl.drop 2).take 6
          if vals.all floatOk then .cont (lEnd { st with coords := st.coords.set k vals } tell')
          else .err .value
  else .cont (lEnd st tell')

/-- the first line of a poll is the rest of a line end that arrived late.
    `asIs`: `line == "\n"`; `repaired`: `line.endswith("\n") and not line.strip()` — white space only
    (`str.strip()` strips the white-space set `str.split()` splits at) and terminated; a white-space-only line
    WITHOUT newline is not skipped. -/
def lmpLate (v : Variant) (line : Line) : Bool :=
  match v with
  | .asIs => line == ['\n']
  | .repaired => endsNl line && line.all isBlank

def lmpStep (v : Variant) (st : LSt) (line : Line) : Res LSt (List LFrame × Nat) :=
  let tell' := st.tell + line.length
  -- a line end (newline, or blanks and newline) that arrived late is skipped in a poll of its own
  if st.i = 0 ∧ lmpLate v line = true then .ret (st.traj, tell') else
  let spl := split line
  if st.i = 3 then
    if spl.isEmpty ∨ endsNl line = false then .ret (st.traj, st.pos)
    else
      match parseInt (spl.headD []) with
      | none => .err .value
      | some n =>
        if n < 0 then .err .value          -- np.zeros((N_atoms, 6)) with a negative dimension
        else
          lBody { st with natoms := n.toNat, block := n.toNat + 9, coords := zeros n.toNat 6,
                          box := zeros 3 3 } line spl tell'
  else lBody st line spl tell'

def lmpRun (v : Variant) : List Line → LSt → Res LSt (List LFrame × Nat)
  | [], st => .cont st
  | l :: ls, st =>
    match lmpStep v st l with
    | .cont st' => lmpRun v ls st'
    | .ret r => .ret r
    | .err e => .err e

/-- one `read_and_process_content()` with `lammpstrj_reader`: `((trajectory, box) zipped, position)` -/
def lmpReader (v : Variant) (content : List Char) (pos : Nat) : Except Err (List LFrame × Nat) :=
  finish (fun st => (st.traj, st.pos)) (lmpRun v (lines (content.drop pos)) (lInit pos))

/-! ### polling a growing file -/

/-- `ReadAndProcessOnTheFly` polled once per visible prefix `content.take c` (the file only grows);
    the object keeps `current_position` between polls.  An exception ends everything. -/
def pollAll {F : Type} (reader : List Char → Nat → Except Err (List F × Nat)) (content : List Char) :
    List Nat → Nat → Except Err (List (List F))
  | [], _ => .ok []
  | c :: cs, pos =>
    match reader (content.take c) pos with
    | .error e => .error e
    | .ok (fs, pos') =>
      match pollAll reader content cs pos' with
      | .error e => .error e
      | .ok rest => .ok (fs :: rest)

/-! ### specification side (right-hand sides of the C13 theorems) -/

/-- how many leading frames (given by their encoded lengths) lie completely within `n` bytes -/
def completeCount : List Nat → Nat → Nat
  | [], _ => 0
  | l :: ls, n => if l ≤ n then completeCount ls (n - l) + 1 else 0

def sumLens : List Nat → Nat
  | [] => 0
  | l :: ls => l + sumLens ls

/-- what an exact reader returns poll by poll: at each stage everything that is completely on disk
    and has not been returned yet (`done` = frames returned so far) -/
def exactStages {F : Type} (lens : List Nat) (decoded : List F) : List Nat → Nat → List (List F)
  | [], _ => []
  | c :: cs, done =>
    let m := completeCount (lens.drop done) (c - sumLens (lens.take done))
    (decoded.drop done).take m :: exactStages lens decoded cs (done + m)

/-- LAMMPS reader: number of frames accepted from `n` visible bytes, and whether the last one was
    accepted without its final newline (then the position is left in front of that newline) -/
def lmpCount : List Nat → Nat → Nat × Bool
  | [], _ => (0, false)
  | l :: ls, n =>
    if l ≤ n then ((lmpCount ls (n - l)).1 + 1, (lmpCount ls (n - l)).2)
    else if l = n + 1 then (1, true) else (0, false)

/-- poll-by-poll behaviour of the LAMMPS reader incl. its one-poll lag: in the `late` state the next
    poll that sees the newline only skips it and returns nothing. -/
def lmpStages {F : Type} (lens : List Nat) (decoded : List F) : List Nat → Nat → Bool → List (List F)
  | [], _, _ => []
  | c :: cs, done, late =>
    if late then
      if c < sumLens (lens.take done) then [] :: lmpStages lens decoded cs done true
      else [] :: lmpStages lens decoded cs done false
    else
      let r := lmpCount (lens.drop done) (c - sumLens (lens.take done))
      (decoded.drop done).take r.1 :: lmpStages lens decoded cs (done + r.1) r.2

/-! ### TRR: the size guards of `GromacsRunner.get_gromacs_frames` while GROMACS is still running

Mirrors gromacs.py ~828–893 (the `else:` branch: header guard `size >= bytes_read + header_size` with
`header_size = TRR_HEAD_SIZE` until a header has been read, then the size of the last header; inner
`while data is None` loop with the guard `size >= bytes_read + data_size`).  A frame is abstracted to the
byte sizes of its header and of its data block; byte order, precision and the decoding itself are outside
the model (tie only).  One tick = one evaluation of a guard with the file size observed at that moment. -/

structure TFrame where
  hsize : Nat
  dsize : Nat

structure TSt where
  bytesRead : Nat
  headerSize : Nat        -- self.header_size, 0 = nothing learned yet
  pending : Option Nat    -- data size announced by the header just read (inner wait loop), if any
  k : Nat                 -- number of frames yielded so far

inductive TEv where
  | read (off len size : Nat)   -- `len` bytes requested at offset `off` while `size` bytes were visible
  | yield (k : Nat)
  | wait
  deriving DecidableEq, Repr

def trrHeadSize : Nat := 1000

def tInit : TSt := { bytesRead := 0, headerSize := 0, pending := none, k := 0 }

def trrTick (frames : List TFrame) (size : Nat) (st : TSt) : TSt × List TEv :=
  match st.pending with
  | some d =>
    if size ≥ st.bytesRead + d then
      ({ st with bytesRead := st.bytesRead + d, pending := none, k := st.k + 1 },
        [.read st.bytesRead d size, .yield st.k])
    else (st, [.wait])
  | none =>
    let hs := if st.headerSize = 0 then trrHeadSize else st.headerSize
    if size ≥ st.bytesRead + hs then
      match frames[st.k]? with
      | none => (st, [.wait])      -- past the last frame: cannot happen while size ≤ file length
      | some f =>
        ({ st with bytesRead := st.bytesRead + f.hsize, headerSize := f.hsize, pending := some f.dsize },
          [.read st.bytesRead f.hsize size])
    else (st, [.wait])

def trrRun (frames : List TFrame) : List Nat → TSt → List TEv
  | [], _ => []
  | s :: ss, st => (trrTick frames s st).2 ++ trrRun frames ss (trrTick frames s st).1

/-! ### TRR: `read_trr_header` at byte level (gromacs.py ~980–1026, `is_double` ~1188)

Bytes are `Nat`s < 256.  Mirrors: magic read big-endian, otherwise byte-swapped and the byte order flipped
(a wrong magic both ways is only logged!); two ints `slen`; a string of `slen[0] - 1` bytes compared up to
its first NUL with "GMX_trn_file"; 13 ints; precision from the first non-zero of box/x/v/f size; two
reals (time, lambda — skipped here).  Error kinds: EOFError (`read` returned nothing, also for a 0-byte
request), struct.error (short buffer, negative string length), ValueError, ZeroDivisionError. -/

inductive TErr where
  | eof | struct | value | zerodiv
  deriving DecidableEq, Repr

structure THeader where
  little : Bool
  double : Bool
  ints : List Int      -- ir e box vir pres top sym x v f natoms step nre
  hlen : Nat           -- bytes consumed = what get_gromacs_frames adds to bytes_read / stores as header_size
  deriving DecidableEq, Repr

/-- `fileh.read(n)` followed by `if not buff: raise EOFError` and `struct.unpack` -/
def readN (bs : List Nat) (n : Nat) : Except TErr (List Nat × List Nat) :=
  if n = 0 ∨ bs.isEmpty then .error .eof
  else if bs.length < n then .error .struct
  else .ok (bs.take n, bs.drop n)

def u32be : List Nat → Nat
  | [a, b, c, d] => a * 16777216 + b * 65536 + c * 256 + d
  | _ => 0

def u32 (little : Bool) (b : List Nat) : Nat := if little then u32be b.reverse else u32be b

def s32 (little : Bool) (b : List Nat) : Int :=
  if u32 little b < 2147483648 then (u32 little b : Int) else (u32 little b : Int) - 4294967296

def ints32 (little : Bool) : Nat → List Nat → List Int
  | 0, _ => []
  | n + 1, bs => s32 little (bs.take 4) :: ints32 little n (bs.drop 4)

def trrVersion : List Nat := [71, 77, 88, 95, 116, 114, 110, 95, 102, 105, 108, 101]   -- "GMX_trn_file"

/-- `is_double(header)`; `int(a / b)` is truncating division for these magnitudes -/
def isDouble (ints : List Int) : Except TErr Bool :=
  let box := ints.getD 2 0
  let x := ints.getD 7 0
  let v := ints.getD 8 0
  let f := ints.getD 9 0
  let natoms := ints.getD 10 0
  let size : Except TErr Int :=
    if box ≠ 0 then .ok (Int.tdiv box 9)
    else if x ≠ 0 then (if natoms * 3 = 0 then .error .zerodiv else .ok (Int.tdiv x (natoms * 3)))
    else if v ≠ 0 then (if natoms * 3 = 0 then .error .zerodiv else .ok (Int.tdiv v (natoms * 3)))
    else if f ≠ 0 then (if natoms * 3 = 0 then .error .zerodiv else .ok (Int.tdiv f (natoms * 3)))
    else .ok 0
  match size with
  | .error e => .error e
  | .ok s => if s = 4 then .ok false else if s = 8 then .ok true else .error .value

/-- `sum(header[key] for key in TRR_DATA_ITEMS)`: box vir pres x v f -/
def dataSize (ints : List Int) : Int :=
  ints.getD 2 0 + ints.getD 3 0 + ints.getD 4 0 + ints.getD 7 0 + ints.getD 8 0 + ints.getD 9 0

def trrHeader (bs : List Nat) : Except TErr (THeader × List Nat) :=
  match readN bs 4 with
  | .error e => .error e
  | .ok (m, r1) =>
    let little := !(s32 false m == 1993)          -- a wrong magic both ways only logs, then goes on as '<'
    match readN r1 8 with
    | .error e => .error e
    | .ok (sl, r2) =>
      let slen0 := s32 little (sl.take 4)
      if slen0 - 1 < 0 then .error .struct           -- "-1s": bad char in struct format
      else
        match readN r2 (slen0 - 1).toNat with
        | .error e => .error e
        | .ok (raw, r3) =>
          if raw.takeWhile (· ≠ 0) ≠ trrVersion then .error .value
          else
            match readN r3 52 with
            | .error e => .error e
            | .ok (hb, r4) =>
              let ints := ints32 little 13 hb
              match isDouble ints with
              | .error e => .error e
              | .ok dbl =>
                let fs := if dbl then 8 else 4
                match readN r4 (2 * fs) with
                | .error e => .error e
                | .ok (_, r5) =>
                  .ok ({ little := little, double := dbl, ints := ints,
                         hlen := 4 + 8 + (slen0 - 1).toNat + 52 + 2 * fs }, r5)

/-- the frame sizes the guard machine works with, read off the header bytes -/
def THeader.frame (h : THeader) : TFrame := ⟨h.hlen, (dataSize h.ints).toNat⟩

end Infretis.Readers
