import Infretis.Model.Readers
/-
Model of the on-the-fly readers, part 2 (property C13, extension pass).

A. `ReadAndProcessOnTheFly` as an OBJECT (engineparts.py ~442–484): the two attributes `current_position`
   and `previous_position` that live between polls, the `FileNotFoundError → []` branch of
   `read_and_process_content`, and polls that see an arbitrary file (absent, grown, shrunk, replaced).
   The loops of `xyz_reader` / `lammpstrj_reader` are the functions of Model/Readers.lean; here they are
   run with one more variable, `previous_position`, which the code assigns (`= current_position`) at
   exactly the places where it moves `current_position`: when a frame is appended, and in the LAMMPS
   reader's late-newline skip.

B. The TRR side at byte level (gromacs.py): `read_trr_data` / `read_matrix` / `read_coord` / `get_data`
   (which blocks are read, in which order, how many bytes each, for every combination of the header's size
   fields and both precisions), `GromacsRunner.get_gromacs_frames` as the machine the code is — size guards,
   `read_trr_header`, `get_data`, the `EOFError`/`reopen_file` branches with the stale `header`/`new_bytes`
   locals they leave behind, `bytes_read` (what the guards count) next to the file pointer (where the reads
   happen) — and `read_remaining_trr`, the unguarded final phase after the MD program has ended.
   The reals themselves are never decoded: a frame is returned as its raw blocks of bytes.

No imports outside Infretis.Model: compiled into the native driver.
-/
namespace Infretis.Readers

/-! ## A. `ReadAndProcessOnTheFly` -/

/-- the attributes that survive between polls -/
structure RP where
  cur : Nat      -- current_position
  prev : Nat     -- previous_position
  deriving DecidableEq, Repr

/-- `__init__` -/
def rpInit : RP := ⟨0, 0⟩

/-- the generic `for … in enumerate(iter(readline, ""))` loop over a step function -/
def resRun {σ ρ : Type} (step : σ → Line → Res σ ρ) : List Line → σ → Res σ ρ
  | [], st => .cont st
  | l :: ls, st =>
    match step st l with
    | .cont st' => resRun step ls st'
    | .ret r => .ret r
    | .err e => .err e

/-- one iteration of `xyz_reader` with `previous_position`: it is assigned the old `current_position`
    in the one branch that appends a frame -/
def xyzStepO (v : Variant) (s : XSt × Nat) (line : Line) : Res (XSt × Nat) (List XFrame × RP) :=
  match xyzStep v s.1 line with
  | .cont st' => .cont (st', if st'.traj.length = s.1.traj.length then s.2 else s.1.pos)
  | .ret r => .ret (r.1, ⟨r.2, s.2⟩)
  | .err e => .err e

/-- one iteration of `lammpstrj_reader` with `previous_position`: assigned when a frame is appended and
    in the late-newline skip (the only `return` that has moved `current_position`) -/
def lmpStepO (v : Variant) (s : LSt × Nat) (line : Line) : Res (LSt × Nat) (List LFrame × RP) :=
  match lmpStep v s.1 line with
  | .cont st' => .cont (st', if st'.traj.length = s.1.traj.length then s.2 else s.1.pos)
  | .ret r => .ret (r.1, ⟨r.2, if r.2 = s.1.pos then s.2 else s.1.pos⟩)
  | .err e => .err e

/-- `processing_function(self)` = `xyz_reader` on an open file, seeked to `current_position` -/
def xyzReaderO (v : Variant) (content : List Char) (o : RP) : Except Err (List XFrame × RP) :=
  finish (fun s => (s.1.traj, (⟨s.1.pos, s.2⟩ : RP)))
    (resRun (xyzStepO v) (lines (content.drop o.cur)) (xInit o.cur, o.prev))

def lmpReaderO (v : Variant) (content : List Char) (o : RP) : Except Err (List LFrame × RP) :=
  finish (fun s => (s.1.traj, (⟨s.1.pos, s.2⟩ : RP)))
    (resRun (lmpStepO v) (lines (content.drop o.cur)) (lInit o.cur, o.prev))

/-- `read_and_process_content()`: `none` = the file does not exist (`FileNotFoundError` → `[]`, nothing
    moves); otherwise open, `seek(current_position)`, run the processing function -/
def rpPoll {F : Type} (readerO : List Char → RP → Except Err (List F × RP)) (o : RP) :
    Option (List Char) → Except Err (List F × RP)
  | none => .ok ([], o)
  | some content => readerO content o

/-- one reader object polled on a sequence of file states; per poll: what it returned and the
    object's attributes afterwards.  An exception ends everything. -/
def rpRun {F : Type} (readerO : List Char → RP → Except Err (List F × RP)) :
    List (Option (List Char)) → RP → Except Err (List (List F × RP))
  | [], _ => .ok []
  | f :: fs, o =>
    match rpPoll readerO o f with
    | .error e => .error e
    | .ok (frames, o') =>
      match rpRun readerO fs o' with
      | .error e => .error e
      | .ok rest => .ok ((frames, o') :: rest)

/-- the file states of a trajectory that is written append-only: `none` = not there yet,
    `some c` = the first `c` bytes are visible -/
def visible (content : List Char) (evs : List (Option Nat)) : List (Option (List Char)) :=
  evs.map (fun e => e.map (fun c => content.take c))

/-! ### specification with positions (right-hand sides of the object theorems) -/

/-- exact reader, with `current_position` after every poll: always the end of the last frame returned -/
def exactStagesPos {F : Type} (lens : List Nat) (decoded : List F) : List (Option Nat) → Nat → List (List F × Nat)
  | [], _ => []
  | none :: es, done => ([], sumLens (lens.take done)) :: exactStagesPos lens decoded es done
  | some c :: es, done =>
    let m := completeCount (lens.drop done) (c - sumLens (lens.take done))
    ((decoded.drop done).take m, sumLens (lens.take (done + m))) :: exactStagesPos lens decoded es (done + m)

/-- LAMMPS reader with its one-poll lag, with `current_position` after every poll: the end of the last
    frame returned, minus one while that frame's final newline has not been consumed -/
def lmpStagesPos {F : Type} (lens : List Nat) (decoded : List F) :
    List (Option Nat) → Nat → Bool → List (List F × Nat)
  | [], _, _ => []
  | none :: es, done, late =>
    ([], sumLens (lens.take done) - (if late then 1 else 0)) :: lmpStagesPos lens decoded es done late
  | some c :: es, done, late =>
    if late then
      if c < sumLens (lens.take done) then
        ([], sumLens (lens.take done) - 1) :: lmpStagesPos lens decoded es done true
      else ([], sumLens (lens.take done)) :: lmpStagesPos lens decoded es done false
    else
      let r := lmpCount (lens.drop done) (c - sumLens (lens.take done))
      ((decoded.drop done).take r.1, sumLens (lens.take (done + r.1)) - (if r.2 then 1 else 0))
        :: lmpStagesPos lens decoded es (done + r.1) r.2

/-! ## B. TRR at byte level -/

/-- `read_struct_buff(fileh, f"{endian}{count}{d|f}")`: a negative count is a bad format string
    (`struct.error` from `calcsize`), a zero count requests 0 bytes (→ `b""` → `EOFError`) -/
def readReals (bs : List Nat) (count : Int) (fs : Nat) : Except TErr (List Nat × List Nat) :=
  if count < 0 then .error .struct else readN bs (count.toNat * fs)

/-- the six data blocks in the order `read_trr_data` visits them:
    (key: 0 box 1 vir 2 pres 3 x 4 v 5 f, the header's size field, the number of reals read) -/
def dataFields (ints : List Int) : List (Nat × Int × Int) :=
  [(0, ints.getD 2 0, 9), (1, ints.getD 3 0, 9), (2, ints.getD 4 0, 9),
   (3, ints.getD 7 0, ints.getD 10 0 * 3), (4, ints.getD 8 0, ints.getD 10 0 * 3),
   (5, ints.getD 9 0, ints.getD 10 0 * 3)]

structure DataRes where
  res : Except TErr (List (Nat × List Nat))   -- (key, raw bytes) of every block read / the exception
  rest : List Nat                             -- what lies behind the file pointer afterwards
  deriving Repr

/-- `read_trr_data`: a block is read iff its header size field is non-zero (`read_matrix`: 9 reals,
    `read_coord`: natoms·3 reals).  After an exception `rest` is the position before the failing read
    (exact for `EOFError`; after `struct.error` nobody uses the file again). -/
def readBlocks (fs : Nat) : List (Nat × Int × Int) → List Nat → List (Nat × List Nat) → DataRes
  | [], bs, acc => ⟨.ok acc, bs⟩
  | (key, sz, cnt) :: ps, bs, acc =>
    if sz = 0 then readBlocks fs ps bs acc
    else
      match readReals bs cnt fs with
      | .error e => ⟨.error e, bs⟩
      | .ok (blk, rest) => readBlocks fs ps rest (acc ++ [(key, blk)])

def trrData (h : THeader) (bs : List Nat) : DataRes :=
  readBlocks (if h.double then 8 else 4) (dataFields h.ints) bs []

/-- file position after an `EOFError` inside `read_trr_header`: the error comes either from the 0-byte
    request for an empty version string (12 bytes consumed) or from a read at the end of the file
    (everything consumed) -/
def trrHeaderEofUsed (bs : List Nat) : Nat :=
  if bs.length ≤ 12 then bs.length
  else
    let little := !(s32 false (bs.take 4) == 1993)
    if s32 little ((bs.drop 4).take 4) - 1 = 0 then 12 else bs.length

/-- state of `get_gromacs_frames` between two evaluations of a size guard -/
structure GSt where
  bytesRead : Int          -- self.bytes_read   (what the guards count)
  fpos : Nat               -- self.fileh.tell() (where the reads happen)
  headerSize : Int         -- self.header_size
  hdr : Option THeader     -- local `header`  (NOT reset between frames)
  newBytes : Int           -- local `new_bytes` (header length, then overwritten by get_data's data_size)
  dataSize : Int           -- self.data_size
  inData : Bool            -- inside `while data is None`
  dead : Bool              -- an exception has left the generator
  deriving Repr

inductive GEv where
  | read (off len size : Nat)               -- `len` bytes consumed at offset `off` while `size` bytes were visible
  | yield (blocks : List (Nat × List Nat))
  | wait
  | stale                                    -- an EOFError was swallowed (reopen_file: same inode, nothing changes)
  | raise (e : TErr)
  | spin                                     -- inside `while data is None` for ever
  deriving DecidableEq, Repr

def gInit : GSt :=
  { bytesRead := 0, fpos := 0, headerSize := 0, hdr := none, newBytes := 0, dataSize := 0,
    inData := false, dead := false }

/-- one evaluation of a size guard with `size` bytes of `file` visible (the program is still running) -/
def gTick (file : List Nat) (size : Nat) (st : GSt) : GSt × List GEv :=
  let avail := (file.take size).drop st.fpos
  if st.inData then
    match st.hdr with
    | none => (st, [.wait])                       -- not reachable: inData is set together with a header
    | some h =>
      if (size : Int) ≥ st.bytesRead + st.dataSize then
        let r := trrData h avail
        let used := avail.length - r.rest.length
        match r.res with
        | .ok blocks =>
          ({ st with fpos := st.fpos + used, newBytes := dataSize h.ints,
                     bytesRead := st.bytesRead + dataSize h.ints, inData := false },
            [.read st.fpos used size, .yield blocks])
        | .error .eof => ({ st with fpos := st.fpos + used }, [.stale])     -- data stays None: sleep, try again
        | .error e => ({ st with dead := true }, [.raise e])
      else (st, [.wait])
  else
    let hs : Int := if st.headerSize = 0 then (trrHeadSize : Int) else st.headerSize
    if (size : Int) ≥ st.bytesRead + hs then
      match trrHeader avail with
      | .ok (h, _) =>
        ({ st with fpos := st.fpos + h.hlen, hdr := some h, newBytes := h.hlen,
                   bytesRead := st.bytesRead + h.hlen, headerSize := h.hlen,
                   dataSize := dataSize h.ints, inData := true },
          [.read st.fpos h.hlen size])
      | .error .eof =>
        -- EOFError swallowed; `header`/`new_bytes` keep the values of the previous frame
        match st.hdr with
        | none => ({ st with fpos := st.fpos + trrHeaderEofUsed avail }, [.stale])
        | some h =>
          ({ st with fpos := st.fpos + trrHeaderEofUsed avail, bytesRead := st.bytesRead + st.newBytes,
                     headerSize := st.newBytes, dataSize := dataSize h.ints, inData := true },
            [.stale])
      | .error e => ({ st with dead := true }, [.raise e])
    else (st, [.wait])

def gRun (file : List Nat) : List Nat → GSt → GSt × List GEv
  | [], st => (st, [])
  | s :: ss, st =>
    if st.dead then (st, [])
    else
      let r := gTick file s st
      let r' := gRun file ss r.1
      (r'.1, r.2 ++ r'.2)

/-- `read_remaining_trr(filename, fileh, start)`: no guards; stops at `bytes_read ≥ bytes_total` or at an
    `EOFError`; any other exception leaves the generator -/
def gRemaining (file : List Nat) : Nat → Int → Nat → List GEv
  | 0, _, _ => []
  | fuel + 1, br, fpos =>
    if br ≥ (file.length : Int) then []
    else
      match trrHeader (file.drop fpos) with
      | .error .eof => []
      | .error e => [.raise e]
      | .ok (h, rest) =>
        let r := trrData h rest
        let used := h.hlen + (rest.length - r.rest.length)
        match r.res with
        | .ok blocks =>
          .read fpos used file.length :: .yield blocks ::
            gRemaining file fuel (br + h.hlen + dataSize h.ints) (fpos + used)
        | .error .eof => []
        | .error e => [.raise e]

/-- the whole generator: guard evaluations with the sizes observed while the MD program runs, then — the
    program has ended, `file` is what it wrote — the final phase -/
def gGen (file : List Nat) (sizes : List Nat) : List GEv :=
  let r := gRun file sizes gInit
  if r.1.dead then r.2
  else if r.1.inData then r.2 ++ [.spin]
  else if (file.length : Int) - r.1.bytesRead > 0 then
    r.2 ++ gRemaining file (file.length + 1) r.1.bytesRead r.1.fpos
  else r.2

end Infretis.Readers
