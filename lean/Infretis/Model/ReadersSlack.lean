import Infretis.Model.Readers
/-
C13: poll-by-poll specification of `lammpstrj_reader` with a PER-FRAME slack (audit + repair pass).

`lmpCount` / `lmpStages` / `lmpStagesPos` (Model/Readers.lean, Model/ReadersObj.lean) know only a one-byte lag: a
frame is accepted when exactly its final newline is missing.  The reader as it is accepts a frame as soon as
everything up to the trailing id of its LAST atom line is visible, i.e. while at most `slack` bytes — the white
space and the newline behind that id — are missing (real LAMMPS dumps end atom lines with "id \n": slack 2).
Here a frame is given as `(len, slack)`; the state between polls is `(done, miss)`: frames returned so far and
how many bytes of the last returned frame had not been visible when it was returned and have not been skipped
yet (`miss = 0`: the reader stands at a frame boundary; `miss > 0`: it stands `miss` bytes in front of the
boundary, on white space and a newline that arrive(d) late).

No imports outside Infretis.Model: compiled into the native driver (ops `lspecs`, `lspecps`).
-/
namespace Infretis.Readers

/-- number of frames accepted from `n` visible bytes, and how many bytes of the last accepted one are missing -/
def lmpCountS : List (Nat × Nat) → Nat → Nat × Nat
  | [], _ => (0, 0)
  | f :: fs, n =>
    if f.1 ≤ n then ((lmpCountS fs (n - f.1)).1 + 1, (lmpCountS fs (n - f.1)).2)
    else if f.1 ≤ n + f.2 then (1, f.1 - n) else (0, 0)

/-- end offset of the first `d` frames -/
def endOf (fr : List (Nat × Nat)) (d : Nat) : Nat := sumLens ((fr.take d).map Prod.fst)

/-- poll-by-poll behaviour of the LAMMPS reader for every cut: in the late state (`miss > 0`) a poll returns
    nothing; it skips the late line end as soon as the frame's newline is visible (`c ≥` end of the frame) -/
def lmpStagesS {F : Type} (fr : List (Nat × Nat)) (decoded : List F) : List Nat → Nat → Nat → List (List F)
  | [], _, _ => []
  | c :: cs, done, miss =>
    if miss ≠ 0 then
      if c < endOf fr done then [] :: lmpStagesS fr decoded cs done miss
      else [] :: lmpStagesS fr decoded cs done 0
    else
      let r := lmpCountS (fr.drop done) (c - endOf fr done)
      (decoded.drop done).take r.1 :: lmpStagesS fr decoded cs (done + r.1) r.2

/-- the same with `current_position` after every poll (`none` = the file does not exist): end of the last frame
    returned minus the bytes of its line end that have not been consumed -/
def lmpStagesPosS {F : Type} (fr : List (Nat × Nat)) (decoded : List F) :
    List (Option Nat) → Nat → Nat → List (List F × Nat)
  | [], _, _ => []
  | none :: es, done, miss => ([], endOf fr done - miss) :: lmpStagesPosS fr decoded es done miss
  | some c :: es, done, miss =>
    if miss ≠ 0 then
      if c < endOf fr done then ([], endOf fr done - miss) :: lmpStagesPosS fr decoded es done miss
      else ([], endOf fr done) :: lmpStagesPosS fr decoded es done 0
    else
      let r := lmpCountS (fr.drop done) (c - endOf fr done)
      ((decoded.drop done).take r.1, endOf fr (done + r.1) - r.2) :: lmpStagesPosS fr decoded es (done + r.1) r.2

/-- state after the polls `cuts` -/
def lmpFinalS (fr : List (Nat × Nat)) : List Nat → Nat → Nat → Nat × Nat
  | [], d, m => (d, m)
  | c :: cs, d, m =>
    if m ≠ 0 then
      if c < endOf fr d then lmpFinalS fr cs d m else lmpFinalS fr cs d 0
    else
      lmpFinalS fr cs (d + (lmpCountS (fr.drop d) (c - endOf fr d)).1) (lmpCountS (fr.drop d) (c - endOf fr d)).2

end Infretis.Readers
