import Infretis.Model.Perm
/-
Model of `REPEX_state` (infretis/classes/repex.py) as a state machine, and of the
`scheduler()` loop (infretis/scheduler.py) that drives it.  Serves C03 C04 C05 C06 C07 C17.

What is mirrored (in the code's order, with its quirks):
  swap / lock / unlock (with their asserts)            repex.py:366-386
  pick, pick_traj_ens (zero swap), pick_lock           repex.py:166-257
  prep_md_items incl. pin, work folder, spawn of job streams, assign_engines
                                                        repex.py:259-323, factory.py:134-175
  add_traj, sort_trajstate (fuelled), treat_output     repex.py:325-364, 888-977
  write_to_pathens (data rows), write_toml (restart image), load_paths / set_rgen (restore)
  initiate / loop counters, scheduler submission rule  repex.py:409-462, scheduler.py
Random outcomes are explicit arguments (the "draw requests" are returned for the tie):
  pick takes the outcome `(t, e)` of `rgen.choice(n², p = P/ΣP)`, the outcome of the 50 %
  coin (only requested when a zero swap is possible) and the partner outcome.
The probability matrix is the *specification* `Perm.probMatrix` (C02 ties the code's
`inf_retis` to it); the tie of this model compares the `p` vector the code hands to
`choice` with it.
Not modelled here: path storage / deletion (C14, C08), the MD move itself (its outcome is an
argument: status + new weight vectors), logging.
No imports outside Infretis.Model.*.
-/
namespace Infretis.Repex
open Infretis.Perm

inductive Err | assert | value | index | key | stall
deriving Repr, DecidableEq

/-- identity of a random stream: numpy `SeedSequence(entropy, spawn_key)` -/
structure Stream where
  entropy : Nat
  key : List Nat
deriving Repr, DecidableEq

/-- one picked (ensemble, path) of a job with its two streams -/
structure Picked where
  ens : Int            -- ens_num: -1 = [0-], 0 = [0+], …
  pn : Nat             -- pn_old: number of the path handed out
  rgen : Stream        -- ens['rgen'] (move decisions)
  rgenEng : Stream     -- picked[..]['rgen-eng']
  engIdx : List (Nat × Nat)   -- engine type ↦ instance index
deriving Repr, DecidableEq

/-- `md_items` of a job in flight -/
structure Job where
  pin : Nat
  wfolder : Nat        -- worker<pin>
  picked : List Picked
  pnumOld : List Nat
deriving Repr, DecidableEq

structure St where
  n : Nat                              -- ensembles + ghost
  W : Mat                              -- `state`, n rows of n entries
  trajs : List (Option Nat)            -- path number per slot ("" for the ghost = none)
  locks : List Bool                    -- `_locks`
  locked : List (List Int × List Nat)  -- `locked`: (ens_nums, path numbers) in flight
  locked0 : List (List Nat × List Nat) -- from the restart file: (ens + offset, path numbers)
  toinitiate : Int
  workers : Nat
  cworker : Nat
  cstep : Nat
  tsteps : Nat
  trajNum : Nat
  frac : List (Nat × List Rat)         -- traj_data[pn]['frac']  (insertion order)
  wts : List (Nat × List Rat)          -- traj_data[pn]['weights'] (un-padded)
  rows : List (Nat × List Rat × List Rat)  -- data file rows in order: pn, frac, weights
  occ : List (List Int)                -- engine_occ per engine type: pin or -1
  ensEng : List (List Nat)             -- ensemble_engines: engine types per ensemble (index ens_num+1)
  seed : Nat                           -- config seed
  entropy : Nat                        -- entropy of the scheduler's SeedSequence
  spawned : Nat                        -- its n_children_spawned
  mainDraws : Nat                      -- draws consumed from the scheduler stream since its (re)seed
  restarted : Bool                     -- 'restarted_from' in config['current']
  rgenRestored : Bool := false         -- `_rgen_restored`: scheduler stream state restored after the restart
  lockedOrd : List Nat := []           -- third component of the `locked` entries: ordinal of the job's stream
  locked0Ord : List (Option Nat) := []  -- the same for `locked0` (`none`: restart file without ordinals)
deriving Repr, DecidableEq

def off : Nat := 1

/-! ### low-level operations -/

def swapList {α : Type} (l : List α) (i j : Nat) : List α :=
  match l[i]?, l[j]? with
  | some a, some b => (l.set i b).set j a
  | _, _ => l

/-- `swap(traj, ens)`: exchange rows and path slots -/
def swap (s : St) (t e : Nat) : St :=
  { s with W := swapList s.W t e, trajs := swapList s.trajs t e }

def lock (s : St) (e : Nat) : Except Err St :=
  match s.locks[e]? with
  | some false => .ok { s with locks := s.locks.set e true }
  | some true => .error .assert
  | none => .error .index

def unlock (s : St) (e : Nat) : Except Err St :=
  match s.locks[e]? with
  | some true => .ok { s with locks := s.locks.set e false }
  | some false => .error .assert
  | none => .error .index

def livePaths (s : St) : List (Option Nat) := s.trajs.dropLast

/-- `locked_paths()`: path numbers in locked slots (ghost excluded) -/
def lockedPaths (s : St) : List (Option Nat) :=
  ((s.trajs.dropLast).zip (s.locks.dropLast)).filterMap (fun (t, l) => if l then some t else none)

def prob (s : St) : Mat := probMatrix s.W s.locks

def spawnStream (parent : Stream) (k : Nat) : Stream := { parent with key := parent.key ++ [k] }

def mainStream (s : St) : Stream := { entropy := s.entropy, key := [] }

/-! ### draw requests (for the tie and for C07) -/
inductive Draw
  | choiceAll (p : Mat)            -- rgen.choice(n², p = P/ΣP)   (P given unnormalised)
  | coin                            -- rgen.random() < 0.5
  | choiceCol (col : Nat) (p : List Rat)
deriving Repr

/-- outcome of the random choices of one `pick()` -/
structure PickOutcome where
  t : Nat
  e : Nat
  coin : Bool := false          -- outcome of `random() < zeroswap` (ignored unless requested)
  partner : Nat := 0            -- outcome of the column choice (ignored unless used)
deriving Repr, DecidableEq

def entryM (P : Mat) (i j : Nat) : Rat := (P.getD i []).getD j 0

/-- `pick()`.  Returns the new state, the (ens_nums, paths) of the job, and the draw requests.
    An outcome with zero probability is not a possible result of `choice`: `.error .value`. -/
def pickCore (s : St) (o : PickOutcome) : Except Err (St × List (Int × Option Nat) × List Draw) :=
  let P := prob s
  if ¬ (0 < entryM P o.t o.e) then .error .value else
  let s1 := swap s o.t o.e
  match lock s1 o.e with
  | .error er => .error er
  | .ok s2 =>
    let traj := s2.trajs.getD o.e none
    let d0 := [Draw.choiceAll P]
    let zsPossible : Bool :=
      (o.e == off && (s2.locks.getD (off - 1) true == false)) ||
      (o.e == off - 1 && (s2.locks.getD off true == false))
    if zsPossible && o.coin then
      let other := if o.e == off then off - 1 else off
      let P2 := prob s2
      let col := P2.map (fun r => r.getD other 0)
      if ¬ (0 < col.getD o.partner 0) then .error .value else
      let s3 := swap s2 o.partner other
      match lock s3 other with
      | .error er => .error er
      | .ok s4 =>
        let otherTraj := s4.trajs.getD other none
        let pairs : List (Int × Option Nat) :=
          if o.e == off then [(-1, otherTraj), (0, traj)] else [(-1, traj), (0, otherTraj)]
        .ok (s4, pairs, d0 ++ [Draw.coin, Draw.choiceCol other col])
    else
      .ok (s2, [((o.e : Int) - (off : Int), traj)], if zsPossible then d0 ++ [Draw.coin] else d0)

/-- number of draws taken from the scheduler stream by these requests -/
def drawCount (ds : List Draw) : Nat := ds.length

/-- the part of `pick` / `pick_lock` after the choice: record in `locked` (pick only), spawn the
    job's child stream and one grandchild per ensemble -/
def mkPicked (s : St) (pairs : List (Int × Option Nat)) : Except Err (List Picked) :=
  let child := spawnStream (mainStream s) s.spawned
  let rec go : Nat → List (Int × Option Nat) → Except Err (List Picked)
    | _, [] => .ok []
    | j, (e, some pn) :: rest =>
      match go (j + 1) rest with
      | .error er => .error er
      | .ok ps =>
        let g := spawnStream child j
        .ok ({ ens := e, pn := pn, rgen := g, rgenEng := spawnStream g 0, engIdx := [] } :: ps)
    | _, (_, none) :: _ => .error .key     -- `"".path_number`
  go 0 pairs

/-- streams of a job whose child stream has the given ordinal (a re-issued job keeps the ordinal on
    record): `SeedSequence(entropy, spawn_key = (ordinal,))` and its grandchildren -/
def mkPickedAt (s : St) (ordinal : Nat) (pairs : List (Int × Option Nat)) : Except Err (List Picked) :=
  mkPicked { s with spawned := ordinal } pairs

def pick (s : St) (o : PickOutcome) : Except Err (St × List Picked × List Draw) :=
  match pickCore s o with
  | .error er => .error er
  | .ok (s1, pairs, ds) =>
    match mkPicked s1 pairs with
    | .error er => .error er
    | .ok ps =>
      let entry : List Int × List Nat := (pairs.map (·.1), ps.map (·.pn))
      .ok ({ s1 with locked := s1.locked ++ [entry], lockedOrd := s1.lockedOrd ++ [s1.spawned],
                     spawned := s1.spawned + 1,
                     mainDraws := s1.mainDraws + drawCount ds }, ps, ds)

/-- `set_rgen()` (called by `__init__` on a restart): SeedSequence(entropy = configured seed,
    n_children_spawned = cstep + number of recorded in-flight jobs), state from the restart file -/
def setRgen (s : St) (savedDraws : Nat) (spawnedRec : Option Nat := none) : St :=
  { s with entropy := s.seed, spawned := spawnedRec.getD (s.cstep + s.locked0.length), mainDraws := savedDraws }

/-- the one-time restore of the scheduler stream's bit-generator state in `pick_lock`
    (the spawn counter is left alone) -/
def restoreStreamOnce (s : St) (savedDraws : Nat) : St :=
  if s.restarted ∧ s.rgenRestored = false then { s with mainDraws := savedDraws, rgenRestored := true } else s

def findIdx? {α : Type} [DecidableEq α] (l : List α) (x : α) : Option Nat :=
  let i := l.findIdx (· == x)
  if i < l.length then some i else none

/-- the re-issue branch of `pick_lock`: re-lock one recorded job -/
def reissue (s : St) (enss0 trajs0 : List Nat) : Except Err (St × List (Int × Option Nat)) :=
  let rec go (s : St) : List (Nat × Nat) → Except Err (St × List (Int × Option Nat))
    | [] => .ok (s, [])
    | (e, tr) :: rest =>
      match findIdx? (livePaths s) (some tr) with
      | none => .error .value
      | some ti =>
        let s1 := swap s ti e
        match lock s1 e with
        | .error er => .error er
        | .ok s2 =>
          match go s2 rest with
          | .error er => .error er
          | .ok (s3, ps) => .ok (s3, (((e : Int) - (off : Int)), s2.trajs.getD e none) :: ps)
  go s (enss0.zip trajs0)

/-- ordinal of the stream a re-issued job gets: the one on record, or (restart file without
    ordinals) the next fresh one -/
def reissueOrd (s s1 : St) : Nat := ((s.locked0Ord.head?).join).getD s1.spawned

/-- the state after re-issuing the recorded job `(enss0, trajs0)`: it stays on record with its
    ordinal; the spawn counter only advances when the record had no ordinal -/
def reissued (s s1 : St) (enss0 trajs0 : List Nat) : St :=
  { s1 with spawned := if ((s.locked0Ord.head?).join).isSome then s1.spawned else s1.spawned + 1,
            locked := s1.locked ++ [(enss0.map (fun (e : Nat) => ((e : Int) - (off : Int))), trajs0)],
            lockedOrd := s1.lockedOrd ++ [reissueOrd s s1] }

/-- `pick_lock()`; `savedDraws` = the main-stream position stored in the restart file.
    A recorded job is re-issued with the ordinal on record (the very stream it had before the stop,
    spawn counter untouched); a record without ordinal (old restart file) gets a fresh child. -/
def pickLock (s : St) (o : PickOutcome) (savedDraws : Nat) : Except Err (St × List Picked × List Draw) :=
  match s.locked0 with
  | [] => pick (restoreStreamOnce s savedDraws) o
  | (enss0, trajs0) :: rest =>
    match reissue { s with locked0 := rest, locked0Ord := s.locked0Ord.tail } enss0 trajs0 with
    | .error er => .error er
    | .ok (s1, pairs) =>
      match mkPickedAt s1 (reissueOrd s s1) pairs with
      | .error er => .error er
      | .ok ps => .ok (reissued s s1 enss0 trajs0, ps, [])

/-! ### engines -/

/-- free every instance held by `pin` -/
def freeEngines (occ : List (List Int)) (pin : Nat) : List (List Int) :=
  occ.map (fun l => l.map (fun x => if x = (pin : Int) then -1 else x))

/-- claim the first free instance of type `k`; none if all are occupied (the code then simply
    leaves the key out and fails later with KeyError) -/
def claim (occ : List (List Int)) (k : Nat) (pin : Nat) : Option (List (List Int) × Nat) :=
  match occ[k]? with
  | none => none
  | some l =>
    let i := l.findIdx (· == -1)
    if i < l.length then some (occ.set k (l.set i (pin : Int)), i) else none

def dedup : List Nat → List Nat
  | [] => []
  | x :: t => if t.contains x then dedup t else x :: dedup t

/-- `assign_engines(engine_occ, unique_names, pin)`; names in ascending order (the code iterates a
    `set`, whose order is immaterial for the result because distinct types use distinct lists) -/
def assignEngines (occ : List (List Int)) (names : List Nat) (pin : Nat) :
    Except Err (List (List Int) × List (Nat × Nat)) :=
  let occ0 := freeEngines occ pin
  let rec go (occ : List (List Int)) : List Nat → List (List Int) × List (Nat × Nat)
    | [] => (occ, [])
    | k :: rest =>
      match claim occ k pin with
      | none => go occ rest
      | some (occ', i) => let (o2, out) := go occ' rest; (o2, (k, i) :: out)
  let (occ1, out) := go occ0 names
  if out.isEmpty then .error .value else .ok (occ1, out)

/-! ### prep_md_items -/

/-- `prep_md_items(md_items)`: `prevPin` = the `pin` already in the dict (a completed job's) if any -/
def prep (s : St) (prevPin : Option Nat) (o : PickOutcome) (savedDraws : Nat := 0) :
    Except Err (St × Job × List Draw) :=
  let r := if s.toinitiate ≥ 0 then pickLock s o savedDraws else pick s o
  match r with
  | .error er => .error er
  | .ok (s1, ps, ds) =>
    let pin? := if s.toinitiate ≥ 0 then some s.cworker else prevPin
    match pin? with
    | none => .error .key          -- md_items['w_folder'] missing
    | some pin =>
      let engNames := dedup ((ps.map (fun p => s1.ensEng.getD (p.ens + 1).toNat [])).flatten)
      match assignEngines s1.occ engNames pin with
      | .error er => .error er
      | .ok (occ', idx) =>
        let missing := ps.any (fun p => (s1.ensEng.getD (p.ens + 1).toNat []).any
                                  (fun k => (idx.lookup k).isNone))
        if missing then .error .key else
        let ps' := ps.map (fun p => { p with engIdx :=
            (s1.ensEng.getD (p.ens + 1).toNat []).map (fun k => (k, (idx.lookup k).getD 0)) })
        .ok ({ s1 with occ := occ' },
             { pin := pin, wfolder := pin, picked := ps', pnumOld := ps'.map (·.pn) }, ds)

/-! ### add_traj, recording, sorting, treat_output -/

def padValid (s : St) (ens : Int) (valid : List Rat) : List Rat :=
  if ens ≥ 0 then List.replicate off 0 ++ valid
  else valid ++ List.replicate (s.n - off) 0

/-- `add_traj(ens, traj, valid)` -/
def addTraj (s : St) (ens : Int) (pn : Nat) (valid : List Rat) : Except Err St :=
  let v := padValid s ens valid
  let e := (ens + (off : Int)).toNat
  match v[e]? with
  | none => .error .index
  | some x =>
    if x = 0 then .error .assert else
    if v.length ≠ s.n then .error .value else      -- numpy broadcast error on `state[ens,:] = valid`
    if e ≥ s.trajs.length then .error .index else
    unlock { s with trajs := s.trajs.set e (some pn), W := s.W.set e v } e

def needsToMove (s : St) : List Bool :=
  (List.range (s.n - 1)).map (fun idx => entryM s.W idx idx == 0)

/-- one iteration of the `while` loop of `sort_trajstate`; `none` = loop finished -/
def sortStep (s : St) : Except Err (Option St) :=
  let ntm := needsToMove s
  if ¬ (ntm.contains true ∧ s.toinitiate = -1) then .ok none else
  let ensIdx := ntm.findIdx (· == true)
  let lockedPs := lockedPaths s
  let row := s.W.getD ensIdx []
  let mid := (row.drop 1).dropLast
  let zi := mid.findIdx (· == 0)
  if zi ≥ mid.length then .error .value else
  let zeroIdx := zi + 1
  let avail : List Bool := (List.range (s.n - 1)).map (fun i =>
    (entryM s.W i zeroIdx != 0) && !(lockedPs.contains (s.trajs.getD i none)))
  let tj := avail.findIdx (· == true)
  if tj ≥ avail.length then .error .value else
  .ok (some (swap s ensIdx tj))

/-- `sort_trajstate()` with fuel; running out of fuel = `.stall` (a non-terminating loop in the code) -/
def sortTrajstate : Nat → St → Except Err (St × Nat)
  | 0, _ => .error .stall
  | fuel + 1, s =>
    match sortStep s with
    | .error er => .error er
    | .ok none => .ok (s, 0)
    | .ok (some s') =>
      match sortTrajstate fuel s' with
      | .error er => .error er
      | .ok (s'', k) => .ok (s'', k + 1)

def addVec (a b : List Rat) : List Rat := List.zipWith (· + ·) a b

def updFrac (frac : List (Nat × List Rat)) (pn : Nat) (row : List Rat) : Except Err (List (Nat × List Rat)) :=
  if frac.any (·.1 == pn) then
    .ok (frac.map (fun (k, v) => if k == pn then (k, addVec v row) else (k, v)))
  else .error .key

/-- "record weights": add P rows of idle live paths -/
def recordFrac (s : St) : Except Err St :=
  let lockedPs := lockedPaths s
  let P := prob s
  let rec go (frac : List (Nat × List Rat)) : List (Nat × Option Nat) → Except Err (List (Nat × List Rat))
    | [] => .ok frac
    | (idx, live) :: rest =>
      if lockedPs.contains live then go frac rest else
      match live with
      | none => .error .key
      | some pn =>
        match updFrac frac pn (P.getD idx []) with
        | .error er => .error er
        | .ok f' => go f' rest
  match go s.frac ((List.range (livePaths s).length).zip (livePaths s)) with
  | .error er => .error er
  | .ok f => .ok { s with frac := f }

/-- the `for idx, lock in enumerate(self.locked): if str(pn_old) in lock[1]: self.locked.pop(idx)`
    loop, with Python's semantics of popping while iterating -/
def popLocked (pn : Nat) : Nat → Nat → List (List Int × List Nat) → List (List Int × List Nat)
  | 0, _, l => l
  | fuel + 1, idx, l =>
    match l[idx]? with
    | none => l
    | some entry =>
      if entry.2.contains pn then popLocked pn fuel (idx + 1) (l.eraseIdx idx)
      else popLocked pn fuel (idx + 1) l

/-- the same loop seen on the ordinals riding along with the `locked` entries -/
def popLockedOrd (pn : Nat) : Nat → Nat → List (List Int × List Nat) → List Nat → List Nat
  | 0, _, _, o => o
  | fuel + 1, idx, l, o =>
    match l[idx]? with
    | none => o
    | some entry =>
      if entry.2.contains pn then popLockedOrd pn fuel (idx + 1) (l.eraseIdx idx) (o.eraseIdx idx)
      else popLockedOrd pn fuel (idx + 1) l o

/-- `write_to_pathens(state, pnum_old)`: append rows, pop traj_data -/
def writeRows (s : St) : List Nat → Except Err St
  | [] => .ok s
  | pn :: rest =>
    match s.frac.lookup pn, s.wts.lookup pn with
    | some f, some w =>
      writeRows { s with rows := s.rows ++ [(pn, f, w)],
                         frac := s.frac.filter (·.1 != pn), wts := s.wts.filter (·.1 != pn) } rest
    | _, _ => .error .key

inductive Status | acc | rej
deriving Repr, DecidableEq

/-- `treat_output(md_items)`. `newW` = the weight vectors (un-padded `path.weights`) of the
    trial paths, one per picked ensemble, used when the status is ACC. -/
def treatOutput (s : St) (job : Job) (status : Status) (newW : List (List Rat)) (fuel : Nat) :
    Except Err (St × List Nat × Nat) :=
  let rec perEns (s : St) (tn : Nat) : List (Picked × List Rat) → Except Err (St × Nat × List Nat)
    | [] => .ok (s, tn, [])
    | (p, w) :: rest =>
      let s1 := { s with locked := popLocked p.pn s.locked.length 0 s.locked,
                         lockedOrd := popLockedOrd p.pn s.locked.length 0 s.locked s.lockedOrd }
      if status = .acc then
        let s2 := { s1 with frac := s1.frac ++ [(tn, List.replicate s1.n 0)], wts := s1.wts ++ [(tn, w)] }
        match addTraj s2 p.ens tn w with
        | .error er => .error er
        | .ok s3 =>
          match perEns s3 (tn + 1) rest with
          | .error er => .error er
          | .ok (s4, tn', pns) => .ok (s4, tn', tn :: pns)
      else
        match s1.wts.lookup p.pn with
        | none => .error .key
        | some wOld =>
          match addTraj s1 p.ens p.pn wOld with
          | .error er => .error er
          | .ok s3 =>
            match perEns s3 tn rest with
            | .error er => .error er
            | .ok (s4, tn', pns) => .ok (s4, tn', p.pn :: pns)
  -- one trial weight vector per picked ensemble (ignored on rejection)
  let ws := if status = .acc then newW else job.picked.map (fun _ => [])
  if ws.length ≠ job.picked.length then .error .index else
  match perEns s s.trajNum (job.picked.zip ws) with
  | .error er => .error er
  | .ok (s1, tn, pnNews) =>
    match recordFrac s1 with
    | .error er => .error er
    | .ok s2 =>
      match (if status = .acc then writeRows s2 job.pnumOld else .ok s2) with
      | .error er => .error er
      | .ok s3 =>
        match sortTrajstate fuel s3 with
        | .error er => .error er
        | .ok (s4, iters) => .ok ({ s4 with trajNum := tn, cworker := job.pin }, pnNews, iters)

/-! ### counters -/

/-- `initiate()` -/
def initiate (s : St) : St × Bool :=
  if ¬ (s.cstep < s.tsteps) then (s, false) else
  -- no more jobs than steps left: close the initiation (repair in /repo: restart with fewer
  -- remaining steps than workers)
  let ti : Int :=
    if s.toinitiate > 0 ∧ ((s.cstep : Int) + ((s.workers : Int) - s.toinitiate) ≥ (s.tsteps : Int)) then 0
    else s.toinitiate
  let s1 := { s with cworker := ((s.workers : Int) - ti).toNat, toinitiate := ti - 1 }
  (s1, s1.toinitiate ≥ 0)

/-- `loop()` (the `write_toml` at the end of the run is an effect outside this model) -/
def loop (s : St) : St × Bool :=
  if s.cstep ≥ s.tsteps then (s, false) else
  ({ s with cstep := s.cstep + 1 }, s.cstep + 1 ≤ s.tsteps)

/-! ### the restart image -/

/-- what `write_toml` stores (the part the sampler reads back) -/
structure Image where
  active : List (Option Nat)
  locked : List (List Nat × List Nat)
  cstep : Nat
  trajNum : Nat
  frac : List (Nat × List Rat)
  rngDraws : Nat          -- stands for `rng_state` of the scheduler stream
  seed : Nat
  lockedOrd : List Nat := []   -- third component of the `locked` entries
  /-- `current.spawned`: the number of job streams handed out so far, written only when it is not
      `cstep + len(locked)` (i.e. after a restart that could not re-issue every recorded job) -/
  spawnedRec : Option Nat := none
deriving Repr, DecidableEq

/-- the `spawned` key `write_toml` writes (absent = `none`) -/
def spawnedKey (s : St) : Option Nat :=
  if s.spawned = s.cstep + s.locked.length then none else some s.spawned

def persist (s : St) : Image :=
  { active := livePaths s,
    locked := s.locked.map (fun (es, ps) => (es.map (fun e => (e + (off : Int)).toNat), ps)),
    cstep := s.cstep, trajNum := s.trajNum, frac := s.frac, rngDraws := s.mainDraws, seed := s.seed,
    lockedOrd := s.lockedOrd, spawnedRec := spawnedKey s }

/-! ### the scheduler loop (scheduler.py) over explicit outcomes -/

/-- the sampler together with the jobs in flight (the futures list) -/
structure Sys where
  s : St
  jobs : List Job
deriving Repr, DecidableEq

/-- one iteration of one of the two `while` loops of `scheduler()`, with the random / MD outcomes
    it consumes made explicit -/
inductive Ev
  /-- `while state.initiate():` body — prep a fresh `md_items` and submit it -/
  | start (o : PickOutcome) (savedDraws : Nat := 0)
  /-- `while state.loop():` body — the `k`-th job in flight completes (any `k`: the schedule),
      with `status` and, for ACC, the new weight vectors; then, iff
      `cstep + workers ≤ tsteps`, the same worker is given a new job drawn with outcome `o` -/
  | step (k : Nat) (status : Status) (newW : List (List Rat)) (o : PickOutcome)
  /-- the last `state.initiate()` call, the one that answers `False` and closes the first loop
      (it still updates `cworker` and brings `toinitiate` to -1) -/
  | initDone
deriving Repr

/-- fuel given to `sort_trajstate` by the scheduler model: n² + 4 iterations -/
def sortFuel (s : St) : Nat := s.n * s.n + 4

def sysStep (y : Sys) : Ev → Except Err Sys
  | .start o saved =>
    let (s1, go) := initiate y.s
    if ¬ go then .error .value else       -- the loop body does not run
    match prep s1 none o saved with
    | .error er => .error er
    | .ok (s2, job, _) => .ok { s := s2, jobs := y.jobs ++ [job] }
  | .initDone =>
    let (s1, go) := initiate y.s
    if go then .error .value else .ok { y with s := s1 }
  | .step k status newW o =>
    let (s1, go) := loop y.s
    if ¬ go then .error .value else
    match y.jobs[k]? with
    | none => .error .index               -- as_completed() found nothing: not a scheduler state
    | some job =>
      match treatOutput s1 job status newW (sortFuel s1) with
      | .error er => .error er
      | .ok (s2, _, _) =>
        let rest := y.jobs.eraseIdx k
        if s2.cstep + s2.workers ≤ s2.tsteps then
          match prep s2 (some job.pin) o with
          | .error er => .error er
          | .ok (s3, job', _) => .ok { s := s3, jobs := rest ++ [job'] }
        else .ok { s := s2, jobs := rest }

def run (y : Sys) : List Ev → Except Err Sys
  | [] => .ok y
  | ev :: rest =>
    match sysStep y ev with
    | .error er => .error er
    | .ok y' => run y' rest

/-- `REPEX_state.__init__` + `load_paths` on `n − 1` initial paths with path numbers
    `active` (slot order) and un-padded weight vectors `ws`; plus paths first (slots 1…), then the
    minus path (slot 0), as `load_paths` does.  `fr` = fractions restored from the restart file. -/
def blank (n workers tsteps cstep trajNum seed : Nat) (occ : List (List Int)) (ensEng : List (List Nat))
    (restarted : Bool) (locked0 : List (List Nat × List Nat)) : St :=
  { n := n, W := List.replicate n (List.replicate n 0), trajs := List.replicate n none,
    locks := List.replicate n true, locked := [], locked0 := locked0, toinitiate := (workers : Int),
    workers := workers, cworker := 0, cstep := cstep, tsteps := tsteps, trajNum := trajNum,
    frac := [], wts := [], rows := [], occ := occ, ensEng := ensEng, seed := seed,
    entropy := seed, spawned := if restarted then cstep + locked0.length else 0,
    mainDraws := 0, restarted := restarted }

/-- load one path as `load_paths` does: add_traj(count=False) then the traj_data entry -/
def loadOne (s : St) (ens : Int) (pn : Nat) (valid : List Rat) (fr : List Rat) : Except Err St :=
  match addTraj s ens pn valid with
  | .error er => .error er
  | .ok s1 => .ok { s1 with frac := s1.frac ++ [(pn, fr)], wts := s1.wts ++ [(pn, valid)] }

/-- `load_paths(paths)`: `paths[i+1]` into ensemble `i` for `i = 0 … n−3`, then `paths[0]` into -1 -/
def loadPaths (s : St) (paths : List (Nat × List Rat × List Rat)) : Except Err St :=
  let rec plus (s : St) (i : Nat) : List (Nat × List Rat × List Rat) → Except Err St
    | [] => .ok s
    | (pn, w, fr) :: rest =>
      match loadOne s (i : Int) pn w fr with
      | .error er => .error er
      | .ok s1 => plus s1 (i + 1) rest
  match paths with
  | [] => .error .index
  | (pn0, w0, fr0) :: rest =>
    match plus s 0 rest with
    | .error er => .error er
    | .ok s1 => loadOne s1 (-1) pn0 w0 fr0

/-- restart: what `setup_config` (restart branch) + `REPEX_state.__init__` + `load_paths` rebuild
    from an image; `weightOf pn` = the weight vector recomputed from the stored path `pn`. -/
def restore (im : Image) (n workers tsteps : Nat) (occ : List (List Int)) (ensEng : List (List Nat))
    (weightOf : Nat → List Rat) : Except Err St :=
  -- `set_rgen`: the spawn counter is the stored one, else `cstep + len(locked)`
  let s0 := { blank n workers tsteps im.cstep im.trajNum im.seed occ ensEng true im.locked with
              locked0Ord := im.lockedOrd.map some,
              spawned := im.spawnedRec.getD (im.cstep + im.locked.length) }
  let paths := im.active.filterMap (fun o => o.map (fun pn =>
    (pn, weightOf pn, (im.frac.lookup pn).getD (List.replicate n 0))))
  loadPaths s0 paths

end Infretis.Repex
