import Infretis.Model.RepexProto
import Infretis.Model.RepexMicro
import Infretis.Model.EngFactory
import Infretis.Model.RepexSubmit
/-
Line protocol of the C03 driver: everything `Infretis.Repex.handle` answers, plus
  prepm  …   as `prep`, the answer followed by ` || ` and the sub-step trace of the call
  treatm …   as `treat`, the answer followed by ` || ` and the sub-step trace of the call
  blankinit n workers tsteps cstep trajnum seed restarted     `REPEX_state.__init__` = `blank`
  loadpaths k (pn <weights> <frac>)*k          `load_paths(paths)` = `loadPaths` (paths[0] = the minus path)
  sysev start t e coin partner saved | sysev initdone | sysev step k status j <j weight lists> t e coin partner
                                               one event of `scheduler()` = `sysStep` on (state, jobs in flight);
                                               answers the state dump and the jobs
  mkengines <workers> <k> <k lists>            `create_engines` on `ensemble_engines`
  assign <pin> <names> <k> <k lists of ints>   `assign_engines(engine_occ, names, pin)` on a given table
  lzalloc | lzprepbegin a | lzprepend a pin | lzsubmit a | lztake
                                               the hand-over of work units (`Infretis.Repex.Submit.step`): a new md_items object,
                                               prep_md_items begins / ends IN PLACE on object a (the job is the one the model's
                                               `prep` just built for `pin`), the REFERENCE a is queued, a worker takes the head of
                                               the queue and receives the object's content at THAT moment
-/
namespace Infretis.Repex.Micro
open Infretis.Proto Infretis.Perm Infretis.Repex

def showTag : Tag → String
  | .setTraj => "setTraj" | .setRow => "setRow" | .unlock => "unlock" | .sortSwap => "sortSwap"
  | .pickSwap => "pickSwap" | .pickLock => "pickLock" | .zsSwap => "zsSwap" | .zsLock => "zsLock"
  | .reSwap => "reSwap" | .reLock => "reLock"

def showSnap (m : Snap) : String :=
  "~".intercalate [
    showTag m.tag,
    showMat m.st.W,
    ",".intercalate (m.st.trajs.map showON),
    String.ofList (m.st.locks.map (fun b => if b then '1' else '0')),
    ";".intercalate (m.st.locked.map (fun (es, ps) => showInts es ++ ":" ++ showNats ps)),
    ";".intercalate (m.mine.map (fun (e, pn) => s!"{e}:{pn}")) ]

def showTrace (tr : List Snap) : String := " ## ".intercalate (tr.map showSnap)

def isFailure (ans : String) : Bool := ans.startsWith "err" || ans == "bad-op"

/-- `k` paths, each `pn <weights> <frac>` -/
def takePaths : Nat → List String → Option (List (Nat × List Rat × List Rat))
  | 0, [] => some []
  | 0, _ => none
  | m + 1, pn :: r =>
    match parseNat? pn, takeList parseRat? r with
    | some pn, some (w, r1) =>
      match takeList parseRat? r1 with
      | some (fr, r2) => (takePaths m r2).map ((pn, w, fr) :: ·)
      | none => none
    | _, _ => none
  | _ + 1, [] => none

def parseOutcome (t e coin partner : String) : Option PickOutcome :=
  match parseNat? t, parseNat? e, parseNat? partner with
  | some t, some e, some partner => some { t := t, e := e, coin := parseBool coin, partner := partner }
  | _, _, _ => none

def parseEv : List String → Option Ev
  | ["start", t, e, coin, partner, saved] =>
    match parseOutcome t e coin partner, parseNat? saved with
    | some o, some saved => some (.start o saved)
    | _, _ => none
  | ["initdone"] => some .initDone
  | "step" :: k :: st :: j :: rest =>
    match parseNat? k, parseNat? j with
    | some k, some j =>
      if rest.length < 4 then none else
      let wsToks := rest.take (rest.length - 4)
      match takeLists parseRat? j wsToks, rest.drop (rest.length - 4) with
      | some ws, [t, e, coin, partner] =>
        (parseOutcome t e coin partner).map (fun o => .step k (if st = "ACC" then .acc else .rej) ws o)
      | _, _ => none
    | _, _ => none
  | _ => none

def handleC03 (d : DState) (toks : List String) : DState × String :=
  match toks with
  | ["prepm", pin, t, e, coin, partner, saved] =>
    match parseNat? t, parseNat? e, parseNat? partner, parseNat? saved with
    | some t', some e', some partner', some saved' =>
      let tr := prepTrace d.s { t := t', e := e', coin := parseBool coin, partner := partner' } saved'
      let (d', ans) := handle d ["prep", pin, t, e, coin, partner, saved]
      if isFailure ans then (d', ans) else (d', ans ++ " || " ++ showTrace tr)
    | _, _, _, _ => (d, "bad-op")
  | "treatm" :: pin :: st :: k :: rest =>
    match parseNat? pin, parseNat? k with
    | some pin', some k' =>
      match takeLists parseRat? k' rest, d.jobs.find? (·.pin == pin') with
      | some ws, some job =>
        let tr := treatTrace d.s job (if st = "ACC" then .acc else .rej) ws (d.s.n * d.s.n + 4)
        let (d', ans) := handle d ("treat" :: pin :: st :: k :: rest)
        if isFailure ans then (d', ans) else (d', ans ++ " || " ++ showTrace tr)
      | _, _ => (d, "bad-op")
    | _, _ => (d, "bad-op")
  | ["blankinit", n, w, ts, cs, tn, seed, re] =>
    match parseNat? n, parseNat? w, parseNat? ts, parseNat? cs, parseNat? tn, parseNat? seed with
    | some n, some w, some ts, some cs, some tn, some seed =>
      ({ s := blank n w ts cs tn seed [] [] (parseBool re) [] }, "ok")
    | _, _, _, _, _, _ => (d, "bad-op")
  | "loadpaths" :: k :: rest =>
    match parseNat? k with
    | none => (d, "bad-op")
    | some k =>
      match takePaths k rest with
      | none => (d, "bad-op")
      | some paths =>
        match loadPaths d.s paths with
        | .error er => ({ d with ok := false }, showErr er)
        | .ok s1 => ({ d with s := s1 }, "ok")
  | "sysev" :: rest =>
    match parseEv rest with
    | none => (d, "bad-op")
    | some ev =>
      match sysStep { s := d.s, jobs := d.jobs } ev with
      | .error er => (d, showErr er)
      | .ok y => ({ d with s := y.s, jobs := y.jobs },
          dump y.s ++ " | jobs=" ++ " ;; ".intercalate (y.jobs.map showJob))
  | "mkengines" :: w :: k :: rest =>
    match parseNat? w, parseNat? k with
    | some w, some k =>
      match takeLists parseNat? k rest with
      | some ensEng =>
        let E := Factory.createEngines ensEng w
        (d, "names=" ++ showNats E.names ++ " occ=" ++ ";".intercalate (E.occ.map showInts) ++
            " objs=" ++ ";".intercalate (E.objs.map showNats) ++
            " count=" ++ ";".intercalate ((Factory.engineCount ensEng).map (fun (a, c) => s!"{a}:{c}")))
      | none => (d, "bad-op")
    | _, _ => (d, "bad-op")
  | "assign" :: pin :: rest =>
    match parseNat? pin, takeList parseNat? rest with
    | some pin, some (names, r) =>
      match r with
      | k :: r' =>
        match parseNat? k with
        | some k =>
          match takeLists parseInt? k r' with
          | some occ =>
            match assignEngines occ names pin with
            | .error er => (d, showErr er)
            | .ok (occ', out) =>
              (d, "occ=" ++ ";".intercalate (occ'.map showInts) ++ " out=" ++
                  ",".intercalate (out.map (fun (a, i) => s!"{a}:{i}")))
          | none => (d, "bad-op")
        | none => (d, "bad-op")
      | [] => (d, "bad-op")
    | _, _ => (d, "bad-op")
  | _ => handle d toks

open Infretis.Repex.Submit in
/-- the `lz…` ops on the hand-over state `q`; everything else goes to `handleC03` (a new `init` / `blankinit` empties `q`) -/
def handleC03Q (d : DState) (q : Q) (toks : List String) : DState × Q × String :=
  let fromStep (r : Except Err Q) (ans : Q → String) : DState × Q × String :=
    match r with
    | .error er => (d, q, showErr er)
    | .ok q' => (d, q', ans q')
  match toks with
  | ["lzalloc"] => fromStep (step q .alloc) (fun _ => s!"a={q.heap.length}")
  | ["lzprepbegin", a] =>
    match parseNat? a with
    | some a => fromStep (step q (.prepBegin a)) (fun _ => "ok")
    | none => (d, q, "bad-op")
  | ["lzprepend", a, pin] =>
    match parseNat? a, parseNat? pin with
    | some a, some pin =>
      match d.jobs.find? (·.pin == pin) with
      | some j => fromStep (step q (.prepEnd a j)) (fun _ => "ok")
      | none => (d, q, showErr .key)
    | _, _ => (d, q, "bad-op")
  | ["lzsubmit", a] =>
    match parseNat? a with
    | some a => fromStep (step q (.submit a)) (fun q' => s!"ok q={q'.queue.length}")
    | none => (d, q, "bad-op")
  | ["lztake"] =>
    match takeQ q with
    | .error er => (d, q, showErr er)
    | .ok (q', r) =>
      (d, q', "recv " ++ (match r.got with | some j => showJob j | none => showErr .key) ++
        s!" same={decide (r.got = r.sub)}")
  | _ =>
    let (d', ans) := handleC03 d toks
    let q' : Q := match toks with
      | "init" :: _ => {}
      | "blankinit" :: _ => {}
      | _ => q
    (d', q', ans)

partial def mainLoopC03 (h out : IO.FS.Stream) (d : DState) (q : Submit.Q) : IO Unit := do
  let line ← h.getLine
  if line.isEmpty then
    out.flush
    return ()
  let l := (line.dropEndWhile (fun c => c = '\n' || c = '\r')).toString
  let toks := (l.splitOn " ").filter (fun t => t ≠ "")
  let (d', q', ans) := handleC03Q d q toks
  out.putStrLn ans
  mainLoopC03 h out d' q'

def c03Main : IO Unit := do
  mainLoopC03 (← IO.getStdin) (← IO.getStdout) { s := emptySt } {}

end Infretis.Repex.Micro
