import Infretis.Model.RepexProto
import Infretis.Model.WF
/-
C05 extension model (own file of package C05; imports the shared models, changes none of them).

* `loadPathsCv`  — `REPEX_state.load_paths(paths)` AS THE CODE RUNS IT: for `i in range(size - 1)` the weights of
  `paths[i+1]` are computed by `calc_cv_vector` (`WF.cvVector`) from the path's order sequence, then
  `add_traj(ens=i, …)` (its assertion `valid[ens] != 0`), then the `traj_data` entry; last the `[0-]` path
  `paths[0]` with the constant weights `(1.0,)`.  (`Repex.loadPaths` takes the weight vectors as given.)
* `noJumpUp`, `legalEnds`, `noJumpCfg`, `stairB` — the decidable conditions on ORDER SEQUENCES under which
  `calc_cv_vector` stays in C02's staircase family (no MD step jumps from below `λ_i` to `≥ cap` for a
  wire-fencing ensemble `i`), and the staircase test on the resulting vector.
* `sortMeasure` — the termination measure of `sort_trajstate` (`Σ_slots (slot − last non-zero column)`), the
  proved bound on the number of iterations of its `while` loop.
* `handleCv` / `c05Main` — the line protocol of the C05 driver: the shared `Repex.handle` plus the ops
  `cvfam`, `cvload`, `mumat`.
-/
namespace Infretis.RepexCv
open Infretis.Repex Infretis.Proto Infretis.Perm

/-- the code's weight vector (small naturals held in floats) as rationals -/
def ratV (ws : List Nat) : List Rat := List.map (fun (x : Nat) => (Nat.cast x : Rat)) ws

/-- exception kinds of `calc_cv_vector` as `REPEX_state` sees them -/
def cvErr : WF.Err → Repex.Err
  | .assert => .assert
  | .index => .index
  | .value => .value

/-- what `load_paths` reads from the configuration: `simulation.interfaces`, the wire-fencing flags of
    `shooting_moves[1:]`, `tis_set.interface_cap` -/
structure CvCfg where
  intfs : List Int
  mv : List Bool
  cap : Option Int
deriving Repr, DecidableEq

/-- a path handed to `load_paths`: number, order sequence, fractions restored from `current.frac` -/
abbrev CvPath := Nat × List Int × List Rat

/-- the `for i in range(size - 1)` loop of `load_paths`; `k` iterations left, next ensemble `i` -/
def loadPlusCv (c : CvCfg) (paths : List CvPath) : Nat → Nat → St → Except Repex.Err St
  | 0, _, s => .ok s
  | k + 1, i, s =>
    match paths[i + 1]? with
    | none => .error .index                          -- paths[i + 1]
    | some (pn, ops, fr) =>
      match WF.cvVector ops c.intfs c.mv c.cap with   -- calc_cv_vector(paths[i+1], interfaces, mc_moves, cap=cap)
      | .error e => .error (cvErr e)
      | .ok ws =>
        match loadOne s (i : Int) pn (ratV ws) fr with  -- add_traj(ens=i, valid=weights) + traj_data entry
        | .error e => .error e
        | .ok s1 => loadPlusCv c paths k (i + 1) s1

/-- `load_paths(paths)`: `size = n - 1`; plus paths first, then `paths[0]` with weights `(1.0,)` -/
def loadPathsCv (c : CvCfg) (s : St) (paths : List CvPath) : Except Repex.Err St :=
  match loadPlusCv c paths (s.n - 2) 0 s with
  | .error e => .error e
  | .ok s1 =>
    match paths[0]? with
    | none => .error .index
    | some (pn0, _, fr0) => loadOne s1 (-1) pn0 [1] fr0

/-! ### conditions on order sequences -/

/-- no MD step goes from below `l` to at or above `r` (a jump over the whole band `[l, r)`) -/
def noJumpUp (l r : Int) : List Int → Bool
  | a :: b :: t => !(decide (a < l) && decide (r ≤ b)) && noJumpUp l r (b :: t)
  | _ => true

/-- the path starts below `i0` and ends below `i0` or at/above `c` (outside every band `[λ, c)`, `λ ≥ i0`) -/
def legalEnds (i0 c : Int) (ops : List Int) : Bool :=
  match ops.head?, ops.getLast? with
  | some first, some last => decide (first < i0) && (decide (last < i0) || decide (c ≤ last))
  | _, _ => false

/-- for every wire-fencing ensemble `k` (flag `mv[k]`, interface `λ_k`): no step jumps over `[λ_k, c)` -/
def noJumpGo (c : Int) (ops : List Int) : List Int → List Bool → Bool
  | lam :: is, m :: ms => (!m || noJumpUp lam c ops) && noJumpGo c ops is ms
  | _, _ => true

/-- the right end of the wire-fencing bands: `interface_cap` if given, else the last interface -/
def capOf (c : CvCfg) : Int := c.cap.getD (c.intfs.getLast?.getD 0)

/-- the whole condition on one order sequence for a configuration -/
def noJumpCfg (c : CvCfg) (ops : List Int) : Bool :=
  legalEnds (c.intfs.head?.getD 0) (capOf c) ops && noJumpGo (capOf c) ops c.intfs.dropLast c.mv

/-- staircase test of a weight vector: once an entry is zero all later ones are -/
def stairB : List Nat → Bool
  | [] => true
  | w :: t => if w = 0 then t.all (· == 0) else stairB t

/-! ### the termination measure of `sort_trajstate` -/

/-- index (in `row[1:]`) of the first zero: the number of leading non-zero plus columns -/
def lastOfM (r : List Rat) : Nat := (r.drop 1).findIdx (· == 0)

def measureGo : Nat → List (List Rat) → Nat
  | _, [] => 0
  | k, r :: t => (k - lastOfM r) + measureGo (k + 1) t

/-- `Σ_i (i − lastOf(row i))` -/
def sortMeasure (W : Mat) : Nat := measureGo 0 W

/-! ### line protocol -/

def parseCap (t : String) : Option (Option Int) :=
  if t = "-" then some none else (parseInt? t).map some

def showWs (ws : List Nat) : String := ",".intercalate (ws.map toString)

def b01 (b : Bool) : String := if b then "1" else "0"

/-- parse `k` paths `pn <ops> <frac>` -/
def takePaths : Nat → List String → Option (List CvPath)
  | 0, [] => some []
  | 0, _ => none
  | k + 1, pn :: rest =>
    match parseNat? pn, takeList parseInt? rest with
    | some pn, some (ops, r) =>
      match takeList parseRat? r with
      | some (fr, r') => (takePaths k r').map ((pn, ops, fr) :: ·)
      | none => none
    | _, _ => none
  | _ + 1, [] => none

def parseCfg (rest : List String) : Option (CvCfg × List String) :=
  match takeList parseInt? rest with
  | some (intfs, r) =>
    match takeList parseNat? r with
    | some (mv, capTok :: r') =>
      match parseCap capTok with
      | some cap => some ({ intfs := intfs, mv := mv.map (· != 0), cap := cap }, r')
      | none => none
    | _ => none
  | none => none

/-- parse `k` length-prefixed lists and hand back the remaining tokens -/
def takeListsRest {α : Type} (p : String → Option α) : Nat → List String → Option (List (List α) × List String)
  | 0, r => some ([], r)
  | m + 1, r => match takeList p r with
    | some (l, r') => (takeListsRest p m r').map (fun (ls, r'') => (l :: ls, r''))
    | none => none

def handleCv (d : DState) (toks : List String) : DState × String :=
  match toks with
  -- cvfam <intfs> <mv flags> <cap|-> <ops> : calc_cv_vector + the conditions
  | "cvfam" :: rest =>
    match parseCfg rest with
    | some (c, r) =>
      match takeList parseInt? r with
      | some (ops, []) =>
        match WF.cvVector ops c.intfs c.mv c.cap with
        | .error e => (d, showErr (cvErr e) ++ s!" nojump={b01 (noJumpCfg c ops)}")
        | .ok ws => (d, s!"ws={showWs ws} stair={b01 (stairB ws)} nojump={b01 (noJumpCfg c ops)}")
      | _ => (d, "bad-op")
    | none => (d, "bad-op")
  -- cvload <intfs> <mv flags> <cap|-> k  then k × (pn <ops> <frac>) : load_paths on the current state
  | "cvload" :: rest =>
    match parseCfg rest with
    | some (c, k :: r) =>
      match parseNat? k with
      | some k =>
        match takePaths k r with
        | some paths =>
          match loadPathsCv c d.s paths with
          | .error e => ({ d with ok := false }, showErr e)
          | .ok s1 => ({ d with s := s1 }, "ok")
        | none => (d, "bad-op")
      | none => (d, "bad-op")
    | _ => (d, "bad-op")
  -- mumat k then k rows : the termination measure of sort_trajstate for a weight matrix
  | "mumat" :: k :: rest =>
    match parseNat? k with
    | some k =>
      match takeLists parseRat? k rest with
      | some W => (d, toString (sortMeasure W))
      | none => (d, "bad-op")
    | none => (d, "bad-op")
  -- sortst <toinit> k then k rows (W) then <trajs: path numbers, -1 = the ghost's ""> <locks 0/1> :
  -- `sort_trajstate()` on a crafted state (fuel n*n+4 = the bound of the swap counter on the real object)
  | "sortst" :: ti :: k :: rest =>
    match parseInt? ti, parseNat? k with
    | some ti, some k =>
      match takeListsRest parseRat? k rest with
      | some (W, r) =>
        match takeList parseInt? r with
        | some (tr, r') =>
          match takeList parseNat? r' with
          | some (lk, []) =>
            let trajs0 : List (Option Nat) := tr.map (fun (x : Int) => if x < 0 then none else some x.toNat)
            let locks0 : List Bool := lk.map (fun (x : Nat) => x != 0)
            let s : St := { emptySt with n := k, W := W, toinitiate := ti, trajs := trajs0, locks := locks0 }
            match sortTrajstate (k * k + 4) s with
            | .error e => (d, showErr e)
            | .ok (s', it) =>
              let trs := ",".intercalate (s'.trajs.map showON)
              (d, s!"W={showMat s'.W} trajs={trs} iters={it}")
          | _ => (d, "bad-op")
        | none => (d, "bad-op")
      | none => (d, "bad-op")
    | _, _ => (d, "bad-op")
  -- cvminus <bound> <ops> : calc_cv_vector(minus=True); bound = lambda_minus_one if given else interfaces[0]
  | "cvminus" :: b :: rest =>
    match parseInt? b, takeList parseInt? rest with
    | some b, some (ops, []) =>
      match WF.cvMinus ops b with
      | .error e => (d, showErr (cvErr e))
      | .ok ws => (d, s!"ws={showWs ws}")
    | _, _ => (d, "bad-op")
  | _ => handle d toks

partial def mainLoopCv (h out : IO.FS.Stream) (d : DState) : IO Unit := do
  let line ← h.getLine
  if line.isEmpty then
    out.flush
    return ()
  let l := (line.dropEndWhile (fun c => c = '\n' || c = '\r')).toString
  let toks := (l.splitOn " ").filter (fun t => t ≠ "")
  let (d', ans) := handleCv d toks
  out.putStrLn ans
  mainLoopCv h out d'

def c05Main : IO Unit := do
  mainLoopCv (← IO.getStdin) (← IO.getStdout) { s := emptySt }

end Infretis.RepexCv
