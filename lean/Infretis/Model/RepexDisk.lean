import Infretis.Model.Repex
/-
C07, crash restarts from the file that is actually on disk, and the Monte-Carlo draws of `self.prob`.

1. `./restart.toml` is written by `REPEX_state.write_toml`, which is called at exactly two places:
     * the last statement of `treat_output` (repex.py:1045) — AFTER the completed job was taken off `locked`,
       BEFORE `scheduler()` calls `prep_md_items` for the next job of that worker;
     * `loop()` when it answers False because `cstep >= tsteps` (repex.py:462).
   So while the sampler waits for MD — almost all of the wall-clock time — the file on disk does NOT record the
   job issued after the last write (nor, during the initiation loop, any job of the running process).  A crash
   there loses that job: the restart reads the old image.  `Proc` pairs the scheduler state with the image on
   disk; `stepD` is `sysStep` plus that bookkeeping; `restartFromDisk` is the crash + restart
   (`setup_config` restart branch + `REPEX_state.__init__` + `load_paths` = `restore`) on THAT image —
   not on `persist` of the state at the crash.

2. `REPEX_state.prob` → `inf_retis` sends every idle block with more than 12 rows that is not row-constant to
   `random_prob(arr, n = 10_000)`, which draws on `self.rgen` — the scheduler's own stream:
       per iteration  `rgen.choice(p_m)`, for odd `len(arr)` twice `rgen.choice(zero_one)`, `rgen.random(len(arr)//2)`.
   `mcDims` = the sizes of those blocks (decision logic of package C02: `Perm.infRetis`), `mcCalls` = the number of
   generator calls of one `random_prob`.  The state machine of `Model/Repex.lean` uses the exact matrix and
   counts pick requests only (`mainDraws`); `pickMC` lists the Monte-Carlo requests the two `self.prob`
   evaluations of one `pick()` add.

No imports outside Infretis.Model.* (compiled into drv_c07).
-/
namespace Infretis.Repex
open Infretis.Perm

/-! ### the file on disk -/

/-- the state `treat_output` has built when it calls `write_toml()` for the completion of job `k`
    (`loop()` has already advanced `cstep`) -/
def writtenState (y : Sys) (k : Nat) (status : Status) (newW : List (List Rat)) : Except Err St :=
  let s1 : St := { y.s with cstep := y.s.cstep + 1 }
  match y.jobs[k]? with
  | none => .error .index
  | some job =>
    match treatOutput s1 job status newW (sortFuel s1) with
    | .error er => .error er
    | .ok (s2, _, _) => .ok s2

/-- the scheduler process: its state, the jobs in flight, and `./restart.toml` (`none`: no such file) -/
structure Proc where
  y : Sys
  disk : Option Image
deriving Repr, DecidableEq

def Ev.isStep : Ev → Bool
  | .step _ _ _ _ => true
  | _ => false

/-- the file after one scheduler iteration: only a completion (`treat_output`) rewrites it -/
def diskAfter (y : Sys) (disk : Option Image) : Ev → Option Image
  | .step k status newW _ =>
    match writtenState y k status newW with
    | .ok s2 => some (persist s2)
    | .error _ => disk
  | _ => disk

/-- one iteration of `scheduler()` with the file on disk -/
def stepD (p : Proc) (ev : Ev) : Except Err Proc :=
  match sysStep p.y ev with
  | .error er => .error er
  | .ok y' => .ok { y := y', disk := diskAfter p.y p.disk ev }

def runD (p : Proc) : List Ev → Except Err Proc
  | [] => .ok p
  | ev :: rest =>
    match stepD p ev with
    | .error er => .error er
    | .ok p' => runD p' rest

/-- `loop()` answering False at `cstep >= tsteps` writes the file once more (nothing is in flight then in a
    run of `scheduler()`, but the model does not need that) -/
def endWrite (p : Proc) : Proc :=
  if p.y.s.cstep ≥ p.y.s.tsteps then { p with disk := some (persist p.y.s) } else p

/-- the process dies (any instant between two iterations) and is started again: the new process is built from
    the image ON DISK; the jobs that were running are gone; the file stays as it is until the next completion.
    Without a file `setup_config` makes a fresh start from step 0 — not a restart (`.key`: no `current`). -/
def restartFromDisk (p : Proc) (n workers tsteps : Nat) (occ : List (List Int)) (ensEng : List (List Nat))
    (weightOf : Nat → List Rat) : Except Err Proc :=
  match p.disk with
  | none => .error .key
  | some im =>
    match restore im n workers tsteps occ ensEng weightOf with
    | .error er => .error er
    | .ok s' => .ok { y := { s := s', jobs := [] }, disk := some im }

/-- the spawn counter `set_rgen()` restores from an image -/
def Image.counter (im : Image) : Nat := im.spawnedRec.getD (im.cstep + im.locked.length)

/-! ### Monte-Carlo requests of `self.prob` on the scheduler stream -/

/-- sizes of the blocks `inf_retis(abs(state), _locks)` sends to `random_prob` in this state -/
def mcDims (s : St) : List Nat :=
  match infRetis s.W s.locks off with
  | .monteCarlo dims => dims
  | _ => []

/-- generator calls of one `random_prob(arr)` with `len(arr) = k` (`n = 10_000` iterations): `choice(p_m)` and
    `random(k // 2)`, plus two `choice(zero_one)` when `k` is odd -/
def mcCalls (k : Nat) : Nat := 10000 * (if k % 2 = 0 then 2 else 4)

/-- number of idle (unlocked) slots: the size of the matrix `inf_retis` works on -/
def idleCount (s : St) : Nat := (s.locks.filter (fun b => !b)).length

/-- the Monte-Carlo requests the `self.prob` evaluations of one `pick()` make on the scheduler stream, in call
    order: before `choice(n²)` (cache empty after the preceding `lock`/`add_traj`), and — when the zero swap is
    taken — before the column choice of `pick_traj_ens` -/
def pickMC (s : St) (o : PickOutcome) : List (List Nat) :=
  let s1 := swap s o.t o.e
  match lock s1 o.e with
  | .error _ => [mcDims s]
  | .ok s2 =>
    let zsPossible : Bool :=
      (o.e == off && (s2.locks.getD (off - 1) true == false)) ||
      (o.e == off - 1 && (s2.locks.getD off true == false))
    if zsPossible && o.coin then [mcDims s, mcDims s2] else [mcDims s]

end Infretis.Repex
