import Infretis.Model.Repex
/-
Sub-step ("micro") view of `treat_output` and `prep_md_items` (infretis/classes/repex.py), for C03's
"at every instant": one snapshot after every statement that writes `_locks`, `_trajs` or `state`.

  treat_output, per picked ensemble:            add_traj:  self._trajs[ens] = traj       → Tag.setTraj
                                                           self.state[ens, :] = valid    → Tag.setRow
                                                           self.unlock(ens)              → Tag.unlock
  then sort_trajstate, every  self.swap(ens_idx, trj_idx)                                → Tag.sortSwap
  prep_md_items → pick():       self.swap(traj, ens)                                     → Tag.pickSwap
                                self.lock(ens)                                           → Tag.pickLock
                  pick_traj_ens (zero swap):  self.swap(traj, other)                     → Tag.zsSwap
                                              self.lock(other)                           → Tag.zsLock
  prep_md_items → pick_lock() re-issue branch, per recorded (ens, traj):
                                self.swap(traj_idx, ens)                                 → Tag.reSwap
                                self.lock(ens)                                           → Tag.reLock

The trace functions are total and built AROUND the big-step functions of `Infretis.Repex` (they call
them for the states between the groups), so the last snapshot of a trace is by construction the state
the big-step function returns (`Lemmas/RepexC03Micro.lean` proves the glue equalities).  A trace is
meaningful when the big-step call succeeds; an exception ends the real call and the comparison.

`Snap.mine` is ghost bookkeeping (not in the code): the (slot, path number) pairs that the job being
completed (treat_output) still holds / the job being built (prep_md_items) already holds at that
instant.  While `add_traj` is between `_trajs[ens] = traj` and `unlock(ens)` the pair of that slot
carries the NEW path number.
No imports outside Infretis.Model.*.
-/
namespace Infretis.Repex.Micro
open Infretis.Perm

inductive Tag
  | setTraj | setRow | unlock | sortSwap | pickSwap | pickLock | zsSwap | zsLock | reSwap | reLock
deriving Repr, DecidableEq

structure Snap where
  tag : Tag
  st : St
  mine : List (Nat × Nat)
deriving Repr

/-- the three writes of `add_traj(ens, traj, valid)` (after its assert) -/
def addTrajTrace (s : St) (ens : Int) (pn : Nat) (valid : List Rat) (rest : List (Nat × Nat)) : List Snap :=
  let v := padValid s ens valid
  let e := (ens + (off : Int)).toNat
  let s1 := { s with trajs := s.trajs.set e (some pn) }
  let s2 := { s1 with W := s1.W.set e v }
  let s3 := { s2 with locks := s2.locks.set e false }
  [{ tag := .setTraj, st := s1, mine := (e, pn) :: rest },
   { tag := .setRow, st := s2, mine := (e, pn) :: rest },
   { tag := .unlock, st := s3, mine := rest }]

/-- (slot, path) pairs of picked entries -/
def pairsOfPicked (l : List (Picked × List Rat)) : List (Nat × Nat) :=
  l.map (fun q => ((q.1.ens + 1).toNat, q.1.pn))

/-- the `for ens_num in picked.keys()` loop of `treat_output` (mirrors `treatOutput.perEns`) -/
def perEnsTrace (status : Status) : St → Nat → List (Picked × List Rat) → List Snap
  | _, _, [] => []
  | s, tn, (p, w) :: rest =>
    let s1 := { s with locked := popLocked p.pn s.locked.length 0 s.locked,
                       lockedOrd := popLockedOrd p.pn s.locked.length 0 s.locked s.lockedOrd }
    if status = .acc then
      let s2 := { s1 with frac := s1.frac ++ [(tn, List.replicate s1.n 0)], wts := s1.wts ++ [(tn, w)] }
      match addTraj s2 p.ens tn w with
      | .error _ => []
      | .ok s3 => addTrajTrace s2 p.ens tn w (pairsOfPicked rest) ++ perEnsTrace status s3 (tn + 1) rest
    else
      match s1.wts.lookup p.pn with
      | none => []
      | some wOld =>
        match addTraj s1 p.ens p.pn wOld with
        | .error _ => []
        | .ok s3 => addTrajTrace s1 p.ens p.pn wOld (pairsOfPicked rest) ++ perEnsTrace status s3 tn rest

/-- the `while` loop of `sort_trajstate` (mirrors `sortTrajstate`) -/
def sortTrace : Nat → St → List Snap
  | 0, _ => []
  | fuel + 1, s =>
    match sortStep s with
    | .ok (some s') => { tag := .sortSwap, st := s', mine := [] } :: sortTrace fuel s'
    | _ => []

/-- sub-steps of `treat_output(md_items)` -/
def treatTrace (s : St) (job : Job) (status : Status) (newW : List (List Rat)) (fuel : Nat) : List Snap :=
  let ws := if status = .acc then newW else job.picked.map (fun _ => [])
  let tr := perEnsTrace status s s.trajNum (job.picked.zip ws)
  match treatOutput.perEns status s s.trajNum (job.picked.zip ws) with
  | .error _ => tr
  | .ok (s1, _, _) =>
    match recordFrac s1 with
    | .error _ => tr
    | .ok s2 =>
      match (if status = .acc then writeRows s2 job.pnumOld else .ok s2) with
      | .error _ => tr
      | .ok s3 => tr ++ sortTrace fuel s3

/-- path number in slot `e` (0 for the ghost's "") -/
def pathAt (s : St) (e : Nat) : Nat := (s.trajs.getD e none).getD 0

/-- `lock(e)` when it succeeds -/
def locked1 (s : St) (e : Nat) : St := { s with locks := s.locks.set e true }

/-- sub-steps of `pick()` incl. `pick_traj_ens` (mirrors `pickCore`) -/
def pickTrace (s : St) (o : PickOutcome) : List Snap :=
  let s1 := swap s o.t o.e
  let s2 := locked1 s1 o.e
  let pn := pathAt s2 o.e
  let first : List Snap := [{ tag := .pickSwap, st := s1, mine := [] },
                            { tag := .pickLock, st := s2, mine := [(o.e, pn)] }]
  let zsPossible : Bool :=
    (o.e == off && (s2.locks.getD (off - 1) true == false)) ||
    (o.e == off - 1 && (s2.locks.getD off true == false))
  if zsPossible && o.coin then
    let other := if o.e == off then off - 1 else off
    let s3 := swap s2 o.partner other
    let s4 := locked1 s3 other
    first ++ [{ tag := .zsSwap, st := s3, mine := [(o.e, pn)] },
              { tag := .zsLock, st := s4, mine := [(other, pathAt s4 other), (o.e, pn)] }]
  else first

/-- sub-steps of the re-issue branch of `pick_lock()` (mirrors `reissue.go`); `acc` = what the job
    holds already -/
def reissueTrace : St → List (Nat × Nat) → List (Nat × Nat) → List Snap
  | _, [], _ => []
  | s, (e, tr) :: rest, acc =>
    match findIdx? (livePaths s) (some tr) with
    | none => []
    | some ti =>
      let s1 := swap s ti e
      match lock s1 e with
      | .error _ => [{ tag := .reSwap, st := s1, mine := acc }]
      | .ok s2 =>
        { tag := .reSwap, st := s1, mine := acc } :: { tag := .reLock, st := s2, mine := (e, tr) :: acc } ::
          reissueTrace s2 rest ((e, tr) :: acc)

/-- sub-steps of `prep_md_items` (its `pick_lock()` / `pick()` part; mirrors the dispatch of `prep`
    and `pickLock`) -/
def prepTrace (s : St) (o : PickOutcome) (saved : Nat) : List Snap :=
  if s.toinitiate ≥ 0 then
    match s.locked0 with
    | [] => pickTrace (restoreStreamOnce s saved) o
    | (enss0, trajs0) :: rest =>
      reissueTrace { s with locked0 := rest, locked0Ord := s.locked0Ord.tail } (enss0.zip trajs0) []
  else pickTrace s o

end Infretis.Repex.Micro
