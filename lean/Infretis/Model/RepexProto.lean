import Infretis.Model.Proto
import Infretis.Model.Repex
import Infretis.Model.EngSetup
/-
Stateful line protocol for the replica-exchange state machine (used by the drivers of
C03 C04 C05 C06 C07 C17).  The driver keeps one `St` and the jobs in flight.
-/
namespace Infretis.Repex
open Infretis.Proto Infretis.Perm

structure DState where
  s : St
  jobs : List Job := []
  ok : Bool := true
  eng : EngTbl := []     -- `engine.rgen` of the engine objects of the (single) worker process, for C07

def emptySt : St :=
  { n := 0, W := [], trajs := [], locks := [], locked := [], locked0 := [], toinitiate := 0, workers := 0,
    cworker := 0, cstep := 0, tsteps := 0, trajNum := 0, frac := [], wts := [], rows := [], occ := [],
    ensEng := [], seed := 0, entropy := 0, spawned := 0, mainDraws := 0, restarted := false, rgenRestored := false }

def showErr : Err → String
  | .assert => "err:assert" | .value => "err:value" | .index => "err:index" | .key => "err:key"
  | .stall => "err:stall"

def showRow (r : List Rat) : String := ",".intercalate (r.map showRat)
def showMat (m : Mat) : String := ";".intercalate (m.map showRow)
def showON : Option Nat → String | none => "-" | some k => toString k
def showNats (l : List Nat) : String := ",".intercalate (l.map toString)
def showInts (l : List Int) : String := ",".intercalate (l.map toString)
def showStream (x : Stream) : String := s!"{x.entropy}:{showNats x.key}"

def showPicked (p : Picked) : String :=
  s!"{p.ens}/{p.pn}/{showStream p.rgen}/{showStream p.rgenEng}/" ++
    ",".intercalate (p.engIdx.map (fun (k, i) => s!"{k}:{i}"))

def showJob (j : Job) : String :=
  s!"pin={j.pin} wf={j.wfolder} old={showNats j.pnumOld} picked=" ++ ";".intercalate (j.picked.map showPicked)

def showDraw : Draw → String
  | .choiceAll p => "A:" ++ showMat p
  | .coin => "C"
  | .choiceCol c p => s!"K{c}:" ++ showRow p

def dump (s : St) : String :=
  " | ".intercalate [
    "W=" ++ showMat s.W,
    "trajs=" ++ ",".intercalate (s.trajs.map showON),
    "locks=" ++ String.ofList (s.locks.map (fun b => if b then '1' else '0')),
    "locked=" ++ ";".intercalate (s.locked.map (fun (es, ps) => showInts es ++ ":" ++ showNats ps)),
    "locked0=" ++ ";".intercalate (s.locked0.map (fun (es, ps) => showNats es ++ ":" ++ showNats ps)),
    s!"toinit={s.toinitiate}", s!"cworker={s.cworker}", s!"cstep={s.cstep}", s!"trajnum={s.trajNum}",
    "frac=" ++ ";".intercalate (s.frac.map (fun (k, v) => s!"{k}:" ++ showRow v)),
    "rows=" ++ ";".intercalate (s.rows.map (fun (k, f, w) => s!"{k}:" ++ showRow f ++ ":" ++ showRow w)),
    "occ=" ++ ";".intercalate (s.occ.map showInts),
    s!"rng={s.entropy}:{s.spawned}:{s.mainDraws}",
    "lockedord=" ++ showNats s.lockedOrd,
    "spawnedrec=" ++ (match spawnedKey s with | none => "-" | some k => toString k) ]

/-- parse `k` length-prefixed lists -/
def takeLists {α : Type} (p : String → Option α) : Nat → List String → Option (List (List α))
  | 0, [] => some []
  | 0, _ => none
  | m + 1, r => match takeList p r with
    | some (l, r') => (takeLists p m r').map (l :: ·)
    | none => none

def parseBool (t : String) : Bool := t = "1"

/-- handle one request; returns the new driver state and the answer -/
def handle (d : DState) (toks : List String) : DState × String :=
  match toks with
  -- init n workers tsteps cstep trajnum seed entropy spawned restarted
  | ["init", n, w, ts, cs, tn, seed, ent, sp, re] =>
    match parseNat? n, parseNat? w, parseNat? ts, parseNat? cs, parseNat? tn, parseNat? seed,
          parseNat? ent, parseNat? sp with
    | some n, some w, some ts, some cs, some tn, some seed, some ent, some sp =>
      let s : St := { emptySt with
        n := n, W := List.replicate n (List.replicate n 0),
        trajs := List.replicate n none, locks := List.replicate n true, toinitiate := (w : Int),
        workers := w, tsteps := ts, cstep := cs, trajNum := tn, seed := seed, entropy := ent,
        spawned := sp, restarted := parseBool re }
      ({ s := s }, "ok")
    | _, _, _, _, _, _, _, _ => (d, "bad-op")
  -- occ <sizes>   : engine_occ lists of -1
  | "occ" :: rest =>
    match takeList parseNat? rest with
    | some (sizes, []) => ({ d with s := { d.s with occ := sizes.map (fun k => List.replicate k (-1)) } }, "ok")
    | _ => (d, "bad-op")
  -- enseng <k> then k lists
  | "enseng" :: k :: rest =>
    match parseNat? k with
    | none => (d, "bad-op")
    | some k =>
      match takeLists parseNat? k rest with
      | some l => ({ d with s := { d.s with ensEng := l } }, "ok")
      | none => (d, "bad-op")
  -- locked0 ens-list path-list  (appends one recorded job)
  | "locked0" :: rest =>
    match takeList parseNat? rest with
    | some (es, r) => match takeList parseNat? r with
      | some (ps, []) => ({ d with s := { d.s with locked0 := d.s.locked0 ++ [(es, ps)],
                                                    locked0Ord := d.s.locked0Ord ++ [none] } }, "ok")
      | some (ps, [o]) =>
        match parseNat? o with
        | some ord => ({ d with s := { d.s with locked0 := d.s.locked0 ++ [(es, ps)],
                                                locked0Ord := d.s.locked0Ord ++ [some ord] } }, "ok")
        | none => (d, "bad-op")
      | _ => (d, "bad-op")
    | none => (d, "bad-op")
  -- load ens pn <valid> <frac> : add_traj(count=False) + traj_data entry, as load_paths does
  | "load" :: ens :: pn :: rest =>
    match parseInt? ens, parseNat? pn, takeList parseRat? rest with
    | some ens, some pn, some (valid, r) =>
      match takeList parseRat? r with
      | some (fr, []) =>
        match addTraj d.s ens pn valid with
        | .error e => ({ d with ok := false }, showErr e)
        | .ok s1 => ({ d with s := { s1 with frac := s1.frac ++ [(pn, fr)], wts := s1.wts ++ [(pn, valid)] } }, "ok")
      | _ => (d, "bad-op")
    | _, _, _ => (d, "bad-op")
  | ["initiate"] =>
    let (s1, b) := initiate d.s
    ({ d with s := s1 }, s!"{b} cworker={s1.cworker} toinit={s1.toinitiate}")
  | ["loop"] =>
    let (s1, b) := loop d.s
    ({ d with s := s1 }, s!"{b} cstep={s1.cstep}")
  -- prep pin|- t e coin partner savedDraws
  | ["prep", pin, t, e, coin, partner, saved] =>
    match parseNat? t, parseNat? e, parseNat? partner, parseNat? saved with
    | some t, some e, some partner, some saved =>
      let prev : Option Nat := if pin = "-" then none else parseNat? pin
      match prep d.s prev { t := t, e := e, coin := parseBool coin, partner := partner } saved with
      | .error er => (d, showErr er)
      | .ok (s1, job, ds) =>
        ({ d with s := s1, jobs := d.jobs.filter (·.pin != job.pin) ++ [job] },
          showJob job ++ " draws=" ++ " ".intercalate (ds.map showDraw))
    | _, _, _, _ => (d, "bad-op")
  -- treat pin status k <k weight lists>
  | "treat" :: pin :: st :: k :: rest =>
    match parseNat? pin, parseNat? k with
    | some pin, some k =>
      match takeLists parseRat? k rest, d.jobs.find? (·.pin == pin) with
      | some ws, some job =>
        match treatOutput d.s job (if st = "ACC" then .acc else .rej) ws (d.s.n * d.s.n + 4) with
        | .error er => (d, showErr er)
        | .ok (s1, pns, iters) =>
          ({ d with s := s1, jobs := d.jobs.filter (·.pin != pin) }, s!"new={showNats pns} sortiters={iters}")
      | _, _ => (d, "bad-op")
    | _, _ => (d, "bad-op")
  -- engsetup <entropy>/<key,key,..>/<k:i,k:i,..|-> ...   one token per picked ensemble, in order:
  -- the set-up loop of select_shoot on the process's engine objects; answers the whole table
  | "engsetup" :: rest =>
    let parseTok (tok : String) : Option Picked :=
      match tok.splitOn "/" with
      | [en, key, engs] =>
        match parseNat? en, (key.splitOn ",").mapM parseNat? with
        | some en, some key =>
          let objs : Option (List (Nat × Nat)) :=
            if engs = "-" then some [] else
            (engs.splitOn ",").mapM (fun ki => match ki.splitOn ":" with
              | [k, i] => (match parseNat? k, parseNat? i with
                           | some k, some i => some (k, i) | _, _ => none)
              | _ => none)
          objs.map (fun o => { ens := 0, pn := 0, rgen := { entropy := en, key := key.dropLast },
                               rgenEng := { entropy := en, key := key }, engIdx := o })
        | _, _ => none
      | _ => none
    match rest.mapM parseTok with
    | none => (d, "bad-op")
    | some ps =>
      let tbl := assignEngineStreams d.eng ps
      ({ d with eng := tbl },
        ";".intercalate (tbl.map (fun (e, x) => s!"{e.1}:{e.2}={showStream x}")))
  -- restorectr <k|->  : `set_rgen` at a restart, after the recorded jobs are known
  | ["restorectr", tok] =>
    let rec? : Option (Option Nat) := if tok = "-" then some none else (parseNat? tok).map some
    match rec? with
    | some r =>
      let sp := r.getD (d.s.cstep + d.s.locked0.length)
      ({ d with s := { d.s with spawned := sp } }, toString sp)
    | none => (d, "bad-op")
  | ["prob"] => (d, showMat (prob d.s))
  | ["dump"] => (d, dump d.s)
  | ["persist"] =>
    let im := persist d.s
    (d, "active=" ++ ",".intercalate (im.active.map showON) ++ " | locked=" ++
        ";".intercalate (im.locked.map (fun (es, ps) => showNats es ++ ":" ++ showNats ps)) ++
        s!" | cstep={im.cstep} | trajnum={im.trajNum}")
  | _ => (d, "bad-op")

partial def mainLoop (h out : IO.FS.Stream) (d : DState) : IO Unit := do
  let line ← h.getLine
  if line.isEmpty then
    out.flush
    return ()
  let l := (line.dropEndWhile (fun c => c = '\n' || c = '\r')).toString
  let toks := (l.splitOn " ").filter (fun t => t ≠ "")
  let (d', ans) := handle d toks
  out.putStrLn ans
  mainLoop h out d'

def repexMain : IO Unit := do
  mainLoop (← IO.getStdin) (← IO.getStdout) { s := emptySt }

end Infretis.Repex
