import Infretis.Model.RepexProto
/-
C06 (audit 2026-09-30): the restart as the code performs it, and the C06 driver.

`Repex.restore` (shared file) leaves the position of the scheduler stream at 0 (`blank`) and relies on the one-time
restore inside `pick_lock` (`restoreStreamOnce`).  The code does more: `REPEX_state.__init__` calls `set_rgen()`, which
puts the saved bit-generator state back AT ONCE (repex.py:449); `pick_lock` sets it a second time before the first
fresh pick (repex.py:248).  As long as `self.prob` draws nothing (no idle block of more than 12 rows that is not
row-constant: `RepexDisk.mcDims = []`) the second assignment changes nothing, and the difference between the two
models is invisible to every pick — but not to the restart FILE: a restarted run that never picks a fresh job (stop
in the final phase of a run with several workers) writes `rng_state` = the saved state, where `restore` would say 0.
`restoreNow` is `restore` with the position put back at once.

`handleC06` = the shared line protocol (`RepexProto.handle`) plus two requests that make the driver run the functions
the C06 theorems are about:
  restorenow   the state `restoreNow (persist s)` rebuilds from the image of the current state, with a fresh engine
               table of the same shape and the weights of the stored paths (`wts`): its `dump`
  image        `persist s` written out in full (active, locked with ordinals, cstep, traj_num, stream position,
               seed, `spawned` key, fractions)
No imports outside Infretis.Model.*.
-/
namespace Infretis.Repex
open Infretis.Proto Infretis.Perm

/-- `setup_config` (restart branch) + `REPEX_state.__init__` — whose `set_rgen()` restores the spawn counter AND the
    bit-generator state — + `load_paths` -/
def restoreNow (im : Image) (n workers tsteps : Nat) (occ : List (List Int)) (ensEng : List (List Nat))
    (weightOf : Nat → List Rat) : Except Err St :=
  match restore im n workers tsteps occ ensEng weightOf with
  | .error er => .error er
  | .ok s => .ok { s with mainDraws := im.rngDraws }

/-- the engine table of a new process: same shape, every instance free -/
def freshOcc (occ : List (List Int)) : List (List Int) := occ.map (fun l => l.map (fun _ => (-1 : Int)))

/-- what a new process rebuilds from the file the current state would write -/
def restartOfState (s : St) : Except Err St :=
  restoreNow (persist s) s.n s.workers s.tsteps (freshOcc s.occ) s.ensEng (fun pn => (s.wts.lookup pn).getD [])

def showImage (im : Image) : String :=
  " | ".intercalate [
    "active=" ++ ",".intercalate (im.active.map showON),
    "locked=" ++ ";".intercalate (im.locked.map (fun (es, ps) => showNats es ++ ":" ++ showNats ps)),
    "lockedord=" ++ showNats im.lockedOrd,
    s!"cstep={im.cstep}", s!"trajnum={im.trajNum}", s!"rngdraws={im.rngDraws}", s!"seed={im.seed}",
    "spawnedrec=" ++ (match im.spawnedRec with | none => "-" | some k => toString k),
    "frac=" ++ ";".intercalate (im.frac.map (fun (k, v) => s!"{k}:" ++ showRow v)) ]

def handleC06 (d : DState) (toks : List String) : DState × String :=
  match toks with
  | ["restorenow"] =>
    match restartOfState d.s with
    | .error er => (d, showErr er)
    | .ok s' => (d, dump s' ++ " | locked0ord=" ++
        ",".intercalate (s'.locked0Ord.map (fun o => match o with | none => "-" | some k => toString k)) ++
        s!" | restarted={s'.restarted} | rgenrestored={s'.rgenRestored}")
  | ["image"] => (d, showImage (persist d.s))
  | _ => handle d toks

partial def c06Loop (h out : IO.FS.Stream) (d : DState) : IO Unit := do
  let line ← h.getLine
  if line.isEmpty then
    out.flush
    return ()
  let l := (line.dropEndWhile (fun c => c = '\n' || c = '\r')).toString
  let toks := (l.splitOn " ").filter (fun t => t ≠ "")
  let (d', ans) := handleC06 d toks
  out.putStrLn ans
  c06Loop h out d'

def c06Main : IO Unit := do
  c06Loop (← IO.getStdin) (← IO.getStdout) { s := emptySt }

end Infretis.Repex
