import Infretis.Model.Repex
/-
The hand-over of work units between `scheduler()` (infretis/scheduler.py) and the runner
(`aiorunner.submit_work`, infretis/asyncrunner.py), for C03: REFERENCES are submitted, VALUES are received.

  scheduler.py   worker_md_items = copy.deepcopy(md_items)            → Op.alloc   (a new object)
                 worker_md_items = state.prep_md_items(worker_md_items)
                        repex.py  md_items.pop("picked", None)        → Op.prepBegin a   (object `a` holds no job)
                                  … last statement of prep_md_items    → Op.prepEnd a j   (object `a` holds job `j`)
                 futures.add(runner.submit_work(worker_md_items))
                        asyncrunner.py  await self._queue.put((work_unit, future)); time.sleep(0.05)
                                                                      → Op.submit a      (the REFERENCE is queued)
  asyncrunner.py _task_wrapper: md_item, future = queue.get_nowait(); run_in_executor(…) pickles the object
                 at that later moment                                  → Op.take          (the VALUE is read NOW)
  main loop      future.result() is the unpickled result of the worker = a new object    → Op.alloc again

`prep_md_items` works IN PLACE on the dict it is given; the model's heap is the list of those dict objects
(address = position), a cell holds `some job` or `none` (a dict without 'picked': the template, a copy of it,
or a dict inside `prep_md_items`).  Nothing here copies at submit time: that is the point.

`LSys` / `lazyStep` compose this with the scheduler model `Repex.sysStep`: every scheduler event that submits a job
runs `prepBegin; prepEnd; submit` on the object the code uses (`shared = false`: the code as it is — a new object
per job; `shared = true`: the initiation loop hands the template object itself to `prep_md_items`), workers `take`
at any moment in between, and only a unit that a worker has taken can complete.
No imports outside Infretis.Model.*.
-/
namespace Infretis.Repex.Submit
open Infretis.Repex

/-- a submitted work unit: the reference in the runner's queue and (ghost) the value the object had at `submit_work` -/
structure Entry where
  addr : Nat
  sub : Option Job
deriving Repr, DecidableEq

/-- a taken unit: what was submitted and what the worker received -/
structure Recv where
  addr : Nat
  sub : Option Job
  got : Option Job
deriving Repr, DecidableEq

structure Q where
  heap : List (Option Job) := []
  queue : List Entry := []
  recv : List Recv := []
deriving Repr, DecidableEq

inductive Op
  | alloc
  | prepBegin (a : Nat)
  | prepEnd (a : Nat) (j : Job)
  | submit (a : Nat)
  | take
deriving Repr, DecidableEq

/-- a worker takes the head of the queue: the object behind the reference is read at THIS moment -/
def takeQ (q : Q) : Except Err (Q × Recv) :=
  match q.queue with
  | [] => .error .index
  | e :: rest =>
    match q.heap[e.addr]? with
    | none => .error .key
    | some v =>
      let r : Recv := { addr := e.addr, sub := e.sub, got := v }
      .ok ({ q with queue := rest, recv := q.recv ++ [r] }, r)

def step (q : Q) : Op → Except Err Q
  | .alloc => .ok { q with heap := q.heap ++ [none] }
  | .prepBegin a => if a < q.heap.length then .ok { q with heap := q.heap.set a none } else .error .key
  | .prepEnd a j => if a < q.heap.length then .ok { q with heap := q.heap.set a (some j) } else .error .key
  | .submit a =>
    match q.heap[a]? with
    | none => .error .key
    | some v => .ok { q with queue := q.queue ++ [{ addr := a, sub := v }] }
  | .take =>
    match takeQ q with
    | .error er => .error er
    | .ok (q', _) => .ok q'

def run (q : Q) : List Op → Except Err Q
  | [] => .ok q
  | op :: rest =>
    match step q op with
    | .error er => .error er
    | .ok q' => run q' rest

def takes (k : Nat) : List Op := List.replicate k .take

/-- one submission as the code does it — a NEW object, prepared in place, its reference queued — with any number of
    worker takes between any two of the scheduler's statements (`k0 … k3`: every interleaving is of this form) -/
structure Slot where
  job : Job
  k0 : Nat := 0      -- takes after the copy, before prep_md_items starts
  k1 : Nat := 0      -- takes INSIDE prep_md_items
  k2 : Nat := 0      -- takes after prep_md_items, before submit_work
  k3 : Nat := 0      -- takes after submit_work
deriving Repr

def freshBlock (a : Nat) (b : Slot) : List Op :=
  .alloc :: (takes b.k0 ++ (.prepBegin a :: (takes b.k1 ++ (.prepEnd a b.job :: (takes b.k2 ++
    (.submit a :: takes b.k3))))))

/-- all submissions of a run, each on a new object (`h` = number of objects that exist already) -/
def freshProg : Nat → List Slot → List Op
  | _, [] => []
  | h, b :: rest => freshBlock h b ++ freshProg (h + 1) rest

/-- the same submissions when ONE object (address `a`, e.g. the template) is handed to `prep_md_items` every time -/
def sharedProg (a : Nat) : List Slot → List Op
  | [] => []
  | b :: rest =>
    takes b.k0 ++ (.prepBegin a :: (takes b.k1 ++ (.prepEnd a b.job :: (takes b.k2 ++
      (.submit a :: (takes b.k3 ++ sharedProg a rest))))))

/-- values submitted, oldest first: those already taken, then those still queued -/
def submittedVals (q : Q) : List (Option Job) := q.recv.map (·.sub) ++ q.queue.map (·.sub)

/-! ### composed with the scheduler model -/

structure LSys where
  y : Sys
  q : Q := {}
  got : List (Option Job) := []     -- what the workers that are running hold (the values they RECEIVED), oldest first
deriving Repr, DecidableEq

inductive LEv
  | sched (ev : Ev)
  | take
deriving Repr

/-- the object `prep_md_items` is given for the job a scheduler event submits -/
def target (shared : Bool) (q : Q) (ev : Ev) : Q × Nat :=
  match shared, ev with
  | true, .start _ _ => (if q.heap.isEmpty then { q with heap := [none] } else q, 0)
  | _, _ => ({ q with heap := q.heap ++ [none] }, q.heap.length)

/-- a completion event names a unit that no worker has taken yet (the `k`-th future cannot be done) -/
def blocked (got : List (Option Job)) : Ev → Bool
  | .step k _ _ _ => decide (got.length ≤ k)
  | _ => false

/-- the units the workers hold after the event: a completion hands its unit back -/
def gotAfter (got : List (Option Job)) : Ev → List (Option Job)
  | .step k _ _ _ => got.eraseIdx k
  | _ => got

/-- number of the jobs in flight before the event that are still in flight after it -/
def keepLen (n : Nat) : Ev → Nat
  | .step _ _ _ _ => n - 1
  | _ => n

def lazyStep (shared : Bool) (L : LSys) : LEv → Except Err LSys
  | .take =>
    match takeQ L.q with
    | .error er => .error er
    | .ok (q', r) => .ok { L with q := q', got := L.got ++ [r.got] }
  | .sched ev =>
    -- only a unit that a worker has taken can complete
    if blocked L.got ev then .error .index else
    match sysStep L.y ev with
    | .error er => .error er
    | .ok y' =>
      -- the job this event submitted, if any: what `futures` holds beyond the jobs that were in flight before
      match y'.jobs.drop (keepLen L.y.jobs.length ev) with
      | [] => .ok { y := y', q := L.q, got := gotAfter L.got ev }
      | j :: _ =>
        match run (target shared L.q ev).1
            [.prepBegin (target shared L.q ev).2, .prepEnd (target shared L.q ev).2 j, .submit (target shared L.q ev).2] with
        | .error er => .error er
        | .ok q2 => .ok { y := y', q := q2, got := gotAfter L.got ev }

def lazyRun (shared : Bool) (L : LSys) : List LEv → Except Err LSys
  | [] => .ok L
  | ev :: rest =>
    match lazyStep shared L ev with
    | .error er => .error er
    | .ok L' => lazyRun shared L' rest

end Infretis.Repex.Submit
