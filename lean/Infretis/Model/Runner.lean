/-
Model of the task-runner protocol of `infretis/asyncrunner.py` (class `aiorunner`, class
`future_list`) as an abstract transition system.  No imports outside core.

What each event stands for in the code (as it is):

* `submit u`      `submit_work(work_unit)`: `_add_work_to_queue` creates a fresh
                  `asyncio.Future` and `queue.put((work_unit, future))`; the scheduler
                  `futures.add(...)`s the returned future.  A unit is identified with its
                  future (one future per call), hence ids are fresh.
* `take w u`      worker task `w` (`_task_wrapper`, `taskID = w`, `w < n_workers`) executes
                  `md_item, future = queue.get_nowait()` while the stop event is not set.
                  `asyncio.Queue` is FIFO: only the queue *head* can be taken.  A worker task
                  that awaits `run_in_executor` does not come back to `get_nowait` before it
                  has set the future, so it holds at most one unit.
* `finish w u o`  worker task `w` executes `future.set_result(..)` (`o = ok r`) or
                  `future.set_exception(e)` (`o = exc e`) on the future of unit `u`.
                  `asyncio.Future` raises `InvalidStateError` when it is already done: the
                  guard `u ∉ done`.
* `collect u o`   `future_list.as_completed()` finds `fut.done()`, removes it from the list and
                  returns it; the consumer reads outcome `o` (`future.result()` returns / raises).
* `stop`          `stop()`: busy-waits until `queue.qsize() == 0`, *then* sets the stop event
                  (guard `queue = []`); worker tasks leave their loop at the next test of the
                  event, i.e. after finishing the unit they hold.

`step s e = none` means: the event cannot happen in state `s` according to the code's
protocol (or, for `submit` after `stop`, is outside the caller's contract).
-/
namespace Infretis.Runner

/-- what a future is completed with; the payload identifies result / exception -/
inductive Outcome where
  | ok (r : Nat)
  | exc (e : Nat)
  deriving DecidableEq, Repr, Inhabited

inductive Event where
  | submit (u : Nat)
  | take (w u : Nat)
  | finish (w u : Nat) (o : Outcome)
  | collect (u : Nat) (o : Outcome)
  | stop
  deriving DecidableEq, Repr, Inhabited

/-- state of one future -/
inductive Fut where
  | pending
  | done (o : Outcome)
  deriving DecidableEq, Repr

structure State where
  /-- number of worker tasks (`n_workers`) -/
  nw : Nat
  /-- every unit ever submitted = every future ever created, in submission order -/
  submitted : List Nat
  /-- the `asyncio.Queue`: head is the next unit handed out -/
  queue : List Nat
  /-- `(w, u)`: worker task `w` currently holds unit `u` -/
  running : List (Nat × Nat)
  /-- futures that are done, with their outcome (latest first) -/
  done : List (Nat × Outcome)
  /-- futures already returned by `as_completed` (latest first) -/
  collected : List Nat
  /-- the stop event is set -/
  stopped : Bool
  deriving Repr, DecidableEq

def init (nw : Nat) : State :=
  { nw := nw, submitted := [], queue := [], running := [], done := [], collected := [], stopped := false }

/-- the futures map: `none` = no such future -/
def futOf (s : State) (u : Nat) : Option Fut :=
  if s.submitted.contains u then
    match s.done.lookup u with
    | some o => some (.done o)
    | none => some .pending
  else none

def workerBusy (s : State) (w : Nat) : Bool := s.running.any (fun p => p.1 == w)
def isDone (s : State) (u : Nat) : Bool := s.done.any (fun p => p.1 == u)

def step (s : State) : Event → Option State
  | .submit u =>
    if s.stopped || s.submitted.contains u then none
    else some { s with submitted := s.submitted ++ [u], queue := s.queue ++ [u] }
  | .take w u =>
    if s.stopped || !(decide (w < s.nw)) || workerBusy s w then none
    else
      match s.queue with
      | [] => none                      -- `QueueEmpty`: the worker sleeps, nothing is taken
      | h :: t =>
        if h == u then some { s with queue := t, running := (w, u) :: s.running } else none
  | .finish w u o =>
    if s.running.contains (w, u) && !(isDone s u) then
      some { s with running := s.running.erase (w, u), done := (u, o) :: s.done }
    else none
  | .collect u o =>
    if s.done.contains (u, o) && !(s.collected.contains u) then
      some { s with collected := u :: s.collected }
    else none
  | .stop =>
    if s.stopped || !(s.queue.isEmpty) then none
    else some { s with stopped := true }

/-- run a whole event list; `none` as soon as one event is not allowed -/
def run (s : State) : List Event → Option State
  | [] => some s
  | e :: tr =>
    match step s e with
    | none => none
    | some s' => run s' tr

def accepts (nw : Nat) (tr : List Event) : Bool := (run (init nw) tr).isSome

/-- index of the first event that is not allowed (for diagnostics) -/
def firstReject (s : State) : List Event → Nat → Option Nat
  | [], _ => none
  | e :: tr, i =>
    match step s e with
    | none => some i
    | some s' => firstReject s' tr (i + 1)

/-- nothing queued, nothing held by a worker -/
def quiescent (s : State) : Bool := s.queue.isEmpty && s.running.isEmpty

/-! ### projections of a trace -/

def subSeq (tr : List Event) : List Nat :=
  tr.filterMap (fun e => match e with | .submit u => some u | _ => none)

def takes (tr : List Event) : List (Nat × Nat) :=
  tr.filterMap (fun e => match e with | .take w u => some (w, u) | _ => none)

def takenSeq (tr : List Event) : List Nat := (takes tr).map (·.2)

def fins (tr : List Event) : List (Nat × Nat × Outcome) :=
  tr.filterMap (fun e => match e with | .finish w u o => some (w, u, o) | _ => none)

def finUnits (tr : List Event) : List Nat := (fins tr).map (·.2.1)

def cols (tr : List Event) : List (Nat × Outcome) :=
  tr.filterMap (fun e => match e with | .collect u o => some (u, o) | _ => none)

def colUnits (tr : List Event) : List Nat := (cols tr).map (·.1)

/-! ### the exactly-once predicate, evaluated on a bare trace (no state machine)

`orderOk pre rest`: every event of `rest` has its cause in what precedes it (`pre` = the events
before `rest`, latest first). -/

def causeOk (pre : List Event) : Event → Bool
  | .take _ u => pre.contains (.submit u)
  | .finish w u _ => pre.contains (.take w u)
  | .collect u o => pre.any (fun e => match e with | .finish _ u' o' => u' == u && o' == o | _ => false)
  | _ => true

def orderOk (pre : List Event) : List Event → Bool
  | [] => true
  | e :: rest => causeOk pre e && orderOk (e :: pre) rest

def nodupB : List Nat → Bool
  | [] => true
  | x :: xs => !(xs.contains x) && nodupB xs

/-- at most once each, and only after the cause -/
def exactlyOnceB (tr : List Event) : Bool :=
  nodupB (subSeq tr) && nodupB (takenSeq tr) && nodupB (finUnits tr) && nodupB (colUnits tr)
    && orderOk [] tr

/-- every submitted unit was taken and finished -/
def completeB (tr : List Event) : Bool :=
  (subSeq tr).all (fun u => (takenSeq tr).contains u && (finUnits tr).contains u)

/-- units are taken in submission order -/
def fifoB (tr : List Event) : Bool := (takenSeq tr).isPrefixOf (subSeq tr)

end Infretis.Runner
