/-
Line-protocol handler for the runner model (C17, runner half).  Dispatch from a driver:

    def handle (toks : List String) : String :=
      match Infretis.Runner.handle toks with
      | some r => r
      | none => …other ops… / "bad-op"

Ops (all prefixed `runner-`):

  runner-check  <nw> <n> <ev₁> … <evₙ>
      → `acc=<0|1> rej=<index of first rejected event|-> once=<0|1> complete=<0|1> fifo=<0|1>
         quiescent=<0|1|-> stopped=<0|1|-> sub=<#> queue=<#> running=<#> done=<#> collected=<#>`
        (`accepts`, `firstReject`, `exactlyOnceB`, `completeB`, `fifoB`, and the final state)
  runner-futs   <nw> <n> <ev₁> … <evₙ>
      → the futures map of the final state in submission order: `<k> u:p | u:ok:r | u:exc:e …`,
        or `rejected`
  runner-step   <nw> <n> <ev₁> … <evₙ> <ev>
      → `1` if `ev` is allowed after the (accepted) prefix, `0` if not, `rejected` if the prefix is not accepted

Event tokens:  `s:u`  `t:w:u`  `f:w:u:ok:r`  `f:w:u:exc:e`  `c:u:ok:r`  `c:u:exc:e`  `x`
-/
import Infretis.Model.Proto
import Infretis.Model.Runner
namespace Infretis.Runner
open Infretis.Proto

def parseOutcome? (k v : String) : Option Outcome :=
  match k, parseNat? v with
  | "ok", some r => some (.ok r)
  | "exc", some e => some (.exc e)
  | _, _ => none

def parseEvent? (t : String) : Option Event :=
  match t.splitOn ":" with
  | ["x"] => some .stop
  | ["s", u] => (parseNat? u).map .submit
  | ["t", w, u] =>
    match parseNat? w, parseNat? u with
    | some w, some u => some (.take w u)
    | _, _ => none
  | ["f", w, u, k, v] =>
    match parseNat? w, parseNat? u, parseOutcome? k v with
    | some w, some u, some o => some (.finish w u o)
    | _, _, _ => none
  | ["c", u, k, v] =>
    match parseNat? u, parseOutcome? k v with
    | some u, some o => some (.collect u o)
    | _, _ => none
  | _ => none

def showOutcome : Outcome → String
  | .ok r => s!"ok:{r}"
  | .exc e => s!"exc:{e}"

def showFut (s : State) (u : Nat) : String :=
  match futOf s u with
  | some (.done o) => s!"{u}:{showOutcome o}"
  | some .pending => s!"{u}:p"
  | none => s!"{u}:none"

def b01 (b : Bool) : String := if b then "1" else "0"

def handle (toks : List String) : Option String :=
  match toks with
  | "runner-check" :: nw :: rest =>
    match parseNat? nw, takeList parseEvent? rest with
    | some nw, some (tr, []) =>
      let rej := match firstReject (init nw) tr 0 with | some i => toString i | none => "-"
      let fin := run (init nw) tr
      let (q, st, tail) := match fin with
        | some s => (b01 (quiescent s), b01 s.stopped,
            s!"sub={s.submitted.length} queue={s.queue.length} running={s.running.length} done={s.done.length} collected={s.collected.length}")
        | none => ("-", "-", s!"sub={(subSeq tr).length} queue=- running=- done=- collected=-")
      some s!"acc={b01 (accepts nw tr)} rej={rej} once={b01 (exactlyOnceB tr)} complete={b01 (completeB tr)} fifo={b01 (fifoB tr)} quiescent={q} stopped={st} {tail}"
    | _, _ => some "bad-op"
  | "runner-futs" :: nw :: rest =>
    match parseNat? nw, takeList parseEvent? rest with
    | some nw, some (tr, []) =>
      match run (init nw) tr with
      | some s => some (showList (showFut s) s.submitted)
      | none => some "rejected"
    | _, _ => some "bad-op"
  | "runner-step" :: nw :: rest =>
    match parseNat? nw, takeList parseEvent? rest with
    | some nw, some (tr, [e]) =>
      match run (init nw) tr, parseEvent? e with
      | some s, some e => some (b01 (step s e).isSome)
      | none, some _ => some "rejected"
      | _, none => some "bad-op"
    | _, _ => some "bad-op"
  | op :: _ => if op.startsWith "runner-" then some "bad-op" else none
  | [] => none

end Infretis.Runner
