/-
The task runner's OWN code as a transition system (C17, runner half, fine-grained model).
Imports only `Model/Runner.lean` (the abstract protocol this system is proved to refine).

`infretis/asyncrunner.py`, as it is:

* `future_list` — `add` appends; `as_completed`:
      future_out = None
      while len(self._futures) > 0 and not future_out:
          for fut in list(self._futures):          # snapshot
              if fut.done():
                  future_out = fut; self._futures.remove(fut); break
      return future_out
  One `fut.done()` call = one step (`flCheck`): other threads act between two calls.
* `aiorunner._task_wrapper` (worker coroutine `w`):
      while not stop_event.is_set():
          try:
              md_item, future = queue.get_nowait()
              try:
                  md_item = await loop.run_in_executor(executor, partial(task_f, md_item))
                  future.set_result(md_item)
              except Exception as e:
                  future.set_exception(e)
              queue.task_done()
          except asyncio.QueueEmpty:
              await asyncio.sleep(0.02)
  asyncio runs a coroutine atomically from one `await` to the next: one step = `resume w o`
  ("worker `w` is resumed and runs to its next suspension"; `o` = what `run_in_executor` returned /
  raised if that is what it was awaiting).
* `submit_work` → `_add_work_to_queue`: fresh `asyncio.Future`, `queue.put((work_unit, future))`;
  the scheduler does `futures.add(runner.submit_work(..))`: one main-thread step `submit u`.
* `stop()`: `while queue.qsize() > 0: sleep(0.1)` (one poll = `stopPollQ`), `stop_event.set()`,
  `wait_for_tasks_to_end`: `while len(all_tasks(loop)) > 0: sleep(0.1)` (one poll = `stopPollT`),
  then loop stop + thread join (`MPc.finished`).

A unit is identified with its future (one future per `submit_work`), as in `Model/Runner.lean`.
Not modelled: asyncio / ProcessPoolExecutor internals, the thread-unsafe `queue.put` from a foreign
loop (the code sleeps 50 ms after it for that reason) — `put`, `get_nowait`, `done()`, `set_result`
are atomic here.
-/
import Infretis.Model.Runner
namespace Infretis.RunnerSys
open Infretis.Runner (Outcome Event)

/-! ### `future_list` as a data structure -/

structure FL where
  /-- `self._futures` -/
  futs : List Nat
  /-- inside `as_completed`: the part of the snapshot `list(self._futures)` the `for` loop has not
      looked at yet; `none` = no call in progress -/
  scan : Option (List Nat)
  deriving Repr, DecidableEq

def flEmpty : FL := { futs := [], scan := none }

/-- `future_list.add` -/
def flAdd (fl : FL) (u : Nat) : FL := { fl with futs := fl.futs ++ [u] }

/-- what one step of `as_completed` does for the caller -/
inductive AcStep where
  /-- still inside the call -/
  | going
  /-- the call returns `None` (empty list) -/
  | retNone
  /-- the call returns future `u` (removed from the list) -/
  | ret (u : Nat)
  deriving Repr, DecidableEq

/-- evaluation of `while len(self._futures) > 0 and not future_out:` with `future_out = None` -/
def flWhile (fl : FL) : FL × AcStep :=
  match fl.futs with
  | [] => ({ fl with scan := none }, .retNone)
  | _ :: _ => ({ fl with scan := some fl.futs }, .going)

/-- entering `as_completed()` -/
def flEnter (fl : FL) : FL × AcStep := flWhile fl

/-- one `fut.done()` call of the `for` loop, answered `ans` -/
def flCheck (fl : FL) (ans : Bool) : Option (FL × AcStep) :=
  match fl.scan with
  | none => none
  | some [] => some (flWhile fl)              -- `for` exhausted: back to the `while` test
  | some (f :: rest) =>
    if ans then some ({ futs := fl.futs.erase f, scan := none }, .ret f)   -- `remove(fut); break`; `not future_out` is False
    else
      match rest with
      | [] => some (flWhile fl)               -- `for` exhausted: back to the `while` test
      | _ :: _ => some ({ fl with scan := some rest }, .going)

/-- the future whose `done()` is asked next -/
def flNext (fl : FL) : Option Nat :=
  match fl.scan with
  | some (f :: _) => some f
  | _ => none

/-- a whole `as_completed()` call against a script of `done()` answers.
    Result: `(list afterwards, what was returned, number of done() calls, futures asked in order)`;
    the returned value is `none` while the script ran out before the call returned. -/
def flCallGo : Nat → FL → List Bool → Nat → List Nat → FL × Option AcStep × Nat × List Nat
  | 0, fl, _, n, asked => (fl, none, n, asked)
  | _ + 1, fl, [], n, asked => (fl, none, n, asked)
  | fuel + 1, fl, a :: as, n, asked =>
    match flNext fl, flCheck fl a with
    | some f, some (fl', .going) => flCallGo fuel fl' as (n + 1) (asked ++ [f])
    | some f, some (fl', r) => (fl', some r, n + 1, asked ++ [f])
    | _, _ => (fl, none, n, asked)

def flCall (fl : FL) (answers : List Bool) : FL × Option AcStep × Nat × List Nat :=
  match flEnter fl with
  | (fl', .going) => flCallGo answers.length fl' answers 0 []
  | (fl', r) => (fl', some r, 0, [])

/-! ### the worker coroutine, the main thread, the whole system -/

/-- where worker coroutine `w` is suspended -/
inductive WPc where
  /-- not started yet, or in `await asyncio.sleep(0.02)` -/
  | idle
  /-- in `await loop.run_in_executor(..)` for unit `u`; holds `future` of `u` -/
  | awaiting (u : Nat)
  /-- left the `while` loop: the asyncio task is done -/
  | exited
  /-- died with `InvalidStateError` (set_result / set_exception on a done future): task done -/
  | crashed
  deriving Repr, DecidableEq

/-- where the main thread (the scheduler) is -/
inductive MPc where
  | idle
  /-- inside `stop()`: polling `queue.qsize() > 0` -/
  | stopQ
  /-- inside `stop()`: stop event set, polling `all_tasks` -/
  | stopT
  /-- `stop()` returned: loop stopped, thread joined -/
  | finished
  deriving Repr, DecidableEq

structure Sys where
  /-- one entry per worker task (`n_workers`) -/
  pcs : List WPc
  /-- the `asyncio.Queue` -/
  queue : List Nat
  /-- every future ever created, in creation order -/
  created : List Nat
  /-- the futures that are done, with what they were set to (latest first) -/
  done : List (Nat × Outcome)
  /-- the scheduler's `future_list` -/
  fl : FL
  /-- `stop_event.is_set()` -/
  stopSet : Bool
  main : MPc
  /-- what `as_completed()` + `future.result()` handed to the consumer, in order -/
  delivered : List (Nat × Outcome)
  /-- number of `as_completed()` calls that returned `None` -/
  noneReturns : Nat
  /-- number of `queue.task_done()` calls -/
  taskDone : Nat
  deriving Repr, DecidableEq

def init (nw : Nat) : Sys :=
  { pcs := List.replicate nw .idle, queue := [], created := [], done := [], fl := flEmpty,
    stopSet := false, main := .idle, delivered := [], noneReturns := 0, taskDone := 0 }

inductive FEv where
  /-- `futures.add(runner.submit_work(unit u))` -/
  | submit (u : Nat)
  /-- worker coroutine `w` is resumed and runs to its next suspension point -/
  | resume (w : Nat) (o : Outcome)
  /-- the scheduler calls `futures.as_completed()` -/
  | acEnter
  /-- one `fut.done()` call inside `as_completed()` -/
  | acCheck
  /-- the scheduler calls `runner.stop()` -/
  | stopEnter
  /-- one evaluation of `while self._queue.qsize() > 0` -/
  | stopPollQ
  /-- one evaluation of `while len(asyncio.all_tasks(self._loop)) > 0` -/
  | stopPollT
  deriving Repr, DecidableEq

/-- the head of `_task_wrapper`'s `while` loop, up to the next suspension:
    `(new pc, new queue, events)` -/
def loopHead (w : Nat) (stopSet : Bool) (queue : List Nat) : WPc × List Nat × List Event :=
  if stopSet then (.exited, queue, [])
  else
    match queue with
    | [] => (.idle, [], [])                                   -- QueueEmpty → sleep
    | h :: t => (.awaiting h, t, [.take w h])                 -- get_nowait → run_in_executor

def taskEnded : WPc → Bool
  | .exited => true
  | .crashed => true
  | _ => false

/-- an `as_completed()` step that does not return a future: only the list object (its scan
    position) and the count of `None` returns change -/
def flApply (s : Sys) (r : FL × AcStep) : Sys × List Event :=
  match r.2 with
  | .retNone => ({ s with fl := r.1, noneReturns := s.noneReturns + 1 }, [])
  | _ => ({ s with fl := r.1 }, [])

/-- `futures.add(runner.submit_work(u))`; `submit_work` raises `RunnerError` without worker tasks -/
def stepSubmit (s : Sys) (u : Nat) : Option (Sys × List Event) :=
  if s.main = .idle ∧ s.fl.scan = none ∧ s.created.contains u = false ∧ s.pcs ≠ [] then
    some ({ s with created := s.created ++ [u], queue := s.queue ++ [u], fl := flAdd s.fl u }, [.submit u])
  else none

/-- worker coroutine `w` resumed: runs to its next suspension -/
def stepResume (s : Sys) (w : Nat) (o : Outcome) : Option (Sys × List Event) :=
  match s.pcs[w]? with
  | none => none
  | some .exited => none
  | some .crashed => none
  | some .idle =>
    let r := loopHead w s.stopSet s.queue
    some ({ s with pcs := s.pcs.set w r.1, queue := r.2.1 }, r.2.2)
  | some (.awaiting u) =>
    if s.done.any (fun p => p.1 == u) then
      -- set_result raises InvalidStateError, so does set_exception in the handler: the task dies
      some ({ s with pcs := s.pcs.set w .crashed }, [])
    else
      let r := loopHead w s.stopSet s.queue
      some ({ s with pcs := s.pcs.set w r.1, queue := r.2.1, done := (u, o) :: s.done,
                     taskDone := s.taskDone + 1 }, .finish w u o :: r.2.2)

def stepAcEnter (s : Sys) : Option (Sys × List Event) :=
  if s.main = .idle ∧ s.fl.scan = none then some (flApply s (flEnter s.fl)) else none

/-- one `fut.done()` call: the answer is the state of that future now -/
def stepAcCheck (s : Sys) : Option (Sys × List Event) :=
  match flNext s.fl with
  | none => (flCheck s.fl false).map (flApply s)
  | some f =>
    match s.done.lookup f with
    | some o =>
      match flCheck s.fl true with
      | some r => some ({ s with fl := r.1, delivered := s.delivered ++ [(f, o)] }, [.collect f o])
      | none => none
    | none => (flCheck s.fl false).map (flApply s)

def stepStopEnter (s : Sys) : Option (Sys × List Event) :=
  if s.main = .idle ∧ s.fl.scan = none then some ({ s with main := .stopQ }, []) else none

def stepPollQ (s : Sys) : Option (Sys × List Event) :=
  if s.main = .stopQ then
    if s.queue.isEmpty then some ({ s with stopSet := true, main := .stopT }, [.stop])
    else some (s, [])
  else none

def stepPollT (s : Sys) : Option (Sys × List Event) :=
  if s.main = .stopT then
    if s.pcs.all taskEnded then some ({ s with main := .finished }, [])
    else some (s, [])
  else none

/-- one step of the system; `none` = the event cannot happen in this state.  The second component
    are the protocol events (`Model/Runner.lean`) the step amounts to. -/
def fstep (s : Sys) : FEv → Option (Sys × List Event)
  | .submit u => stepSubmit s u
  | .resume w o => stepResume s w o
  | .acEnter => stepAcEnter s
  | .acCheck => stepAcCheck s
  | .stopEnter => stepStopEnter s
  | .stopPollQ => stepPollQ s
  | .stopPollT => stepPollT s

/-- run an event list, collecting the protocol events -/
def frun (s : Sys) : List FEv → Option (Sys × List Event)
  | [] => some (s, [])
  | e :: es =>
    match fstep s e with
    | none => none
    | some (s', out) =>
      match frun s' es with
      | none => none
      | some (s'', out') => some (s'', out ++ out')

/-- index of the first event that cannot happen (diagnostics) -/
def ffirstReject (s : Sys) : List FEv → Nat → Option Nat
  | [], _ => none
  | e :: es, i =>
    match fstep s e with
    | none => some i
    | some (s', _) => ffirstReject s' es (i + 1)

/-! ### the variant of `stop()` -/

def pcWeight : WPc → Nat
  | .idle => 1
  | .awaiting _ => 2
  | _ => 0

def phaseWeight : MPc → Nat
  | .stopQ => 2
  | .stopT => 1
  | _ => 0

def weightSum : List WPc → Nat
  | [] => 0
  | p :: ps => pcWeight p + weightSum ps

/-- bounds the number of state-changing steps until `stop()` returns -/
def variant (s : Sys) : Nat := 2 * s.queue.length + weightSum s.pcs + phaseWeight s.main

end Infretis.RunnerSys
